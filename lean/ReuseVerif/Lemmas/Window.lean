/-
C02 — the UTF-8 decoder of `Model/Window.lean` inverts the encoder (on every `Char`, i.e. every
Unicode scalar value), whatever bytes follow.
-/
import ReuseVerif.Model.Window

namespace Model
open Py

theorem char_valid_nat (c : Char) : c.toNat < 0xD800 ∨ (0xDFFF < c.toNat ∧ c.toNat < 0x110000) := by
  have h := c.valid
  simp only [UInt32.isValidChar, Nat.isValidChar] at h
  exact h

theorem decode_encodeChar (c : Char) (f : Nat) (rest : Bytes) :
    decodeUtf8Fuel (f + 1) (encodeChar c ++ rest) = c :: decodeUtf8Fuel f rest := by
  have hv := char_valid_nat c
  have hc : Char.ofNat c.toNat = c := Char.ofNat_toNat c
  generalize hn : c.toNat = n at hv hc
  unfold encodeChar
  simp only [hn]
  by_cases h1 : n < 0x80
  · simp only [h1, if_true, List.singleton_append, decodeUtf8Fuel, hc]
  · by_cases h2 : n < 0x800
    · have hb0 : ¬ (0xC0 + n / 64 < 0x80) := by omega
      have hr : inR 0xC2 0xDF (0xC0 + n / 64) = true := by simp [inR]; omega
      have hr1 : inR 0x80 0xBF (0x80 + n % 64) = true := by simp [inR]; omega
      have hval : (0xC0 + n / 64 - 0xC0) * 64 + (0x80 + n % 64 - 0x80) = n := by omega
      simp only [h1, h2, if_true, if_false, List.cons_append, List.nil_append, decodeUtf8Fuel, hb0, hr, hr1, hval, hc]
    · by_cases h3 : n < 0x10000
      · have hb0 : ¬ (0xE0 + n / 4096 < 0x80) := by omega
        have hr2 : inR 0xC2 0xDF (0xE0 + n / 4096) = false := by simp [inR]; omega
        have hr : inR 0xE0 0xEF (0xE0 + n / 4096) = true := by simp [inR]; omega
        have hr1 : inR (secondLo (0xE0 + n / 4096)) (secondHi (0xE0 + n / 4096)) (0x80 + n / 64 % 64) = true := by
          simp only [inR, secondLo, secondHi, Bool.and_eq_true, decide_eq_true_eq, beq_iff_eq]
          refine ⟨?_, ?_⟩ <;> (repeat' split) <;> omega
        have hr3 : inR 0x80 0xBF (0x80 + n % 64) = true := by simp [inR]; omega
        have hval : (0xE0 + n / 4096 - 0xE0) * 4096 + (0x80 + n / 64 % 64 - 0x80) * 64 + (0x80 + n % 64 - 0x80) = n := by omega
        simp only [h1, h2, h3, if_true, if_false, List.cons_append, List.nil_append, decodeUtf8Fuel, hb0, hr2, hr, hr1, hr3,
          hval, hc, Bool.false_eq_true]
      · have hb0 : ¬ (0xF0 + n / 262144 < 0x80) := by omega
        have hr2 : inR 0xC2 0xDF (0xF0 + n / 262144) = false := by simp [inR]; omega
        have hr2' : inR 0xE0 0xEF (0xF0 + n / 262144) = false := by simp [inR]; omega
        have hr : inR 0xF0 0xF4 (0xF0 + n / 262144) = true := by simp [inR]; omega
        have hr1 : inR (secondLo (0xF0 + n / 262144)) (secondHi (0xF0 + n / 262144)) (0x80 + n / 4096 % 64) = true := by
          simp only [inR, secondLo, secondHi, Bool.and_eq_true, decide_eq_true_eq, beq_iff_eq]
          refine ⟨?_, ?_⟩ <;> (repeat' split) <;> omega
        have hr3 : inR 0x80 0xBF (0x80 + n / 64 % 64) = true := by simp [inR]; omega
        have hr4 : inR 0x80 0xBF (0x80 + n % 64) = true := by simp [inR]; omega
        have hval : (0xF0 + n / 262144 - 0xF0) * 262144 + (0x80 + n / 4096 % 64 - 0x80) * 4096 +
            (0x80 + n / 64 % 64 - 0x80) * 64 + (0x80 + n % 64 - 0x80) = n := by omega
        simp only [h1, h2, h3, if_true, if_false, List.cons_append, List.nil_append, decodeUtf8Fuel, hb0, hr2, hr2', hr, hr1,
          hr3, hr4, hval, hc, Bool.false_eq_true]

end Model

namespace Model
open Py

theorem encodeChar_length_pos (c : Char) : 1 ≤ (encodeChar c).length := by
  unfold encodeChar
  simp only
  split
  · simp
  · split
    · simp
    · split <;> simp

theorem encodeUtf8_cons (c : Char) (t : Text) : encodeUtf8 (c :: t) = encodeChar c ++ encodeUtf8 t := by
  simp [encodeUtf8]

theorem encodeUtf8_length_ge (t : Text) : t.length ≤ (encodeUtf8 t).length := by
  induction t with
  | nil => simp [encodeUtf8]
  | cons c cs ih =>
    rw [encodeUtf8_cons, List.length_append, List.length_cons]
    have := encodeChar_length_pos c
    omega

/-- valid UTF-8 in front of anything decodes to the text it encodes -/
theorem decode_encode (t : Text) (f : Nat) (rest : Bytes) :
    decodeUtf8Fuel (f + t.length) (encodeUtf8 t ++ rest) = t ++ decodeUtf8Fuel f rest := by
  induction t with
  | nil => simp [encodeUtf8]
  | cons c cs ih =>
    rw [encodeUtf8_cons, List.append_assoc, List.length_cons, ← Nat.add_assoc, decode_encodeChar, ih]
    rfl

theorem decodeUtf8Fuel_nil (f : Nat) : decodeUtf8Fuel f [] = [] := by
  cases f <;> rfl

/-- `bytes.decode("utf-8")` of the encoding of a text is that text -/
theorem decodeUtf8_encodeUtf8 (t : Text) : decodeUtf8 (encodeUtf8 t) = t := by
  unfold decodeUtf8
  have h := decode_encode t ((encodeUtf8 t).length - t.length) []
  have hl := encodeUtf8_length_ge t
  rw [Nat.sub_add_cancel hl] at h
  simpa [decodeUtf8Fuel_nil] using h

theorem replaceFuel_skip (old new t u : Text) (f : Nat)
    (h : ∀ c ∈ t, ∀ rest, old.isPrefixOf (c :: rest) = false) :
    replaceFuel old new (f + t.length) (t ++ u) = t ++ replaceFuel old new f u := by
  induction t with
  | nil => rfl
  | cons c cs ih =>
    have hc := h c (by simp) (cs ++ u)
    rw [List.length_cons, ← Nat.add_assoc, List.cons_append, replaceFuel]
    simp only [hc, Bool.false_eq_true, false_and, if_false]
    rw [ih (fun c' hc' => h c' (by simp [hc']))]
    rfl

theorem replace_skip (old new t u : Text) (h : ∀ c ∈ t, ∀ rest, old.isPrefixOf (c :: rest) = false) :
    Py.replace (t ++ u) old new = t ++ Py.replace u old new := by
  unfold Py.replace
  have : (t ++ u).length + 1 = (u.length + 1) + t.length := by simp only [List.length_append]; omega
  rw [this, replaceFuel_skip old new t u _ h]

theorem isPrefixOf_cons_ne {o c : Char} {os rest : Text} (h : c ≠ o) : (o :: os).isPrefixOf (c :: rest) = false := by
  simp [List.isPrefixOf, h.symm]

/-- text without carriage returns in front of anything passes the line-ending folding unchanged -/
theorem foldLineEndings_skip (t u : Text) (h : '\r' ∉ t) : foldLineEndings (t ++ u) = t ++ foldLineEndings u := by
  unfold foldLineEndings
  have hne : ∀ c ∈ t, c ≠ '\r' := fun c hc e => h (e ▸ hc)
  rw [replace_skip _ _ t u (fun c hc rest => isPrefixOf_cons_ne (hne c hc)),
    replace_skip _ _ t _ (fun c hc rest => isPrefixOf_cons_ne (hne c hc))]

/-- the decoded window starts with any CR-free text whose encoding fits into the first 4096 bytes -/
theorem decodedText_window_head (head : Text) (more : Bytes) (hcr : '\r' ∉ head)
    (hlen : (encodeUtf8 head).length ≤ 4096) :
    ∃ tailText, decodedText (window (encodeUtf8 head ++ more)) = head ++ tailText := by
  have hw : ∃ more', window (encodeUtf8 head ++ more) = encodeUtf8 head ++ more' := by
    unfold window
    split
    · exact ⟨more, rfl⟩
    · refine ⟨more.take (4096 - (encodeUtf8 head).length), ?_⟩
      have : Generated.headerBytes = 4096 := rfl
      rw [this, List.take_append]
      rw [List.take_of_length_le hlen]
  obtain ⟨more', hm⟩ := hw
  rw [hm]
  unfold decodedText decodeUtf8
  have hl := encodeUtf8_length_ge head
  have hfuel : (encodeUtf8 head ++ more').length = ((encodeUtf8 head ++ more').length - head.length) + head.length := by
    simp only [List.length_append]; omega
  rw [hfuel, decode_encode, foldLineEndings_skip _ _ hcr]
  exact ⟨_, rfl⟩

end Model
