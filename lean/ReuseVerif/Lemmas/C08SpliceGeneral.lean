/-
C08: the splice statement of replacing mode without `NoExoticBreaks`.

Without the hypothesis the three sections of `_find_first_spdx_comment` still cut the text: `before` is a prefix,
`after` (a `drop`) is a suffix, and what lies between is the region the block was read from.  The only place
where `str.splitlines()` leaks into the output is the shebang loop taking marker lines *out of the block found*:
those are the block's first lines as `splitlines()` reads them, each written back with `\n` — stated here on the
level of lines (`shebang_lines`).
-/
import ReuseVerif.Lemmas.C08FirstLineOld
import ReuseVerif.Lemmas.C10MultiReadBack

namespace C08L
open Py Model Spec C10L

/-! ### `splitlines()`: lines are break-free -/

theorem splitLines_noBreak (acc s : Text) (hacc : NoBreak acc) : ∀ l ∈ splitLinesAux false acc s, NoBreak l := by
  fun_induction splitLinesAux false acc s with
  | case1 => intro l hl; cases hl
  | case2 acc hne =>
    intro l hl
    simp only [List.mem_singleton] at hl
    subst hl
    intro ch hch
    exact hacc ch (by simpa using hch)
  | case3 acc cs ih =>
    intro l hl
    simp only [Bool.false_eq_true, if_false, List.mem_cons] at hl
    rcases hl with rfl | hl
    · intro ch hch; exact hacc ch (by simpa using hch)
    · exact ih (by intro ch hch; cases hch) l hl
  | case4 acc c cs hnot hbr ih =>
    intro l hl
    simp only [Bool.false_eq_true, if_false, List.mem_cons] at hl
    rcases hl with rfl | hl
    · intro ch hch; exact hacc ch (by simpa using hch)
    · exact ih (by intro ch hch; cases hch) l hl
  | case5 acc c cs hnot hbr ih =>
    apply ih
    intro ch hch
    simp only [List.mem_cons] at hch
    rcases hch with rfl | hch
    · simpa using hbr
    · exact hacc ch hch

theorem splitLinesAux_lf_keep (acc rest : Text) :
    splitLinesAux true acc ('\n' :: rest) = (acc.reverse ++ ['\n']) :: splitLinesAux true [] rest := by
  rw [splitLinesAux]
  · have : isLineBreak '\n' = true := by decide
    simp [this]
  · intro cs' h _
    exact absurd h (by decide)

/-- `(join "\n" M ++ "\n" ++ rest).splitlines(keepends=True)` for break-free lines `M ≠ []` -/
theorem splitLines_join_keep (M : List Text) (hM : M ≠ []) (hnb : ∀ m ∈ M, NoBreak m) (rest : Text) :
    splitLinesAux true [] (join ['\n'] M ++ '\n' :: rest) = M.map (· ++ ['\n']) ++ splitLinesAux true [] rest := by
  induction M with
  | nil => exact absurd rfl hM
  | cons m ms ih =>
    cases ms with
    | nil =>
      simp only [join, List.map_cons, List.map_nil, List.singleton_append]
      rw [splitLinesAux_piece true [] m _ (hnb m (by simp)), splitLinesAux_lf_keep]
      simp
    | cons m2 ms2 =>
      rw [join_cons_ne _ _ (by simp)]
      have : m ++ '\n' :: join ['\n'] (m2 :: ms2) ++ '\n' :: rest = m ++ ('\n' :: (join ['\n'] (m2 :: ms2) ++ '\n' :: rest)) := by simp
      rw [this, splitLinesAux_piece true [] m _ (hnb m (by simp)), splitLinesAux_lf_keep]
      rw [ih (by simp) (fun x hx => hnb x (by simp [hx]))]
      simp

/-- the lines of `l₁ + "\n" + l₂ + "\n" + …` are `l₁, l₂, …` -/
theorem splitLines_flatten_lines (M : List Text) (hnb : ∀ m ∈ M, NoBreak m) :
    splitLines ((M.map (· ++ ['\n'])).flatten) = M := by
  unfold splitLines
  induction M with
  | nil => rfl
  | cons m ms ih =>
    simp only [List.map_cons, List.flatten_cons, List.append_assoc, List.singleton_append]
    rw [splitLinesAux_piece false [] m _ (hnb m (by simp)), splitLinesAux_lf]
    rw [ih (fun x hx => hnb x (by simp [hx]))]
    simp

/-! ### `_extract_shebang` on a block of break-free lines -/

theorem extractShebang_go_lines (sb : Text) (M : List Text) (acc t : Text) :
    ∃ j, (extractShebang.go sb (M.map (· ++ ['\n'])) acc t).1 = acc ++ ((M.take j).map (· ++ ['\n'])).flatten := by
  induction M generalizing acc t with
  | nil => exact ⟨0, by simp [extractShebang.go]⟩
  | cons m ms ih =>
    rw [List.map_cons, extractShebang.go]
    split
    · obtain ⟨j, hj⟩ := ih (acc ++ (m ++ ['\n'])) (removeFirst (m ++ ['\n']) t)
      exact ⟨j + 1, by rw [hj]; simp⟩
    · exact ⟨0, by simp⟩

/-! ### the block `comment_at_first_character` returns: the first `e + 1` lines, joined -/

theorem commentAt_shape {s : Generated.Style} {r comment : Text} (hs : s.isEmptyStyle = false)
    (h : commentAtFirst s r = .ok comment) :
    ∃ e, splitLines r ≠ [] ∧ comment = join ['\n'] ((splitLines r).take (e + 1)) := by
  unfold commentAtFirst at h
  simp only [hs, Bool.false_eq_true, if_false] at h
  split at h
  · cases h
  · split at h
    · rename_i e heq
      simp only [Except.ok.injEq] at h
      refine ⟨e, ?_, h.symm⟩
      intro hl
      rw [hl] at heq
      simp [multiEnd, singleRun] at heq
    · cases h

/-! ### the shebang loop, with the marker it took -/

theorem moveShebang_spec' (shebangs : List Text) (before header after : Text) :
    moveShebang shebangs before header after = (before, header, after) ∨
    (Blank before ∧ ∃ sb, moveShebang shebangs before header after =
      ((extractShebang sb header).1, (extractShebang sb header).2, after)) ∨
    (before = [] ∧ header = [] ∧ ∃ sb, moveShebang shebangs before header after =
      ((extractShebang sb after).1, [], (extractShebang sb after).2)) := by
  induction shebangs with
  | nil => left; rfl
  | cons sb rest ih =>
    rw [moveShebang]
    split
    · rename_i hc
      right; left
      simp only [Bool.and_eq_true] at hc
      exact ⟨(strip_isEmpty_iff _).mp hc.2, sb, rfl⟩
    · split
      · rename_i hc
        right; right
        simp only [Bool.and_eq_true, List.isEmpty_iff] at hc
        refine ⟨hc.1.2, hc.2, sb, ?_⟩
        rw [hc.2]
      · exact ih

/-- marker lines taken out of the block found are the block's first lines as `splitlines()` reads them, each
    written with `\n` -/
theorem shebang_lines {s : Generated.Style} {r comment sb : Text} (hs : s.isEmptyStyle = false)
    (hc : commentAtFirst s r = .ok comment) :
    ∃ j, (extractShebang sb (comment ++ ['\n'])).1 = (((splitLines r).take j).map (· ++ ['\n'])).flatten := by
  obtain ⟨e, hne, rfl⟩ := commentAt_shape hs hc
  have hnb : ∀ m ∈ (splitLines r).take (e + 1), NoBreak m := fun m hm =>
    splitLines_noBreak [] r (by intro ch hch; cases hch) m (List.mem_of_mem_take hm)
  have hne' : (splitLines r).take (e + 1) ≠ [] := by
    cases hl : splitLines r with
    | nil => exact absurd hl hne
    | cons x xs => simp
  unfold extractShebang
  have hkeep : splitLines (join ['\n'] ((splitLines r).take (e + 1)) ++ ['\n']) true =
      ((splitLines r).take (e + 1)).map (· ++ ['\n']) := by
    have := splitLines_join_keep _ hne' hnb []
    rw [show splitLines (join ['\n'] ((splitLines r).take (e + 1)) ++ ['\n']) true =
      splitLinesAux true [] (join ['\n'] ((splitLines r).take (e + 1)) ++ ['\n']) from rfl, this]
    simp [splitLinesAux]
  rw [hkeep]
  obtain ⟨j, hj⟩ := extractShebang_go_lines sb ((splitLines r).take (e + 1)) [] (join ['\n'] ((splitLines r).take (e + 1)) ++ ['\n'])
  refine ⟨min j (e + 1), ?_⟩
  rw [hj, List.take_take]
  simp

/-! ### the splice, hypothesis-free -/

/-- the sections the run works with, against the text: `pre ++ old ++ post = t` always; what is placed above the
    header is `pre`, or — `pre` being white space only — the first `j` lines of the region from the block on, each
    with a `\n` line end (`sbl`) -/
theorem replace_sections_general {c : HdrCfg} {t : Text}
    (hstyle : (c.style.name == "EmptyCommentStyle") = false)
    (hpseudo : c.style.isEmptyStyle = true → c.style.shebangs = []) :
    ∃ pre old post, pre ++ old ++ post = t ∧ (replaceSections c t).2.2 = post ∧
      ((replaceSections c t).1 = pre ∨
       (Blank pre ∧ ∃ j, (replaceSections c t).1 = (((splitLines (old ++ post)).take j).map (· ++ ['\n'])).flatten)) := by
  unfold replaceSections
  simp only [hstyle, Bool.false_eq_true, if_false]
  cases hf : findFirstSpdxComment c t with
  | none =>
    simp only []
    rcases moveShebang_spec' c.style.shebangs [] [] t with h | ⟨_, sb, h⟩ | ⟨_, _, sb, h⟩
    · rw [h]; exact ⟨[], [], t, rfl, rfl, Or.inl rfl⟩
    · rw [h]
      have happ := extractShebang_append sb ([] : Text)
      have h1 : (extractShebang sb ([] : Text)).1 = [] := (List.append_eq_nil_iff.mp happ).1
      exact ⟨[], [], t, rfl, rfl, Or.inl h1⟩
    · rw [h]
      exact ⟨(extractShebang sb t).1, [], (extractShebang sb t).2, by simpa using extractShebang_append sb t, rfl, Or.inl rfl⟩
  | some x =>
    obtain ⟨b0, h0, a0⟩ := x
    simp only []
    obtain ⟨r, comment, hbr, _, hc, _, hh0, ha0⟩ := findFirst_spec hf
    have hcut : b0 ++ r.take (comment.length + 1) ++ a0 = t := by
      rw [ha0, List.append_assoc, List.take_append_drop, hbr]
    rcases moveShebang_spec' c.style.shebangs b0 h0 a0 with h | ⟨hblank, sb, h⟩ | ⟨_, hnil, _⟩
    · rw [h]; exact ⟨b0, _, a0, hcut, rfl, Or.inl rfl⟩
    · cases hes : c.style.isEmptyStyle with
      | true =>
        have : moveShebang c.style.shebangs b0 h0 a0 = (b0, h0, a0) := by rw [hpseudo hes]; rfl
        rw [this]; exact ⟨b0, _, a0, hcut, rfl, Or.inl rfl⟩
      | false =>
        rw [h]
        refine ⟨b0, _, a0, hcut, rfl, Or.inr ⟨hblank, ?_⟩⟩
        have hr : r.take (comment.length + 1) ++ a0 = r := by rw [ha0, List.take_append_drop]
        rw [hr, hh0]
        exact shebang_lines hes hc
    · rw [hh0] at hnil
      simp at hnil

/-- **Replacing mode, no hypothesis on the text.** -/
theorem splice_replace_general {c : HdrCfg} {info : Extracted} {t out : Text}
    (hstyle : (c.style.name == "EmptyCommentStyle") = false)
    (hpseudo : c.style.isEmptyStyle = true → c.style.shebangs = [])
    (h : findAndReplaceHeader c info t = .ok out) :
    ∃ hdr oldHdr pre old post, createHeader c info oldHdr = .ok hdr ∧ pre ++ old ++ post = t ∧
      (SpliceAt hdr pre post out ∨
       (Blank pre ∧ ∃ j sbl, sbl = (((splitLines (old ++ post)).take j).map (· ++ ['\n'])).flatten ∧
          splitLines sbl = (splitLines (old ++ post)).take j ∧ SpliceAt hdr sbl post out)) := by
  obtain ⟨hdr, hcr, hout⟩ := replace_ok h
  obtain ⟨pre, old, post, hcut, hpost, habove⟩ := replace_sections_general (t := t) hstyle hpseudo
  refine ⟨hdr, _, pre, old, post, hcr, hcut, ?_⟩
  have hsp := placeHeader_spliceAt hdr (replaceSections c t).1 (replaceSections c t).2.2 (!(replaceSections c t).2.1.isEmpty)
  rw [← hout, hpost] at hsp
  rcases habove with h1 | ⟨hb, j, h1⟩
  · left; rw [h1] at hsp; exact hsp
  · right
    refine ⟨hb, j, _, rfl, ?_, by rw [h1] at hsp; exact hsp⟩
    apply splitLines_flatten_lines
    intro m hm
    exact splitLines_noBreak [] _ (by intro ch hch; cases hch) m (List.mem_of_mem_take hm)

end C08L
