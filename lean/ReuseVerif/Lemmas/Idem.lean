/-
Helper lemmas for C10: `place_header` reproduces what it placed; the shebang loop leaves a header alone
that does not start with a first-line marker.
-/
import ReuseVerif.Spec.Idem
import ReuseVerif.Lemmas.Splice

namespace C10L
open Py Model Spec C08L

theorem placeHeader_parts (hdr before after : Text) (ex : Bool) :
    placeHeader hdr before after ex = aboveOf before ++ hdr ++ ['\n'] ++ belowOf after ex := by
  unfold placeHeader aboveOf belowOf
  by_cases hb : (strip before).isEmpty = true <;> by_cases ha : (strip after).isEmpty = true <;> simp [hb, ha]

/-- trailing white space after a right-stripped, non-empty text strips back to it -/
theorem rstrip_append_blank {x w : Text} (hw : Blank w) (hx : rstrip x = x) : rstrip (x ++ w) = x := by
  have h1 : (w.reverse.dropWhile isSpace) = [] := dropWhile_eq_nil.mpr (by simpa [Blank] using hw)
  unfold rstrip at hx ⊢
  rw [List.reverse_append, List.dropWhile_append, h1]
  simpa using hx

theorem aboveOf_idem (x : Text) : aboveOf (aboveOf x) = aboveOf x := by
  unfold aboveOf
  by_cases hb : (strip x).isEmpty = true
  · simp [hb]
    decide
  · simp only [hb, Bool.false_eq_true, if_false]
    have hnb : ¬ Blank x := fun h => hb ((strip_isEmpty_iff _).mpr h)
    have hne : rstrip x ≠ [] := fun h => hnb ((rstrip_nil_iff _).mp h)
    have hnb2 : ¬ (strip (rstrip x ++ ['\n', '\n'])).isEmpty = true := by
      intro h
      have := (blank_append.mp ((strip_isEmpty_iff _).mp h)).1
      have h2 := (rstrip_nil_iff _).mpr this
      rw [rstrip_idem] at h2
      exact hne h2
    simp only [hnb2, Bool.false_eq_true, if_false]
    rw [rstrip_append_blank (by decide) (rstrip_idem x)]

theorem belowOf_idem (y : Text) (e : Bool) : belowOf (belowOf y e) true = belowOf y e := by
  unfold belowOf
  by_cases hb : (strip y).isEmpty = true
  · simp [hb]
  · simp only [hb, Bool.false_eq_true, if_false]
    have hnb : ¬ Blank y := fun h => hb ((strip_isEmpty_iff _).mpr h)
    generalize (if (!e && !startsWith y ['\n']) = true then ['\n'] else ([] : Text)) = sep
    have : ¬ (strip (sep ++ y)).isEmpty = true := by
      intro h
      exact hnb (blank_append.mp ((strip_isEmpty_iff _).mp h)).2
    simp only [this, Bool.false_eq_true, if_false, Bool.not_true, Bool.false_and, List.nil_append]

/-- running `place_header` on the parts it produced, with "a header existed", changes nothing -/
theorem placeHeader_fix (hdr x y : Text) (e : Bool) :
    placeHeader hdr (aboveOf x) (belowOf y e) true = aboveOf x ++ hdr ++ ['\n'] ++ belowOf y e := by
  rw [placeHeader_parts, aboveOf_idem, belowOf_idem]

theorem moveShebang_keep (shebangs : List Text) (before header after : Text) (hne : header ≠ [])
    (hsb : shebangs.all (fun sb => !(startsWith header sb)) = true) :
    moveShebang shebangs before header after = (before, header, after) := by
  induction shebangs with
  | nil => rfl
  | cons sb rest ih =>
    simp only [List.all_cons, Bool.and_eq_true, Bool.not_eq_true'] at hsb
    rw [moveShebang]
    have h1 : (startsWith header sb && (strip before).isEmpty) = false := by simp [hsb.1]
    have h2 : (startsWith after sb && before.isEmpty && header.isEmpty) = false := by
      have : header.isEmpty = false := by cases header <;> simp_all
      simp [this]
    simp only [h1, h2, Bool.false_eq_true, if_false]
    exact ih (by simpa using hsb.2)

theorem okText_eq {r : Except HeaderErr Text} {y : Text} (h : okText r y = true) : r = .ok y := by
  cases r with
  | error e => simp [okText] at h
  | ok x => simp only [okText, beq_iff_eq] at h; rw [h]

theorem replace_ok {c : HdrCfg} {info : Extracted} {t out : Text}
    (h : findAndReplaceHeader c info t = .ok out) :
    ∃ hdr, createHeader c info (replaceSections c t).2.1 = .ok hdr ∧
      out = placeHeader hdr (replaceSections c t).1 (replaceSections c t).2.2 (!(replaceSections c t).2.1.isEmpty) := by
  unfold findAndReplaceHeader at h
  unfold replaceSections
  simp only [bind, Except.bind, pure, Except.pure] at h
  split at h
  · cases h
  · rename_i hdr hc
    simp only [Except.ok.injEq] at h
    exact ⟨hdr, hc, h.symm⟩

theorem replace_err {c : HdrCfg} {info : Extracted} {t : Text} {e : HeaderErr}
    (h : findAndReplaceHeader c info t = .error e) :
    createHeader c info (replaceSections c t).2.1 = .error e := by
  unfold findAndReplaceHeader at h
  unfold replaceSections
  simp only [bind, Except.bind, pure, Except.pure] at h
  split at h
  · rename_i e' hc
    simp only [Except.error.injEq] at h
    subst h
    exact hc
  · cases h

/-- `find_and_replace_header` in terms of its sections -/
theorem findAndReplace_eq (c : HdrCfg) (info : Extracted) (t : Text) :
    findAndReplaceHeader c info t =
      match createHeader c info (replaceSections c t).2.1 with
      | .ok hdr => .ok (placeHeader hdr (replaceSections c t).1 (replaceSections c t).2.2 (!(replaceSections c t).2.1.isEmpty))
      | .error e => .error e := by
  cases h : findAndReplaceHeader c info t with
  | ok out =>
    obtain ⟨hdr, hc, hout⟩ := replace_ok h
    rw [hc, hout]
  | error e => rw [replace_err h]

theorem firstRunParts_some {c : HdrCfg} {info : Extracted} {t a hdr b : Text}
    (h : firstRunParts c info t = some (a, hdr, b)) :
    createHeader c info (replaceSections c t).2.1 = .ok hdr ∧ a = aboveOf (replaceSections c t).1 ∧
      b = belowOf (replaceSections c t).2.2 (!(replaceSections c t).2.1.isEmpty) := by
  simp only [firstRunParts] at h
  cases hc : createHeader c info (replaceSections c t).2.1 with
  | error e => simp [hc] at h
  | ok hdr' =>
    simp only [hc, Option.some.injEq, Prod.mk.injEq] at h
    obtain ⟨rfl, rfl, rfl⟩ := h
    exact ⟨rfl, rfl, rfl⟩

end C10L
