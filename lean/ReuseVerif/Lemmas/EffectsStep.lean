/-
The loop body of `reuse annotate` in closed form: once it is known what the body attempts for a
path (`Spec.Eff.attempt`: the written path and the text read there), the whole iteration is
"build; write the result at the written path, or fail and leave the tree as it was" —
whichever of the `.license` routes was taken, whether a sibling had to be created or not.
(For every `Env`; used by the composed end-to-end model, Lemmas/AnnotateE2E.lean.)
-/
import ReuseVerif.Lemmas.Effects

namespace Model.Eff
open Spec.Eff

/-- build for the written path `t` holding `txt`; write, or fail without a trace -/
def outcome (env : Env) (fs : Fs) (t : Path) (txt : Text) : Fs × Bool :=
  match env.build t txt with
  | .ok out => (Fs.writeFile fs t out, false)
  | .error _ => (fs, true)

theorem writeHeader_eq (env : Env) (a : Args) (t : Path) (g : Fs)
    (h : (a.skipExisting && env.hasInfo (Fs.readText g t)) = false) :
    writeHeader env a t g = outcome env g t (Fs.readText g t) := by
  unfold writeHeader outcome
  simp only [h, Bool.false_eq_true, if_false]
  split <;> simp_all

theorem Fs.readText_create (fs : Fs) (t : Path) (h : fs t = none) :
    Fs.readText (Fs.create fs t) t = Fs.readText fs t := by
  simp [Fs.readText, Fs.create, h]

theorem Fs.writeFile_create (fs : Fs) (t : Path) (c : Text) :
    Fs.writeFile (Fs.create fs t) t c = Fs.writeFile fs t c := by
  funext q
  by_cases hq : q = t <;> simp [Fs.writeFile, Fs.create, Fs.set, hq]

/-- `guarded` around an action that is "build, then write at `t` or fail": the sibling created
    for the attempt is either what gets written or is gone again -/
theorem guarded_outcome (env : Env) (fs : Fs) (t : Path) (k : Fs → Fs × Bool)
    (hk : ∀ g, (g = fs ∨ (fs t = none ∧ g = Fs.create fs t)) → k g = outcome env g t (Fs.readText g t)) :
    guarded fs t k = outcome env fs t (Fs.readText fs t) := by
  unfold guarded
  cases hft : fs t with
  | none =>
    simp only [Option.isNone_none, if_true, Bool.and_true]
    rw [hk _ (.inr ⟨hft, rfl⟩), Fs.readText_create fs t hft]
    unfold outcome
    cases hb : env.build t (Fs.readText fs t) with
    | ok out => simp [Fs.writeFile_create]
    | error e => simp [Fs.unlink_create fs t hft]
  | some n =>
    simp only [Option.isNone_some, Bool.false_eq_true, if_false, Bool.and_false]
    rw [hk _ (.inl rfl)]

/-- `add_header_to_file` in closed form, when it does not skip the file -/
theorem addHeader_eq (env : Env) (a : Args) (t1 : Path) (fs : Fs)
    (hskip : ((effStyle env a t1).isNone && a.skipUnrec) = false)
    (hnl : Fs.isLink fs (licSuffix t1) = false)
    (hex : (a.skipExisting && env.hasInfo (Fs.readText fs
      (if ((effStyle env a t1).isNone && a.fallbackDot) = true then licSuffix t1 else t1))) = false) :
    addHeader env a t1 fs = outcome env fs
      (if ((effStyle env a t1).isNone && a.fallbackDot) = true then licSuffix t1 else t1)
      (Fs.readText fs (if ((effStyle env a t1).isNone && a.fallbackDot) = true then licSuffix t1 else t1)) := by
  unfold addHeader
  simp only [hskip, Bool.false_eq_true, if_false]
  split
  · rename_i hfb
    simp only [hfb, if_true] at hex
    simp only [guardedNoLink, hnl, Bool.false_eq_true, if_false]
    apply guarded_outcome
    rintro g (rfl | ⟨hn, rfl⟩)
    · exact writeHeader_eq env a _ _ hex
    · exact writeHeader_eq env a _ _ (by rw [Fs.readText_create _ _ hn]; exact hex)
  · rename_i hfb
    simp only [hfb] at hex
    exact writeHeader_eq env a t1 fs hex

theorem sibling_ne_self (p : Path) : sibling p ≠ p := by
  intro h
  have h1 : (sibling p).length = p.length + licExt.length := by simp [sibling]
  have h2 : licExt.length = 8 := by decide
  rw [h, h2] at h1
  omega

theorem licSuffix_idem {p : Path} (h : WfPath p) : licSuffix (licSuffix p) = licSuffix p := by
  rcases licSuffix_cases p with h1 | h1
  · rw [h1, h1]
  · rw [h1, licSuffix_sibling h]

/-- what an attempt says, spelled out -/
theorem attempt_some {env : Env} {a : Args} {fs : Fs} {p t : Path} {txt : Text}
    (h : attempt env a fs p = some (t, txt)) :
    ((effStyle env a (if useSibling env a p = true then licSuffix p else p)).isNone && a.skipUnrec) = false ∧
    t = (if ((effStyle env a (if useSibling env a p = true then licSuffix p else p)).isNone && a.fallbackDot) = true
          then licSuffix (if useSibling env a p = true then licSuffix p else p)
          else (if useSibling env a p = true then licSuffix p else p)) ∧
    txt = Fs.readText fs t ∧ (a.skipExisting && env.hasInfo txt) = false := by
  unfold attempt at h
  simp only at h
  generalize (if useSibling env a p = true then licSuffix p else p) = t1 at h ⊢
  by_cases h1 : ((effStyle env a t1).isNone && a.skipUnrec) = true
  · simp [h1] at h
  · simp only [h1, Bool.false_eq_true, if_false] at h
    generalize (if ((effStyle env a t1).isNone && a.fallbackDot) = true then licSuffix t1 else t1) = t' at h ⊢
    by_cases h2 : (a.skipExisting && env.hasInfo (Fs.readText fs t')) = true
    · simp [h2] at h
    · simp only [h2, Bool.false_eq_true, if_false, Option.some.injEq, Prod.mk.injEq] at h
      obtain ⟨rfl, rfl⟩ := h
      exact ⟨by simpa using h1, rfl, rfl, by simpa using h2⟩

/-- the written path of an attempt is one of the three positions of the write set -/
theorem attempt_mem_writeSet {env : Env} {a : Args} {fs : Fs} {p t : Path} {txt : Text}
    (h : attempt env a fs p = some (t, txt)) : t ∈ writeSet p := by
  obtain ⟨-, ht, -, -⟩ := attempt_some h
  rw [ht]
  simp only [writeSet, List.mem_cons, List.not_mem_nil, or_false]
  split <;> split <;> simp

/-- the text of an attempt is what the tree holds at the written path -/
theorem attempt_text {env : Env} {a : Args} {fs : Fs} {p t : Path} {txt : Text}
    (h : attempt env a fs p = some (t, txt)) : txt = Fs.readText fs t := (attempt_some h).2.2.1

/-- **The loop body in closed form.**  If the body attempts to write `t` (holding `txt`) for `p`,
    then it builds the header for `(t, txt)` and either writes the result at `t` — nothing else
    changes — or fails and leaves the whole tree as it found it. -/
theorem step_eq_of_attempt (env : Env) (a : Args) (fs : Fs) (p t : Path) (txt : Text)
    (hwf : WfPath p) (hnl : Fs.isLink fs (licSuffix p) = false)
    (h : attempt env a fs p = some (t, txt)) :
    step env a fs p = outcome env fs t txt := by
  obtain ⟨hskip, ht, htxt, hex⟩ := attempt_some h
  subst htxt
  unfold step
  by_cases hs : useSibling env a p = true
  · simp only [hs, if_true] at hskip ht ⊢
    -- the header goes to FILE.license, created for the attempt when it is not there
    have hid := licSuffix_idem hwf
    have ht' : t = licSuffix p := by rw [ht]; split <;> simp [hid]
    have hsel : (if ((effStyle env a (licSuffix p)).isNone && a.fallbackDot) = true then licSuffix (licSuffix p)
        else licSuffix p) = licSuffix p := by split <;> simp [hid]
    subst ht'
    simp only [guardedNoLink, hnl, Bool.false_eq_true, if_false]
    apply guarded_outcome
    rintro g (rfl | ⟨hn, rfl⟩)
    · have := addHeader_eq env a (licSuffix p) g hskip (by rw [hid]; exact hnl) (by rw [hsel]; exact hex)
      rw [hsel] at this
      exact this
    · have hl : Fs.isLink (Fs.create fs (licSuffix p)) (licSuffix (licSuffix p)) = false := by
        rw [hid]; simp [Fs.isLink, Fs.create]
      have := addHeader_eq env a (licSuffix p) (Fs.create fs (licSuffix p)) hskip hl
        (by rw [hsel, Fs.readText_create _ _ hn]; exact hex)
      rw [hsel] at this
      exact this
  · simp only [hs, Bool.false_eq_true, if_false] at hskip ht ⊢
    have := addHeader_eq env a p fs hskip hnl (by rw [← ht]; exact hex)
    rw [← ht] at this
    exact this

/-- what a successful iteration leaves at the written path, and that it leaves everything else alone -/
theorem step_writes (env : Env) (a : Args) (fs : Fs) (p t : Path) (txt out : Text)
    (hwf : WfPath p) (hnl : Fs.isLink fs (licSuffix p) = false)
    (h : attempt env a fs p = some (t, txt)) (hb : env.build t txt = .ok out) :
    (step env a fs p).1 t = some (.file out) ∧ (step env a fs p).2 = false ∧
    ∀ x, x ≠ t → (step env a fs p).1 x = fs x := by
  rw [step_eq_of_attempt env a fs p t txt hwf hnl h]
  unfold outcome
  simp only [hb]
  exact ⟨by simp [Fs.writeFile], trivial, fun x hx => by simp [Fs.writeFile, Fs.set_other _ _ hx]⟩

/-- with an attempt, the iteration fails exactly when the builder refuses -/
theorem step_fails_iff (env : Env) (a : Args) (fs : Fs) (p t : Path) (txt : Text)
    (hwf : WfPath p) (hnl : Fs.isLink fs (licSuffix p) = false)
    (h : attempt env a fs p = some (t, txt)) :
    Fails env a fs p ↔ ∃ e, env.build t txt = .error e := by
  unfold Fails
  rw [step_eq_of_attempt env a fs p t txt hwf hnl h]
  unfold outcome
  cases hb : env.build t txt <;> simp

end Model.Eff
