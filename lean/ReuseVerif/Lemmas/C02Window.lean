/-
C02 (general form) — a well-formed line lying wholly inside the first 4096 bytes is read, whatever precedes it
(any text that ends a line) and whatever bytes follow (also `REUSE-IgnoreStart`, broken UTF-8, a cut character):
`filter_ignore_block` leaves a head that ends a line and holds no start marker as it is.
-/
import ReuseVerif.Lemmas.C02Extract
import ReuseVerif.Lemmas.C02Blocks
import ReuseVerif.Lemmas.IgnoreMain

namespace C02L
open Py Model Spec C07A

/-- a start marker cannot begin inside a line-ended text that holds none: the scanner copies it -/
theorem scan_head (st en : Text) (hne : st ≠ []) (hnl : '\n' ∉ st) (w tail : Text)
    (h : findSub st (w ++ ['\n']) = none) :
    scan st en false 0 (w ++ '\n' :: tail) = w ++ '\n' :: scan st en false 0 tail := by
  induction w with
  | nil =>
    obtain ⟨p, ps, rfl⟩ := List.exists_cons_of_ne_nil hne
    have hp : p ≠ '\n' := fun e => hnl (by simp [e])
    have : (p :: ps).isPrefixOf ('\n' :: tail) = false := by
      simp [List.isPrefixOf]; intro e; exact absurd e hp
    simp [scan, this]
  | cons c cs ih =>
    obtain ⟨h1, h2⟩ := findSub_none_cons (by simpa using h : findSub st (c :: (cs ++ ['\n'])) = none)
    have hpre : st.isPrefixOf (c :: cs ++ '\n' :: tail) = false := by
      cases hp : st.isPrefixOf (c :: cs ++ '\n' :: tail) with
      | false => rfl
      | true =>
        have h3 := isPrefixOf_append_left_of_no st (c :: cs) tail '\n' hnl hp
        have h4 : st <+: c :: (cs ++ ['\n']) :=
          (List.isPrefixOf_iff_prefix.mp h3).trans (by simpa using List.prefix_append (c :: cs) ['\n'])
        rw [List.isPrefixOf_iff_prefix.mpr h4] at h1
        cases h1
    show scan st en false 0 (c :: (cs ++ '\n' :: tail)) = _
    simp only [List.cons_append] at hpre
    simp [scan, hpre, ih h2]

/-- **`filter_ignore_block` leaves the head as it is**: a text that is empty or ends with a line feed and holds no
    start marker, in front of anything. -/
theorem filterIgnore_head (head tail : Text) (hno : findSub Generated.ignoreStart head = none) (hend : AtLS head) :
    filterIgnore (head ++ tail) = head ++ filterIgnore tail := by
  rcases hend with rfl | ⟨w, rfl⟩
  · rfl
  · unfold filterIgnore
    rw [filter_eq_scan _ _ _ (by decide) _, filter_eq_scan _ _ _ (by decide) tail]
    have := scan_head Generated.ignoreStart Generated.ignoreEnd (by decide) (by decide) w tail hno
    simpa [List.append_assoc] using this

/-- no start marker in `U` (ending a line) and none in the line: none in `U ++ line ++ "\n"` -/
theorem findSub_head_none (pat : Text) (hpat : pat ≠ []) (hnl : '\n' ∉ pat) (U l : Text) (hU : AtLS U)
    (h1 : findSub pat U = none) (h2 : findSub pat l = none) : findSub pat (U ++ (l ++ ['\n'])) = none := by
  have hl : findSub pat (l ++ ['\n']) = none := by
    have hnil : findSub pat [] = none := by
      obtain ⟨p, ps, rfl⟩ := List.exists_cons_of_ne_nil hpat
      simp [findSub]
    simpa using findSub_line_none pat l [] hpat hnl h2 hnil
  rcases hU with rfl | ⟨u, rfl⟩
  · simpa using hl
  · have hu : findSub pat u = none := Model.findSub_none_prefix h1
    have := findSub_line_none pat u (l ++ ['\n']) hpat hnl hu hl
    simpa [List.append_assoc] using this

theorem atLS_head (U l : Text) : AtLS (U ++ (l ++ ['\n'])) := by
  have : U ++ (l ++ ['\n']) = (U ++ l) ++ ['\n'] := by simp
  rw [this]; exact atLS_snoc _

/-- the notices of a text that holds a break-free, non-empty line between line boundaries include what the reader finds
    in that line -/
theorem cprLines_embed (endRe : Re) (U l post : Text) (hU : AtLS U) (hnb : noBreakB l = true) (x : Text)
    (hx : (searchLineWith endRe l).map (fun m => strip m.whole) = some x) :
    x ∈ cprLinesWith endRe (U ++ (l ++ '\n' :: post)) := by
  have hne : l ≠ [] := by
    rintro rfl
    rw [searchLine_nil] at hx; cases hx
  have hl : l ∈ splitLines l := by
    have := C10L.splitLines_join_end [l] (by
      intro m hm; simp only [List.mem_singleton] at hm; subst hm; exact noBreak_of_B hnb) (by simpa using hne) (by simp)
    unfold splitLines
    simp only [join] at this
    rw [this]; simp
  have hmem : l ∈ splitLines (U ++ l ++ ['\n'] ++ post) := splitLines_mem_embed U l post l hU hl
  unfold cprLinesWith
  have e : U ++ (l ++ '\n' :: post) = U ++ l ++ ['\n'] ++ post := by simp
  rw [e]
  exact List.mem_filterMap.mpr ⟨l, hmem, hx⟩

end C02L
