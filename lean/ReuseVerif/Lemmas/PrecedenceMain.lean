import ReuseVerif.Lemmas.Precedence

namespace Model
open Spec

theorem provider_eq (k : Kind) (levels : List (Option Table)) :
    ((byPrec .closest (loopLevels 0 levels)).reverse).find? (provides k) = nearestProvider k levels := by
  unfold nearestProvider byPrec
  rw [loopLevels_eq_visible, List.getLast?_eq_head?_reverse, ← List.filter_reverse, ← List.filter_reverse,
    List.head?_filter, List.find?_filter]
  congr 1
  funext x
  simp [provides]

theorem mem_itemsOf_reverse {l : List Info} {it : Item} : it ∈ itemsOf l.reverse ↔ it ∈ itemsOf l := by
  simp [mem_itemsOf]

/-- items supplied by the cleaned-up CLOSEST list -/
theorem closest_items (levels : List (Option Table)) (it : Item) :
    it ∈ itemsOf (nested levels).closest ↔
      ∃ x, nearestProvider it.kind levels = some x ∧ it.src = .toml x.1 ∧ it.value ∈ attr it.kind x.2 := by
  unfold nested
  simp only
  rw [mem_itemsOf_reverse, mem_cleanupRev, provider_eq]
  cases it.kind <;> simp [flagOf]

theorem prec_items (p : Prec) (levels : List (Option Table)) (it : Item) :
    it ∈ itemsOf ((byPrec p (loopLevels 0 levels)).map toInfo) ↔
      ∃ x ∈ visible (tablesOf 0 levels), x.2.prec = p ∧ it.src = .toml x.1 ∧ it.value ∈ attr it.kind x.2 := by
  rw [mem_itemsOf, loopLevels_eq_visible]
  simp only [byPrec, List.mem_map, List.mem_filter, decide_eq_true_eq]
  constructor
  · rintro ⟨i, ⟨x, ⟨hx, hp⟩, rfl⟩, hs, hv⟩
    exact ⟨x, hx, hp, hs, by rwa [ownAttr_toInfo] at hv⟩
  · rintro ⟨x, hx, hp, hs, hv⟩
    exact ⟨toInfo x, ⟨x, ⟨hx, hp⟩, rfl⟩, hs, by rwa [ownAttr_toInfo]⟩

theorem override_isEmpty (levels : List (Option Table)) :
    ((nested levels).override).isEmpty = !hasOverride levels := by
  unfold nested hasOverride
  simp only [loopLevels_eq_visible]
  generalize tablesOf 0 levels = T
  induction T with
  | nil => simp [visible, byPrec]
  | cons x rest ih =>
    by_cases hx : x.2.prec = .override
    · simp [visible, byPrec, hx]
    · simp only [visible, hx, if_false, byPrec, List.filter_cons, decide_false, List.any_cons,
        Bool.false_or] at ih ⊢
      simpa [byPrec] using ih

end Model
