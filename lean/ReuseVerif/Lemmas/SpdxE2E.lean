/-
Plumbing between the composed models of `reuse spdx` / `reuse lint-file` (Model/SpdxE2E.lean) and
the tree-level vocabulary (Spec/SpdxE2E.lean, Spec/LintE2E.lean).  The component results used are
those of the composed lint model (`mem_projectFiles`, `readable_iff`, `items_iff`: C03 walk and C04
attribution) and of the SPDX document (`Lemmas/SpdxDoc.lean`).
-/
import ReuseVerif.Spec.SpdxE2E
import ReuseVerif.Lemmas.LintE2E
import ReuseVerif.Lemmas.SpdxDoc

namespace Model
open Py Spec Model.Spdx Spec.Spdx

variable {tbl : LicenseMap} {c : E2ECfg} {o : SpdxOracles} {g : GlobalLic} {tree : ETree}

-- ---------------------------------------------------------------- which files

theorem fileOf_readable (p : List String) :
    (fileOf c g tree p).readable = true ↔ ReadableT c g tree p := readable_iff p

/-- the files of the SPDX document are the covered files (C03) whose report can be generated -/
theorem mem_spdxFiles {f : EFile} :
    f ∈ spdxFiles c g tree ↔ ∃ p, ReportedT c g tree p ∧ f = fileOf c g tree p := by
  simp only [spdxFiles, filesOf, coveredFiles, List.mem_filter, List.mem_map, ReportedT, CoveredT]
  constructor
  · rintro ⟨⟨p, hp, rfl⟩, hr⟩
    exact ⟨p, ⟨(C03.C03_walk _ _ _ _).mp hp, (fileOf_readable p).mp hr⟩, rfl⟩
  · rintro ⟨p, ⟨hp, hr⟩, rfl⟩
    exact ⟨⟨p, (C03.C03_walk _ _ _ _).mpr hp, rfl⟩, (fileOf_readable p).mpr hr⟩

theorem mem_spdxFiles_paths {q : List String} :
    q ∈ (spdxFiles c g tree).map (·.path) ↔ ReportedT c g tree q := by
  simp only [List.mem_map, mem_spdxFiles]
  constructor
  · rintro ⟨f, ⟨p, hp, rfl⟩, rfl⟩; exact hp
  · intro h; exact ⟨_, ⟨q, h, rfl⟩, rfl⟩

/-- `reuse spdx` and `reuse lint` report on the same files: the file reports of the composed lint
    report are, in order, those of the SPDX document -/
theorem spdxFiles_eq_fileReports :
    (generateOn fd (projectOf c g tree).files).fileReports = (spdxFiles c g tree).map (EFile.toCov c) := by
  simp only [generateOn, projectOf, spdxFiles, List.filter_map]
  rfl

-- ---------------------------------------------------------------- the set of parsed expressions

theorem dedupBy_subset (key : String → Text) : ∀ (l : List String) {e : String}, e ∈ dedupBy key l → e ∈ l
  | [], _, h => by simp [dedupBy] at h
  | x :: xs, e, h => by
    simp only [dedupBy, List.mem_cons, List.mem_filter] at h
    rcases h with h | ⟨h, _⟩
    · exact h ▸ List.mem_cons_self
    · exact List.mem_cons_of_mem _ (dedupBy_subset key xs h)

/-- every expression has a representative of its class in the set -/
theorem dedupBy_repr (key : String → Text) : ∀ (l : List String) {e : String}, e ∈ l →
    ∃ e' ∈ dedupBy key l, key e' = key e
  | [], _, h => by cases h
  | x :: xs, e, h => by
    rcases List.mem_cons.mp h with rfl | h
    · exact ⟨e, by simp [dedupBy], rfl⟩
    · obtain ⟨e', he', hk⟩ := dedupBy_repr key xs h
      by_cases hx : key e' = key x
      · exact ⟨x, by simp [dedupBy], hx.symm.trans hk⟩
      · refine ⟨e', ?_, hk⟩
        simp only [dedupBy, List.mem_cons, List.mem_filter, bne_iff_ne, ne_eq]
        exact .inr ⟨he', hx⟩

theorem mem_exprsOf {f : EFile} {e : String} (h : e ∈ exprsOf o f) : e ∈ f.infos.flatMap (·.lic) := by
  simp only [exprsOf, exprsOfInfo, List.mem_flatMap] at h ⊢
  obtain ⟨i, hi, he⟩ := h
  exact ⟨i, hi, dedupBy_subset _ _ he⟩

theorem exprsOf_repr {f : EFile} {e : String} (h : e ∈ f.infos.flatMap (·.lic)) :
    ∃ e' ∈ exprsOf o f, o.exprKey e' = o.exprKey e := by
  simp only [exprsOf, exprsOfInfo, List.mem_flatMap] at h ⊢
  obtain ⟨i, hi, he⟩ := h
  obtain ⟨e', he', hk⟩ := dedupBy_repr o.exprKey i.lic he
  exact ⟨e', ⟨i, hi, he'⟩, hk⟩

theorem exprsOf_nil_iff {f : EFile} : exprsOf o f = [] ↔ f.infos.flatMap (·.lic) = [] := by
  constructor
  · intro h
    rw [List.eq_nil_iff_forall_not_mem]
    intro e he
    obtain ⟨e', he', _⟩ := exprsOf_repr (o := o) he
    rw [h] at he'; cases he'
  · intro h
    rw [List.eq_nil_iff_forall_not_mem]
    intro e he
    have := mem_exprsOf he
    rw [h] at this; cases this

theorem mem_licItems_iff {infos : List Info} {x : String} :
    x ∈ infos.flatMap (·.lic) ↔ ∃ it ∈ itemsOf infos, it.kind = .lic ∧ it.value = x := by
  simp only [List.mem_flatMap, mem_itemsOf]
  constructor
  · rintro ⟨i, hi, hx⟩
    exact ⟨⟨.lic, x, i.src⟩, ⟨i, hi, rfl, hx⟩, rfl, rfl⟩
  · rintro ⟨it, ⟨i, hi, _, hv⟩, hk, rfl⟩
    rw [hk] at hv
    exact ⟨i, hi, hv⟩

-- ---------------------------------------------------------------- one file report

/-- the licence identifiers of the report of `p` are those the sources-and-precedence rules attribute -/
theorem mem_keys_iff (add : Bool) (p : List String) (k : Text)
    (hk : KeysRespectEq c o ((fileOf c g tree p).infos.flatMap (·.lic))) :
    k ∈ (Spdx.generate o.md5 add (fileInputOf c o tree (fileOf c g tree p))).keys ↔ LicKeyT c g tree p k := by
  simp only [Spdx.generate, fileInputOf, List.mem_flatten, List.mem_map, LicKeyT]
  constructor
  · rintro ⟨ks, ⟨e, he, rfl⟩, hk'⟩
    obtain ⟨it, hit, hkind, rfl⟩ := mem_licItems_iff.mp (mem_exprsOf he)
    exact ⟨it, (items_iff p it).mp hit, hkind, hk'⟩
  · rintro ⟨it, hit, hkind, hk'⟩
    have hm : it.value ∈ (fileOf c g tree p).infos.flatMap (·.lic) :=
      mem_licItems_iff.mpr ⟨it, (items_iff p it).mpr hit, hkind, rfl⟩
    obtain ⟨e', he', hkey⟩ := exprsOf_repr (o := o) hm
    exact ⟨_, ⟨e', he', rfl⟩, (hk e' (mem_exprsOf he') it.value hm hkey k).mpr hk'⟩

/-- the copyright lines of the report of `p` are the non-blank lines the rules attribute -/
theorem mem_copyright_iff (add : Bool) (p : List String) (l : Text) :
    l ∈ (Spdx.generate o.md5 add (fileInputOf c o tree (fileOf c g tree p))).copyright ↔ NoticeT c g tree p l := by
  simp only [Spdx.generate, fileInputOf, mem_sortTexts, cprLinesOf, List.mem_map, List.mem_filter, NoticeT,
    Bool.not_eq_eq_eq_not, Bool.not_true]
  constructor
  · rintro ⟨x, ⟨hx, hb⟩, rfl⟩
    obtain ⟨it, hit, hkind, rfl⟩ := mem_cprItems_iff.mp hx
    exact ⟨it, (items_iff p it).mp hit, hkind, hb, rfl⟩
  · rintro ⟨it, hit, hkind, hb, rfl⟩
    exact ⟨it.value, ⟨mem_cprItems_iff.mpr ⟨it, (items_iff p it).mpr hit, hkind, rfl⟩, hb⟩, rfl⟩

theorem textLe_trans (a b d : Text) (h1 : textLe a b = true) (h2 : textLe b d = true) : textLe a d = true := by
  simp only [textLe, decide_eq_true_eq] at *
  exact List.le_trans h1 h2

theorem textLe_total (a b : Text) : (textLe a b || textLe b a) = true := by
  simp only [textLe, Bool.or_eq_true, decide_eq_true_eq]
  exact List.le_total a b

/-- ... in the order of Python's `sorted` -/
theorem copyright_sorted (digest : Text → Text) (add : Bool) (i : FileInput) :
    (Spdx.generate digest add i).copyright.Pairwise (fun a b => a ≤ b) := by
  have := List.pairwise_mergeSort textLe_trans textLe_total i.copyrightLines
  simp only [textLe, decide_eq_true_eq] at this
  exact this

theorem exprKeys_nil_iff (p : List String) :
    (fileInputOf c o tree (fileOf c g tree p)).exprKeys = [] ↔ ¬ HasExprT c g tree p := by
  simp only [fileInputOf, List.map_eq_nil_iff, exprsOf_nil_iff, HasExprT]
  constructor
  · rintro h ⟨it, hit, hkind⟩
    have : it.value ∈ (fileOf c g tree p).infos.flatMap (·.lic) :=
      mem_licItems_iff.mpr ⟨it, (items_iff p it).mpr hit, hkind, rfl⟩
    rw [h] at this; cases this
  · intro h
    rw [List.eq_nil_iff_forall_not_mem]
    intro x hx
    obtain ⟨it, hit, hkind, _⟩ := mem_licItems_iff.mp hx
    exact h ⟨it, (items_iff p it).mp hit, hkind⟩

-- ---------------------------------------------------------------- licence texts

theorem licFilesOf_eq : licFilesOf tree = (licPathsOf tree).map relText := rfl

theorem mem_spdxLics {fd : Found} {l : LicEntry} :
    l ∈ spdxLics tree fd ↔ ∃ e ∈ fd.licenses, l = licEntryOf tree e := by
  simp only [spdxLics, List.mem_map]
  constructor
  · rintro ⟨e, he, rfl⟩; exact ⟨e, he, rfl⟩
  · rintro ⟨e, he, rfl⟩; exact ⟨e, he, rfl⟩

-- ---------------------------------------------------------------- lint-file: path resolution

/-- resolving `a ++ b` is resolving `a`, then `b` from where that ended -/
theorem resolveFrom_append (tree : ETree) : ∀ (a b cur : List String),
    resolveFrom tree cur (a ++ b) =
      match resolveFrom tree cur a with
      | .found q => resolveFrom tree q b
      | r => r
  | [], b, cur => by simp [resolveFrom]
  | s :: a, b, cur => by
    simp only [List.cons_append, resolveFrom]
    split
    · rfl
    · split
      · exact resolveFrom_append tree a b cur
      · split
        · split
          · rfl
          · exact resolveFrom_append tree a b _
        · split
          · rfl
          · rfl
          · exact resolveFrom_append tree a b _

theorem mem_namedPaths {cwd : List String} {args : List PathArg} {q : List String} :
    q ∈ namedPaths tree cwd args ↔ Named tree cwd args q := by
  simp only [namedPaths, List.mem_filterMap, List.mem_map, Named, Denotes]
  constructor
  · rintro ⟨r, ⟨a, ha, rfl⟩, hr⟩
    refine ⟨a, ha, ?_⟩
    cases h : resolveArg tree cwd a with
    | found p => rw [h] at hr; simp only [Resolved.path?, Option.some.injEq] at hr; rw [hr]
    | missing => rw [h] at hr; cases hr
    | outside => rw [h] at hr; cases hr
  · rintro ⟨a, ha, h⟩
    exact ⟨_, ⟨a, ha, rfl⟩, by rw [h]; rfl⟩

-- ---------------------------------------------------------------- lint-file: the lines are about files of the project

theorem fmtSubset_path {fd : Found} {fs : List CovFile} {x : Entry} (h : x ∈ fmtSubset (generateOn fd fs)) :
    ∃ f ∈ fs, entryPath x = f.path := by
  obtain ⟨cat, a, b⟩ := x
  rcases (mem_fmtSubset _ _ _ _).mp h with ⟨rfl, hm⟩ | ⟨rfl, hm, _⟩ | ⟨rfl, hm, _⟩ | ⟨rfl, hm, _⟩
  · obtain ⟨f, hf, _, rfl, _⟩ := mem_missing.mp hm; exact ⟨f, hf, by simp [entryPath]⟩
  · obtain ⟨f, hf, _, rfl⟩ := mem_readErrors.mp hm; exact ⟨f, hf, by simp [entryPath]⟩
  · obtain ⟨f, hf, _, _, rfl⟩ := mem_noLicence.mp hm; exact ⟨f, hf, by simp [entryPath]⟩
  · obtain ⟨f, hf, _, _, rfl⟩ := mem_noCopyright.mp hm; exact ⟨f, hf, by simp [entryPath]⟩

end Model

/-! ### the walk yields no path twice; `relText` is injective on proper names -/

namespace Model
open Py Spec

mutual
/-- the names within one directory are distinct, everywhere in the (size) tree -/
def wfN : Node → Prop
  | .dir cs => wfNs cs
  | _ => True
def wfNs : List (String × Node) → Prop
  | [] => True
  | (n, c) :: rest => (∀ e ∈ rest, e.1 ≠ n) ∧ wfN c ∧ wfNs rest
end

theorem mem_toNodes_name : ∀ (cs : List (String × ENode)) {e : String × Node}, e ∈ toNodes cs → ∃ e' ∈ cs, e'.1 = e.1
  | [], _, h => by simp [toNodes] at h
  | (n, c) :: rest, e, h => by
    simp only [toNodes, List.mem_cons] at h
    rcases h with rfl | h
    · exact ⟨(n, c), by simp, rfl⟩
    · obtain ⟨e', he', hn⟩ := mem_toNodes_name rest h
      exact ⟨e', List.mem_cons_of_mem _ he', hn⟩

mutual
theorem wfN_toNode : ∀ (n : ENode), wfNode n → wfN n.toNode
  | .file _, _ => by simp [ENode.toNode, wfN]
  | .symlink _, _ => by simp [ENode.toNode, wfN]
  | .dir cs, h => by
    simp only [ENode.toNode, wfN]
    exact wfNs_toNodes cs (by simpa [wfNode] using h)
theorem wfNs_toNodes : ∀ (cs : List (String × ENode)), wfEntries cs → wfNs (toNodes cs)
  | [], _ => by simp [toNodes, wfNs]
  | (n, c) :: rest, h => by
    simp only [wfEntries] at h
    simp only [toNodes, wfNs]
    refine ⟨fun e he => ?_, wfN_toNode c h.2.1, wfNs_toNodes rest h.2.2⟩
    obtain ⟨e', he', hn⟩ := mem_toNodes_name rest he
    rw [← hn]; exact h.1 e' he'
end

theorem coveredIn_head {cfg : WalkCfg} {path : List String} {dn : String} {cs : List (String × Node)} {rel : List String}
    (h : CoveredIn cfg path dn cs rel) : ∃ n tail node, rel = n :: tail ∧ (n, node) ∈ cs := by
  cases h with
  | file hm _ => exact ⟨_, [], _, rfl, hm⟩
  | dir hm _ _ => exact ⟨_, _, _, rfl, hm⟩

mutual
theorem nodup_walkNode (cfg : WalkCfg) : ∀ (n : Node) (path : List String) (pn name : String), wfN n →
    (walkNode cfg path pn name n).Nodup
  | .file size, path, pn, name, _ => by
    simp only [walkNode]; split <;> simp
  | .symlink, _, _, _, _ => by simp [walkNode]
  | .dir cs, path, pn, name, h => by
    simp only [walkNode]
    split
    · simp
    · exact nodup_walkList cfg cs _ _ (by simpa [wfN] using h)
theorem nodup_walkList (cfg : WalkCfg) : ∀ (cs : List (String × Node)) (path : List String) (dn : String), wfNs cs →
    (walkList cfg path dn cs).Nodup
  | [], _, _, _ => by simp [walkList]
  | (n, c) :: rest, path, dn, h => by
    simp only [wfNs] at h
    simp only [walkList]
    rw [List.nodup_append]
    refine ⟨nodup_walkNode cfg c path dn n h.2.1, nodup_walkList cfg rest path dn h.2.2, ?_⟩
    intro a ha b hb hab
    obtain ⟨ra, rfl, hca⟩ := (mem_walkNode cfg c path dn n a).mp ha
    obtain ⟨rb, hb', hcb⟩ := (mem_walkList cfg rest path dn b).mp hb
    rw [← hab] at hb'
    have hrel : ra = rb := List.append_cancel_left hb'
    obtain ⟨na, ta, nodea, rfl, hma⟩ := coveredIn_head hca
    obtain ⟨nb, tb, nodeb, hrb, hmb⟩ := coveredIn_head hcb
    rw [hrb] at hrel
    simp only [List.mem_singleton, Prod.mk.injEq] at hma
    have : nb = n := by
      have := (List.cons.inj hrel).1
      rw [← this, hma.1]
    exact h.1 (nb, nodeb) hmb this
end

variable {c : E2ECfg} {g : GlobalLic} {tree : ETree}

/-- in a well-formed tree the walk yields every covered file once -/
theorem coveredFiles_nodup (hwf : wfEntries tree) : (coveredFiles c tree).Nodup :=
  nodup_walkList _ _ _ _ (wfNs_toNodes tree hwf)

theorem spdxFiles_paths_nodup (hwf : wfEntries tree) : ((spdxFiles c g tree).map (·.path)).Nodup := by
  have hsub : ((spdxFiles c g tree).map (·.path)).Sublist (coveredFiles c tree) := by
    have h1 : (((filesOf c g tree).filter (·.readable)).map (·.path)).Sublist ((filesOf c g tree).map (·.path)) :=
      List.filter_sublist.map _
    have h2 : (filesOf c g tree).map (·.path) = coveredFiles c tree := by
      simp [filesOf, List.map_map, Function.comp_def, fileOf]
    rw [h2] at h1
    exact h1
  exact (coveredFiles_nodup hwf).sublist hsub

end Model
namespace Model
open Py Spec
theorem sep_split_inj {s : Char} : ∀ (x y A B : List Char), s ∉ x → s ∉ y → x ++ s :: A = y ++ s :: B → x = y ∧ A = B
  | [], [], A, B, _, _, h => by simpa using h
  | [], d :: y, A, B, _, hy, h => by
    simp only [List.nil_append, List.cons_append, List.cons.injEq] at h
    exact absurd (h.1 ▸ List.mem_cons_self) hy
  | a :: x, [], A, B, hx, _, h => by
    simp only [List.nil_append, List.cons_append, List.cons.injEq] at h
    exact absurd (h.1 ▸ List.mem_cons_self) hx
  | a :: x, d :: y, A, B, hx, hy, h => by
    simp only [List.cons_append, List.cons.injEq] at h
    obtain ⟨rfl, h⟩ := h
    obtain ⟨rfl, rfl⟩ := sep_split_inj x y A B (fun hm => hx (List.mem_cons_of_mem _ hm)) (fun hm => hy (List.mem_cons_of_mem _ hm)) h
    exact ⟨rfl, rfl⟩

theorem intercalate_cons_cons (sep x y : List Char) (l : List (List Char)) :
    sep.intercalate (x :: y :: l) = x ++ sep ++ sep.intercalate (y :: l) := by
  simp [List.intercalate, List.intersperse]

theorem intercalate_single (sep x : List Char) : sep.intercalate [x] = x := by
  simp [List.intercalate, List.intersperse]

theorem intercalate_inj {s : Char} : ∀ (xs ys : List (List Char)), xs ≠ [] → ys ≠ [] →
    (∀ x ∈ xs, s ∉ x) → (∀ y ∈ ys, s ∉ y) → [s].intercalate xs = [s].intercalate ys → xs = ys
  | [], _, h, _, _, _, _ => absurd rfl h
  | _, [], _, h, _, _, _ => absurd rfl h
  | [x], [y], _, _, _, _, h => by simpa [intercalate_single] using h
  | [x], y :: y' :: ys, _, _, hx, _, h => by
    rw [intercalate_single, intercalate_cons_cons] at h
    have : s ∈ x := by rw [h]; simp
    exact absurd this (hx x (by simp))
  | x :: x' :: xs, [y], _, _, _, hy, h => by
    rw [intercalate_single, intercalate_cons_cons] at h
    have : s ∈ y := by rw [← h]; simp
    exact absurd this (hy y (by simp))
  | x :: x' :: xs, y :: y' :: ys, _, _, hx, hy, h => by
    rw [intercalate_cons_cons, intercalate_cons_cons] at h
    simp only [List.append_assoc, List.singleton_append] at h
    obtain ⟨rfl, h'⟩ := sep_split_inj x y _ _ (hx x (by simp)) (hy y (by simp)) h
    have := intercalate_inj (x' :: xs) (y' :: ys) (by simp) (by simp)
      (fun z hz => hx z (List.mem_cons_of_mem _ hz)) (fun z hz => hy z (List.mem_cons_of_mem _ hz)) h'
    rw [this]

theorem map_toList_inj : ∀ (p q : List String), p.map String.toList = q.map String.toList → p = q
  | [], [], _ => rfl
  | [], _ :: _, h => by simp at h
  | _ :: _, [], h => by simp at h
  | a :: p, b :: q, h => by
    simp only [List.map_cons, List.cons.injEq] at h
    rw [String.toList_inj.mp h.1, map_toList_inj p q h.2]

/-- `relText` is injective on non-empty paths whose names contain no slash (any real file system) -/
theorem relText_inj {p q : List String} (hp : p ≠ []) (hq : q ≠ []) (sp : ∀ s ∈ p, '/' ∉ s.toList) (sq : ∀ s ∈ q, '/' ∉ s.toList)
    (h : relText p = relText q) : p = q := by
  simp only [relText, String.toList_intercalate] at h
  have h' : ['/'].intercalate (p.map String.toList) = ['/'].intercalate (q.map String.toList) := h
  have := intercalate_inj (s := '/') (p.map String.toList) (q.map String.toList) (by simpa using hp) (by simpa using hq)
    (by intro x hx; obtain ⟨a, ha, rfl⟩ := List.mem_map.mp hx; exact sp a ha)
    (by intro x hx; obtain ⟨a, ha, rfl⟩ := List.mem_map.mp hx; exact sq a ha) h'
  exact map_toList_inj p q this


theorem relText_ne_nil {p : List String} (hp : p ≠ []) (hg : goodNames p) : relText p ≠ [] := by
  simp only [relText, String.toList_intercalate]
  match p, hp, hg with
  | [a], _, hg =>
    have : a.toList ≠ [] := fun h => (hg a (by simp)).1 (String.toList_inj.mp (by simpa using h))
    simpa [List.intercalate, List.intersperse] using this
  | a :: b :: r, _, hg =>
    have : a.toList ≠ [] := fun h => (hg a (by simp)).1 (String.toList_inj.mp (by simpa using h))
    simp only [List.map_cons]
    intro h
    have h2 : ['/'].intercalate (a.toList :: b.toList :: r.map String.toList) = a.toList ++ ['/'] ++ ['/'].intercalate (b.toList :: r.map String.toList) :=
      intercalate_cons_cons _ _ _ _
    have h3 : "/".toList = ['/'] := rfl
    rw [h3, h2] at h
    simp at h

theorem relText_inj' {p q : List String} (hp : p ≠ []) (gp : goodNames p) (gq : goodNames q)
    (h : relText p = relText q) : p = q := by
  by_cases hq : q = []
  · subst hq
    exact absurd h (relText_ne_nil hp gp)
  · exact relText_inj hp hq (fun s hs => (gp s hs).2) (fun s hs => (gq s hs).2) h


theorem spdxName_inj {p q : List String} (hp : p ≠ []) (gp : goodNames p) (gq : goodNames q)
    (h : spdxName p = spdxName q) : p = q :=
  relText_inj' hp gp gq (List.append_cancel_left h)

end Model
