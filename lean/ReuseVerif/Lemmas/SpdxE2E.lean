/-
Plumbing between the composed models of `reuse spdx` / `reuse lint-file` (Model/SpdxE2E.lean) and
the tree-level vocabulary (Spec/SpdxE2E.lean, Spec/LintE2E.lean).  The component results used are
those of the composed lint model (`mem_projectFiles`, `readable_iff`, `items_iff`: C03 walk and C04
attribution) and of the SPDX document (`Lemmas/SpdxDoc.lean`).
-/
import ReuseVerif.Spec.SpdxE2E
import ReuseVerif.Lemmas.LintE2E
import ReuseVerif.Lemmas.SpdxDoc

namespace Model
open Py Spec Model.Spdx Spec.Spdx

variable {tbl : LicenseMap} {c : E2ECfg} {o : SpdxOracles} {g : GlobalLic} {tree : ETree}

-- ---------------------------------------------------------------- which files

theorem fileOf_readable (p : List String) :
    (fileOf c g tree p).readable = true ↔ ReadableT c g tree p := readable_iff p

/-- the files of the SPDX document are the covered files (C03) whose report can be generated -/
theorem mem_spdxFiles {f : EFile} :
    f ∈ spdxFiles c g tree ↔ ∃ p, ReportedT c g tree p ∧ f = fileOf c g tree p := by
  simp only [spdxFiles, filesOf, coveredFiles, List.mem_filter, List.mem_map, ReportedT, CoveredT]
  constructor
  · rintro ⟨⟨p, hp, rfl⟩, hr⟩
    exact ⟨p, ⟨(C03.C03_walk _ _ _ _).mp hp, (fileOf_readable p).mp hr⟩, rfl⟩
  · rintro ⟨p, ⟨hp, hr⟩, rfl⟩
    exact ⟨⟨p, (C03.C03_walk _ _ _ _).mpr hp, rfl⟩, (fileOf_readable p).mpr hr⟩

theorem mem_spdxFiles_paths {q : List String} :
    q ∈ (spdxFiles c g tree).map (·.path) ↔ ReportedT c g tree q := by
  simp only [List.mem_map, mem_spdxFiles]
  constructor
  · rintro ⟨f, ⟨p, hp, rfl⟩, rfl⟩; exact hp
  · intro h; exact ⟨_, ⟨q, h, rfl⟩, rfl⟩

/-- `reuse spdx` and `reuse lint` report on the same files: the file reports of the composed lint
    report are, in order, those of the SPDX document -/
theorem spdxFiles_eq_fileReports :
    (generateOn fd (projectOf c g tree).files).fileReports = (spdxFiles c g tree).map (EFile.toCov c) := by
  simp only [generateOn, projectOf, spdxFiles, List.filter_map]
  rfl

-- ---------------------------------------------------------------- the set of parsed expressions

theorem dedupBy_subset (key : String → Text) : ∀ (l : List String) {e : String}, e ∈ dedupBy key l → e ∈ l
  | [], _, h => by simp [dedupBy] at h
  | x :: xs, e, h => by
    simp only [dedupBy, List.mem_cons, List.mem_filter] at h
    rcases h with h | ⟨h, _⟩
    · exact h ▸ List.mem_cons_self
    · exact List.mem_cons_of_mem _ (dedupBy_subset key xs h)

/-- every expression has a representative of its class in the set -/
theorem dedupBy_repr (key : String → Text) : ∀ (l : List String) {e : String}, e ∈ l →
    ∃ e' ∈ dedupBy key l, key e' = key e
  | [], _, h => by cases h
  | x :: xs, e, h => by
    rcases List.mem_cons.mp h with rfl | h
    · exact ⟨e, by simp [dedupBy], rfl⟩
    · obtain ⟨e', he', hk⟩ := dedupBy_repr key xs h
      by_cases hx : key e' = key x
      · exact ⟨x, by simp [dedupBy], hx.symm.trans hk⟩
      · refine ⟨e', ?_, hk⟩
        simp only [dedupBy, List.mem_cons, List.mem_filter, bne_iff_ne, ne_eq]
        exact .inr ⟨he', hx⟩

theorem mem_exprsOf {f : EFile} {e : String} (h : e ∈ exprsOf o f) : e ∈ f.infos.flatMap (·.lic) := by
  simp only [exprsOf, exprsOfInfo, List.mem_flatMap] at h ⊢
  obtain ⟨i, hi, he⟩ := h
  exact ⟨i, hi, dedupBy_subset _ _ he⟩

theorem exprsOf_repr {f : EFile} {e : String} (h : e ∈ f.infos.flatMap (·.lic)) :
    ∃ e' ∈ exprsOf o f, o.exprKey e' = o.exprKey e := by
  simp only [exprsOf, exprsOfInfo, List.mem_flatMap] at h ⊢
  obtain ⟨i, hi, he⟩ := h
  obtain ⟨e', he', hk⟩ := dedupBy_repr o.exprKey i.lic he
  exact ⟨e', ⟨i, hi, he'⟩, hk⟩

theorem exprsOf_nil_iff {f : EFile} : exprsOf o f = [] ↔ f.infos.flatMap (·.lic) = [] := by
  constructor
  · intro h
    rw [List.eq_nil_iff_forall_not_mem]
    intro e he
    obtain ⟨e', he', _⟩ := exprsOf_repr (o := o) he
    rw [h] at he'; cases he'
  · intro h
    rw [List.eq_nil_iff_forall_not_mem]
    intro e he
    have := mem_exprsOf he
    rw [h] at this; cases this

theorem mem_licItems_iff {infos : List Info} {x : String} :
    x ∈ infos.flatMap (·.lic) ↔ ∃ it ∈ itemsOf infos, it.kind = .lic ∧ it.value = x := by
  simp only [List.mem_flatMap, mem_itemsOf]
  constructor
  · rintro ⟨i, hi, hx⟩
    exact ⟨⟨.lic, x, i.src⟩, ⟨i, hi, rfl, hx⟩, rfl, rfl⟩
  · rintro ⟨it, ⟨i, hi, _, hv⟩, hk, rfl⟩
    rw [hk] at hv
    exact ⟨i, hi, hv⟩

-- ---------------------------------------------------------------- one file report

/-- the licence identifiers of the report of `p` are those the sources-and-precedence rules attribute -/
theorem mem_keys_iff (add : Bool) (p : List String) (k : Text)
    (hk : KeysRespectEq c o ((fileOf c g tree p).infos.flatMap (·.lic))) :
    k ∈ (Spdx.generate o.md5 add (fileInputOf c o tree (fileOf c g tree p))).keys ↔ LicKeyT c g tree p k := by
  simp only [Spdx.generate, fileInputOf, List.mem_flatten, List.mem_map, LicKeyT]
  constructor
  · rintro ⟨ks, ⟨e, he, rfl⟩, hk'⟩
    obtain ⟨it, hit, hkind, rfl⟩ := mem_licItems_iff.mp (mem_exprsOf he)
    exact ⟨it, (items_iff p it).mp hit, hkind, hk'⟩
  · rintro ⟨it, hit, hkind, hk'⟩
    have hm : it.value ∈ (fileOf c g tree p).infos.flatMap (·.lic) :=
      mem_licItems_iff.mpr ⟨it, (items_iff p it).mpr hit, hkind, rfl⟩
    obtain ⟨e', he', hkey⟩ := exprsOf_repr (o := o) hm
    exact ⟨_, ⟨e', he', rfl⟩, (hk e' (mem_exprsOf he') it.value hm hkey k).mpr hk'⟩

/-- the copyright lines of the report of `p` are the non-blank lines the rules attribute -/
theorem mem_copyright_iff (add : Bool) (p : List String) (l : Text) :
    l ∈ (Spdx.generate o.md5 add (fileInputOf c o tree (fileOf c g tree p))).copyright ↔ NoticeT c g tree p l := by
  simp only [Spdx.generate, fileInputOf, mem_sortTexts, cprLinesOf, List.mem_map, List.mem_filter, NoticeT,
    Bool.not_eq_eq_eq_not, Bool.not_true]
  constructor
  · rintro ⟨x, ⟨hx, hb⟩, rfl⟩
    obtain ⟨it, hit, hkind, rfl⟩ := mem_cprItems_iff.mp hx
    exact ⟨it, (items_iff p it).mp hit, hkind, hb, rfl⟩
  · rintro ⟨it, hit, hkind, hb, rfl⟩
    exact ⟨it.value, ⟨mem_cprItems_iff.mpr ⟨it, (items_iff p it).mpr hit, hkind, rfl⟩, hb⟩, rfl⟩

theorem textLe_trans (a b d : Text) (h1 : textLe a b = true) (h2 : textLe b d = true) : textLe a d = true := by
  simp only [textLe, decide_eq_true_eq] at *
  exact List.le_trans h1 h2

theorem textLe_total (a b : Text) : (textLe a b || textLe b a) = true := by
  simp only [textLe, Bool.or_eq_true, decide_eq_true_eq]
  exact List.le_total a b

/-- ... in the order of Python's `sorted` -/
theorem copyright_sorted (digest : Text → Text) (add : Bool) (i : FileInput) :
    (Spdx.generate digest add i).copyright.Pairwise (fun a b => a ≤ b) := by
  have := List.pairwise_mergeSort textLe_trans textLe_total i.copyrightLines
  simp only [textLe, decide_eq_true_eq] at this
  exact this

theorem exprKeys_nil_iff (p : List String) :
    (fileInputOf c o tree (fileOf c g tree p)).exprKeys = [] ↔ ¬ HasExprT c g tree p := by
  simp only [fileInputOf, List.map_eq_nil_iff, exprsOf_nil_iff, HasExprT]
  constructor
  · rintro h ⟨it, hit, hkind⟩
    have : it.value ∈ (fileOf c g tree p).infos.flatMap (·.lic) :=
      mem_licItems_iff.mpr ⟨it, (items_iff p it).mpr hit, hkind, rfl⟩
    rw [h] at this; cases this
  · intro h
    rw [List.eq_nil_iff_forall_not_mem]
    intro x hx
    obtain ⟨it, hit, hkind, _⟩ := mem_licItems_iff.mp hx
    exact h ⟨it, (items_iff p it).mp hit, hkind⟩

-- ---------------------------------------------------------------- licence texts

theorem licFilesOf_eq : licFilesOf tree = (licPathsOf tree).map relText := by
  unfold licFilesOf licPathsOf
  cases elookup tree "LICENSES" with
  | none => rfl
  | some n => cases n <;> rfl

theorem mem_spdxLics {fd : Found} {l : LicEntry} :
    l ∈ spdxLics tree fd ↔ ∃ e ∈ fd.licenses, l = licEntryOf tree e := by
  simp only [spdxLics, List.mem_map]
  constructor
  · rintro ⟨e, he, rfl⟩; exact ⟨e, he, rfl⟩
  · rintro ⟨e, he, rfl⟩; exact ⟨e, he, rfl⟩

-- ---------------------------------------------------------------- lint-file: path resolution

/-- resolving `a ++ b` is resolving `a`, then `b` from where that ended -/
theorem resolveFrom_append (tree : ETree) : ∀ (a b cur : List String),
    resolveFrom tree cur (a ++ b) =
      match resolveFrom tree cur a with
      | .found q => resolveFrom tree q b
      | r => r
  | [], b, cur => by simp [resolveFrom]
  | s :: a, b, cur => by
    simp only [List.cons_append, resolveFrom]
    split
    · rfl
    · split
      · exact resolveFrom_append tree a b cur
      · split
        · split
          · rfl
          · exact resolveFrom_append tree a b _
        · split
          · rfl
          · rfl
          · exact resolveFrom_append tree a b _

theorem mem_namedPaths {cwd : List String} {args : List PathArg} {q : List String} :
    q ∈ namedPaths tree cwd args ↔ Named tree cwd args q := by
  simp only [namedPaths, List.mem_filterMap, List.mem_map, Named, Denotes]
  constructor
  · rintro ⟨r, ⟨a, ha, rfl⟩, hr⟩
    refine ⟨a, ha, ?_⟩
    cases h : resolveArg tree cwd a with
    | found p => rw [h] at hr; simp only [Resolved.path?, Option.some.injEq] at hr; rw [hr]
    | missing => rw [h] at hr; cases hr
    | outside => rw [h] at hr; cases hr
  · rintro ⟨a, ha, h⟩
    exact ⟨_, ⟨a, ha, rfl⟩, by rw [h]; rfl⟩

-- ---------------------------------------------------------------- lint-file: the lines are about files of the project

theorem fmtSubset_path {fd : Found} {fs : List CovFile} {x : Entry} (h : x ∈ fmtSubset (generateOn fd fs)) :
    ∃ f ∈ fs, entryPath x = f.path := by
  obtain ⟨cat, a, b⟩ := x
  rcases (mem_fmtSubset _ _ _ _).mp h with ⟨rfl, hm⟩ | ⟨rfl, hm, _⟩ | ⟨rfl, hm, _⟩ | ⟨rfl, hm, _⟩
  · obtain ⟨f, hf, _, rfl, _⟩ := mem_missing.mp hm; exact ⟨f, hf, by simp [entryPath]⟩
  · obtain ⟨f, hf, _, rfl⟩ := mem_readErrors.mp hm; exact ⟨f, hf, by simp [entryPath]⟩
  · obtain ⟨f, hf, _, _, rfl⟩ := mem_noLicence.mp hm; exact ⟨f, hf, by simp [entryPath]⟩
  · obtain ⟨f, hf, _, _, rfl⟩ := mem_noCopyright.mp hm; exact ⟨f, hf, by simp [entryPath]⟩

end Model
