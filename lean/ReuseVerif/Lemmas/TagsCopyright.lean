import ReuseVerif.Spec.TagsCopyright
import ReuseVerif.Lemmas.CopyrightMain
import ReuseVerif.Lemmas.TagsClean
import ReuseVerif.Lemmas.TagsEnd

namespace Model
open Py Spec

theorem statementOf_trail (endRe : Re) (h trail : Text) (hw : noEndSuffixBeforeC endRe h trail = true)
    (he : endAccepts endRe trail = true) : statementOf endRe (h ++ trail) = h := by
  induction h with
  | nil =>
    cases trail with
    | nil => rfl
    | cons c cs =>
      unfold endAccepts at he
      simp [statementOf, he]
  | cons c cs ih =>
    simp only [noEndSuffixBeforeC, Bool.and_eq_true, Bool.not_eq_true', endAccepts] at hw
    have h1 := hw.1
    simp only [List.cons_append] at h1
    simp only [List.cons_append, statementOf, h1, Bool.false_eq_true, if_false, ih hw.2]

/-- the pattern anchored at the start of a built notice followed by a trail of terminators -/
theorem matchAt_built_trail (endRe : Re) (p : CPat) (E body h trail : Text) (yt : Option Text)
    (hE : ExtPicked p E) (hb : Blocks (body ++ trail)) (hy : eatYear (body ++ trail) = (yt, h ++ trail))
    (hw : noEndSuffixBeforeC endRe h trail = true) (he : endAccepts endRe trail = true)
    (hlen : h.length ≤ body.length) :
    matchAt endRe p (headText p ++ E ++ ' ' :: (body ++ trail)) =
      some { pref := headText p ++ E, year := yt, statement := h, whole := headText p ++ E ++ ' ' :: body } := by
  unfold matchAt
  rw [List.append_assoc, eatHead_append, ← List.append_assoc]
  simp only [Option.bind_eq_bind, Option.bind_some]
  rw [List.append_assoc, hE _ hb]
  simp only [Option.bind_some, dropWhile_space_rest hb, hy, statementOf_trail endRe h trail hw he, Option.pure_def,
    Option.some.injEq, CMatch.mk.injEq, true_and]
  refine ⟨?_, ?_⟩
  · have : (headText p ++ (E ++ ' ' :: (body ++ trail))).length - (' ' :: (body ++ trail)).length = (headText p ++ E).length := by
      simp only [List.length_append, List.length_cons]; omega
    rw [this, ← List.append_assoc, List.take_left']
    rfl
  · have : (headText p ++ (E ++ ' ' :: (body ++ trail))).length - (h ++ trail).length + h.length =
        (headText p ++ (E ++ ' ' :: body)).length := by
      simp only [List.length_append, List.length_cons]; omega
    rw [this]
    have e : headText p ++ (E ++ ' ' :: (body ++ trail)) = (headText p ++ (E ++ ' ' :: body)) ++ trail := by
      simp [List.append_assoc]
    rw [e, List.take_left' rfl]
    simp [List.append_assoc]

theorem searchPat_skip (endRe : Re) (p : CPat) (pre rest : Text) (h : noNoticeStart endRe p pre rest = true) :
    searchPat endRe p (pre ++ rest) = searchPat endRe p rest := by
  induction pre with
  | nil => rfl
  | cons c cs ih =>
    simp only [noNoticeStart, Bool.and_eq_true, Option.isNone_iff_eq_none] at h
    have h1 := h.1
    simp only [List.cons_append] at h1
    simp only [List.cons_append, searchPat, h1, ih h.2]

theorem holderStart_append {h : Text} (hs : HolderStart h) (t : Text) : HolderStart (h ++ t) := by
  obtain ⟨c, cs, rfl⟩ := List.exists_cons_of_ne_nil hs.ne
  refine ⟨by simp, ?_, ?_, ?_⟩
  · intro c' cs' e; simp only [List.cons_append, List.cons.injEq] at e; rw [← e.1]; exact hs.notSpace c cs rfl
  · intro c' cs' e; simp only [List.cons_append, List.cons.injEq] at e; rw [← e.1]; exact hs.notDigit c cs rfl
  · intro c' cs' e; simp only [List.cons_append, List.cons.injEq] at e; rw [← e.1]; exact hs.notDash c cs rfl

theorem blocks_append {h : Text} (hb : Blocks h) (t : Text) (hword : eat wordC (h ++ t) = none) : Blocks (h ++ t) := by
  obtain ⟨c, cs, rfl⟩ := List.exists_cons_of_ne_nil hb.ne
  refine ⟨by simp, ?_, ?_, ?_, hword⟩
  · intro c' cs' e; simp only [List.cons_append, List.cons.injEq] at e; rw [← e.1]; exact hb.notSpace c cs rfl
  · intro c' cs' e; simp only [List.cons_append, List.cons.injEq] at e; rw [← e.1]; exact hb.notParen c cs rfl
  · intro c' cs' e; simp only [List.cons_append, List.cons.injEq] at e; rw [← e.1]; exact hb.notSign c cs rfl

/-- any sequence of listed terminators and blanks is accepted up to the end of the line -/
theorem endAccepts_pieces (body : Re) (pieces : List Text) (h : ∀ p ∈ pieces, pieceOk body p = true) :
    endAccepts (.star body) pieces.flatten = true := by
  have := Re.bt_complete (matches_pieces body pieces h) [] (fun r => r.isEmpty || r == ['\n']) rfl
  simpa [endAccepts] using this

/-- a holder on one line whose last character END cannot consume has no tail that could be taken
    for terminators, whatever trail follows -/
theorem noEndSuffixC_of_last (endRe : Re) (w tail : Text) (hnl : noNewline w = true)
    (hlast : ∀ c, w.getLast? = some c → mayUse endRe c = false) :
    noEndSuffixBeforeC endRe w tail = true := by
  induction w with
  | nil => rfl
  | cons c cs ih =>
    obtain ⟨_, hcs⟩ := noNewline_cons hnl
    have hnm := noNewline_mem hnl
    simp only [noEndSuffixBeforeC, Bool.and_eq_true, Bool.not_eq_true']
    refine ⟨?_, ?_⟩
    · unfold endAccepts
      cases hm : Re.bt endRe (c :: cs ++ tail) (fun r => r.isEmpty || r == ['\n']) with
      | false => rfl
      | true =>
        exfalso
        obtain ⟨a, r, hs, ha, hk⟩ := Re.bt_sound _ _ _ hm
        obtain ⟨l, hl⟩ : ∃ l, (c :: cs).getLast? = some l := by
          cases h : (c :: cs).getLast? with
          | none => simp at h
          | some l => exact ⟨l, rfl⟩
        have hlmem : l ∈ c :: cs := List.mem_of_getLast? hl
        have huse := hlast l hl
        rcases List.append_eq_append_iff.mp hs with ⟨a', h1, h2⟩ | ⟨c', h1, h2⟩
        · have : mayUse endRe l = true := matches_mayUse ha l (by rw [h1]; exact List.mem_append_left _ hlmem)
          rw [huse] at this; cases this
        · cases c' with
          | nil =>
            simp only [List.append_nil] at h1
            have : mayUse endRe l = true := matches_mayUse ha l (by rw [← h1]; exact hlmem)
            rw [huse] at this; cases this
          | cons x xs =>
            have hx : x ∈ c :: cs := by rw [h1]; simp
            rw [h2] at hk
            simp only [List.cons_append, List.isEmpty_cons, Bool.false_or, beq_iff_eq, List.cons.injEq] at hk
            rw [hk.1] at hx
            exact hnm hx
    · apply ih hcs
      intro l hl
      apply hlast l
      cases cs with
      | nil => simp at hl
      | cons y ys => simpa [List.getLast?_cons_cons] using hl

end Model
