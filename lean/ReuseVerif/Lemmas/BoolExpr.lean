import ReuseVerif.Model.BoolExpr

namespace Model.BoolExpr
open Py

/-- `eval` depends only on the atoms that occur. -/
theorem eval_congr {σ τ : Text → Bool} (e : BoolExpr) (h : ∀ x ∈ atoms e, σ x = τ x) :
    eval σ e = eval τ e := by
  induction e with
  | atom s => exact h s (by simp [atoms])
  | and a b iha ihb =>
    simp only [eval]
    rw [iha (fun x hx => h x (by simp [atoms, hx])), ihb (fun x hx => h x (by simp [atoms, hx]))]
  | or a b iha ihb =>
    simp only [eval]
    rw [iha (fun x hx => h x (by simp [atoms, hx])), ihb (fun x hx => h x (by simp [atoms, hx]))]

/-- Every assignment agrees, on the listed symbols, with one of the enumerated ones. -/
theorem exists_agree (L : List Text) (σ : Text → Bool) :
    ∃ τ ∈ assignments L, ∀ x ∈ L, τ x = σ x := by
  induction L with
  | nil => exact ⟨fun _ => false, by simp [assignments], by simp⟩
  | cons x xs ih =>
    obtain ⟨τ, hτ, hag⟩ := ih
    cases hx : σ x with
    | true =>
      refine ⟨fun y => if y = x then true else τ y, ?_, ?_⟩
      · simp only [assignments, List.mem_flatMap]
        exact ⟨τ, hτ, by simp⟩
      · intro y hy
        by_cases hyx : y = x
        · simp [hyx, hx]
        · simp only [hyx, if_false]
          rcases List.mem_cons.mp hy with h | h
          · exact absurd h hyx
          · exact hag y h
    | false =>
      refine ⟨fun y => if y = x then false else τ y, ?_, ?_⟩
      · simp only [assignments, List.mem_flatMap]
        exact ⟨τ, hτ, by simp⟩
      · intro y hy
        by_cases hyx : y = x
        · simp [hyx, hx]
        · simp only [hyx, if_false]
          rcases List.mem_cons.mp hy with h | h
          · exact absurd h hyx
          · exact hag y h

theorem equiv_iff (a b : BoolExpr) :
    equiv a b = true ↔ ∀ σ, eval σ a = eval σ b := by
  constructor
  · intro h σ
    obtain ⟨τ, hτ, hag⟩ := exists_agree ((atoms a ++ atoms b).eraseDups) σ
    have hτeq : eval τ a = eval τ b := by
      have := List.all_eq_true.mp h τ hτ
      simpa using this
    have ha : eval σ a = eval τ a :=
      eval_congr a (fun x hx => (hag x (by simp [List.mem_eraseDups, hx])).symm)
    have hb : eval σ b = eval τ b :=
      eval_congr b (fun x hx => (hag x (by simp [List.mem_eraseDups, hx])).symm)
    rw [ha, hb, hτeq]
  · intro h
    unfold equiv
    rw [List.all_eq_true]
    intro σ _
    simp [h σ]

end Model.BoolExpr
