/-
C20: `merge_copyright_lines` on *lines*.  The lemmas here take the read-back statement
(`C20.C20_make_parse`) as a hypothesis `ReadBack`; `Theorems/C20.lean` instantiates it.
-/
import ReuseVerif.Lemmas.C20NoNotice
import ReuseVerif.Lemmas.Merge

namespace Model
open Py Spec

/-! ### `Counter.most_common(1)` -/

def argmaxStep (key : Text → Nat) (acc : Option Text) (x : Text) : Option Text :=
  match acc with
  | none => some x
  | some m => if key m < key x then some x else some m

theorem argmax_aux (key : Text → Nat) (l : List Text) (acc : Option Text) (m : Text)
    (h : l.foldl (argmaxStep key) acc = some m) :
    (m ∈ l ∨ acc = some m) ∧ (∀ x ∈ l, key x ≤ key m) ∧ (∀ a, acc = some a → key a ≤ key m) := by
  induction l generalizing acc with
  | nil =>
    simp only [List.foldl_nil] at h
    exact ⟨.inr h, by simp, fun a ha => by rw [h] at ha; cases ha; exact Nat.le_refl _⟩
  | cons x xs ih =>
    simp only [List.foldl_cons] at h
    obtain ⟨h1, h2, h3⟩ := ih _ h
    cases acc with
    | none =>
      simp only [argmaxStep] at h1 h3
      have hx : key x ≤ key m := h3 x rfl
      refine ⟨.inl ?_, ?_, by simp⟩
      · rcases h1 with h1 | h1
        · exact List.mem_cons_of_mem _ h1
        · cases h1; exact List.mem_cons_self
      · intro y hy
        rcases List.mem_cons.mp hy with rfl | hy
        · exact hx
        · exact h2 y hy
    | some a =>
      simp only [argmaxStep] at h1 h3
      by_cases hlt : key a < key x
      · simp only [hlt, if_true] at h1 h3
        have hx : key x ≤ key m := h3 x rfl
        refine ⟨?_, ?_, ?_⟩
        · rcases h1 with h1 | h1
          · exact .inl (List.mem_cons_of_mem _ h1)
          · cases h1; exact .inl List.mem_cons_self
        · intro y hy
          rcases List.mem_cons.mp hy with rfl | hy
          · exact hx
          · exact h2 y hy
        · intro b hb; cases hb; omega
      · simp only [hlt, if_false] at h1 h3
        have ha : key a ≤ key m := h3 a rfl
        refine ⟨?_, ?_, ?_⟩
        · rcases h1 with h1 | h1
          · exact .inl (List.mem_cons_of_mem _ h1)
          · exact .inr h1
        · intro y hy
          rcases List.mem_cons.mp hy with rfl | hy
          · omega
          · exact h2 y hy
        · intro b hb; cases hb; exact ha

theorem argmax_isSome (key : Text → Nat) : ∀ (l : List Text) (a : Text),
    (l.foldl (argmaxStep key) (some a)).isSome = true
  | [], _ => rfl
  | x :: xs, a => by
    simp only [List.foldl_cons, argmaxStep]
    split <;> exact argmax_isSome key xs _

theorem mostCommon_eq (items : List Text) :
    mostCommon items = (dedup items).foldl (argmaxStep (fun x => items.count x)) none := rfl

/-- `most_common(1)` of a non-empty list: an element with the highest count -/
theorem mostCommon_spec {items : List Text} (h : items ≠ []) :
    ∃ m, mostCommon items = some m ∧ m ∈ items ∧ ∀ x ∈ items, items.count x ≤ items.count m := by
  obtain ⟨a, as, rfl⟩ := List.exists_cons_of_ne_nil h
  have hne : dedup (a :: as) ≠ [] := by
    intro e
    have : a ∈ dedup (a :: as) := mem_dedup.mpr List.mem_cons_self
    rw [e] at this; cases this
  obtain ⟨d, ds, hd⟩ := List.exists_cons_of_ne_nil hne
  have hs : (mostCommon (a :: as)).isSome = true := by
    rw [mostCommon_eq, hd]
    simp only [List.foldl_cons, argmaxStep]
    exact argmax_isSome _ ds d
  obtain ⟨m, hm⟩ := Option.isSome_iff_exists.mp hs
  refine ⟨m, hm, ?_, ?_⟩
  · rw [mostCommon_eq] at hm
    rcases (argmax_aux _ _ _ _ hm).1 with h' | h'
    · exact mem_dedup.mp h'
    · cases h'
  · intro x hx
    rw [mostCommon_eq] at hm
    exact (argmax_aux _ _ _ _ hm).2.1 x (mem_dedup.mpr hx)

/-! ### years -/

theorem fourDigits_length {y : Text} (h : fourDigits y = true) : y.length = 4 := by
  unfold fourDigits at h
  simp only [Bool.and_eq_true, beq_iff_eq] at h
  exact h.1

/-- `_parse_copyright_year` of the year text of a well-formed year form gives the stated years -/
theorem parseYear_text (y : YearForm) (hy : y.wf = true) : parseYear y.text = y.stated := by
  cases y with
  | none => rfl
  | single yy =>
    have hl := fourDigits_length (show fourDigits yy = true from hy)
    have hne : yy.isEmpty = false := by cases yy with
      | nil => cases hl
      | cons _ _ => rfl
    simp [YearForm.text, YearForm.stated, parseYear, hne, hl]
  | range y1 sp1 sp2 y2 =>
    simp only [YearForm.wf, Bool.and_eq_true] at hy
    have h1 := fourDigits_length hy.1
    have h2 := fourDigits_length hy.2
    have hne : (y1 ++ (if sp1 then [' '] else []) ++ ['-'] ++ (if sp2 then [' '] else []) ++ y2).isEmpty = false := by
      cases y1 with
      | nil => cases h1
      | cons _ _ => rfl
    have hlen : ((y1 ++ (if sp1 then [' '] else []) ++ ['-'] ++ (if sp2 then [' '] else []) ++ y2).length == 4) = false := by
      simp only [List.length_append, beq_eq_false_iff_ne, ne_eq]
      cases sp1 <;> cases sp2 <;> simp <;> omega
    simp only [YearForm.text, YearForm.stated, parseYear, hne, hlen, Bool.false_eq_true, if_false]
    congr 1
    · rw [List.append_assoc, List.append_assoc, List.append_assoc, List.take_left' h1]
    · congr 1
      have : (y1 ++ (if sp1 then [' '] else []) ++ ['-'] ++ (if sp2 then [' '] else []) ++ y2).length - 4 =
          (y1 ++ (if sp1 then [' '] else []) ++ ['-'] ++ (if sp2 then [' '] else [])).length := by
        simp only [List.length_append]; omega
      rw [this, List.drop_left]

theorem stated_fourDigits {y : YearForm} (hy : y.wf = true) : ∀ t ∈ y.stated, fourDigits t = true := by
  cases y with
  | none => intro t ht; cases ht
  | single yy => intro t ht; simp only [YearForm.stated, List.mem_singleton] at ht; subst ht; exact hy
  | range y1 _ _ y2 =>
    simp only [YearForm.wf, Bool.and_eq_true] at hy
    intro t ht
    simp only [YearForm.stated, List.mem_cons, List.not_mem_nil, or_false] at ht
    rcases ht with rfl | rfl
    · exact hy.1
    · exact hy.2

theorem mergedForm_text (years : List Text) : (mergedForm years).text = mergedYear years := by
  unfold mergedForm mergedYear
  cases yearMin years with
  | none => rfl
  | some lo =>
    cases yearMax years with
    | none => rfl
    | some hi =>
      simp only
      split
      · rfl
      · simp [YearForm.text]

theorem mergedForm_wf (years : List Text) (h : ∀ t ∈ years, fourDigits t = true) : (mergedForm years).wf = true := by
  unfold mergedForm
  cases hlo : yearMin years with
  | none => rfl
  | some lo =>
    cases hhi : yearMax years with
    | none => rfl
    | some hi =>
      simp only
      split
      · exact h lo (yearMin_mem hlo)
      · simp [YearForm.wf, h lo (yearMin_mem hlo), h hi (yearMax_mem hhi)]

/-- what the merged year form says about the stated years -/
theorem mergedForm_spec (years : List Text) :
    (years = [] ∧ mergedForm years = .none) ∨
    ∃ lo ∈ years, ∃ hi ∈ years,
      (∀ y ∈ years, yearVal lo ≤ yearVal y ∧ yearVal y ≤ yearVal hi) ∧
      ((yearVal lo = yearVal hi ∧ mergedForm years = .single lo) ∨
       (yearVal lo < yearVal hi ∧ mergedForm years = .range lo true true hi)) := by
  by_cases hne : years = []
  · left; subst hne; exact ⟨rfl, rfl⟩
  · right
    obtain ⟨lo, hlo⟩ := Option.isSome_iff_exists.mp (yearMin_isSome hne)
    obtain ⟨hi, hhi⟩ := Option.isSome_iff_exists.mp (yearMax_isSome hne)
    refine ⟨lo, yearMin_mem hlo, hi, yearMax_mem hhi,
      fun y hy => ⟨yearMin_le hlo y hy, yearMax_ge hhi y hy⟩, ?_⟩
    unfold mergedForm
    simp only [hlo, hhi]
    by_cases he : yearVal lo = yearVal hi
    · left; exact ⟨he, by simp [he]⟩
    · right
      have hle := yearMin_le hlo hi (yearMax_mem hhi)
      exact ⟨by omega, by simp [he]⟩

/-! ### the parsed input -/

/-- the statement `C20_make_parse` proves -/
def ReadBack (endRe : Re) : Prop :=
  ∀ x ∈ prefixShapes, ∀ y : YearForm, y.wf = true → ∀ h : Text, WFHolderL endRe h = true →
    noNoticeInside h = true →
    searchLineWith endRe (builtLine x.1 y h) =
      some { pref := x.1, year := y.text, statement := h, whole := builtLine x.1 y h }

def _root_.Spec.Notice.parsed (n : Notice) : Parsed := (n.holder, n.year.stated, n.shape.1)

theorem parseLines_notices (endRe : Re) (hrb : ReadBack endRe) :
    ∀ ns : List Notice, (∀ n ∈ ns, n.ok endRe) → parseLines endRe (ns.map Notice.line) = ns.map Notice.parsed
  | [], _ => rfl
  | n :: ns, hok => by
    obtain ⟨h1, h2, h3, h4⟩ := hok n List.mem_cons_self
    have ih := parseLines_notices endRe hrb ns (fun m hm => hok m (List.mem_cons_of_mem _ hm))
    unfold parseLines at ih ⊢
    simp only [List.map_cons, List.filterMap_cons, Notice.line, hrb n.shape h1 n.year h2 n.holder h3 h4,
      Option.map_some, parseYear_text n.year h2]
    rw [ih]; rfl

theorem filter_parsed (ns : List Notice) (h : Text) :
    (ns.map Notice.parsed).filter (·.1 == h) = (ns.filter (·.holder == h)).map Notice.parsed := by
  induction ns with
  | nil => rfl
  | cons n ns ih =>
    simp only [List.map_cons, List.filter_cons, Notice.parsed]
    split
    · simp only [List.map_cons, Notice.parsed]; rw [← ih]
    · exact ih

theorem yearsOf_notices (ns : List Notice) (h : Text) : yearsOf (ns.map Notice.parsed) h = statedFor ns h := by
  unfold yearsOf statedFor
  rw [filter_parsed, List.flatMap_map]
  rfl

theorem prefixes_notices (ns : List Notice) (h : Text) :
    ((ns.map Notice.parsed).filter (·.1 == h)).map (·.2.2) = prefixesFor ns h := by
  unfold prefixesFor
  rw [filter_parsed, List.map_map]
  rfl

theorem statedFor_fourDigits (endRe : Re) (ns : List Notice) (hok : ∀ n ∈ ns, n.ok endRe) (h : Text) :
    ∀ t ∈ statedFor ns h, fourDigits t = true := by
  intro t ht
  unfold statedFor at ht
  simp only [List.mem_flatMap, List.mem_filter] at ht
  obtain ⟨n, ⟨hn, _⟩, ht⟩ := ht
  exact stated_fourDigits (hok n hn).2.1 t ht

/-- the prefix of the merged line: the most common prefix text of the holder's notices, which is a
    text of the table -/
theorem prefixFor_notices (endRe : Re) (ns : List Notice) (hok : ∀ n ∈ ns, n.ok endRe) (n : Notice) (hn : n ∈ ns)
    (htab : Generated.copyrightPrefixes.map (·.2) = prefixShapes.map (·.1)) :
    ∃ px ∈ prefixShapes, prefixFor (ns.map Notice.parsed) n.holder = px.1 ∧
      px.1 ∈ prefixesFor ns n.holder ∧
      ∀ p ∈ prefixesFor ns n.holder, (prefixesFor ns n.holder).count p ≤ (prefixesFor ns n.holder).count px.1 := by
  have hmem : n.shape.1 ∈ prefixesFor ns n.holder := by
    unfold prefixesFor
    exact List.mem_map.mpr ⟨n, List.mem_filter.mpr ⟨hn, by simp⟩, rfl⟩
  have hne : prefixesFor ns n.holder ≠ [] := fun e => by rw [e] at hmem; cases hmem
  obtain ⟨m, hm, hmm, hmax⟩ := mostCommon_spec hne
  -- `m` is the prefix text of one of the holder's notices, hence of the table
  obtain ⟨n', hn', hm'⟩ : ∃ n' ∈ ns, n'.shape.1 = m := by
    unfold prefixesFor at hmm
    obtain ⟨n', hn', e⟩ := List.mem_map.mp hmm
    exact ⟨n', (List.mem_filter.mp hn').1, e⟩
  have hshape := (hok n' hn').1
  have hin : m ∈ Generated.copyrightPrefixes.map (·.2) := by
    rw [htab, ← hm']; exact List.mem_map.mpr ⟨_, hshape, rfl⟩
  obtain ⟨kv0, hkv0, hkv0'⟩ := List.mem_map.mp hin
  have hsome : (Generated.copyrightPrefixes.find? (·.2 == m)).isSome = true := by
    rw [List.find?_isSome]; exact ⟨kv0, hkv0, by simp [hkv0']⟩
  obtain ⟨kv, hkv⟩ := Option.isSome_iff_exists.mp hsome
  have hkv2 : kv.2 = m := by simpa using List.find?_some hkv
  refine ⟨n'.shape, hshape, ?_, hm' ▸ hmm, hm' ▸ hmax⟩
  unfold prefixFor
  simp only [prefixes_notices, hm, Option.getD_some, hkv, hkv2, hm']

theorem lineFor_built (parsed : List Parsed) (h : Text) :
    lineFor parsed h = builtLine (prefixFor parsed h) (mergedForm (yearsOf parsed h)) h := by
  unfold lineFor builtLine
  rw [mergedForm_text]
  cases mergedYear (yearsOf parsed h) <;> rfl

/-- the line of holder `n.holder` in the merged output is a `MergedLine` -/
theorem lineFor_merged (endRe : Re) (hrb : ReadBack endRe) (ns : List Notice) (hok : ∀ n ∈ ns, n.ok endRe)
    (htab : Generated.copyrightPrefixes.map (·.2) = prefixShapes.map (·.1)) (n : Notice) (hn : n ∈ ns) :
    MergedLine endRe ns n.holder (lineFor (ns.map Notice.parsed) n.holder) := by
  obtain ⟨px, hpx, hpf, hmem, hmax⟩ := prefixFor_notices endRe ns hok n hn htab
  have hwf := mergedForm_wf _ (statedFor_fourDigits endRe ns hok n.holder)
  obtain ⟨_, _, h3, h4⟩ := hok n hn
  have hline : lineFor (ns.map Notice.parsed) n.holder = builtLine px.1 (mergedForm (statedFor ns n.holder)) n.holder := by
    rw [lineFor_built, hpf, yearsOf_notices]
  refine ⟨px, hpx, mergedForm (statedFor ns n.holder), hwf, hline, ?_, parseYear_text _ hwf, hmem, hmax,
    mergedForm_spec _⟩
  rw [hline]
  exact hrb px hpx _ hwf n.holder h3 h4

end Model
