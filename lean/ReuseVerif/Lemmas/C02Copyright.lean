/-
C02 (general form) — the copyright half of `extract_reuse_info` on a text of lines: the reader works per
`str.splitlines` line, so a text of break-free lines yields, in order, what each line yields.
-/
import ReuseVerif.Spec.TagsGeneral
import ReuseVerif.Lemmas.C07Achievable
import ReuseVerif.Lemmas.C09Lines

namespace C02L
open Py Model Spec C07A

theorem filterMap_congr' {α β : Type} {f g : α → Option β} {l : List α} (h : ∀ x ∈ l, f x = g x) :
    l.filterMap f = l.filterMap g := by
  induction l with
  | nil => rfl
  | cons a as ih =>
    simp only [List.filterMap_cons, h a (by simp), ih fun x hx => h x (by simp [hx])]

/-- the notices found line by line, for any END expression (`Model.cprLines` is the instance for the generated one) -/
def cprLinesWith (endRe : Re) (t : Text) : List Text :=
  (splitLines t).filterMap fun l => (searchLineWith endRe l).map fun m => strip m.whole

theorem cprLinesWith_generated (t : Text) : cprLinesWith Generated.endRe t = cprLines t := rfl

theorem extractRawWith_cpr (endRe : Re) (t : Text) :
    (extractRawWith endRe t).cpr = dedup (cprLinesWith endRe (filterIgnore t)) := rfl

theorem searchLine_nil (endRe : Re) : searchLineWith endRe [] = none := by
  unfold searchLineWith
  simp [searchPat_nil]

/-- **The notices of a text of break-free lines**: what each line yields, in order. -/
theorem cprLines_join (endRe : Re) (P : List Text) (hnb : ∀ l ∈ P, noBreakB l = true) :
    cprLinesWith endRe (join ['\n'] P) =
      P.filterMap fun l => (searchLineWith endRe l).map fun m => strip m.whole := by
  unfold cprLinesWith
  exact splitLines_filterMap_join _ (by simp [searchLine_nil]) P (fun l hl => noBreak_of_B (hnb l hl))

/-- a line in which no head of a copyright pattern occurs holds no notice -/
theorem searchPat_headFree (endRe : Re) (p : CPat) (l : Text) (h : headFree l = true) : searchPat endRe p l = none := by
  induction l with
  | nil => exact searchPat_nil endRe p
  | cons c cs ih =>
    simp only [headFree, Bool.and_eq_true, Option.isNone_iff_eq_none] at h
    obtain ⟨⟨⟨h1, h2⟩, h3⟩, h4⟩ := h
    have : eatHead p (c :: cs) = none := by cases p <;> assumption
    rw [searchPat, Model.matchAt_none_of_head this]
    exact ih h4

theorem noticeFree_of_headFree (endRe : Re) (l : Text) (h : headFree l = true) : noticeFree endRe l = true := by
  unfold noticeFree searchLineWith
  simp [searchPat_headFree endRe _ l h]

theorem cprLine_text_noBreak (endRe : Re) (l : CprLine) (h : l.ok endRe = true) : noBreakB l.text = true := by
  cases l with
  | other t => exact h
  | notice x y hh pre trail =>
    simp only [CprLine.ok, Bool.and_eq_true] at h
    exact h.2

/-- the generic step: when every line yields what is expected of it, so does the text -/
theorem cprLines_text (endRe : Re) (ls : List CprLine) (hok : ∀ l ∈ ls, l.ok endRe = true)
    (hread : ∀ l ∈ ls, (searchLineWith endRe l.text).map (fun m => strip m.whole) = l.found endRe) :
    cprLinesWith endRe (cprTextOf ls) = ls.filterMap (·.found endRe) := by
  unfold cprTextOf
  rw [cprLines_join endRe _ (by
    intro t ht
    obtain ⟨l, hl, rfl⟩ := List.mem_map.mp ht
    exact cprLine_text_noBreak endRe l (hok l hl))]
  rw [List.filterMap_map]
  apply filterMap_congr'
  intro l hl
  exact hread l hl

theorem found_eq_planted (endRe : Re) (ls : List CprLine) (hq : ∀ l ∈ ls, l.quietOther endRe = true) :
    ls.filterMap (·.found endRe) = ls.filterMap (·.planted) := by
  apply filterMap_congr'
  intro l hl
  cases l with
  | other t =>
    have : noticeFree endRe t = true := hq _ hl
    unfold noticeFree at this
    simp only [Option.isNone_iff_eq_none] at this
    simp [CprLine.found, CprLine.planted, this]
  | notice x y h pre trail => rfl

/-! ### purely syntactic END conditions for a notice -/

theorem wfHolder_split (endRe : Re) (h : Text) : WFHolder endRe h = (holderHead h && noEndSuffix endRe h) := by
  cases h with
  | nil => rfl
  | cons c cs => simp [WFHolder, holderHead, Bool.and_assoc]

theorem wfNotice_of_syn (endRe : Re) (x : Text × CPat × Text) (y : YearForm) (h pre trail : Text) (pieces : List Text)
    (hs : WFNoticeSyn endRe x y h pre trail pieces = true) : WFNotice endRe x y h pre trail = true := by
  unfold WFNoticeSyn at hs
  simp only [Bool.and_eq_true, Bool.not_eq_true', beq_iff_eq] at hs
  obtain ⟨⟨⟨⟨⟨⟨⟨⟨hp, htr⟩, hy⟩, hh⟩, hnl⟩, hsafe⟩, hword⟩, hstart⟩, hearlier⟩ := hs
  cases hb : starBody endRe with
  | none => rw [hb] at hp; cases hp
  | some body =>
    rw [hb] at hp
    simp only [List.all_eq_true] at hp
    have he : endAccepts endRe trail = true := by
      rw [Model.starBody_eq hb, htr]; exact Model.endAccepts_pieces body pieces hp
    have h1 := noEndSuffixC_of_tailSafe endRe h trail hnl hsafe
    have h2 := noEndSuffix_of_tailSafe_holder endRe h hnl hsafe
    unfold WFNotice
    rw [wfHolder_split]
    simp only [Bool.and_eq_true, Bool.not_eq_true']
    exact ⟨⟨⟨⟨⟨⟨hy, hh, h2⟩, he⟩, h1⟩, hword⟩, hstart⟩, hearlier⟩

end C02L
