/-
C09 (full-file step) with `--merge-copyrights`, and the raw transfer every step makes: what the old text declares is
declared by the new text or stood in the replaced block; what the new block declares is declared by the new text.
-/
import ReuseVerif.Lemmas.C09Step
import ReuseVerif.Theorems.C20
import ReuseVerif.Lemmas.History
import ReuseVerif.Lemmas.C10OrderSort

namespace C09L
open Py Model Spec C08L C10L

/-- the hypotheses of a step that do not speak about `--merge-copyrights` -/
structure StepHyps (norm : Text → Text) (o : Op) (t t' : Text) : Prop where
  hn : o.c.normLic = norm
  hidem : ∀ x, norm (norm x) = norm x
  hstyle : styleOK o t = true
  hno : NoExoticBreaks t
  hns : noIgnoreStart t = true
  hns' : noIgnoreStart t' = true
  hseam : seamOK o t = true

theorem StepHyps.of_full {norm : Text → Text} {o : Op} {t t' : Text}
    (hw : annotateText o.c o.replace o.skipExisting o.info t = .written t') (hg : stepGoodFull norm o t) :
    StepHyps norm o t t' ∧ o.c.merge = false := by
  obtain ⟨hn, hidem, hmerge, hstyle, hno, hns, hns', hseam⟩ := hg t' hw
  exact ⟨⟨hn, hidem, hstyle, hno, hns, hns', hseam⟩, hmerge⟩

theorem StepHyps.of_merge {norm : Text → Text} {o : Op} {t t' : Text}
    (hw : annotateText o.c o.replace o.skipExisting o.info t = .written t') (hg : stepGoodMerge norm o t) :
    StepHyps norm o t t' ∧ o.c.merge = true := by
  obtain ⟨hn, hidem, hmerge, hstyle, hno, hns, hns', hseam⟩ := hg t' hw
  exact ⟨⟨hn, hidem, hstyle, hno, hns, hns', hseam⟩, hmerge⟩

/-- **The transfer.**  One successful step, whatever the template and whether or not notices are merged: every notice,
    expression and contributor of the old text is in the new text or stood in the replaced block; everything the new block
    holds is in the new text. -/
theorem step_transfer {norm : Text → Text} {o : Op} {t t' : Text}
    (hw : annotateText o.c o.replace o.skipExisting o.info t = .written t') (h : StepHyps norm o t t') :
    ∃ hdr, createHeader o.c o.info (sectionsOf o.c o.replace t).2.1 = .ok hdr ∧
      (∀ x ∈ (extractRaw t).cpr, x ∈ (extractRaw t').cpr ∨ x ∈ (extractRaw (sectionsOf o.c o.replace t).2.1).cpr) ∧
      (∀ x ∈ (extractRaw hdr).cpr, x ∈ (extractRaw t').cpr) ∧
      (∀ x ∈ (extractRaw t).lic, x ∈ (extractRaw t').lic ∨ x ∈ (extractRaw (sectionsOf o.c o.replace t).2.1).lic) ∧
      (∀ x ∈ (extractRaw hdr).lic, x ∈ (extractRaw t').lic) ∧
      (∀ x ∈ (extractRaw t).con, x ∈ (extractRaw t').con ∨ x ∈ (extractRaw (sectionsOf o.c o.replace t).2.1).con) ∧
      (∀ x ∈ (extractRaw hdr).con, x ∈ (extractRaw t').con) := by
  obtain ⟨hdr, hcr, ht'⟩ := annotate_sections hw h.hno
  obtain ⟨hc, ho1, ho2, ho3⟩ := seamOK_parts h.hseam hcr
  have hs := sections_ok o t h.hstyle h.hno
  have hnsT : findSub Generated.ignoreStart t = none := by
    have := h.hns; unfold noIgnoreStart at this; simpa using this
  have hnsT' : findSub Generated.ignoreStart t' = none := by
    have := h.hns'; unfold noIgnoreStart at this; simpa using this
  have hnsH := noIgnore_block hs h.hns
  have hnsHdr : findSub Generated.ignoreStart hdr = none := noIgnore_placed (by rw [← ht']; exact h.hns')
  have hokh : (sectionsOf o.c o.replace t).2.1 = [] ∨ ∃ h0, (sectionsOf o.c o.replace t).2.1 = h0 ++ ['\n'] ∧ True := by
    rcases lineEnded_iff.mp (sections_block hs) with h | ⟨u, hu⟩
    · exact .inl h
    · exact .inr ⟨u, hu, trivial⟩
  have hsC := sections_for (F := cprLines) hs (fun hn => eq_nil_of_mem_iff (fun x => mem_extractRaw_cpr hnsT) hn.1)
  obtain ⟨c1, c2⟩ := step_pieces cpr_piecewise (hdr := hdr) (!(sectionsOf o.c o.replace t).2.1.isEmpty) hsC hc trivial hokh trivial
  rw [← ht'] at c1 c2
  obtain ⟨l1, l2⟩ := step_tag lic_piecewise h.hstyle h.hno
    (fun hn => eq_nil_of_mem_iff (fun x => mem_extractRaw_lic hnsT) hn.2.1) ht' hc ho1 ho2 ho3
  obtain ⟨n1, n2⟩ := step_tag con_piecewise h.hstyle h.hno
    (fun hn => eq_nil_of_mem_iff (fun x => mem_extractRaw_con hnsT) hn.2.2) ht' hc ho1 ho2 ho3
  refine ⟨hdr, hcr, ?_, ?_, ?_, ?_, ?_, ?_⟩
  · intro x hx
    rcases c1 x ((mem_extractRaw_cpr hnsT).mp hx) with h | h
    · exact .inl ((mem_extractRaw_cpr hnsT').mpr h)
    · exact .inr ((mem_extractRaw_cpr hnsH).mpr h)
  · exact fun x hx => (mem_extractRaw_cpr hnsT').mpr (c2 x ((mem_extractRaw_cpr hnsHdr).mp hx))
  · intro x hx
    rcases l1 x ((mem_extractRaw_lic hnsT).mp hx) with h | h
    · exact .inl ((mem_extractRaw_lic hnsT').mpr h)
    · exact .inr ((mem_extractRaw_lic hnsH).mpr h)
  · exact fun x hx => (mem_extractRaw_lic hnsT').mpr (l2 x ((mem_extractRaw_lic hnsHdr).mp hx))
  · intro x hx
    rcases n1 x ((mem_extractRaw_con hnsT).mp hx) with h | h
    · exact .inl ((mem_extractRaw_con hnsT').mpr h)
    · exact .inr ((mem_extractRaw_con hnsH).mpr h)
  · exact fun x hx => (mem_extractRaw_con hnsT').mpr (n2 x ((mem_extractRaw_con hnsHdr).mp hx))

/-! ### what `create_header` puts into the block, with or without merging -/

theorem extractRaw_nil_lic : (extractRaw ([] : Text)).lic = [] := by
  have h := lic_piecewise.nil
  unfold extractRaw extractRawWith
  simp only [filterIgnore_id (t := []) (by decide)]
  have : findSpdxTagWith Generated.endRe Generated.licenseTag [] = [] := h
  rw [this]; rfl

theorem extractRaw_nil_cpr : (extractRaw ([] : Text)).cpr = [] := by
  apply List.eq_nil_iff_forall_not_mem.mpr
  intro x hx
  rw [mem_extractRaw_cpr (by decide), cprLines_blank [] (by decide)] at hx
  cases hx

/-- licence expressions: the new block holds (as normalised) the requested ones and those of the old block -/
theorem createHeader_lic {c : HdrCfg} {info : Extracted} {header h : Text}
    (hnorm : ∀ x, c.normLic (c.normLic x) = c.normLic x) (hok : createHeader c info header = .ok h) (x : Text)
    (hx : x ∈ info.lic ∨ x ∈ (extractRaw header).lic) : c.normLic x ∈ (extractRaw h).lic.map c.normLic := by
  by_cases he : header = []
  · subst he
    rw [extractRaw_nil_lic] at hx
    have hx' : x ∈ info.lic := by
      rcases hx with h1 | h1
      · exact h1
      · cases h1
    unfold createHeader at hok
    simp only [List.isEmpty_nil, if_true] at hok
    have hg := (createNewHeader_ok hok).2
    unfold guardOk at hg
    simp only [Bool.and_eq_true] at hg
    have h2 := sameSet_iff.mp hg.2.1.2 (c.normLic x)
    apply h2.mp
    cases c.merge <;> exact List.mem_map_of_mem hx'
  · unfold createHeader at hok
    have he' : header.isEmpty = false := by cases header <;> simp_all
    simp only [he', Bool.false_eq_true, if_false] at hok
    by_cases hp : (extractRaw header).lic.all c.parses = true
    · simp only [hp, Bool.not_true, Bool.false_eq_true, if_false] at hok
      generalize (if c.merge = true then mergeLines (unionTexts info.cpr (extractRaw header).cpr)
        else unionTexts info.cpr (extractRaw header).cpr) = X at hok
      have hok' : createNewHeader c
          { lic := dedup (((extractRaw header).lic ++ info.lic).map c.normLic),
            con := unionTexts (extractRaw header).con info.con, cpr := X } = .ok h := hok
      have hg := (createNewHeader_ok hok').2
      unfold guardOk at hg
      simp only [Bool.and_eq_true] at hg
      have h2 := sameSet_iff.mp hg.2.1.2
      rw [← h2 (c.normLic x)]
      simp only [List.mem_map, mem_dedup, List.mem_append]
      exact ⟨c.normLic x, ⟨x, hx.symm, rfl⟩, hnorm x⟩
    · simp only [hp, Bool.not_false, if_true] at hok
      cases hok

/-- with `--merge-copyrights` the new block holds exactly the merged lines of the pool -/
theorem createHeader_merged {c : HdrCfg} {info : Extracted} {header h : Text} (hmerge : c.merge = true)
    (hok : createHeader c info header = .ok h) (x : Text) :
    x ∈ mergeLines (if header.isEmpty then info.cpr else unionTexts info.cpr (extractRaw header).cpr) ↔
      x ∈ (extractRaw h).cpr := by
  by_cases he : header = []
  · subst he
    unfold createHeader at hok
    simp only [List.isEmpty_nil, if_true, hmerge] at hok ⊢
    have hg := (createNewHeader_ok hok).2
    unfold guardOk at hg
    simp only [Bool.and_eq_true] at hg
    exact sameSet_iff.mp hg.2.1.1 x
  · unfold createHeader at hok
    have he' : header.isEmpty = false := by cases header <;> simp_all
    simp only [he', Bool.false_eq_true, if_false] at hok ⊢
    by_cases hp : (extractRaw header).lic.all c.parses = true
    · simp only [hp, Bool.not_true, Bool.false_eq_true, if_false, hmerge, if_true] at hok
      have hok' : createNewHeader c
          { lic := dedup (((extractRaw header).lic ++ info.lic).map c.normLic),
            con := unionTexts (extractRaw header).con info.con,
            cpr := mergeLines (unionTexts info.cpr (extractRaw header).cpr) } = .ok h := hok
      have hg := (createNewHeader_ok hok').2
      unfold guardOk at hg
      simp only [Bool.and_eq_true] at hg
      exact sameSet_iff.mp hg.2.1.1 x
    · simp only [hp, Bool.not_false, if_true] at hok
      cases hok

theorem mem_mergePool {o : Op} {t l : Text} :
    l ∈ mergePool o t ↔ l ∈ o.info.cpr ∨ l ∈ (extractRaw (sectionsOf o.c o.replace t).2.1).cpr := by
  unfold mergePool
  rw [(C10Order.sortTexts_perm _).mem_iff]
  by_cases he : (sectionsOf o.c o.replace t).2.1.isEmpty = true
  · simp only [he, if_true]
    have : (sectionsOf o.c o.replace t).2.1 = [] := List.isEmpty_iff.mp he
    rw [this, extractRaw_nil_cpr]; simp
  · simp only [he, Bool.false_eq_true, if_false, mem_unionTexts]

/-- licence expressions over one step, merging or not -/
theorem step_lic {norm : Text → Text} {o : Op} {t t' : Text}
    (hw : annotateText o.c o.replace o.skipExisting o.info t = .written t') (h : StepHyps norm o t t') (x : Text)
    (hx : x ∈ (extractRaw t).lic ∨ x ∈ o.info.lic) : norm x ∈ (extractRaw t').lic.map norm := by
  obtain ⟨hdr, hcr, _, _, l1, l2, _, _⟩ := step_transfer hw h
  have hfromHdr : norm x ∈ (extractRaw hdr).lic.map norm → norm x ∈ (extractRaw t').lic.map norm := by
    intro hx
    obtain ⟨v, hv, hvx⟩ := List.mem_map.mp hx
    exact List.mem_map.mpr ⟨v, l2 v hv, hvx⟩
  have hl := createHeader_lic (by rw [h.hn]; exact h.hidem) hcr x
  rw [h.hn] at hl
  rcases hx with hx | hx
  · rcases l1 x hx with h1 | h1
    · exact List.mem_map_of_mem h1
    · exact hfromHdr (hl (.inr h1))
  · exact hfromHdr (hl (.inl hx))

/-! ### holders and years, as the reader sees them -/

theorem mem_holdersOf {cprs : List Text} {s : Text} :
    s ∈ holdersOf cprs ↔ ∃ l ∈ cprs, ∃ m, searchLine l = some m ∧ m.statement = s := by
  unfold holdersOf parseLines
  simp only [List.mem_map, List.mem_filterMap, Option.map_eq_some_iff]
  constructor
  · rintro ⟨x, ⟨l, hl, m, hm, rfl⟩, rfl⟩
    exact ⟨l, hl, m, hm, rfl⟩
  · rintro ⟨l, hl, m, hm, rfl⟩
    exact ⟨_, ⟨l, hl, m, hm, rfl⟩, rfl⟩

theorem mem_yearsIn {cprs : List Text} {s z : Text} :
    z ∈ yearsIn cprs s ↔ ∃ l ∈ cprs, ∃ m, searchLine l = some m ∧ m.statement = s ∧ z ∈ parseYear m.year := by
  unfold yearsIn yearsOf parseLines
  simp only [List.mem_flatMap, List.mem_filter, List.mem_filterMap, Option.map_eq_some_iff, beq_iff_eq]
  constructor
  · rintro ⟨x, ⟨⟨l, hl, m, hm, rfl⟩, hs⟩, hz⟩
    exact ⟨l, hl, m, hm, hs, hz⟩
  · rintro ⟨l, hl, m, hm, hs, hz⟩
    exact ⟨_, ⟨⟨l, hl, m, hm, rfl⟩, hs⟩, hz⟩

theorem yearCovered_self {cprs : List Text} {s z : Text} (h : z ∈ yearsIn cprs s) : YearCovered cprs s z :=
  ⟨z, h, z, h, Nat.le_refl _, Nat.le_refl _⟩

theorem yearCoveredB_iff {cprs : List Text} {s z : Text} : yearCoveredB cprs s z = true ↔ YearCovered cprs s z := by
  unfold yearCoveredB YearCovered
  simp only [List.any_eq_true, Bool.and_eq_true, decide_eq_true_eq]

/-- what `mergeReadsBack` says about the merged line of a holder of the pool -/
theorem mergeReadsBack_spec {o : Op} {t l : Text} {m : CMatch} (h : mergeReadsBack o t = true)
    (hl : l ∈ mergePool o t) (hm : searchLine l = some m) :
    ∃ m', searchLine (lineFor (parseLines Generated.endRe (mergePool o t)) m.statement) = some m' ∧
      m'.statement = m.statement ∧
      parseYear m'.year = endYears (yearsOf (parseLines Generated.endRe (mergePool o t)) m.statement) := by
  unfold mergeReadsBack at h
  simp only [List.all_eq_true] at h
  have hx : (m.statement, parseYear m.year, m.pref) ∈ parseLines Generated.endRe (mergePool o t) := by
    unfold parseLines
    simp only [List.mem_filterMap]
    exact ⟨l, hl, by rw [show searchLineWith Generated.endRe l = searchLine l from rfl, hm]; rfl⟩
  have := h _ hx
  simp only at this
  split at this
  · rename_i m' hm'
    simp only [Bool.and_eq_true, beq_iff_eq] at this
    exact ⟨m', hm', this.1, this.2⟩
  · cases this

/-- the ends of the merged range bound every year stated for the holder -/
theorem endYears_cover {ys : List Text} {z : Text} (hz : z ∈ ys) :
    ∃ a ∈ endYears ys, ∃ b ∈ endYears ys, yearVal a ≤ yearVal z ∧ yearVal z ≤ yearVal b := by
  have hne : ys ≠ [] := by rintro rfl; cases hz
  unfold endYears
  cases hlo : yearMin ys with
  | none => have := yearMin_isSome hne; rw [hlo] at this; cases this
  | some lo =>
    cases hhi : yearMax ys with
    | none => have := yearMax_isSome hne; rw [hhi] at this; cases this
    | some hi =>
      have h1 := yearMin_le hlo z hz
      have h2 := yearMax_ge hhi z hz
      simp only
      by_cases he : (yearVal lo == yearVal hi) = true
      · simp only [he, if_true, List.mem_singleton]
        have : yearVal lo = yearVal hi := by simpa using he
        exact ⟨lo, rfl, lo, rfl, h1, by omega⟩
      · simp only [he, Bool.false_eq_true, if_false, List.mem_cons, List.not_mem_nil, or_false]
        exact ⟨lo, .inl rfl, hi, .inr rfl, h1, h2⟩

/-! ### one step with `--merge-copyrights` -/

/-- **One merging step, the whole file.** -/
theorem step_merge {norm : Text → Text} {o : Op} {t t' : Text}
    (hw : annotateText o.c o.replace o.skipExisting o.info t = .written t') (hg : stepGoodMerge norm o t) :
    (∀ x, x ∈ (extractRaw t).lic ∨ x ∈ o.info.lic → norm x ∈ (extractRaw t').lic.map norm) ∧
    (∀ x ∈ (extractRaw t).cpr, x ∈ (extractRaw t').cpr ∨ x ∈ (extractRaw (sectionsOf o.c o.replace t).2.1).cpr) ∧
    (∀ l m, l ∈ mergePool o t → searchLine l = some m →
      lineFor (parseLines Generated.endRe (mergePool o t)) m.statement ∈ (extractRaw t').cpr ∧
      m.statement <:+ lineFor (parseLines Generated.endRe (mergePool o t)) m.statement) := by
  obtain ⟨h, hmerge⟩ := StepHyps.of_merge hw hg
  obtain ⟨hdr, hcr, c1, c2, _, _, _, _⟩ := step_transfer hw h
  refine ⟨fun x hx => step_lic hw h x hx, c1, fun l m hl hm => ?_⟩
  have := C20.C20_merge_no_holder_lost Generated.endRe (mergePool o t) l m hl hm
  refine ⟨c2 _ ((createHeader_merged hmerge hcr _).mp ?_), this.2⟩
  exact this.1

theorem holdersOf_mono {A B : List Text} (h : ∀ x ∈ A, x ∈ B) {s : Text} (hs : s ∈ holdersOf A) : s ∈ holdersOf B := by
  obtain ⟨l, hl, m, hm, he⟩ := mem_holdersOf.mp hs
  exact mem_holdersOf.mpr ⟨l, h l hl, m, hm, he⟩

theorem yearsIn_mono {A B : List Text} (h : ∀ x ∈ A, x ∈ B) {s z : Text} (hz : z ∈ yearsIn A s) : z ∈ yearsIn B s := by
  obtain ⟨l, hl, m, hm, he, hy⟩ := mem_yearsIn.mp hz
  exact mem_yearsIn.mpr ⟨l, h l hl, m, hm, he, hy⟩

/-- **One step of either kind**: licences, holders, years. -/
theorem step_any {norm : Text → Text} {o : Op} {t t' : Text}
    (hw : annotateText o.c o.replace o.skipExisting o.info t = .written t')
    (hg : stepGoodFull norm o t ∨ (stepGoodMerge norm o t ∧ mergeReadsBack o t = true)) :
    (∀ x, x ∈ (extractRaw t).lic ∨ x ∈ o.info.lic → norm x ∈ (extractRaw t').lic.map norm) ∧
    (∀ s, s ∈ holdersOf ((extractRaw t).cpr ++ o.info.cpr) → s ∈ holdersOf (extractRaw t').cpr) ∧
    (∀ s z, z ∈ yearsIn ((extractRaw t).cpr ++ o.info.cpr) s → YearCovered (extractRaw t').cpr s z) := by
  rcases hg with hg | ⟨hg, hrb⟩
  · have hd := step_declares hw hg
    refine ⟨fun x hx => hd.2 x (List.mem_append.mpr hx), fun s hs => holdersOf_mono hd.1 hs,
      fun s z hz => yearCovered_self (yearsIn_mono hd.1 hz)⟩
  · obtain ⟨hl, hc, hm⟩ := step_merge hw hg
    -- a notice of the old text or of the request: kept verbatim, or merged
    have hcase : ∀ l, l ∈ (extractRaw t).cpr ++ o.info.cpr → l ∈ (extractRaw t').cpr ∨ l ∈ mergePool o t := by
      intro l hl
      rcases List.mem_append.mp hl with h1 | h1
      · rcases hc l h1 with h2 | h2
        · exact .inl h2
        · exact .inr (mem_mergePool.mpr (.inr h2))
      · exact .inr (mem_mergePool.mpr (.inl h1))
    refine ⟨hl, fun s hs => ?_, fun s z hz => ?_⟩
    · obtain ⟨l, hl', m, hm', he⟩ := mem_holdersOf.mp hs
      rcases hcase l hl' with h1 | h1
      · exact mem_holdersOf.mpr ⟨l, h1, m, hm', he⟩
      · obtain ⟨m', hm2, hst, _⟩ := mergeReadsBack_spec hrb h1 hm'
        exact mem_holdersOf.mpr ⟨_, (hm l m h1 hm').1, m', hm2, by rw [hst, he]⟩
    · obtain ⟨l, hl', m, hm', he, hy⟩ := mem_yearsIn.mp hz
      rcases hcase l hl' with h1 | h1
      · exact yearCovered_self (mem_yearsIn.mpr ⟨l, h1, m, hm', he, hy⟩)
      · obtain ⟨m', hm2, hst, hyr⟩ := mergeReadsBack_spec hrb h1 hm'
        have hzp : z ∈ yearsOf (parseLines Generated.endRe (mergePool o t)) m.statement :=
          mem_yearsIn.mpr ⟨l, h1, m, hm', rfl, hy⟩
        obtain ⟨a, ha, b, hb, h2, h3⟩ := endYears_cover hzp
        rw [← hyr] at ha hb
        have hL := (hm l m h1 hm').1
        exact ⟨a, mem_yearsIn.mpr ⟨_, hL, m', hm2, by rw [hst, he], ha⟩,
          b, mem_yearsIn.mpr ⟨_, hL, m', hm2, by rw [hst, he], hb⟩, h2, h3⟩

theorem mem_holdersOf_append {A B : List Text} {s : Text} : s ∈ holdersOf (A ++ B) ↔ s ∈ holdersOf A ∨ s ∈ holdersOf B := by
  simp only [mem_holdersOf, List.mem_append]
  constructor
  · rintro ⟨l, hl | hl, m, hm, he⟩
    · exact .inl ⟨l, hl, m, hm, he⟩
    · exact .inr ⟨l, hl, m, hm, he⟩
  · rintro (⟨l, hl, m, hm, he⟩ | ⟨l, hl, m, hm, he⟩)
    · exact ⟨l, .inl hl, m, hm, he⟩
    · exact ⟨l, .inr hl, m, hm, he⟩

theorem mem_yearsIn_append {A B : List Text} {s z : Text} : z ∈ yearsIn (A ++ B) s ↔ z ∈ yearsIn A s ∨ z ∈ yearsIn B s := by
  simp only [mem_yearsIn, List.mem_append]
  constructor
  · rintro ⟨l, hl | hl, m, hm, he, hy⟩
    · exact .inl ⟨l, hl, m, hm, he, hy⟩
    · exact .inr ⟨l, hl, m, hm, he, hy⟩
  · rintro (⟨l, hl, m, hm, he, hy⟩ | ⟨l, hl, m, hm, he, hy⟩)
    · exact ⟨l, .inl hl, m, hm, he, hy⟩
    · exact ⟨l, .inr hl, m, hm, he, hy⟩

/-- **A history of steps of either kind.** -/
theorem history_any {norm : Text → Text} (t : Text) (ops : List Op) (hg : GoodRunAny norm t ops) :
    (∀ x, x ∈ (extractRaw t).lic ∨ x ∈ (accumulated t ops).2 → norm x ∈ (extractRaw (run t ops)).lic.map norm) ∧
    (∀ s, s ∈ holdersOf ((extractRaw t).cpr ++ (accumulated t ops).1) → s ∈ holdersOf (extractRaw (run t ops)).cpr) ∧
    (∀ s z, z ∈ yearsIn ((extractRaw t).cpr ++ (accumulated t ops).1) s → YearCovered (extractRaw (run t ops)).cpr s z) := by
  induction hg with
  | nil t =>
    refine ⟨fun x hx => ?_, fun s hs => ?_, fun s z hz => ?_⟩
    · rcases hx with h | h
      · exact List.mem_map_of_mem h
      · cases h
    · simpa [accumulated, run] using hs
    · exact yearCovered_self (by simpa [accumulated, run] using hz)
  | cons t o os hstep _ ih =>
    rw [run_cons]
    unfold accumulated
    cases hw : annotateText o.c o.replace o.skipExisting o.info t with
    | written t' =>
      have hst : stepText t o = t' := by unfold stepText; rw [hw]
      rw [hst] at ih ⊢
      simp only
      obtain ⟨sl, sh, sy⟩ := step_any hw hstep
      obtain ⟨il, ih', iy⟩ := ih
      refine ⟨fun x hx => ?_, fun s hs => ?_, fun s z hz => ?_⟩
      · have h1 : (x ∈ (extractRaw t).lic ∨ x ∈ o.info.lic) ∨ x ∈ (accumulated t' os).2 := by
          rcases hx with h | h
          · exact .inl (.inl h)
          · rcases List.mem_append.mp h with h | h
            · exact .inl (.inr h)
            · exact .inr h
        rcases h1 with h | h
        · obtain ⟨v, hv, hvx⟩ := List.mem_map.mp (sl x h)
          rw [← hvx]; exact il v (.inl hv)
        · exact il x (.inr h)
      · rw [← List.append_assoc, mem_holdersOf_append] at hs
        rcases hs with h | h
        · exact ih' s (mem_holdersOf_append.mpr (.inl (sh s h)))
        · exact ih' s (mem_holdersOf_append.mpr (.inr h))
      · rw [← List.append_assoc, mem_yearsIn_append] at hz
        rcases hz with h | h
        · obtain ⟨a, ha, b, hb, h1, h2⟩ := sy s z h
          obtain ⟨a1, ha1, _, _, h3, _⟩ := iy s a (mem_yearsIn_append.mpr (.inl ha))
          obtain ⟨_, _, b2, hb2, _, h4⟩ := iy s b (mem_yearsIn_append.mpr (.inl hb))
          exact ⟨a1, ha1, b2, hb2, by omega, by omega⟩
        · exact iy s z (mem_yearsIn_append.mpr (.inr h))
    | skipped =>
      have hst : stepText t o = t := by unfold stepText; rw [hw]
      rw [hst] at ih ⊢
      exact ih
    | failed e =>
      have hst : stepText t o = t := by unfold stepText; rw [hw]
      rw [hst] at ih ⊢
      exact ih

end C09L
