/-
Lemmas about the tag reader (`Model/Tags.lean`) for C02: the regular-expression part
(`findTagInLine`, `valueAndRestWith`, `findAllWith`) on a physical tag line.
-/
import ReuseVerif.Spec.Tags
import ReuseVerif.Lemmas.Re

namespace Model
open Py Spec

theorem noNewline_cons {c : Char} {cs : Text} (h : noNewline (c :: cs) = true) :
    (c == '\n') = false ∧ noNewline cs = true := by
  simp only [noNewline, List.all_cons, Bool.and_eq_true, bne_iff_ne, ne_eq] at h
  exact ⟨by simpa using h.1, h.2⟩

theorem noNewline_mem {s : Text} (h : noNewline s = true) : '\n' ∉ s := by
  intro hm
  simp only [noNewline, List.all_eq_true, bne_iff_ne, ne_eq] at h
  exact h _ hm rfl

theorem noNewline_of_not_mem {s : Text} (h : '\n' ∉ s) : noNewline s = true := by
  simp only [noNewline, List.all_eq_true, bne_iff_ne, ne_eq]
  intro c hc e; subst e; exact h hc

/-- `^(.*?)TAG[ \t]`: the first `TAG[ \t]` of the line is the one found -/
theorem findTagInLine_hit (tag pre rest : Text) (hpre : noNewline pre = true)
    (hno : noEarlierTag tag pre rest = true) (hhere : tagHere tag rest = true) :
    findTagInLine tag (pre ++ rest) = some (pre, rest.drop tag.length) := by
  induction pre with
  | nil =>
    cases rest with
    | nil => simp [tagHere] at hhere
    | cons c cs =>
      simp only [List.nil_append, findTagInLine]
      unfold tagHere at hhere
      simp only [hhere, if_true]
  | cons c cs ih =>
    simp only [noEarlierTag, Bool.and_eq_true, Bool.not_eq_true'] at hno
    obtain ⟨hc, hcs⟩ := noNewline_cons hpre
    have hno1 := hno.1
    unfold tagHere at hno1
    simp only [List.cons_append] at hno1
    show findTagInLine tag (c :: (cs ++ rest)) = _
    rw [findTagInLine, if_neg (by simp only [hno1]; exact Bool.false_ne_true), if_neg (by simp only [hc]; exact Bool.false_ne_true),
      ih hcs hno.2]
    rfl

theorem valueAndRest_nil {endRe : Re} {s r : Text} (h : matchEndWith endRe s = some r) :
    valueAndRestWith endRe s = some ([], r) := by
  cases s with
  | nil => simp [valueAndRestWith, h]
  | cons c cs => simp [valueAndRestWith, h]

/-- `(.*?)END$`: the shortest value is `w` when no non-empty tail of `w` can be read as
    terminators -/
theorem valueAndRest_exact (endRe : Re) (w tail r : Text) (hnl : noNewline w = true)
    (hno : noEndSuffixBefore endRe w tail = true) (hm : matchEndWith endRe tail = some r) :
    valueAndRestWith endRe (w ++ tail) = some (w, r) := by
  induction w with
  | nil => simpa using valueAndRest_nil hm
  | cons c cs ih =>
    simp only [noEndSuffixBefore, Bool.and_eq_true, Bool.not_eq_true', endOk] at hno
    obtain ⟨hc, hcs⟩ := noNewline_cons hnl
    have hnone : matchEndWith endRe (c :: (cs ++ tail)) = none := by
      have := hno.1
      simp only [List.cons_append] at this
      cases hx : matchEndWith endRe (c :: (cs ++ tail)) with
      | none => rfl
      | some y => simp [hx] at this
    simp only [List.cons_append, valueAndRestWith, hnone, hc, Bool.false_eq_true, if_false, ih hcs hno.2,
      Option.map_some]

theorem matchEnd_sound {endRe : Re} {s r : Text} (h : matchEndWith endRe s = some r) :
    ∃ a, s = a ++ r ∧ Re.Matches endRe a ∧ atLineEnd r = true := by
  unfold matchEndWith at h
  obtain ⟨a, b, hs, ha, hk⟩ := Re.btO_sound _ _ _ _ h
  by_cases hb : atLineEnd b = true
  · simp only [hb, if_true, Option.some.injEq] at hk
    subst hk
    exact ⟨a, hs, ha, hb⟩
  · simp [hb] at hk

theorem matchEnd_complete {endRe : Re} {a b : Text} (ha : Re.Matches endRe a) (hb : atLineEnd b = true) :
    (matchEndWith endRe (a ++ b)).isSome = true := by
  unfold matchEndWith
  apply Re.btO_complete ha
  simp [hb]

/-- a line end reached from inside `trail ++ le` is the end of the text (or its final "\n") -/
theorem rest_after_lineEnd {trail le a b : Text} (hs : trail ++ le = a ++ b) (htr : noNewline trail = true)
    (hle : isLineEnd le = true) (hb : atLineEnd b = true) : b.drop 1 = [] := by
  cases b with
  | nil => rfl
  | cons x xs =>
    have hx : x = '\n' := by simpa [atLineEnd] using hb
    subst hx
    have hnm := noNewline_mem htr
    simp only [isLineEnd, Bool.or_eq_true, beq_iff_eq] at hle
    rcases List.append_eq_append_iff.mp hs with ⟨a', h1, h2⟩ | ⟨c', h1, h2⟩
    · -- a = trail ++ a', le = a' ++ '\n' :: xs
      rcases hle with rfl | rfl
      · simp at h2
      · cases a' with
        | nil => simp at h2; simp [h2]
        | cons y ys =>
          have := congrArg List.length h2
          simp at this
    · -- trail = a ++ c', '\n' :: xs = c' ++ le
      cases c' with
      | nil =>
        rcases hle with rfl | rfl
        · simp at h2
        · simp at h2; simp [h2]
      | cons y ys =>
        simp only [List.cons_append, List.cons.injEq] at h2
        exfalso; apply hnm; rw [h1, ← h2.1]; simp

theorem findAllWith_nil (endRe : Re) (tag : Text) (fuel : Nat) : findAllWith endRe tag fuel [] = [] := by
  cases fuel <;> rfl

theorem findAllWith_step (endRe : Re) (tag : Text) (fuel : Nat) (s : Text) (hs : s ≠ []) :
    findAllWith endRe tag (fuel + 1) s =
      match findTagInLine tag s with
      | none => findAllWith endRe tag fuel (nextLine s)
      | some (pre, afterTag) =>
        match valueAndRestWith endRe (afterTag.dropWhile isBlank) with
        | none => findAllWith endRe tag fuel (nextLine s)
        | some (v, r) => (pre, v) :: findAllWith endRe tag fuel (r.drop 1) := by
  cases s with
  | nil => exact absurd rfl hs
  | cons c cs => rfl

theorem dropWhile_blanks (blanks rest : Text) (hb : blanks.all isBlank = true)
    (hr : (rest.head?.map (fun c => !isBlank c)).getD true = true) :
    (blanks ++ rest).dropWhile isBlank = rest := by
  induction blanks with
  | nil =>
    cases rest with
    | nil => rfl
    | cons c cs =>
      have : isBlank c = false := by simpa using hr
      simp [List.dropWhile_cons, this]
  | cons b bs ih =>
    simp only [List.all_cons, Bool.and_eq_true] at hb
    simp [List.dropWhile_cons, hb.1, ih hb.2]

theorem tagHere_intro (tag blanks rest : Text) (hne : blanks.isEmpty = false) (hb : blanks.all isBlank = true) :
    tagHere tag (tag ++ (blanks ++ rest)) = true := by
  unfold tagHere
  have h1 : tag.isPrefixOf (tag ++ (blanks ++ rest)) = true :=
    List.isPrefixOf_iff_prefix.mpr (List.prefix_append _ _)
  cases blanks with
  | nil => simp at hne
  | cons b bs =>
    simp only [List.all_cons, Bool.and_eq_true] at hb
    simp [h1, hb.1]

/-- The regular-expression part on one physical tag line: exactly one match, `(pre, w)`. -/
theorem findAll_line (endRe : Re) (tag pre blanks w trail le : Text) (fuel : Nat)
    (h : WFRaw endRe tag pre blanks w trail le = true) :
    findAllWith endRe tag (fuel + 1) (tagLine pre tag blanks w trail le) = [(pre, w)] := by
  unfold WFRaw WFShape at h
  simp only [Bool.and_eq_true, Bool.not_eq_true'] at h
  obtain ⟨⟨⟨⟨⟨⟨⟨⟨⟨hpre, hearlier⟩, hbne⟩, hball⟩, hwhead⟩, hwnl⟩, htrnl⟩, hle⟩, hend⟩, hsuf⟩ := h
  have hline : tagLine pre tag blanks w trail le = pre ++ (tag ++ (blanks ++ (w ++ (trail ++ le)))) := by
    simp [tagLine, List.append_assoc]
  have hrest : tag ++ blanks ++ w ++ trail ++ le = tag ++ (blanks ++ (w ++ (trail ++ le))) := by
    simp [List.append_assoc]
  rw [hrest] at hearlier
  have hne : pre ++ (tag ++ (blanks ++ (w ++ (trail ++ le)))) ≠ [] := by
    cases blanks with
    | nil => simp at hbne
    | cons b bs => simp
  rw [hline, findAllWith_step _ _ _ _ hne]
  rw [findTagInLine_hit tag pre _ hpre hearlier (tagHere_intro tag blanks _ hbne hball)]
  simp only [List.drop_left]
  have hwh : ((w ++ (trail ++ le)).head?.map (fun c => !isBlank c)).getD true = true := by
    cases w with
    | nil => simp at hwhead
    | cons c cs => simpa using hwhead
  rw [dropWhile_blanks blanks _ hball hwh]
  -- the value
  unfold endOk at hend
  cases hm : matchEndWith endRe (trail ++ le) with
  | none => simp [hm] at hend
  | some r =>
    rw [valueAndRest_exact endRe w (trail ++ le) r hwnl hsuf hm]
    obtain ⟨a, hs, _, hb⟩ := matchEnd_sound hm
    have := rest_after_lineEnd hs htrnl hle hb
    simp only [this, findAllWith_nil]

end Model
