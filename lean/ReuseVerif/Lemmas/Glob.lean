import ReuseVerif.Lemmas.Re
import ReuseVerif.Model.Glob
import ReuseVerif.Spec.Glob

namespace Model
open Py Py.Re Spec

/-! ### regex inversion lemmas -/

theorem matches_chr {c : Char} {s : Text} : Matches (.chr c) s ↔ s = [c] := by
  constructor
  · intro h; cases h; rfl
  · rintro rfl; exact .chr c

theorem matches_eps {s : Text} : Matches .eps s ↔ s = [] := by
  constructor
  · intro h; cases h; rfl
  · rintro rfl; exact .eps

theorem matches_cat {a b : Re} {p : Text} :
    Matches (.cat a b) p ↔ ∃ s t, p = s ++ t ∧ Matches a s ∧ Matches b t := by
  constructor
  · intro h; cases h with | cat h1 h2 => exact ⟨_, _, rfl, h1, h2⟩
  · rintro ⟨s, t, rfl, h1, h2⟩; exact .cat h1 h2

theorem matches_seq_cons {a : Re} {rs : List Re} {p : Text} :
    Matches (seq (a :: rs)) p ↔ ∃ s t, p = s ++ t ∧ Matches a s ∧ Matches (seq rs) t := by
  simp only [seq]; exact matches_cat

theorem matches_star_cls_gen {neg rs} {x : Re} {s : Text} (hx : x = .star (.cls neg rs))
    (h : Matches x s) : ∀ c ∈ s, clsMatch neg rs c = true := by
  induction h with
  | starNil => simp
  | @starCons a u v h1 _ _ ih2 =>
    cases hx
    intro c hc
    rcases List.mem_append.mp hc with hc | hc
    · cases h1 with | cls hcls => simp at hc; subst hc; exact hcls
    · exact ih2 rfl c hc
  | _ => cases hx

theorem matches_star_cls {neg rs} {s : Text} :
    Matches (.star (.cls neg rs)) s ↔ ∀ c ∈ s, clsMatch neg rs c = true := by
  constructor
  · exact matches_star_cls_gen rfl
  · intro h
    induction s with
    | nil => exact .starNil
    | cons c cs ih =>
      have : Matches (.star (.cls neg rs)) ([c] ++ cs) :=
        .starCons (.cls (h c (by simp))) (ih (fun d hd => h d (by simp [hd])))
      simpa using this

theorem matches_star_notSlash {s : Text} : Matches (.star notSlash) s ↔ '/' ∉ s := by
  rw [notSlash, matches_star_cls]
  constructor
  · intro h hm
    have := h '/' hm
    simp [clsMatch, inRanges] at this
  · intro h c hc
    have hne : c ≠ '/' := fun e => h (e ▸ hc)
    simp only [clsMatch, inRanges, List.any_cons, List.any_nil, Bool.or_false, if_true,
      Bool.not_eq_true', decide_eq_false_iff_not, not_and]
    intro h1 h2
    exact hne (Char.le_antisymm h2 h1)

theorem matches_star_any (s : Text) : Matches (.star anyChar) s := by
  rw [anyChar, matches_star_cls]
  intro c _; simp [clsMatch, inRanges]

theorem matches_dirsOpt {s : Text} : Matches dirsOpt s ↔ s = [] ∨ ∃ u, s = u ++ ['/'] := by
  unfold dirsOpt opt
  constructor
  · intro h
    cases h with
    | altL h =>
      obtain ⟨a, b, rfl, _, hb⟩ := matches_cat.mp h
      rw [matches_chr] at hb; subst hb
      exact .inr ⟨a, rfl⟩
    | altR h => exact .inl (matches_eps.mp h)
  · rintro (rfl | ⟨u, rfl⟩)
    · exact .altR .eps
    · exact .altL (.cat (matches_star_any u) (.chr '/'))

/-! ### unfolding `translate` -/

theorem translate_nil : translate [] = [] := by rw [translate]
theorem translate_lone : translate ['\\'] = [] := by rw [translate]
theorem translate_esc (c : Char) (g : Text) : translate ('\\' :: c :: g) = .chr c :: translate g := by
  rw [translate]

theorem translate_lit {c : Char} (g : Text) (h1 : c ≠ '*') (h2 : c ≠ '\\') :
    translate (c :: g) = .chr c :: translate g := by
  rw [translate]
  · intro h _; exact h2 h
  · intro c' r h _; exact h2 h
  · intro h; exact h1 h

theorem takeWhile_isStar_replicate (m : Nat) (r : Text) (hr : r.head? ≠ some '*') :
    (List.replicate m '*' ++ r).takeWhile isStar = List.replicate m '*' := by
  induction m with
  | zero =>
    cases r with
    | nil => simp
    | cons c cs =>
      have : c ≠ '*' := by simpa using hr
      simp [isStar, this]
  | succ k ih => simp [List.replicate_succ, isStar, ih]

theorem dropWhile_isStar_replicate (m : Nat) (r : Text) (hr : r.head? ≠ some '*') :
    (List.replicate m '*' ++ r).dropWhile isStar = r := by
  induction m with
  | zero =>
    cases r with
    | nil => simp
    | cons c cs =>
      have : c ≠ '*' := by simpa using hr
      simp [isStar, this]
  | succ k ih => simp [List.replicate_succ, isStar, ih]

theorem translate_star1 (r : Text) (hr : r.head? ≠ some '*') :
    translate ('*' :: r) = .star notSlash :: translate r := by
  have h1 := takeWhile_isStar_replicate 0 r hr
  have h2 := dropWhile_isStar_replicate 0 r hr
  simp only [List.replicate_zero, List.nil_append] at h1 h2
  rw [translate]
  simp only [h1, h2, List.length_nil, if_true]

theorem translate_starN (m : Nat) (r : Text) (hm : 1 ≤ m) (hr : r.head? ≠ some '*')
    (hs : r.head? ≠ some '/') :
    translate ('*' :: (List.replicate m '*' ++ r)) = .star anyChar :: translate r := by
  have h1 := takeWhile_isStar_replicate m r hr
  have h2 := dropWhile_isStar_replicate m r hr
  rw [translate]
  simp only [h1, h2, List.length_replicate]
  have : ¬ m = 0 := by omega
  simp only [this, if_false]
  have har : afterRun r = (false, r) := by
    unfold afterRun
    split
    · simp at hs
    · rfl
  simp [har]

theorem translate_starDir (m : Nat) (r : Text) (hm : 1 ≤ m) :
    translate ('*' :: (List.replicate m '*' ++ '/' :: r)) = dirsOpt :: translate r := by
  have hr : ('/' :: r).head? ≠ some '*' := by simp
  have h1 := takeWhile_isStar_replicate m ('/' :: r) hr
  have h2 := dropWhile_isStar_replicate m ('/' :: r) hr
  rw [translate]
  simp only [h1, h2, List.length_replicate]
  have : ¬ m = 0 := by omega
  simp only [this, if_false]
  simp [afterRun]

/-- every text is a run of asterisks followed by something not starting with one -/
theorem stars_split (g : Text) : ∃ m r, g = List.replicate m '*' ++ r ∧ r.head? ≠ some '*' := by
  induction g with
  | nil => exact ⟨0, [], rfl, by simp⟩
  | cons c cs ih =>
    by_cases hc : c = '*'
    · obtain ⟨m, r, rfl, hr⟩ := ih
      exact ⟨m + 1, r, by simp [hc, List.replicate_succ], hr⟩
    · exact ⟨0, c :: cs, rfl, by simpa using hc⟩

theorem wfGlob_replicate (m : Nat) (r : Text) : wfGlob (List.replicate m '*' ++ r) = wfGlob r := by
  induction m with
  | zero => simp
  | succ k ih =>
    simp only [List.replicate_succ, List.cons_append]
    rw [wfGlob]
    · exact ih
    all_goals (intros; simp_all)

end Model
