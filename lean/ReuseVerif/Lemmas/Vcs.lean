/-
Lemmas about `Model/Vcs.lean`: splitting and joining, `Path()` on printed entries,
`relative_from_root` on the paths of the walk, lexical resolution, and the factorisation of
"covered" into the name rules and the VCS verdict along the path.
-/
import ReuseVerif.Spec.Vcs
import ReuseVerif.Lemmas.CoveredSpec

namespace Model.Vcs
open Py Spec Spec.Vcs

/-! ### split / join -/

theorem splitSep_ne_nil (sep : Char) (s : Text) : splitSep sep s ≠ [] := by
  induction s with
  | nil => simp [splitSep]
  | cons c cs ih =>
    simp only [splitSep]
    split
    · simp
    · split <;> simp

theorem splitSep_no_sep {sep : Char} {x : Text} (h : sep ∉ x) : splitSep sep x = [x] := by
  induction x with
  | nil => rfl
  | cons c cs ih =>
    have hc : c ≠ sep := fun e => h (by simp [e])
    have hcs : sep ∉ cs := fun e => h (by simp [e])
    simp only [splitSep, hc, if_false, ih hcs]

theorem splitSep_append_sep {sep : Char} {x : Text} (rest : Text) (h : sep ∉ x) :
    splitSep sep (x ++ sep :: rest) = x :: splitSep sep rest := by
  induction x with
  | nil => simp [splitSep]
  | cons c cs ih =>
    have hc : c ≠ sep := fun e => h (by simp [e])
    have hcs : sep ∉ cs := fun e => h (by simp [e])
    simp only [List.cons_append, splitSep, hc, if_false, ih hcs]

theorem splitSep_join {comps : List Text} (hne : comps ≠ []) (h : ∀ x ∈ comps, '/' ∉ x) (slash : Bool) :
    splitSep '/' (entryText comps slash) = comps ++ (if slash then [[]] else []) := by
  unfold entryText
  induction comps with
  | nil => exact absurd rfl hne
  | cons x xs ih =>
    have hx : '/' ∉ x := h x (by simp)
    cases xs with
    | nil =>
      cases slash
      · simp [join, splitSep_no_sep hx]
      · simp only [join, if_true]
        rw [splitSep_append_sep [] hx]
        simp [splitSep]
    | cons y ys =>
      have := ih (by simp) (fun z hz => h z (List.mem_cons_of_mem _ hz))
      simp only [join, List.append_assoc, List.cons_append]
      rw [splitSep_append_sep _ hx]
      simp only [List.cons_append, List.nil_append] at this ⊢
      rw [this]

/-! ### `Path()` on a printed entry -/

theorem keepComp_of_isName {x : Text} (h : IsName x) : keepComp x = true := by
  obtain ⟨h1, _, h3⟩ := h
  simp only [keepComp, Bool.not_eq_true', Bool.or_eq_false_iff]
  constructor
  · cases x with
    | nil => exact absurd rfl h1
    | cons a t => rfl
  · simpa using h3

theorem filter_keep_names {comps : List Text} (h : ∀ x ∈ comps, IsName x) : comps.filter keepComp = comps :=
  List.filter_eq_self.mpr fun x hx => keepComp_of_isName (h x hx)

theorem parsePath_relative {s : Text} (h : s.head? ≠ some '/') :
    parsePath s = ⟨[], (splitSep '/' s).filter keepComp⟩ := by
  unfold parsePath
  split
  · simp at h
  · simp at h
  · simp at h
  · rfl

/-- `Path("a/b")`, `Path("a/b/")`: the components, relative. -/
theorem parsePath_entryText {comps : List Text} (hne : comps ≠ []) (h : ∀ x ∈ comps, IsName x) (slash : Bool) :
    parsePath (entryText comps slash) = ⟨[], comps⟩ := by
  have hhead : (entryText comps slash).head? ≠ some '/' := by
    unfold entryText
    cases comps with
    | nil => exact absurd rfl hne
    | cons x xs =>
      obtain ⟨hx1, hx2, _⟩ := h x (by simp)
      cases x with
      | nil => exact absurd rfl hx1
      | cons c cs =>
        have hc : c ≠ '/' := fun e => hx2 (by simp [e])
        cases xs with
        | nil => simpa [join] using hc
        | cons y ys => simpa [join] using hc
  rw [parsePath_relative hhead, splitSep_join hne (fun x hx => (h x hx).2.1)]
  cases slash
  · simp [filter_keep_names h]
  · simp [List.filter_append, filter_keep_names h, keepComp]

theorem parsePath_nil : parsePath [] = ⟨[], []⟩ := by
  simp [parsePath, splitSep, keepComp]

/-! ### `relative_from_root` on the paths the walk asks about -/

theorem relativeTo_walkPath (root : PPath) (comps : List Text) :
    relativeTo? (walkPath root comps) root = some ⟨[], comps⟩ := by
  simp [relativeTo?, walkPath, List.isPrefixOf_iff_prefix]

/-- For `root / name / …` the answer is the names, whatever the working directory. -/
theorem relativeFromRoot_walkPath (cwd : List Text) (root : PPath) (comps : List Text) :
    relativeFromRoot cwd root (walkPath root comps) = ⟨[], comps⟩ := by
  simp [relativeFromRoot, relativeTo_walkPath]

/-! ### lexical resolution -/

def NoDotDot (l : List Text) : Prop := ∀ x ∈ l, x ≠ ['.', '.']

theorem normAbs_append (acc xs ys : List Text) :
    normAbs acc (xs ++ ys) = normAbs (normAbs acc xs).reverse ys := by
  induction xs generalizing acc with
  | nil => simp [normAbs]
  | cons c cs ih =>
    simp only [List.cons_append, normAbs]
    split <;> exact ih _

theorem normAbs_plain {ys : List Text} (acc : List Text) (h : NoDotDot ys) :
    normAbs acc ys = acc.reverse ++ ys := by
  induction ys generalizing acc with
  | nil => simp [normAbs]
  | cons c cs ih =>
    have hc : c ≠ ['.', '.'] := h c (by simp)
    simp only [normAbs, hc, if_false]
    rw [ih _ (fun x hx => h x (List.mem_cons_of_mem _ hx))]
    simp

/-- Two relative paths without `..`, put below the same root, resolve to the same place iff
    they are the same path — for every spelling of the root and from every working directory. -/
theorem resolveLex_join_eq_iff (cwd : List Text) (root : PPath) {a b : List Text} (ha : NoDotDot a) (hb : NoDotDot b) :
    resolveLex cwd (joinPath root ⟨[], a⟩) = resolveLex cwd (joinPath root ⟨[], b⟩) ↔ a = b := by
  simp only [joinPath, List.isEmpty_nil, if_true, resolveLex]
  split
  · simp only [PPath.mk.injEq, true_and]
    rw [← List.append_assoc, ← List.append_assoc, normAbs_append _ _ a, normAbs_append _ _ b,
      normAbs_plain _ ha, normAbs_plain _ hb]
    simp
  · simp only [PPath.mk.injEq, true_and]
    rw [normAbs_append _ _ a, normAbs_append _ _ b, normAbs_plain _ ha, normAbs_plain _ hb]
    simp

/-! ### "covered" = name rules ∧ no VCS verdict along the path -/

/-- the configuration with the VCS verdict switched off -/
def noVcs (cfg : WalkCfg) : WalkCfg := { cfg with vcsIgnored := fun _ => false }

theorem dropLast_append_getLast {p : List String} (h : p ≠ []) : p.dropLast ++ [p.getLast?.getD ""] = p := by
  induction p with
  | nil => exact absurd rfl h
  | cons a t ih =>
    by_cases ht : t = []
    · subst ht; rfl
    · rw [dropLast_cons' a ht, getLast?_cons' a ht]
      simp [ih ht]

theorem fileIgnored_factor (cfg : WalkCfg) (path : List String) (name : String) (size : Nat) :
    fileIgnored cfg path name size = false ↔
      fileIgnored (noVcs cfg) path name size = false ∧ cfg.vcsIgnored (path ++ [name]) = false := by
  simp [fileIgnored, noVcs, Bool.or_eq_false_iff]

theorem dirIgnored_factor (cfg : WalkCfg) (path : List String) (parent name : String) :
    dirIgnored cfg path parent name = false ↔
      dirIgnored (noVcs cfg) path parent name = false ∧ cfg.vcsIgnored (path ++ [name]) = false := by
  simp [dirIgnored, noVcs, Bool.or_eq_false_iff]

/-- A file is covered iff the rules other than the VCS's cover it and neither it nor a
    directory on the way to it has the VCS verdict. -/
theorem covered_factor (cfg : WalkCfg) (rootName : String) (cs : List (String × Node)) (p : List String) :
    Covered cfg rootName cs p ↔
      Covered (noVcs cfg) rootName cs p ∧ ∀ q, q <+: p → q ≠ [] → cfg.vcsIgnored q = false := by
  constructor
  · rintro ⟨size, hat, hne, hf, hd⟩
    rw [fileIgnored_factor, dropLast_append_getLast hne] at hf
    refine ⟨⟨size, hat, hne, hf.1, fun q hq h1 h2 => ((dirIgnored_factor _ _ _ _).mp (hd q hq h1 h2)).1⟩, ?_⟩
    intro q hq h1
    by_cases h2 : q = p
    · rw [h2]; exact hf.2
    · have := ((dirIgnored_factor _ _ _ _).mp (hd q hq h1 h2)).2
      rwa [dropLast_append_getLast h1] at this
  · rintro ⟨⟨size, hat, hne, hf, hd⟩, hv⟩
    refine ⟨size, hat, hne, ?_, ?_⟩
    · rw [fileIgnored_factor, dropLast_append_getLast hne]
      exact ⟨hf, hv p (List.prefix_refl p) hne⟩
    · intro q hq h1 h2
      rw [dirIgnored_factor, dropLast_append_getLast h1]
      exact ⟨hd q hq h1 h2, hv q hq h1⟩

/-- Two verdicts that prune the same files give the same covered files. -/
theorem covered_congr (cfg : WalkCfg) (v : List String → Bool) (rootName : String) (cs : List (String × Node))
    (p : List String)
    (h : ∀ size, At cs p (.file size) →
      ((∀ q, q <+: p → q ≠ [] → cfg.vcsIgnored q = false) ↔ (∀ q, q <+: p → q ≠ [] → v q = false))) :
    Covered cfg rootName cs p ↔ Covered { cfg with vcsIgnored := v } rootName cs p := by
  rw [covered_factor cfg, covered_factor { cfg with vcsIgnored := v }]
  have e : noVcs { cfg with vcsIgnored := v } = noVcs cfg := rfl
  rw [e]
  constructor
  · rintro ⟨hc, hv⟩
    obtain ⟨size, hat, hrest⟩ := hc
    exact ⟨⟨size, hat, hrest⟩, (h size hat).mp hv⟩
  · rintro ⟨hc, hv⟩
    obtain ⟨size, hat, hrest⟩ := hc
    exact ⟨⟨size, hat, hrest⟩, (h size hat).mpr hv⟩

/-! ### prefixes, the printed listing -/

theorem mem_prefixes {p q : List String} : q ∈ prefixes p ↔ q <+: p ∧ q ≠ [] := by
  induction p generalizing q with
  | nil => simp [prefixes]
  | cons a t ih =>
    simp only [prefixes, List.mem_cons, List.mem_map]
    constructor
    · rintro (rfl | ⟨r, hr, rfl⟩)
      · exact ⟨⟨t, rfl⟩, by simp⟩
      · obtain ⟨⟨s, hs⟩, _⟩ := ih.mp hr
        exact ⟨⟨s, by simp [hs]⟩, by simp⟩
    · rintro ⟨⟨s, hs⟩, hne⟩
      cases q with
      | nil => exact absurd rfl hne
      | cons b r =>
        simp only [List.cons_append, List.cons.injEq] at hs
        obtain ⟨rfl, hs⟩ := hs
        by_cases hr : r = []
        · left; rw [hr]
        · right; exact ⟨r, ih.mpr ⟨⟨s, hs⟩, hr⟩, rfl⟩

theorem mem_join {c : Char} {sep : Text} {l : List Text} (h : c ∈ join sep l) : c ∈ sep ∨ ∃ x ∈ l, c ∈ x := by
  induction l with
  | nil => simp [join] at h
  | cons x xs ih =>
    cases xs with
    | nil => right; exact ⟨x, by simp, by simpa [join] using h⟩
    | cons y ys =>
      simp only [join, List.append_assoc, List.mem_append] at h
      rcases h with h | h | h
      · right; exact ⟨x, by simp, h⟩
      · left; exact h
      · rcases ih h with h | ⟨z, hz, hc⟩
        · left; exact h
        · right; exact ⟨z, List.mem_cons_of_mem _ hz, hc⟩

theorem nul_not_mem_entryText {comps : List Text} (h : ∀ x ∈ comps, '\x00' ∉ x) (slash : Bool) :
    '\x00' ∉ entryText comps slash := by
  unfold entryText
  intro hm
  rcases List.mem_append.mp hm with hm | hm
  · rcases mem_join hm with hm | ⟨x, hx, hc⟩
    · simp at hm
    · exact h x hx hc
  · cases slash <;> simp at hm

/-- the pieces of a printed listing: the entries, and the empty piece after the last NUL -/
theorem splitSep_rawListing (es : List (List Text × Bool)) (h : ∀ e ∈ es, ∀ x ∈ e.1, '\x00' ∉ x) :
    splitSep '\x00' (rawListing es) = es.map (fun e => entryText e.1 e.2) ++ [[]] := by
  induction es with
  | nil => rfl
  | cons e rest ih =>
    obtain ⟨comps, slash⟩ := e
    simp only [rawListing, List.map_cons, List.cons_append]
    rw [splitSep_append_sep _ (nul_not_mem_entryText (h (comps, slash) (by simp)) slash),
      ih (fun e he => h e (List.mem_cons_of_mem _ he))]

end Model.Vcs
