/-
Lemmas for the composed end-to-end model of `reuse annotate` (Model/AnnotateE2E.lean): what the
instantiated header builder `AE.build` returns, in terms of the text level (`headerParts`,
`createHeader`, `placeHeader`).
-/
import ReuseVerif.Spec.AnnotateE2E
import ReuseVerif.Lemmas.HeaderParts
import ReuseVerif.Lemmas.EffectsStep

namespace Model.AE
open Py Model Spec Spec.AE
open Model.Eff hiding Text World

theorem headerParts_error_iff (c : HdrCfg) (replace : Bool) (info : Extracted) (text : Text) (e : HeaderErr) :
    headerParts c replace info text = .error e ↔ createHeader c info (oldHeader c replace text) = .error e := by
  unfold headerParts oldHeader
  cases replace
  · simp only [Bool.false_eq_true, if_false]
    cases createHeader c info [] <;> simp
  · simp only [if_true]
    cases createHeader c info _ <;> simp

/-- without `--skip-existing` the text-level body in terms of its parts -/
theorem annotateText_noskip (c : HdrCfg) (replace : Bool) (info : Extracted) (text : Text) :
    annotateText c replace false info text =
      match headerParts c replace info (Py.replace text (detectLineEnding text) ['\n']) with
      | .error e => .failed e
      | .ok p => .written (retranslate (detectLineEnding text) (placeHeader p.1 p.2.1 p.2.2.1 p.2.2.2)) := by
  unfold annotateText retranslate
  simp only [Bool.false_and, Bool.false_eq_true, if_false]
  cases replace
  · simp only [Bool.false_eq_true, if_false]
    rw [anh_parts]
    cases headerParts c false info _ <;> rfl
  · simp only [if_true]
    rw [far_parts]
    cases headerParts c true info _ <;> rfl

theorem annotateFile_eq (c : HdrCfg) (replace skip : Bool) (info : Extracted) (text : Text) :
    annotateFile c replace skip info text =
      (annotateText c replace skip info (dropBom text)).mapWritten (bomOf text ++ ·) := by
  unfold annotateFile dropBom bomOf
  cases text with
  | nil => cases annotateText c replace skip info [] <;> rfl
  | cons ch rest =>
    by_cases hb : (ch == bomChar) = true
    · simp only [hb, if_true]
      cases annotateText c replace skip info rest <;> rfl
    · simp only [hb, Bool.false_eq_true, if_false]
      cases annotateText c replace skip info (ch :: rest) <;> rfl

/-- the text-level `add_header_to_file` without `--skip-existing`: refused exactly when
    `create_header` refuses, otherwise the splice behind the byte order mark -/
theorem annotateFile_noskip (c : HdrCfg) (replace : Bool) (info : Extracted) (text : Text) :
    annotateFile c replace false info text =
      match headerParts c replace info (workText text) with
      | .error e => .failed e
      | .ok p => .written (bomOf text ++
          retranslate (detectLineEnding (dropBom text)) (placeHeader p.1 p.2.1 p.2.2.1 p.2.2.2)) := by
  rw [annotateFile_eq, annotateText_noskip]
  unfold workText
  cases headerParts c replace info _ <;> rfl

theorem python_style_exists : (styleByName "PythonCommentStyle").isSome = true := by decide +kernel

theorem styleFor_isSome (o : Opts) (t : Path) : (styleFor o t).isSome = true := by
  unfold styleFor
  cases writtenStyle o t with
  | some s => rfl
  | none => simpa using python_style_exists

/-- **what the instantiated builder returns.**  An error is: the file is not UTF-8 text, or
    `create_header` refuses; a success is the splice of the new header into the text. -/
theorem build_eq (w : World) (o : Opts) (tm : Option Tmpl) (t : Path) (txt : Text) :
    build w o tm t txt =
      if w.unreadable t then .error .unreadable
      else match styleFor o t with
        | none => .error .commentCreate
        | some s =>
          match headerParts (hdrCfg w o tm s) (!o.noReplace) (requested w o) (workText txt) with
          | .error e => .error (toBuildError e)
          | .ok p => .ok (bomOf txt ++
              retranslate (detectLineEnding (dropBom txt)) (placeHeader p.1 p.2.1 p.2.2.1 p.2.2.2)) := by
  unfold build styleFor
  split
  · rfl
  · cases (writtenStyle o t).orElse fun _ => styleByName "PythonCommentStyle" with
    | none => rfl
    | some s =>
      simp only
      rw [annotateFile_noskip]
      cases headerParts (hdrCfg w o tm s) (!o.noReplace) (requested w o) (workText txt) <;> rfl

theorem build_error_iff (w : World) (o : Opts) (fs : Fs) (t : Path) (txt : Text) :
    (∃ e, build w o (tmplOf w o fs) t txt = .error e) ↔ (w.unreadable t = true ∨ HeaderRefused w o fs t txt) := by
  rw [build_eq]
  unfold HeaderRefused cfgFor
  by_cases hu : w.unreadable t = true
  · simp [hu]
  · simp only [hu, Bool.false_eq_true, if_false, false_or]
    obtain ⟨s, hs⟩ := Option.isSome_iff_exists.mp (styleFor_isSome o t)
    simp only [hs, Option.some.injEq]
    constructor
    · rintro ⟨e, he⟩
      cases hp : headerParts (hdrCfg w o (tmplOf w o fs) s) (!o.noReplace) (requested w o) (workText txt) with
      | error e' => exact ⟨s, e', rfl, (headerParts_error_iff _ _ _ _ _).mp hp⟩
      | ok p => simp [hp] at he
    · rintro ⟨s', e, rfl, he⟩
      rw [(headerParts_error_iff _ _ _ _ _).mpr he]
      exact ⟨_, rfl⟩

/-- a success of the builder: the parts exist and the written text is their splice -/
theorem build_ok {w : World} {o : Opts} {tm : Option Tmpl} {t : Path} {txt out : Text}
    (h : build w o tm t txt = .ok out) :
    w.unreadable t = false ∧ ∃ s p, styleFor o t = some s ∧
      headerParts (hdrCfg w o tm s) (!o.noReplace) (requested w o) (workText txt) = .ok p ∧
      out = bomOf txt ++ retranslate (detectLineEnding (dropBom txt)) (placeHeader p.1 p.2.1 p.2.2.1 p.2.2.2) := by
  rw [build_eq] at h
  by_cases hu : w.unreadable t = true
  · simp [hu] at h
  · simp only [hu, Bool.false_eq_true, if_false] at h
    refine ⟨by simpa using hu, ?_⟩
    cases hs : styleFor o t with
    | none => simp [hs] at h
    | some s =>
      simp only [hs] at h
      cases hp : headerParts (hdrCfg w o tm s) (!o.noReplace) (requested w o) (workText txt) with
      | error e => simp [hp] at h
      | ok p =>
        simp only [hp, Except.ok.injEq] at h
        exact ⟨s, p, rfl, hp, h.symm⟩

/-- a success of the builder is a success of the text-level `add_header_to_file` on the text behind
    the byte order mark, which goes back in front -/
theorem build_ok_text {w : World} {o : Opts} {tm : Option Tmpl} {t : Path} {txt out : Text}
    (h : build w o tm t txt = .ok out) :
    ∃ s out', styleFor o t = some s ∧
      annotateText (hdrCfg w o tm s) (!o.noReplace) false (requested w o) (dropBom txt) = .written out' ∧
      out = bomOf txt ++ out' := by
  obtain ⟨-, s, p, hs, hp, hout⟩ := build_ok h
  refine ⟨s, _, hs, ?_, hout⟩
  rw [annotateText_noskip]
  show (match headerParts (hdrCfg w o tm s) (!o.noReplace) (requested w o) (workText txt) with
    | .error e => AnnotateOut.failed e
    | .ok p => .written (retranslate (detectLineEnding (dropBom txt)) (placeHeader p.1 p.2.1 p.2.2.1 p.2.2.2))) = _
  rw [hp]

/-- an empty text holds no REUSE information (a sibling created for the attempt is not "existing") -/
theorem hasInfo_nil (w : World) (o : Opts) (fs : Fs) : (envOf w o fs).hasInfo [] = false := by
  show containsReuseInfo w.parses (dropBom []) = false
  have : extractRaw [] = ⟨[], [], []⟩ := by decide +kernel
  simp [dropBom, containsReuseInfo, extractInfo, this]

end Model.AE
