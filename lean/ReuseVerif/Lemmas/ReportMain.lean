/-
Logic between the emptiness of the report's collections and clauses (a)–(d) of C01.
-/
import ReuseVerif.Lemmas.Report
import ReuseVerif.Spec.Lint

namespace Model
open Py Spec

variable {tbl : LicenseMap} {pr : Project}

theorem pairs_nil_iff {l : List (Text × Text)} {P : Text → Text → Prop}
    (h : ∀ k p, (k, p) ∈ l ↔ P k p) : l = [] ↔ ∀ k p, ¬ P k p := by
  rw [List.eq_nil_iff_forall_not_mem]
  constructor
  · intro hn k p hP; exact hn (k, p) ((h k p).mpr hP)
  · rintro hn ⟨k, p⟩ hm; exact hn k p ((h k p).mp hm)

theorem list_nil_iff {l : List Text} {P : Text → Prop} (h : ∀ k, k ∈ l ↔ P k) : l = [] ↔ ∀ k, ¬ P k := by
  rw [List.eq_nil_iff_forall_not_mem]
  exact ⟨fun hn k hP => hn k ((h k).mpr hP), fun hn k hm => hn k ((h k).mp hm)⟩

/-- clause (b) ⇔ nothing is missing and no used identifier is bad -/
theorem clauseB_iff :
    ClauseB tbl pr ↔ (∀ k p, ¬ Missing tbl pr k p) ∧
      (∀ k p, ¬ (UsedBy pr.files k p ∧ ¬ Valid tbl k ∧ ¬ Valid tbl (stripPlus k))) := by
  constructor
  · intro hb
    refine ⟨?_, ?_⟩
    · rintro k p ⟨hu, h1, h2⟩
      exact (hb k ⟨p, hu⟩).2.elim h1 h2
    · rintro k p ⟨hu, h1, h2⟩
      exact (hb k ⟨p, hu⟩).1.elim h1 h2
  · rintro ⟨hm, hbad⟩ k ⟨p, hu⟩
    refine ⟨?_, ?_⟩
    · by_cases h1 : Valid tbl k
      · exact Or.inl h1
      · by_cases h2 : Valid tbl (stripPlus k)
        · exact Or.inr h2
        · exact absurd ⟨hu, h1, h2⟩ (hbad k p)
    · by_cases h1 : Provided tbl pr.licFiles k
      · exact Or.inl h1
      · by_cases h2 : Provided tbl pr.licFiles (stripPlus k)
        · exact Or.inr h2
        · exact absurd ⟨hu, h1, h2⟩ (hm k p)

/-- clause (c) ⇔ no entry is unused, invalid, deprecated or without extension -/
theorem clauseC_iff :
    ClauseC tbl pr ↔ (∀ l, ¬ Unused tbl pr l) ∧
      (∀ k p, ¬ (Provides tbl pr.licFiles k p ∧ ¬ Valid tbl k)) ∧
      (∀ l, ¬ Deprecated tbl pr l) ∧ (∀ l p, ¬ NoExtension tbl pr l p) := by
  constructor
  · intro hc
    refine ⟨?_, ?_, ?_, ?_⟩
    · rintro l ⟨⟨path, hm, hl, rfl⟩, h1, h2⟩
      exact (hc path hm hl).2.2.2.elim h1 h2
    · rintro k p ⟨⟨hm, hl, rfl⟩, hv⟩
      exact hv (hc p hm hl).1
    · rintro l ⟨⟨path, hm, hl, rfl⟩, hd⟩
      have := (hc path hm hl).2.1
      rw [this] at hd; cases hd
    · rintro l p ⟨⟨hm, hl, rfl⟩, hn⟩
      have := (hc p hm hl).2.2.1
      rw [this] at hn; cases hn
  · rintro ⟨hu, hb, hd, hn⟩ path hm hl
    have hpv : Provides tbl pr.licFiles (carried tbl (pathName path)).1 path := ⟨hm, hl, rfl⟩
    refine ⟨?_, ?_, ?_, ?_⟩
    · by_cases hv : Valid tbl (carried tbl (pathName path)).1
      · exact hv
      · exact absurd ⟨hpv, hv⟩ (hb _ _)
    · cases hdd : tbl.deprecated (carried tbl (pathName path)).1 with
      | false => rfl
      | true => exact absurd ⟨⟨path, hpv⟩, hdd⟩ (hd _)
    · cases hnn : (carried tbl (pathName path)).2 with
      | false => rfl
      | true => exact absurd ⟨hpv, hnn⟩ (hn _ _)
    · by_cases h1 : Used pr.files (carried tbl (pathName path)).1
      · exact Or.inl h1
      · by_cases h2 : Used pr.files (addPlus (carried tbl (pathName path)).1)
        · exact Or.inr h2
        · exact absurd ⟨⟨path, hpv⟩, h1, h2⟩ (hu _)

theorem bad_split :
    (∀ k p, ¬ Bad tbl pr k p) ↔
      (∀ k p, ¬ (UsedBy pr.files k p ∧ ¬ Valid tbl k ∧ ¬ Valid tbl (stripPlus k))) ∧
      (∀ k p, ¬ (Provides tbl pr.licFiles k p ∧ ¬ Valid tbl k)) := by
  unfold Bad
  constructor
  · intro h; exact ⟨fun k p hh => h k p (Or.inl hh), fun k p hh => h k p (Or.inr hh)⟩
  · rintro ⟨h1, h2⟩ k p (hh | hh)
    · exact h1 k p hh
    · exact h2 k p hh

theorem mem_noCopyright {fd : Found} {fs : List CovFile} {p : Text} :
    p ∈ (generateOn fd fs).noCopyright ↔ ∃ f ∈ fs, f.readable = true ∧ f.hasCopyright = false ∧ f.path = p := by
  simp only [Report.noCopyright, generateOn, List.mem_map, List.mem_filter, Bool.not_eq_true']
  constructor
  · rintro ⟨f, ⟨⟨hf, hr⟩, hc⟩, rfl⟩; exact ⟨f, hf, hr, hc, rfl⟩
  · rintro ⟨f, hf, hr, hc, rfl⟩; exact ⟨f, ⟨⟨hf, hr⟩, hc⟩, rfl⟩

theorem keysOf_empty_iff {f : CovFile} : (keysOf f).isEmpty = true ↔ ¬ ∃ e ∈ f.exprs, e ≠ [] := by
  simp [keysOf, List.isEmpty_iff, List.flatten_eq_nil_iff]

theorem mem_noLicence {fd : Found} {fs : List CovFile} {p : Text} :
    p ∈ (generateOn fd fs).noLicence ↔
      ∃ f ∈ fs, f.readable = true ∧ (¬ ∃ e ∈ f.exprs, e ≠ []) ∧ f.path = p := by
  simp only [Report.noLicence, generateOn, List.mem_map, List.mem_filter, keysOf_empty_iff]
  constructor
  · rintro ⟨f, ⟨⟨hf, hr⟩, hc⟩, rfl⟩; exact ⟨f, hf, hr, hc, rfl⟩
  · rintro ⟨f, hf, hr, hc, rfl⟩; exact ⟨f, ⟨⟨hf, hr⟩, hc⟩, rfl⟩

theorem mem_readErrors {fd : Found} {fs : List CovFile} {p : Text} :
    p ∈ (generateOn fd fs).readErrors ↔ ∃ f ∈ fs, f.readable = false ∧ f.path = p := by
  simp only [generateOn, List.mem_map, List.mem_filter, Bool.not_eq_true']
  constructor
  · rintro ⟨f, ⟨hf, hr⟩, rfl⟩; exact ⟨f, hf, hr, rfl⟩
  · rintro ⟨f, hf, hr, rfl⟩; exact ⟨f, ⟨hf, hr⟩, rfl⟩

/-- clause (a) ⇔ no file that was read lacks a notice or an expression -/
theorem clauseA_iff {fd : Found} :
    ClauseA pr ↔ (generateOn fd pr.files).noCopyright = [] ∧ (generateOn fd pr.files).noLicence = [] := by
  rw [list_nil_iff (fun _ => mem_noCopyright), list_nil_iff (fun _ => mem_noLicence)]
  constructor
  · intro ha
    refine ⟨?_, ?_⟩
    · rintro p ⟨f, hf, hr, hc, _⟩
      have := (ha f hf hr).1; rw [this] at hc; cases hc
    · rintro p ⟨f, hf, hr, hc, _⟩
      exact hc (ha f hf hr).2
  · rintro ⟨h1, h2⟩ f hf hr
    refine ⟨?_, ?_⟩
    · cases hc : f.hasCopyright with
      | true => rfl
      | false => exact absurd ⟨f, hf, hr, hc, rfl⟩ (h1 f.path)
    · by_cases he : ∃ e ∈ f.exprs, e ≠ []
      · exact he
      · exact absurd ⟨f, hf, hr, he, rfl⟩ (h2 f.path)

/-- clause (d) ⇔ no read error -/
theorem clauseD_iff {fd : Found} : ClauseD pr ↔ (generateOn fd pr.files).readErrors = [] := by
  rw [list_nil_iff (fun _ => mem_readErrors)]
  constructor
  · rintro hd p ⟨f, hf, hr, _⟩
    rw [hd f hf] at hr; cases hr
  · intro h f hf
    cases hr : f.readable with
    | true => rfl
    | false => exact absurd ⟨f, hf, hr, rfl⟩ (h f.path)

theorem isCompliant_iff (r : Report) :
    r.isCompliant = true ↔ r.missing = [] ∧ r.unused = [] ∧ r.bad = [] ∧ r.deprecated = [] ∧
      r.noExt = [] ∧ r.noCopyright = [] ∧ r.noLicence = [] ∧ r.readErrors = [] := by
  simp [Report.isCompliant, List.isEmpty_iff, and_assoc]

theorem plainNormal_append (a b : List Entry) : plainNormal (a ++ b) = plainNormal a ++ plainNormal b := by
  simp [plainNormal]

theorem mem_plainNormal_one {c : Cat} {l : List Text} {x : Entry} :
    x ∈ plainNormal (one c l) ↔ ∃ p ∈ l, x ∈ (match c with
      | .noBoth => [(Cat.noCopyright, p, []), (Cat.noLicence, p, [])]
      | .noCopyrightOnly => [(Cat.noCopyright, p, [])]
      | .noLicenceOnly => [(Cat.noLicence, p, [])]
      | c => [(c, p, [])]) := by
  unfold plainNormal one
  rw [List.flatMap_map, List.mem_flatMap]
  cases c <;> exact Iff.rfl

theorem mem_plainNormal_two {c : Cat} {l : List (Text × Text)} {x : Entry} :
    x ∈ plainNormal (two c l) ↔ ∃ p ∈ l, x ∈ (match c with
      | .noBoth => [(Cat.noCopyright, p.1, p.2), (Cat.noLicence, p.1, p.2)]
      | .noCopyrightOnly => [(Cat.noCopyright, p.1, p.2)]
      | .noLicenceOnly => [(Cat.noLicence, p.1, p.2)]
      | c => [(c, p.1, p.2)]) := by
  unfold plainNormal two
  rw [List.flatMap_map, List.mem_flatMap]
  cases c <;> exact Iff.rfl

theorem mem_missing {fd : Found} {fs : List CovFile} {k p : Text} :
    (k, p) ∈ (generateOn fd fs).missing ↔
      ∃ f ∈ fs, f.readable = true ∧ f.path = p ∧ k ∈ keysOf f ∧ idMissing fd.licenses k = true := by
  simp only [generateOn, List.mem_flatMap, fileMissing, List.mem_map, List.mem_filter, Prod.mk.injEq]
  constructor
  · rintro ⟨f, ⟨hf, hr⟩, k', ⟨hk, hm⟩, rfl, rfl⟩; exact ⟨f, hf, hr, rfl, hk, hm⟩
  · rintro ⟨f, hf, hr, rfl, hk, hm⟩; exact ⟨f, ⟨hf, hr⟩, k, ⟨hk, hm⟩, rfl, rfl⟩

section subset
variable {fd : Found} {fs : List CovFile} {F : List Text} {k p : Text}

theorem subset_missing :
    (k, p) ∈ (subsetReport fd fs F).missing ↔ (k, p) ∈ (generateOn fd fs).missing ∧ p ∈ F := by
  simp only [subsetReport, mem_missing, List.mem_filter, List.contains_eq_mem, decide_eq_true_eq]
  constructor
  · rintro ⟨f, ⟨hf, hF⟩, hr, rfl, hk, hm⟩; exact ⟨⟨f, hf, hr, rfl, hk, hm⟩, hF⟩
  · rintro ⟨⟨f, hf, hr, rfl, hk, hm⟩, hF⟩; exact ⟨f, ⟨hf, hF⟩, hr, rfl, hk, hm⟩

theorem subset_readErrors :
    p ∈ (subsetReport fd fs F).readErrors ↔ p ∈ (generateOn fd fs).readErrors ∧ p ∈ F := by
  simp only [subsetReport, mem_readErrors, List.mem_filter, List.contains_eq_mem, decide_eq_true_eq]
  constructor
  · rintro ⟨f, ⟨hf, hF⟩, hr, rfl⟩; exact ⟨⟨f, hf, hr, rfl⟩, hF⟩
  · rintro ⟨⟨f, hf, hr, rfl⟩, hF⟩; exact ⟨f, ⟨hf, hF⟩, hr, rfl⟩

theorem subset_noCopyright :
    p ∈ (subsetReport fd fs F).noCopyright ↔ p ∈ (generateOn fd fs).noCopyright ∧ p ∈ F := by
  simp only [subsetReport, mem_noCopyright, List.mem_filter, List.contains_eq_mem, decide_eq_true_eq]
  constructor
  · rintro ⟨f, ⟨hf, hF⟩, hr, hc, rfl⟩; exact ⟨⟨f, hf, hr, hc, rfl⟩, hF⟩
  · rintro ⟨⟨f, hf, hr, hc, rfl⟩, hF⟩; exact ⟨f, ⟨hf, hF⟩, hr, hc, rfl⟩

theorem subset_noLicence :
    p ∈ (subsetReport fd fs F).noLicence ↔ p ∈ (generateOn fd fs).noLicence ∧ p ∈ F := by
  simp only [subsetReport, mem_noLicence, List.mem_filter, List.contains_eq_mem, decide_eq_true_eq]
  constructor
  · rintro ⟨f, ⟨hf, hF⟩, hr, hc, rfl⟩; exact ⟨⟨f, hf, hr, hc, rfl⟩, hF⟩
  · rintro ⟨⟨f, hf, hr, hc, rfl⟩, hF⟩; exact ⟨f, ⟨hf, hF⟩, hr, hc, rfl⟩

theorem mem_fmtSubset (r : Report) (c : Cat) (a b : Text) :
    (c, a, b) ∈ fmtSubset r ↔
      (c = .missing ∧ (a, b) ∈ r.missing) ∨ (c = .readError ∧ a ∈ r.readErrors ∧ b = []) ∨
      (c = .noLicence ∧ a ∈ r.noLicence ∧ b = []) ∨ (c = .noCopyright ∧ a ∈ r.noCopyright ∧ b = []) := by
  cases c <;> simp [fmtSubset, one, two] <;> grind

theorem fmtSubset_nil (r : Report) : fmtSubset r = [] ↔ subsetCompliant r = true := by
  simp [fmtSubset, subsetCompliant, one, two, List.isEmpty_iff]
  grind

end subset

theorem count_one_same (c : Cat) (l : List Text) : count (one c l) c = l.length := by
  induction l <;> simp_all [count, one]
theorem count_two_same (c : Cat) (l : List (Text × Text)) : count (two c l) c = l.length := by
  induction l <;> simp_all [count, two]
theorem count_one_ne {c c' : Cat} (h : c' ≠ c) (l : List Text) : count (one c' l) c = 0 := by
  have : (one c' l).filter (·.1 == c) = [] := by
    apply List.filter_eq_nil_iff.mpr
    intro e he
    simp only [one, List.mem_map] at he
    obtain ⟨x, _, rfl⟩ := he
    simpa using h
  simp [count, this]
theorem count_two_ne {c c' : Cat} (h : c' ≠ c) (l : List (Text × Text)) : count (two c' l) c = 0 := by
  have : (two c' l).filter (·.1 == c) = [] := by
    apply List.filter_eq_nil_iff.mpr
    intro e he
    simp only [two, List.mem_map] at he
    obtain ⟨x, _, rfl⟩ := he
    simpa using h
  simp [count, this]
theorem count_append (a b : List Entry) (c : Cat) : count (a ++ b) c = count a c + count b c := by
  simp [count]


end Model
