/-
C02 (general form) — the value condition `tailSafe` (no non-empty tail of the value can begin something END matches,
decided with Brzozowski derivatives) in the one-line read-back theorems, and its relation to the older condition
"the last character of the value is one END cannot consume at all" (`mayUse`): the old condition implies the new one.
-/
import ReuseVerif.Spec.TagsGeneral
import ReuseVerif.Lemmas.C07Tags
import ReuseVerif.Lemmas.TagsEnd

namespace C02L
open Py Model Spec C07A

/-! ### derivatives and the characters an expression can consume -/

theorem mayUse_void (c : Char) : mayUse voidRe c = false := by
  simp [voidRe, mayUse, Re.clsMatch, Re.inRanges]

theorem dead_void : dead voidRe = true := by simp [voidRe, dead]

theorem not_nullable_of_dead {r : Re} (h : dead r = true) : nullable r = false := by
  induction r with
  | eps => simp [dead] at h
  | chr c => rfl
  | cls neg rs => rfl
  | cat a b iha ihb =>
    simp only [dead, Bool.or_eq_true] at h
    rcases h with h | h
    · simp [nullable, iha h]
    · simp [nullable, ihb h]
  | alt a b iha ihb =>
    simp only [dead, Bool.and_eq_true] at h
    simp [nullable, iha h.1, ihb h.2]
  | star a _ => simp [dead] at h

/-- a derivative can consume no character the expression could not -/
theorem mayUse_deriv {r : Re} {c : Char} (h : mayUse r c = false) (d : Char) : mayUse (deriv d r) c = false := by
  induction r with
  | eps => exact mayUse_void c
  | chr e =>
    simp only [deriv]
    split
    · rfl
    · exact mayUse_void c
  | cls neg rs =>
    simp only [deriv]
    split
    · rfl
    · exact mayUse_void c
  | cat a b iha ihb =>
    simp only [mayUse, Bool.or_eq_false_iff] at h
    simp only [deriv]
    split
    · simp [mayUse, iha h.1, ihb h.2, h.2]
    · simp [mayUse, iha h.1, h.2]
  | alt a b iha ihb =>
    simp only [mayUse, Bool.or_eq_false_iff] at h
    simp [deriv, mayUse, iha h.1, ihb h.2]
  | star a iha =>
    simp only [mayUse] at h
    simp [deriv, mayUse, iha h, h]

/-- the derivative by a character the expression cannot consume matches nothing -/
theorem dead_deriv_unusable {r : Re} {c : Char} (h : mayUse r c = false) : dead (deriv c r) = true := by
  induction r with
  | eps => exact dead_void
  | chr e =>
    have : (c == e) = false := by simpa [mayUse] using h
    simp [deriv, this, dead_void]
  | cls neg rs =>
    have : Re.clsMatch neg rs c = false := by simpa [mayUse] using h
    simp [deriv, this, dead_void]
  | cat a b iha ihb =>
    simp only [mayUse, Bool.or_eq_false_iff] at h
    simp only [deriv]
    split
    · simp [dead, iha h.1, ihb h.2]
    · simp [dead, iha h.1]
  | alt a b iha ihb =>
    simp only [mayUse, Bool.or_eq_false_iff] at h
    simp [deriv, dead, iha h.1, ihb h.2]
  | star a iha =>
    simp only [mayUse] at h
    simp [deriv, dead, iha h]

/-- what matches nothing has derivatives that match nothing -/
theorem dead_deriv {r : Re} (h : dead r = true) (d : Char) : dead (deriv d r) = true := by
  induction r with
  | eps => simp [dead] at h
  | chr c => simp [dead] at h
  | cls neg rs =>
    simp only [dead, Bool.and_eq_true, Bool.not_eq_true', List.isEmpty_iff] at h
    obtain ⟨rfl, rfl⟩ := h
    simp [deriv, Re.clsMatch, Re.inRanges, dead_void]
  | cat a b iha ihb =>
    simp only [dead, Bool.or_eq_true] at h
    simp only [deriv]
    rcases h with h | h
    · rw [not_nullable_of_dead h]
      simp [dead, iha h]
    · split
      · simp [dead, h, ihb h]
      · simp [dead, h]
  | alt a b iha ihb =>
    simp only [dead, Bool.and_eq_true] at h
    simp [deriv, dead, iha h.1, ihb h.2]
  | star a _ => simp [dead] at h

theorem dead_derivs {r : Re} (h : dead r = true) (t : Text) : dead (derivs t r) = true := by
  induction t generalizing r with
  | nil => exact h
  | cons d ds ih => exact ih (dead_deriv h d)

/-- a text that holds a character the expression cannot consume is the beginning of nothing it matches -/
theorem dead_derivs_unusable {r : Re} (t : Text) (h : ∃ c ∈ t, mayUse r c = false) : dead (derivs t r) = true := by
  induction t generalizing r with
  | nil => obtain ⟨c, hc, _⟩ := h; cases hc
  | cons d ds ih =>
    obtain ⟨c, hc, hu⟩ := h
    simp only [derivs]
    rcases List.mem_cons.mp hc with rfl | hc
    · exact dead_derivs (dead_deriv_unusable hu) ds
    · exact ih ⟨c, hc, mayUse_deriv hu d⟩

/-- **The old condition implies the new one**: a value whose last character END cannot consume is tail-safe. -/
theorem tailSafe_of_last (endRe : Re) (v : Text) (hlast : ∀ c, v.getLast? = some c → mayUse endRe c = false) :
    tailSafe endRe v = true := by
  induction v with
  | nil => rfl
  | cons c cs ih =>
    simp only [tailSafe, Bool.and_eq_true]
    constructor
    · apply dead_derivs_unusable
      have hne : c :: cs ≠ [] := by simp
      refine ⟨(c :: cs).getLast hne, List.getLast_mem hne, hlast _ ?_⟩
      exact List.getLast?_eq_some_getLast hne
    · apply ih
      intro d hd
      apply hlast
      cases cs with
      | nil => cases hd
      | cons x xs => rw [List.getLast?_cons_cons]; exact hd

/-! ### the one-line theorems under `tailSafe` -/

/-- the hypotheses of `C02_tag_value_exact` follow from the finer ones -/
theorem wfValue_of_safe (endRe : Re) (tag pre blanks v trail le : Text)
    (h : WFValueSafe endRe tag pre blanks v trail le = true) : WFValue endRe tag pre blanks v trail le = true := by
  unfold WFValueSafe at h
  simp only [Bool.and_eq_true] at h
  obtain ⟨⟨⟨⟨hshape, hend⟩, hsafe⟩, hs⟩, hf⟩ := h
  have hnl : noNewline v = true := by
    have := hshape; unfold WFShape at this; simp only [Bool.and_eq_true] at this; exact this.1.1.2
  simp [WFValue, WFRaw, hshape, hend, noEndSuffix_of_tailSafe endRe v _ hnl hsafe, hs, hf]

/-- the older purely syntactic hypotheses (`C02_terminators_safe_last`) imply `WFValueSafe` -/
theorem wfValueSafe_of_last (endRe body : Re) (hstar : starBody endRe = some body)
    (tag pre blanks v le : Text) (pieces : List Text) (hp : ∀ p ∈ pieces, pieceOk body p = true)
    (hshape : WFShape tag pre blanks v pieces.flatten le = true)
    (hlast : ∀ c, v.getLast? = some c → mayUse endRe c = false)
    (hs : isStripped v = true) (hf : frameFree pre v = true) :
    WFValueSafe endRe tag pre blanks v pieces.flatten le = true := by
  have hle : isLineEnd le = true := by
    have := hshape; unfold WFShape at this; simp only [Bool.and_eq_true] at this; exact this.2
  have hend : endOk endRe (pieces.flatten ++ le) = true := by
    rw [Model.starBody_eq hstar]; exact Model.endOk_pieces body pieces le hp hle
  simp [WFValueSafe, hshape, hend, tailSafe_of_last endRe v hlast, hs, hf]

end C02L
