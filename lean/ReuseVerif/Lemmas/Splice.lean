/-
Helper lemmas for C08: white-space stripping, `place_header`, shebang extraction, line starts.
-/
import ReuseVerif.Spec.Splice
import ReuseVerif.Lemmas.Str

namespace C08L
open Py Model Spec

/-! ### strip / rstrip -/

theorem dropWhile_eq_nil {α} {p : α → Bool} {l : List α} : l.dropWhile p = [] ↔ l.all p = true := by
  induction l with
  | nil => simp
  | cons x xs ih =>
    simp only [List.dropWhile_cons, List.all_cons]
    cases hp : p x <;> simp [ih]

theorem dropWhile_head_not {α} {p : α → Bool} {l : List α} {x : α} {xs : List α}
    (h : l.dropWhile p = x :: xs) : p x = false := by
  induction l with
  | nil => simp at h
  | cons y ys ih =>
    simp only [List.dropWhile_cons] at h
    cases hp : p y
    · simp [hp] at h; rw [← h.1]; exact hp
    · simp [hp] at h; exact ih h

theorem dropWhile_idem {α} {p : α → Bool} {l : List α} : (l.dropWhile p).dropWhile p = l.dropWhile p := by
  cases h : l.dropWhile p with
  | nil => rfl
  | cons x xs => simp [dropWhile_head_not h]

/-- `s = s.rstrip() + white space` -/
theorem rstrip_spec (s : Text) : ∃ w, s = rstrip s ++ w ∧ Blank w := by
  refine ⟨(s.reverse.takeWhile isSpace).reverse, ?_, ?_⟩
  · have := @List.takeWhile_append_dropWhile _ isSpace s.reverse
    have h2 := congrArg List.reverse this
    simp only [List.reverse_append, List.reverse_reverse] at h2
    exact h2.symm
  · simp only [Blank, List.all_reverse]
    exact List.all_takeWhile

theorem rstrip_idem (s : Text) : rstrip (rstrip s) = rstrip s := by
  simp only [rstrip, List.reverse_reverse, dropWhile_idem]

theorem rstrip_nil_iff (s : Text) : rstrip s = [] ↔ Blank s := by
  simp only [rstrip, List.reverse_eq_nil_iff, dropWhile_eq_nil, List.all_reverse, Blank]

theorem lstrip_nil_iff (s : Text) : lstrip s = [] ↔ Blank s := by
  simp only [lstrip, dropWhile_eq_nil, Blank]

theorem lstrip_suffix (s : Text) : ∃ w, s = w ++ lstrip s ∧ Blank w :=
  ⟨s.takeWhile isSpace, (List.takeWhile_append_dropWhile).symm, List.all_takeWhile⟩

theorem blank_append {a b : Text} : Blank (a ++ b) ↔ Blank a ∧ Blank b := by
  simp [Blank, List.all_append]

/-- `not s.strip()` iff white space only -/
theorem strip_isEmpty_iff (s : Text) : (strip s).isEmpty = true ↔ Blank s := by
  simp only [List.isEmpty_iff, strip, rstrip_nil_iff]
  constructor
  · intro h
    obtain ⟨w, hw, hb⟩ := lstrip_suffix s
    rw [hw]; exact blank_append.mpr ⟨hb, h⟩
  · intro h
    have : lstrip s = [] := (lstrip_nil_iff s).mpr h
    rw [this]; exact (by decide : Blank [])

theorem getLast?_append_ne {α} (u : List α) {p : List α} (h : p ≠ []) : (u ++ p).getLast? = p.getLast? := by
  cases p with
  | nil => exact absurd rfl h
  | cons a as =>
    rw [List.getLast?_append, List.getLast?_eq_some_getLast (l := a :: as) (by simp)]
    rfl

/-! ### `place_header` -/

theorem placeHeader_spliceAt (hdr before after : Text) (ex : Bool) :
    SpliceAt hdr before after (placeHeader hdr before after ex) := by
  unfold placeHeader
  -- what goes above
  have habove : ∃ a, (if (strip before).isEmpty then hdr ++ ['\n'] else rstrip before ++ ['\n', '\n'] ++ (hdr ++ ['\n']))
        = a ++ hdr ++ ['\n'] ∧ Above before a := by
    by_cases hb : (strip before).isEmpty = true
    · exact ⟨[], by simp [hb], .none ((strip_isEmpty_iff _).mp hb)⟩
    · refine ⟨rstrip before ++ ['\n', '\n'], by simp [hb], ?_⟩
      obtain ⟨w, hw, hbw⟩ := rstrip_spec before
      refine .kept [] (rstrip before) w (by simpa using hw) (by decide) hbw ?_ (rstrip_idem _)
      intro hnil
      exact hb ((strip_isEmpty_iff _).mpr ((rstrip_nil_iff _).mp hnil))
  obtain ⟨a, ha, hA⟩ := habove
  simp only [] at ha ⊢
  by_cases hp : (strip after).isEmpty = true
  · refine ⟨a, [], ?_, hA, .none ((strip_isEmpty_iff _).mp hp)⟩
    simp only [hp, if_true, List.append_nil]
    exact ha
  · have hnb : ¬ Blank after := fun h => hp ((strip_isEmpty_iff _).mpr h)
    by_cases hs : (!ex && !(startsWith after ['\n'])) = true
    · refine ⟨a, '\n' :: after, ?_, hA, .line hnb⟩
      simp only [hp, hs, if_true, Bool.false_eq_true, if_false]
      rw [ha]; simp
    · refine ⟨a, after, ?_, hA, .same hnb⟩
      simp only [hp, hs, Bool.false_eq_true, if_false]
      rw [ha]; simp

/-! ### `splitlines(keepends=True)`: the pieces are non-empty and concatenate to the text -/

theorem splitKeep_spec (acc s : Text) :
    (splitLinesAux true acc s).flatten = acc.reverse ++ s ∧ ∀ l ∈ splitLinesAux true acc s, l ≠ [] := by
  fun_induction splitLinesAux true acc s with
  | case1 => simp
  | case2 acc hne =>
    refine ⟨by simp, ?_⟩
    intro l hl
    simp only [List.mem_singleton] at hl
    subst hl
    intro h
    have : acc = [] := by simpa using h
    exact hne this
  | case3 acc cs ih =>
    refine ⟨by simp [ih.1], ?_⟩
    intro l hl
    simp only [if_true, List.mem_cons] at hl
    rcases hl with rfl | hl
    · simp
    · exact ih.2 l hl
  | case4 acc c cs hnot hbr ih =>
    refine ⟨by simp [ih.1], ?_⟩
    intro l hl
    simp only [if_true, List.mem_cons] at hl
    rcases hl with rfl | hl
    · simp
    · exact ih.2 l hl
  | case5 acc c cs hnot hbr ih =>
    refine ⟨by simp [ih.1], ih.2⟩

/-! ### `_extract_shebang` -/

theorem removeFirst_prefix (l rest : Text) (hl : l ≠ []) : removeFirst l (l ++ rest) = rest := by
  cases l with
  | nil => exact absurd rfl hl
  | cons c cs =>
    have hp : (c :: cs).isPrefixOf (c :: (cs ++ rest)) = true :=
      List.isPrefixOf_iff_prefix.mpr ⟨rest, rfl⟩
    show removeFirst (c :: cs) (c :: (cs ++ rest)) = rest
    rw [removeFirst]
    simp only [List.isEmpty_cons, Bool.not_false, Bool.true_and, hp, if_true]
    simp

theorem extractShebang_go_spec (pre : Text) (ls : List Text) (sb t : Text)
    (hflat : ls.flatten = t) (hne : ∀ l ∈ ls, l ≠ []) :
    sb ++ t = (extractShebang.go pre ls sb t).1 ++ (extractShebang.go pre ls sb t).2 := by
  induction ls generalizing sb t with
  | nil => simp [extractShebang.go]
  | cons l ls ih =>
    rw [extractShebang.go]
    split
    · have hl : l ≠ [] := hne l (by simp)
      have ht : t = l ++ ls.flatten := by rw [← hflat]; simp
      have hr : removeFirst l t = ls.flatten := by rw [ht]; exact removeFirst_prefix l _ hl
      rw [hr]
      rw [← ih (sb ++ l) ls.flatten rfl (fun x hx => hne x (by simp [hx]))]
      rw [ht]; simp
    · rfl

/-- `shebang + reduced_text == text` -/
theorem extractShebang_append (pre t : Text) :
    (extractShebang pre t).1 ++ (extractShebang pre t).2 = t := by
  have h := splitKeep_spec [] t
  have := extractShebang_go_spec pre (splitLines t true) [] t (by simpa [splitLines] using h.1) (by simpa [splitLines] using h.2)
  simpa [extractShebang] using this.symm

/-! ### line starts -/

theorem lineStart_go_spec (t acc s : Text) (out : List (Text × Text)) (hacc : acc ++ s = t)
    (hout : ∀ p ∈ out, p.1 ++ p.2 = t ∧ (p.1 = [] ∨ p.1.getLast? = some '\n')) :
    ∀ p ∈ lineStartSuffixes.go acc s out, p.1 ++ p.2 = t ∧ (p.1 = [] ∨ p.1.getLast? = some '\n') := by
  induction s generalizing acc out with
  | nil => intro p hp; simp only [lineStartSuffixes.go, List.mem_reverse] at hp; exact hout p hp
  | cons c cs ih =>
    rw [lineStartSuffixes.go]
    split
    · rename_i hc
      have hc' : c = '\n' := by simpa using hc
      apply ih
      · rw [← hacc]; simp
      · intro p hp
        simp only [List.mem_cons] at hp
        rcases hp with rfl | hp
        · refine ⟨by rw [← hacc]; simp, Or.inr ?_⟩
          simp [hc']
        · exact hout p hp
    · apply ih
      · rw [← hacc]; simp
      · exact hout

/-- every candidate position of `_find_first_spdx_comment` is the start of the text or follows a `\n` -/
theorem lineStartSuffixes_spec (t : Text) :
    ∀ p ∈ lineStartSuffixes t, p.1 ++ p.2 = t ∧ (p.1 = [] ∨ p.1.getLast? = some '\n') := by
  unfold lineStartSuffixes
  apply lineStart_go_spec t [] t
  · rfl
  · intro p hp
    simp only [List.mem_singleton] at hp
    subst hp
    exact ⟨rfl, Or.inl rfl⟩

/-- what `_find_first_spdx_comment` returns: a line start, the comment block found there, the rest -/
theorem findFirst_spec {c : HdrCfg} {t b h a : Text} (hf : findFirstSpdxComment c t = some (b, h, a)) :
    ∃ r comment, b ++ r = t ∧ (b = [] ∨ b.getLast? = some '\n') ∧ commentAtFirst c.style r = .ok comment ∧
      containsReuseInfo c.parses comment = true ∧ h = comment ++ ['\n'] ∧ a = r.drop (comment.length + 1) := by
  unfold findFirstSpdxComment at hf
  obtain ⟨⟨b', r⟩, hmem, hp⟩ := List.exists_of_findSome?_eq_some hf
  have hs := lineStartSuffixes_spec t _ hmem
  simp only [] at hp
  split at hp
  · cases hp
  · rename_i comment hc
    split at hp
    · rename_i hinfo
      simp only [Option.some.injEq, Prod.mk.injEq] at hp
      obtain ⟨rfl, rfl, rfl⟩ := hp
      exact ⟨r, comment, hs.1, hs.2, hc, hinfo, rfl, rfl⟩
    · cases hp

/-! ### `splitlines()` on a text whose only line boundary is `\n`, and the block `"\n".join(lines[:k])` -/

/-- the text read so far followed by the rest starts with the first `k ≥ 1` lines joined by `\n`, and
    what follows them is the end of the text or a `\n` -/
theorem take_join_prefix (acc s : Text) (k : Nat) (hno : NoExoticBreaks s) :
    let c := join ['\n'] ((splitLinesAux false acc s).take (k + 1))
    acc.reverse ++ s = c ∨ ∃ rest, acc.reverse ++ s = c ++ '\n' :: rest := by
  fun_induction splitLinesAux false acc s generalizing k with
  | case1 => simp [join]
  | case2 acc hne => simp [join]
  | case3 acc cs ih =>
    exact absurd (hno '\r' (by simp) (by decide)) (by decide)
  | case4 acc c cs hnot hbr ih =>
    have hc : c = '\n' := hno c (by simp) hbr
    subst hc
    have hno' : NoExoticBreaks cs := fun ch hch => hno ch (by simp [hch])
    simp only [Bool.false_eq_true, if_false, List.take_succ_cons]
    cases k with
    | zero => right; exact ⟨cs, by simp [join]⟩
    | succ k =>
      have := ih k hno'
      simp only [List.reverse_nil, List.nil_append] at this
      cases htk : (splitLinesAux false [] cs).take (k + 1) with
      | nil =>
        right; exact ⟨cs, by simp [join]⟩
      | cons x xs =>
        rw [htk] at this
        rw [join]
        · rcases this with h | ⟨rest, h⟩
          · left; rw [h]; simp
          · right; exact ⟨rest, by rw [h]; simp⟩
        · intro h; cases h
  | case5 acc c cs hnot hbr ih =>
    have hno' : NoExoticBreaks cs := fun ch hch => hno ch (by simp [hch])
    have := ih k hno'
    simpa using this

/-- under `NoExoticBreaks`, a block `comment_at_first_character` returns is a prefix of the text, followed by the end
    of the text or by `\n` -/
theorem commentAt_prefix {s : Generated.Style} {r comment : Text} (hs : s.isEmptyStyle = false)
    (hno : NoExoticBreaks r) (h : commentAtFirst s r = .ok comment) :
    r = comment ∨ ∃ rest, r = comment ++ '\n' :: rest := by
  unfold commentAtFirst at h
  simp only [hs, Bool.false_eq_true, if_false] at h
  split at h
  · cases h
  · split at h
    · rename_i e _
      simp only [Except.ok.injEq] at h
      have := take_join_prefix [] r e hno
      simpa [← h, splitLines] using this
    · cases h

/-- for the `.license` pseudo style the whole text is the block -/
theorem commentAt_empty {s : Generated.Style} {r comment : Text} (hs : s.isEmptyStyle = true)
    (h : commentAtFirst s r = .ok comment) : comment = r := by
  unfold commentAtFirst at h
  simp only [hs, if_true, Except.ok.injEq] at h
  exact h.symm

/-! ### the shebang loop -/

theorem moveShebang_spec (shebangs : List Text) (before header after : Text) :
    moveShebang shebangs before header after = (before, header, after) ∨
    (Blank before ∧ (moveShebang shebangs before header after).1 ++ (moveShebang shebangs before header after).2.1 = header ∧
      (moveShebang shebangs before header after).2.2 = after) ∨
    (before = [] ∧ header = [] ∧ (moveShebang shebangs before header after).2.1 = [] ∧
      (moveShebang shebangs before header after).1 ++ (moveShebang shebangs before header after).2.2 = after) := by
  induction shebangs with
  | nil => left; rfl
  | cons sb rest ih =>
    rw [moveShebang]
    split
    · rename_i hc
      right; left
      simp only [Bool.and_eq_true] at hc
      exact ⟨(strip_isEmpty_iff _).mp hc.2, extractShebang_append sb header, rfl⟩
    · split
      · rename_i hc
        right; right
        simp only [Bool.and_eq_true, List.isEmpty_iff] at hc
        exact ⟨hc.1.2, hc.2, hc.2, extractShebang_append sb after⟩
      · exact ih

theorem above_prepend_blank {w pre a : Text} (hw : Blank w) (h : Above pre a) : Above (w ++ pre) a := by
  cases h with
  | none hb => exact .none (blank_append.mpr ⟨hw, hb⟩)
  | kept w₁ core w₂ hpre h1 h2 hne hr =>
    exact .kept (w ++ w₁) core w₂ (by rw [hpre]; simp) (blank_append.mpr ⟨hw, h1⟩) h2 hne hr

/-! ### the locator's three sections against the text -/

theorem noExotic_suffix {b r : Text} (h : NoExoticBreaks (b ++ r)) : NoExoticBreaks r :=
  fun ch hch => h ch (by simp [hch])

/-- the three sections concatenate to the text — or to the text plus the line end the block is given when it
    reaches the end of a text without final newline -/
theorem locator_text {c : HdrCfg} {t b h a : Text} (hno : NoExoticBreaks t)
    (hf : findFirstSpdxComment c t = some (b, h, a)) :
    b ++ h ++ a = t ∨ (b ++ h ++ a = t ++ ['\n'] ∧ a = []) := by
  obtain ⟨r, comment, hbr, _, hc, _, rfl, rfl⟩ := findFirst_spec hf
  subst hbr
  have hnor := noExotic_suffix hno
  have hcases : r = comment ∨ ∃ rest, r = comment ++ '\n' :: rest := by
    cases hs : c.style.isEmptyStyle with
    | true => left; exact (commentAt_empty hs hc).symm
    | false => exact commentAt_prefix hs hnor hc
  rcases hcases with h1 | ⟨rest, h1⟩
  · right
    have : List.drop (comment.length + 1) r = [] := by rw [h1]; simp
    rw [this]
    exact ⟨by rw [h1]; simp, rfl⟩
  · left
    have : List.drop (comment.length + 1) r = rest := by
      rw [h1]
      have : comment ++ '\n' :: rest = (comment ++ ['\n']) ++ rest := by simp
      rw [this, List.drop_left' (by simp)]
    rw [this, h1]; simp

/-! ### the line-ending translations -/

theorem replaceFuel_lf (e : Text) (f : Nat) (s : Text) (hf : s.length < f) :
    replaceFuel ['\n'] e f s = s.flatMap (fun ch => if ch = '\n' then e else [ch]) := by
  induction f generalizing s with
  | zero => omega
  | succ f ih =>
    cases s with
    | nil => simp [replaceFuel]
    | cons ch cs =>
      rw [replaceFuel]
      by_cases hc : ch = '\n'
      · subst hc
        have hp : (['\n'] : Text).isPrefixOf ('\n' :: cs) = true := by simp [List.isPrefixOf]
        simp only [hp, List.isEmpty_cons, Bool.false_eq_true, not_false_eq_true, and_self, if_true]
        rw [ih _ (by simp at hf ⊢; omega)]
        simp
      · have hp : (['\n'] : Text).isPrefixOf (ch :: cs) = false := by
          simp [List.isPrefixOf]; exact fun h => hc h.symm
        simp only [hp, Bool.false_eq_true, false_and, if_false]
        rw [ih _ (by simp at hf; omega)]
        simp [hc]

/-- `text.replace("\n", e)` maps every `\n` to `e` -/
theorem replace_lf (e s : Text) : Py.replace s ['\n'] e = s.flatMap (fun ch => if ch = '\n' then e else [ch]) :=
  replaceFuel_lf e _ s (by omega)

theorem replace_lf_crlf (s : Text) : Py.replace s ['\n'] ['\r', '\n'] = toCRLF s := replace_lf _ s

theorem replace_lf_cr (s : Text) : Py.replace s ['\n'] ['\r'] = toCR s := by
  rw [replace_lf, toCR]
  induction s with
  | nil => rfl
  | cons ch cs ih => by_cases hc : ch = '\n' <;> simp [hc, ih]

theorem replace_lf_lf (s : Text) : Py.replace s ['\n'] ['\n'] = s := by
  rw [replace_lf]
  induction s with
  | nil => rfl
  | cons ch cs ih => by_cases hc : ch = '\n' <;> simp [hc, ih]

theorem noCR_tail {ch : Char} {cs : Text} (h : NoCR (ch :: cs)) : NoCR cs :=
  fun x hx => h x (by simp [hx])

theorem replaceFuel_crlf_back (f : Nat) (u : Text) (hcr : NoCR u) (hf : (toCRLF u).length < f) :
    replaceFuel ['\r', '\n'] ['\n'] f (toCRLF u) = u := by
  induction f generalizing u with
  | zero => omega
  | succ f ih =>
    cases u with
    | nil => simp [toCRLF, replaceFuel]
    | cons ch cs =>
      have hcs := noCR_tail hcr
      by_cases hc : ch = '\n'
      · subst hc
        have hexp : toCRLF ('\n' :: cs) = '\r' :: '\n' :: toCRLF cs := by simp [toCRLF]
        rw [hexp] at hf ⊢
        rw [replaceFuel]
        have hp : (['\r', '\n'] : Text).isPrefixOf ('\r' :: '\n' :: toCRLF cs) = true := by simp [List.isPrefixOf]
        simp only [hp, List.isEmpty_cons, Bool.false_eq_true, not_false_eq_true, and_self, if_true]
        simp only [List.length_cons, List.drop_succ_cons, List.drop_zero, List.length_nil]
        rw [ih cs hcs (by simp at hf; omega)]
        rfl
      · have hexp : toCRLF (ch :: cs) = ch :: toCRLF cs := by simp [toCRLF, hc]
        rw [hexp] at hf ⊢
        rw [replaceFuel]
        have hne : ch ≠ '\r' := hcr ch (by simp)
        have hp : (['\r', '\n'] : Text).isPrefixOf (ch :: toCRLF cs) = false := by
          simp [List.isPrefixOf]; intro h; exact absurd h.symm hne
        simp only [hp, Bool.false_eq_true, false_and, if_false]
        rw [ih cs hcs (by simp at hf; omega)]

/-- reading back a CRLF file: `text.replace("\r\n", "\n")` undoes the translation -/
theorem replace_crlf_back (u : Text) (hcr : NoCR u) : Py.replace (toCRLF u) ['\r', '\n'] ['\n'] = u :=
  replaceFuel_crlf_back _ u hcr (by omega)

theorem replaceFuel_cr_back (f : Nat) (u : Text) (hcr : NoCR u) (hf : u.length < f) :
    replaceFuel ['\r'] ['\n'] f (toCR u) = u := by
  induction f generalizing u with
  | zero => omega
  | succ f ih =>
    cases u with
    | nil => simp [toCR, replaceFuel]
    | cons ch cs =>
      have hcs := noCR_tail hcr
      by_cases hc : ch = '\n'
      · subst hc
        have hexp : toCR ('\n' :: cs) = '\r' :: toCR cs := by simp [toCR]
        rw [hexp, replaceFuel]
        have hp : (['\r'] : Text).isPrefixOf ('\r' :: toCR cs) = true := by simp [List.isPrefixOf]
        simp only [hp, List.isEmpty_cons, Bool.false_eq_true, not_false_eq_true, and_self, if_true]
        simp only [List.length_cons, List.drop_succ_cons, List.drop_zero, List.length_nil]
        rw [ih cs hcs (by simp at hf; omega)]
        rfl
      · have hexp : toCR (ch :: cs) = ch :: toCR cs := by simp [toCR, hc]
        rw [hexp, replaceFuel]
        have hne : ch ≠ '\r' := hcr ch (by simp)
        have hp : (['\r'] : Text).isPrefixOf (ch :: toCR cs) = false := by
          simp [List.isPrefixOf]; intro h; exact absurd h.symm hne
        simp only [hp, Bool.false_eq_true, false_and, if_false]
        rw [ih cs hcs (by simp at hf; omega)]

/-- reading back a CR file -/
theorem replace_cr_back (u : Text) (hcr : NoCR u) : Py.replace (toCR u) ['\r'] ['\n'] = u := by
  have : (toCR u).length = u.length := by simp [toCR]
  exact replaceFuel_cr_back _ u hcr (by rw [this]; omega)

/-! ### `detect_line_endings` -/

theorem findSub_cr_none {u : Text} (hcr : NoCR u) (pat : Text) : findSub ('\r' :: pat) u = none := by
  induction u with
  | nil => simp [findSub]
  | cons ch cs ih =>
    have hne : ch ≠ '\r' := hcr ch (by simp)
    have hp : ('\r' :: pat).isPrefixOf (ch :: cs) = false := by
      simp [List.isPrefixOf]; intro h; exact absurd h.symm hne
    simp [findSub, hp, ih (noCR_tail hcr)]

theorem detect_lf {u : Text} (hcr : NoCR u) : detectLineEnding u = ['\n'] := by
  simp [detectLineEnding, contains, findSub_cr_none hcr]

theorem findSub_crlf_some {u : Text} (h : '\n' ∈ u) : (findSub ['\r', '\n'] (toCRLF u)).isSome = true := by
  induction u with
  | nil => simp at h
  | cons ch cs ih =>
    by_cases hc : ch = '\n'
    · subst hc
      have hexp : toCRLF ('\n' :: cs) = '\r' :: '\n' :: toCRLF cs := by simp [toCRLF]
      rw [hexp, findSub]
      simp [List.isPrefixOf]
    · have hexp : toCRLF (ch :: cs) = ch :: toCRLF cs := by simp [toCRLF, hc]
      have hmem : '\n' ∈ cs := by
        simp only [List.mem_cons] at h
        rcases h with h | h
        · exact absurd h.symm hc
        · exact h
      rw [hexp, findSub]
      split
      · rfl
      · have := ih hmem
        cases hf : findSub ['\r', '\n'] (toCRLF cs) with
        | none => simp [hf] at this
        | some k => simp

theorem detect_crlf {u : Text} (h : '\n' ∈ u) : detectLineEnding (toCRLF u) = ['\r', '\n'] := by
  simp [detectLineEnding, contains, findSub_crlf_some h]

theorem findSub_no_lf {s : Text} (h : '\n' ∉ s) : findSub ['\r', '\n'] s = none := by
  induction s with
  | nil => simp [findSub]
  | cons ch cs ih =>
    have hcs : '\n' ∉ cs := fun hm => h (by simp [hm])
    have hp : (['\r', '\n'] : Text).isPrefixOf (ch :: cs) = false := by
      cases cs with
      | nil => simp [List.isPrefixOf]
      | cons d ds =>
        have : d ≠ '\n' := fun hd => h (by simp [hd])
        simp [List.isPrefixOf]; intro _ hd; exact absurd hd.symm this
    simp [findSub, hp, ih hcs]

theorem toCR_no_lf (u : Text) : '\n' ∉ toCR u := by
  induction u with
  | nil => simp [toCR]
  | cons ch cs ih =>
    simp only [toCR, List.map_cons, List.mem_cons, not_or] at ih ⊢
    refine ⟨?_, ih⟩
    by_cases hc : ch = '\n' <;> simp [hc]
    exact fun h => hc h.symm

theorem findSub_cr_some {u : Text} (h : '\n' ∈ u) : (findSub ['\r'] (toCR u)).isSome = true := by
  induction u with
  | nil => simp at h
  | cons ch cs ih =>
    by_cases hc : ch = '\n'
    · subst hc
      have hexp : toCR ('\n' :: cs) = '\r' :: toCR cs := by simp [toCR]
      rw [hexp, findSub]
      simp [List.isPrefixOf]
    · have hexp : toCR (ch :: cs) = ch :: toCR cs := by simp [toCR, hc]
      have hmem : '\n' ∈ cs := by
        simp only [List.mem_cons] at h
        rcases h with h | h
        · exact absurd h.symm hc
        · exact h
      rw [hexp, findSub]
      split
      · rfl
      · have := ih hmem
        cases hf : findSub ['\r'] (toCR cs) with
        | none => simp [hf] at this
        | some k => simp

theorem detect_cr {u : Text} (h : '\n' ∈ u) : detectLineEnding (toCR u) = ['\r'] := by
  simp [detectLineEnding, contains, findSub_no_lf (toCR_no_lf u), findSub_cr_some h]

end C08L
