/-
Lemmas about `cleanTag` (the loop body of `find_spdx_tag`): white-space stripping and the
mirrored-frame rule.
-/
import ReuseVerif.Lemmas.Tags

namespace Model
open Py Spec

/-- neither the first nor the last character is white space -/
structure Stripped (s : Text) : Prop where
  head : ∀ c cs, s = c :: cs → isSpace c = false
  last : ∀ c, s.getLast? = some c → isSpace c = false

theorem lstrip_of_head {s : Text} (h : ∀ c cs, s = c :: cs → isSpace c = false) : lstrip s = s := by
  cases s with
  | nil => rfl
  | cons c cs => simp [lstrip, List.dropWhile_cons, h c cs rfl]

theorem rstrip_of_last {s : Text} (h : ∀ c, s.getLast? = some c → isSpace c = false) : rstrip s = s := by
  unfold rstrip
  have : s.reverse.dropWhile isSpace = s.reverse := by
    cases hr : s.reverse with
    | nil => rfl
    | cons c cs =>
      have : s.getLast? = some c := by
        rw [← List.head?_reverse, hr]; rfl
      simp [List.dropWhile_cons, h c this]
  rw [this, List.reverse_reverse]

theorem strip_of_stripped {s : Text} (h : Stripped s) : strip s = s := by
  unfold strip
  rw [lstrip_of_head h.head, rstrip_of_last h.last]

theorem dropWhile_head_not {p : Char → Bool} (s : Text) :
    ∀ c cs, s.dropWhile p = c :: cs → p c = false := by
  induction s with
  | nil => intro c cs h; simp at h
  | cons x xs ih =>
    intro c cs h
    by_cases hx : p x = true
    · simp only [List.dropWhile_cons, hx, if_true] at h
      exact ih c cs h
    · simp only [List.dropWhile_cons, hx] at h
      simp only [Bool.false_eq_true, if_false, List.cons.injEq] at h
      rw [← h.1]; simpa using hx

theorem mem_takeWhile_p {p : Char → Bool} {l : Text} {c : Char} (h : c ∈ l.takeWhile p) : p c = true := by
  induction l with
  | nil => simp at h
  | cons x xs ih =>
    by_cases hx : p x = true
    · simp only [List.takeWhile_cons, hx, if_true, List.mem_cons] at h
      rcases h with rfl | h
      · exact hx
      · exact ih h
    · simp [List.takeWhile_cons, hx] at h

theorem dropWhile_all {p : Char → Bool} {l : Text} (h : l.all p = true) : l.dropWhile p = [] := by
  induction l with
  | nil => rfl
  | cons x xs ih =>
    simp only [List.all_cons, Bool.and_eq_true] at h
    simp [List.dropWhile_cons, h.1, ih h.2]

/-- `rstrip s` is `s` without a white-space tail -/
theorem rstrip_split (s : Text) : ∃ t, s = rstrip s ++ t ∧ t.all isSpace = true := by
  refine ⟨(s.reverse.takeWhile isSpace).reverse, ?_, ?_⟩
  · unfold rstrip
    rw [← List.reverse_append, List.takeWhile_append_dropWhile, List.reverse_reverse]
  · simp only [List.all_reverse, List.all_eq_true]
    intro c hc
    exact mem_takeWhile_p hc

theorem rstrip_last (s : Text) : ∀ c, (rstrip s).getLast? = some c → isSpace c = false := by
  intro c h
  unfold rstrip at h
  rw [List.getLast?_reverse] at h
  cases hd : s.reverse.dropWhile isSpace with
  | nil => simp [hd] at h
  | cons x xs =>
    rw [hd] at h
    simp only [List.head?_cons, Option.some.injEq] at h
    subst h
    exact dropWhile_head_not _ _ _ hd

theorem stripped_strip (s : Text) : Stripped (strip s) := by
  refine ⟨?_, rstrip_last _⟩
  intro c cs h
  unfold strip at h
  obtain ⟨t, ht, _⟩ := rstrip_split (lstrip s)
  rw [h] at ht
  -- lstrip s = c :: (cs ++ t)
  exact dropWhile_head_not (p := isSpace) s c (cs ++ t) (by simpa [lstrip] using ht)

theorem stripped_of_isStripped {v : Text} (h : isStripped v = true) : Stripped v := by
  have : strip v = v := by simpa [isStripped] using h
  rw [← this]; exact stripped_strip v

theorem stripped_reverse {s : Text} (h : Stripped s) : Stripped s.reverse := by
  refine ⟨?_, ?_⟩
  · intro c cs hr
    apply h.last c
    rw [← List.head?_reverse, hr]; rfl
  · intro c hl
    rw [List.getLast?_reverse] at hl
    cases s with
    | nil => simp at hl
    | cons x xs =>
      simp only [List.head?_cons, Option.some.injEq] at hl
      subst hl
      exact h.head _ _ rfl

theorem stripped_mirror (pre : Text) : Stripped (mirror pre) := stripped_reverse (stripped_strip pre)

/-- a value that is stripped and does not end like the frame of its line is returned as it is -/
theorem cleanTag_plain (pre v : Text) (hs : isStripped v = true) (hf : frameFree pre v = true) :
    cleanTag (pre, v) = v := by
  have hv : strip v = v := by simpa [isStripped] using hs
  unfold frameFree mirror at hf
  simp only [Bool.not_eq_true'] at hf
  unfold cleanTag
  simp only [hv]
  rw [if_neg (by rw [hf]; exact Bool.false_ne_true)]
  exact hv

theorem getLast?_append_ne {a b : Text} (hb : b ≠ []) : (a ++ b).getLast? = b.getLast? := by
  rw [List.getLast?_append]
  cases h : b.getLast? with
  | none => exact absurd (List.getLast?_eq_none_iff.mp h) hb
  | some x => rfl

theorem stripped_sandwich {a mid b : Text} (ha : Stripped a) (hb : Stripped b) (hane : a ≠ []) (hbne : b ≠ []) :
    Stripped (a ++ mid ++ b) := by
  refine ⟨?_, ?_⟩
  · intro c cs h
    cases a with
    | nil => exact absurd rfl hane
    | cons x xs =>
      simp only [List.cons_append, List.cons.injEq] at h
      rw [← h.1]; exact ha.head _ _ rfl
  · intro c h
    rw [getLast?_append_ne hbne] at h
    exact hb.last c h

theorem rstrip_append_spaces {v ws : Text} (hv : ∀ c, v.getLast? = some c → isSpace c = false)
    (hws : ws.all isSpace = true) : rstrip (v ++ ws) = v := by
  unfold rstrip
  rw [List.reverse_append]
  have h1 : (ws.reverse ++ v.reverse).dropWhile isSpace = v.reverse.dropWhile isSpace := by
    apply List.dropWhile_append_of_pos
    intro c hc
    simp only [List.all_eq_true] at hws
    exact hws c (List.mem_reverse.mp hc)
  rw [h1]
  exact rstrip_of_last hv

/-- an ASCII-art frame: the mirror image of the line prefix, set off by white space, is removed
    and nothing else -/
theorem cleanTag_framed (pre v ws : Text) (hs : isStripped v = true) (hne : ws.isEmpty = false)
    (hws : ws.all isSpace = true) (hm : (mirror pre).isEmpty = false) :
    cleanTag (pre, v ++ ws ++ mirror pre) = v := by
  have hSv := stripped_of_isStripped hs
  have hSm := stripped_mirror pre
  have hmne : mirror pre ≠ [] := by intro e; simp [e] at hm
  have hwsne : ws ≠ [] := by intro e; simp [e] at hne
  have hlastws : ((v ++ ws).getLast?.map isSpace).getD false = true := by
    rw [getLast?_append_ne hwsne]
    cases hl : ws.getLast? with
    | none => exact absurd (List.getLast?_eq_none_iff.mp hl) hwsne
    | some x =>
      simp only [List.all_eq_true] at hws
      simp [hws x (List.mem_of_getLast? hl)]
  have hstripvws : strip (v ++ ws) = v := by
    unfold strip
    have : lstrip (v ++ ws) = v ++ ws ∨ v = [] := by
      cases v with
      | nil => exact .inr rfl
      | cons c cs =>
        left
        simp [lstrip, List.dropWhile_cons, hSv.head c cs rfl]
    rcases this with h | rfl
    · rw [h]; exact rstrip_append_spaces hSv.last hws
    · simp only [List.nil_append]
      have : lstrip ws = [] := by
        exact dropWhile_all hws
      rw [this]; rfl
  unfold cleanTag
  show strip (if _ then _ else _) = v
  by_cases hv : v = []
  · subst hv
    -- the value is the frame alone
    have hval : strip ([] ++ ws ++ mirror pre) = mirror pre := by
      unfold strip
      have : lstrip ([] ++ ws ++ mirror pre) = mirror pre := by
        simp only [List.nil_append, lstrip]
        rw [List.dropWhile_append_of_pos (by simpa [List.all_eq_true] using hws)]
        exact lstrip_of_head hSm.head
      rw [this]; exact rstrip_of_last hSm.last
    simp only [hval]
    have hsuf : (mirror pre).isSuffixOf (mirror pre) = true := List.isSuffixOf_iff_suffix.mpr (List.suffix_refl _)
    have hmir : (strip pre).reverse = mirror pre := rfl
    simp only [hmir, hm, hsuf, Bool.not_false, Bool.true_and, beq_self_eq_true, Bool.true_or, if_true,
      Nat.sub_self, List.take_zero]
    rfl
  · have hval : strip (v ++ ws ++ mirror pre) = v ++ ws ++ mirror pre :=
      strip_of_stripped (stripped_sandwich hSv hSm hv hmne)
    have hsuf : (mirror pre).isSuffixOf (v ++ ws ++ mirror pre) = true :=
      List.isSuffixOf_iff_suffix.mpr (List.suffix_append _ _)
    have hmir : (strip pre).reverse = mirror pre := rfl
    have htake : (v ++ ws ++ mirror pre).take ((v ++ ws ++ mirror pre).length - (mirror pre).length) = v ++ ws := by
      have : (v ++ ws ++ mirror pre).length - (mirror pre).length = (v ++ ws).length := by
        simp only [List.length_append]; omega
      rw [this, List.take_left']
      rfl
    simp only [hval, hmir, hm, hsuf, htake, hlastws, Bool.not_false, Bool.true_and, Bool.or_true, if_true]
    exact hstripvws

end Model
