/-
C09 (full-file step): the three sections `find_and_replace_header` / `add_new_header` cut a text into
(`Spec.sectionsOf`) against the text: they concatenate to it (after white space the shebang loop sets aside, and
up to the line feed a block reaching the end of the text is given), the part above the block ends a line (or
nothing follows it), the block ends a line.
-/
import ReuseVerif.Lemmas.C09Pieces
import ReuseVerif.Lemmas.HeaderParts
import ReuseVerif.Lemmas.FirstLine

namespace C09L
open Py Model Spec C08L C10L

/-! ### `splitlines(keepends=True)` under `NoExoticBreaks`: every piece but the last ends with "\n" -/

/-- every piece but the last is non-empty and ends with a line feed -/
def EndedButLast : List Text → Prop
  | [] => True
  | [_] => True
  | x :: y :: r => lineEnded x = true ∧ EndedButLast (y :: r)

theorem splitKeep_ended (acc s : Text) (hno : NoExoticBreaks s) : EndedButLast (splitLinesAux true acc s) := by
  fun_induction splitLinesAux true acc s with
  | case1 => trivial
  | case2 acc hne => trivial
  | case3 acc cs ih => exact absurd (hno '\r' (by simp) (by decide)) (by decide)
  | case4 acc c cs hnot hbr ih =>
    have hc : c = '\n' := hno c (by simp) hbr
    subst hc
    have hno' : NoExoticBreaks cs := fun ch hch => hno ch (by simp [hch])
    have := ih hno'
    simp only [if_true]
    cases hr : splitLinesAux true [] cs with
    | nil => trivial
    | cons y r =>
      rw [hr] at this
      exact ⟨by simp [lineEnded], this⟩
  | case5 acc c cs hnot hbr ih =>
    exact ih (fun ch hch => hno ch (by simp [hch]))

theorem lineEnded_append {a b : Text} (hb : lineEnded b = true) (hne : b ≠ []) : lineEnded (a ++ b) = true := by
  rcases lineEnded_iff.mp hb with h | ⟨u, rfl⟩
  · exact absurd h hne
  · apply lineEnded_iff.mpr; right; exact ⟨a ++ u, by simp⟩

theorem extractShebang_go_ended (pre : Text) (ls : List Text) (sb t : Text)
    (hflat : ls.flatten = t) (hne : ∀ l ∈ ls, l ≠ []) (he : EndedButLast ls) (hsb : lineEnded sb = true) :
    lineEnded (extractShebang.go pre ls sb t).1 = true ∨ (extractShebang.go pre ls sb t).2 = [] := by
  induction ls generalizing sb t with
  | nil => right; simp [extractShebang.go, ← hflat]
  | cons l ls ih =>
    rw [extractShebang.go]
    split
    · have hl : l ≠ [] := hne l (by simp)
      have ht : t = l ++ ls.flatten := by rw [← hflat]; simp
      have hr : removeFirst l t = ls.flatten := by rw [ht]; exact removeFirst_prefix l _ hl
      rw [hr]
      cases ls with
      | nil => right; simp [extractShebang.go]
      | cons y r =>
        exact ih (sb ++ l) _ rfl (fun x hx => hne x (by simp [hx])) he.2 (lineEnded_append he.1 hl)
    · exact .inl hsb

/-- the shebang lines `_extract_shebang` takes end a line — or they are the whole text -/
theorem extractShebang_ended (pre t : Text) (hno : NoExoticBreaks t) :
    lineEnded (extractShebang pre t).1 = true ∨ (extractShebang pre t).2 = [] := by
  have h := splitKeep_spec [] t
  unfold extractShebang
  exact extractShebang_go_ended pre (splitLines t true) [] t (by simpa [splitLines] using h.1)
    (by simpa [splitLines] using h.2) (by simpa [splitLines] using splitKeep_ended [] t hno) (by decide)

theorem noExotic_of_append_left {a b : Text} (h : NoExoticBreaks (a ++ b)) : NoExoticBreaks a :=
  fun ch hch => h ch (by simp [hch])

theorem lineEnded_suffix {a b : Text} (h : lineEnded (a ++ b) = true) : lineEnded b = true := by
  rcases lineEnded_iff.mp h with h0 | ⟨u, hu⟩
  · have := List.append_eq_nil_iff.mp h0; rw [this.2]; decide
  · cases hb : b.reverse with
    | nil => have : b = [] := by simpa using hb
             rw [this]; decide
    | cons c cs =>
      have hb2 : b = cs.reverse ++ [c] := by have := congrArg List.reverse hb; simpa using this
      rw [hb2, ← List.append_assoc] at hu
      have := congrArg List.getLast? hu
      simp only [List.getLast?_append, List.getLast?_singleton, Option.some_or, Option.some.injEq] at this
      rw [hb2, this]
      apply lineEnded_iff.mpr; right; exact ⟨_, rfl⟩

/-- the shebang loop: nothing moves, or the marker lines leave the block, or (no block) they leave the text -/
theorem moveShebang_spec2 (shebangs : List Text) (before header after : Text) :
    moveShebang shebangs before header after = (before, header, after) ∨
    (∃ sb, Blank before ∧ moveShebang shebangs before header after =
      ((extractShebang sb header).1, (extractShebang sb header).2, after)) ∨
    (∃ sb, before = [] ∧ header = [] ∧ moveShebang shebangs before header after =
      ((extractShebang sb after).1, [], (extractShebang sb after).2)) := by
  induction shebangs with
  | nil => left; rfl
  | cons sb rest ih =>
    rw [moveShebang]
    split
    · rename_i hc
      right; left
      simp only [Bool.and_eq_true] at hc
      exact ⟨sb, (strip_isEmpty_iff _).mp hc.2, rfl⟩
    · split
      · rename_i hc
        right; right
        simp only [Bool.and_eq_true, List.isEmpty_iff] at hc
        refine ⟨sb, hc.1.2, hc.2, ?_⟩
        rw [hc.2]
      · exact ih

/-! ### the sections against the text -/

/-- what the sections of an invocation are to the text, in the words the piecewise readers need -/
structure SectionsOK (t b h a : Text) : Prop where
  /-- white space the shebang loop set aside -/
  text : ∃ b0, Blank b0 ∧ lineEnded b0 = true ∧ (t = b0 ++ b ++ h ++ a ∨ (t ++ ['\n'] = b0 ++ b ++ h ++ a ∧ a = []))
  above : lineEnded b = true ∨ (h = [] ∧ a = [])
  block : lineEnded h = true

theorem lineEnded_of_getLast {b : Text} (h : b = [] ∨ b.getLast? = some '\n') : lineEnded b = true := by
  unfold lineEnded
  rcases h with rfl | h
  · rfl
  · simp [h]

theorem sections_add (c : HdrCfg) (t : Text) (hno : NoExoticBreaks t) :
    SectionsOK t (addSections c t).1 [] (addSections c t).2 := by
  unfold addSections
  split
  · rename_i sb _
    refine ⟨⟨[], by decide, by decide, .inl ?_⟩, ?_, by decide⟩
    · simpa using (extractShebang_append sb t).symm
    · rcases extractShebang_ended sb t hno with h | h
      · exact .inl h
      · exact .inr ⟨rfl, h⟩
  · exact ⟨⟨[], by decide, by decide, .inl (by simp)⟩, .inl rfl, rfl⟩

theorem sections_replace (c : HdrCfg) (t : Text) (hstyle : (c.style.name == "EmptyCommentStyle") = false)
    (hno : NoExoticBreaks t) :
    SectionsOK t (replaceSections c t).1 (replaceSections c t).2.1 (replaceSections c t).2.2 := by
  -- the locator's sections
  have hloc : ∃ b0 h0 a0, replaceSections c t = moveShebang c.style.shebangs b0 h0 a0 ∧
      (b0 ++ h0 ++ a0 = t ∨ (b0 ++ h0 ++ a0 = t ++ ['\n'] ∧ a0 = [])) ∧ lineEnded b0 = true ∧ lineEnded h0 = true ∧
      (h0 = [] → b0 = [] ∧ a0 = t) := by
    unfold replaceSections
    simp only [hstyle, Bool.false_eq_true, if_false]
    cases hf : findFirstSpdxComment c t with
    | none => exact ⟨[], [], t, rfl, Or.inl rfl, by decide, by decide, fun _ => ⟨rfl, rfl⟩⟩
    | some x =>
      obtain ⟨b, hh, a⟩ := x
      obtain ⟨r, comment, _, hb, _, _, hhe, _⟩ := findFirst_spec hf
      refine ⟨b, hh, a, rfl, locator_text hno hf, lineEnded_of_getLast hb, ?_, ?_⟩
      · rw [hhe]; apply lineEnded_iff.mpr; right; exact ⟨comment, rfl⟩
      · intro h0; rw [hhe] at h0; simp at h0
  obtain ⟨b0, h0, a0, hsec, htext, hb0, hh0, hnil⟩ := hloc
  rw [hsec]
  have hnoall : NoExoticBreaks (b0 ++ h0 ++ a0) := by
    rcases htext with h | ⟨h, _⟩
    · rw [h]; exact hno
    · rw [h]
      intro ch hch hbr
      simp only [List.mem_append, List.mem_singleton] at hch
      rcases hch with h1 | h1
      · exact hno ch h1 hbr
      · exact h1
  rcases moveShebang_spec2 c.style.shebangs b0 h0 a0 with hk | ⟨sb, hb, hk⟩ | ⟨sb, hb, hh, hk⟩
  · rw [hk]
    refine ⟨⟨[], by decide, by decide, ?_⟩, .inl hb0, hh0⟩
    rcases htext with h | ⟨h, h2⟩
    · exact .inl (by simpa using h.symm)
    · exact .inr ⟨by simpa using h.symm, h2⟩
  · -- the shebang lines are taken from the block; the white space above goes
    rw [hk]
    have happ := extractShebang_append sb h0
    have hnoh : NoExoticBreaks h0 := noExotic_suffix (b := b0) (noExotic_of_append_left (b := a0) hnoall)
    have hm2 : lineEnded (extractShebang sb h0).2 = true := lineEnded_suffix (a := (extractShebang sb h0).1) (by rw [happ]; exact hh0)
    refine ⟨⟨b0, hb, hb0, ?_⟩, ?_, hm2⟩
    · have e : b0 ++ (extractShebang sb h0).1 ++ (extractShebang sb h0).2 ++ a0 = b0 ++ h0 ++ a0 := by
        rw [List.append_assoc b0, happ]
      simp only [e]
      rcases htext with h | ⟨h, h2⟩
      · exact .inl h.symm
      · exact .inr ⟨h.symm, h2⟩
    · left
      rcases extractShebang_ended sb h0 hnoh with h | h
      · exact h
      · rw [h, List.append_nil] at happ; rw [happ]; exact hh0
  · subst hb; subst hh
    rw [hk]
    obtain ⟨_, ha0⟩ := hnil rfl
    subst ha0
    have happ := extractShebang_append sb a0
    refine ⟨⟨[], by decide, by decide, .inl (by simpa using happ.symm)⟩, ?_, rfl⟩
    rcases extractShebang_ended sb a0 hno with h | h
    · exact .inl h
    · exact .inr ⟨rfl, h⟩

/-! ### the `.license` pseudo style -/

theorem lineStart_go_mem (acc s : Text) (out : List (Text × Text)) (p : Text × Text) (hp : p ∈ out) :
    p ∈ lineStartSuffixes.go acc s out := by
  induction s generalizing acc out with
  | nil => simpa [lineStartSuffixes.go] using hp
  | cons c cs ih =>
    rw [lineStartSuffixes.go]
    split
    · exact ih _ _ (List.mem_cons_of_mem _ hp)
    · exact ih _ _ hp

theorem lineStart_first (t : Text) : (([], t) : Text × Text) ∈ lineStartSuffixes t := by
  unfold lineStartSuffixes
  exact lineStart_go_mem [] t _ _ (by simp)

/-- the text declares nothing the readers could find -/
def Nothing (t : Text) : Prop := (extractRaw t).cpr = [] ∧ (extractRaw t).lic = [] ∧ (extractRaw t).con = []

/-- a `.license` file in which the locator finds no information holds none, when all its expressions parse -/
theorem nothing_of_no_header {c : HdrCfg} {t : Text} (hE : c.style.isEmptyStyle = true)
    (hf : findFirstSpdxComment c t = none) (hp : (extractRaw t).lic.all c.parses = true) : Nothing t := by
  unfold findFirstSpdxComment at hf
  rw [List.findSome?_eq_none_iff] at hf
  have h0 := hf _ (lineStart_first t)
  have hc : commentAtFirst c.style t = .ok t := by unfold commentAtFirst; simp [hE]
  simp only [hc] at h0
  split at h0
  · cases h0
  · rename_i hinfo
    unfold containsReuseInfo extractInfo at hinfo
    simp only [hp, if_true, Bool.not_eq_true, Bool.not_eq_false', Bool.and_eq_true, List.isEmpty_iff] at hinfo
    exact ⟨hinfo.1.2, hinfo.1.1, hinfo.2⟩

/-- the sections for the `.license` pseudo style: everything from the first position with REUSE information is the block -/
theorem sections_license (c : HdrCfg) (t : Text) (hstyle : (c.style.name == "EmptyCommentStyle") = true)
    (hsb : c.style.shebangs = []) (hp : (extractRaw t).lic.all c.parses = true) :
    SectionsOK t (replaceSections c t).1 (replaceSections c t).2.1 (replaceSections c t).2.2 ∨
    ((replaceSections c t).1 = [] ∧ (replaceSections c t).2.1 = [] ∧ (replaceSections c t).2.2 = [] ∧ Nothing t) := by
  have hE : c.style.isEmptyStyle = true := by unfold Generated.Style.isEmptyStyle; simp [hstyle]
  unfold replaceSections
  simp only [hstyle, if_true, hsb, moveShebang]
  cases hf : findFirstSpdxComment c t with
  | none =>
    right
    refine ⟨?_, ?_, ?_, nothing_of_no_header hE hf hp⟩ <;> first | rfl | trivial
  | some x =>
    obtain ⟨b, hh, a⟩ := x
    obtain ⟨r, comment, hbr, hb, hc, _, hhe, _⟩ := findFirst_spec hf
    have hcr : comment = r := commentAt_empty hE hc
    left
    refine ⟨⟨[], by decide, by decide, .inr ⟨?_, rfl⟩⟩, .inl (lineEnded_of_getLast hb), ?_⟩
    · simp only [List.nil_append, List.append_nil]
      rw [hhe, hcr, ← hbr]; simp
    · simp only [hhe]; apply lineEnded_iff.mpr; right; exact ⟨comment, rfl⟩

end C09L
