import ReuseVerif.Spec.SpdxDoc

namespace Spec.Spdx
open Py Model Model.Spdx

-- ---------------------------------------------------------------- splitTag

theorem splitTag_tag (t v : Text) (ht : t.all Char.isAlpha = true) :
    splitTag (t ++ colonSp ++ v) = some (t, v) := by
  induction t with
  | nil => simp [splitTag, colonSp]
  | cons c cs ih =>
    simp only [List.all_cons, Bool.and_eq_true] at ht
    have hc : c ≠ ':' := by
      intro h; rw [h] at ht; exact absurd ht.1 (by decide)
    simp only [List.cons_append, splitTag, hc, if_false, ht.1, if_true]
    rw [ih ht.2]; rfl

-- ---------------------------------------------------------------- closing marker

theorem close_prefix_overlap (l : Text) (hne : l ≠ [])
    (h : textClose.isPrefixOf (l ++ textClose) = true) : textClose.isPrefixOf l = true := by
  rcases l with _ | ⟨a, _ | ⟨b, _ | ⟨c, _ | ⟨d, _ | ⟨e, _ | ⟨f, _ | ⟨g, rest⟩⟩⟩⟩⟩⟩⟩
  · exact absurd rfl hne
  all_goals first
    | (simp [textClose, List.isPrefixOf] at h; done)
    | (simp [textClose, List.isPrefixOf] at h ⊢; exact h)

theorem findSub_append_close (b : Line) (h : findSub textClose b = none) :
    findSub textClose (b ++ textClose) = some b.length := by
  induction b with
  | nil => decide
  | cons c cs ih =>
    simp only [findSub] at h
    split at h
    · cases h
    · rename_i hp
      have hcs : findSub textClose cs = none := by
        cases hf : findSub textClose cs with
        | none => rfl
        | some k => simp [hf] at h
      have hnp : ¬ textClose.isPrefixOf (c :: cs ++ textClose) = true := fun hq =>
        hp (close_prefix_overlap (c :: cs) (by simp) hq)
      simp only [List.cons_append] at hnp
      simp [findSub, hnp, ih hcs]

theorem closeStatus_noClose (l : Line) (h : findSub textClose l = none) :
    closeStatus l = .noClose := by
  simp [closeStatus, h]

theorem closeStatus_close (b : Line) (h : findSub textClose b = none) :
    closeStatus (b ++ textClose) = .closes b := by
  simp [closeStatus, findSub_append_close b h]

-- ---------------------------------------------------------------- reading back

theorem textLineOk_find {l : Line} (h : textLineOk l = true) : findSub textClose l = none := by
  simp only [textLineOk, Bool.and_eq_true, Option.isNone_iff_eq_none] at h
  exact h.2

theorem read_text_rest (tag : Text) (first : Line) (c : Line) (cs : List Line) (rest : List Line)
    (rev : List Line) (hc : textLineOk c = true) (hcs : cs.all textLineOk = true) :
    read (.txt tag first rev) (closeLast c cs ++ rest)
      = (read .out rest).map (⟨tag, .text first (rev.reverse ++ c :: cs)⟩ :: ·) := by
  induction cs generalizing c rev with
  | nil =>
    simp only [closeLast, List.cons_append, List.nil_append, read,
      closeStatus_close c (textLineOk_find hc), List.reverse_cons]
  | cons d ds ih =>
    simp only [List.all_cons, Bool.and_eq_true] at hcs
    simp only [closeLast, List.cons_append, read, closeStatus_noClose c (textLineOk_find hc)]
    rw [ih d (c :: rev) hcs.1 hcs.2]
    simp

theorem read_entry (e : Entry) (rest : List Line) (h : entryOk e = true) :
    read .out (renderEntry e ++ rest) = (read .out rest).map (e :: ·) := by
  obtain ⟨tag, val⟩ := e
  simp only [entryOk, tagOk, Bool.and_eq_true, Bool.not_eq_true'] at h
  obtain ⟨⟨hne, halpha⟩, hval⟩ := h
  have hne' : tag ≠ [] := by
    intro h0; rw [h0] at hne; simp at hne
  have hline : ∀ v : Text, (tag ++ colonSp ++ v).isEmpty = false := by
    intro v; cases tag with
    | nil => exact absurd rfl hne'
    | cons a as => rfl
  cases val with
  | single v =>
    simp only [valueOk, plainValue, Bool.and_eq_true, Bool.not_eq_true'] at hval
    simp only [renderEntry, List.cons_append, List.nil_append, read, hline, splitTag_tag tag v halpha,
      hne, hval.2]
    simp
  | text b bs =>
    simp only [valueOk, Bool.and_eq_true] at hval
    have hopen : ∀ x : Text, textOpen.isPrefixOf (textOpen ++ x) = true := by
      intro x; simp [textOpen, List.isPrefixOf]
    have hdrop : ∀ x : Text, (textOpen ++ x).drop textOpen.length = x := by
      intro x; simp
    cases bs with
    | nil =>
      simp only [renderEntry, List.cons_append, List.nil_append, read, hline,
        splitTag_tag tag _ halpha, hne, hopen, hdrop, closeStatus_close b (textLineOk_find hval.1)]
      simp
    | cons c cs =>
      simp only [List.all_cons, Bool.and_eq_true] at hval
      simp only [renderEntry, List.cons_append, read, hline,
        splitTag_tag tag _ halpha, hne, hopen, hdrop, closeStatus_noClose b (textLineOk_find hval.1)]
      rw [read_text_rest tag b c cs rest [] hval.2.1 hval.2.2]
      simp

theorem read_entries (es : List Entry) (rest : List Line) (h : ∀ e ∈ es, entryOk e = true) :
    read .out (renderEntries es ++ rest) = (read .out rest).map (es ++ ·) := by
  induction es with
  | nil => simp [renderEntries]
  | cons e es ih =>
    have : renderEntries (e :: es) = renderEntry e ++ renderEntries es := by
      simp [renderEntries]
    rw [this, List.append_assoc, read_entry e _ (h e (by simp)),
      ih (fun e' he' => h e' (by simp [he']))]
    cases read .out rest <;> simp

theorem read_sections (secs : List (List Entry)) (rest : List Line)
    (h : ∀ s ∈ secs, ∀ e ∈ s, entryOk e = true) :
    read .out (renderSections secs ++ rest) = (read .out rest).map (secs.flatten ++ ·) := by
  induction secs with
  | nil => simp [renderSections]
  | cons s secs ih =>
    have : renderSections (s :: secs) = ([] :: renderEntries s) ++ renderSections secs := by
      simp [renderSections]
    rw [this, List.append_assoc, List.cons_append]
    simp only [read, List.isEmpty_nil, if_true]
    rw [read_entries s _ (h s (by simp)), ih (fun s' hs' => h s' (by simp [hs']))]
    cases read .out rest <;> simp

end Spec.Spdx

namespace Spec.Spdx
open Py Model Model.Spdx

-- ---------------------------------------------------------------- side conditions reach every entry

theorem noBreak_append (a b : Text) : noBreak (a ++ b) = (noBreak a && noBreak b) := by
  simp [noBreak]

theorem plainValue_prefix (c : Char) (cs v : Text) (hc : c ≠ '<') (hpre : noBreak (c :: cs) = true)
    (hv : noBreak v = true) : plainValue ((c :: cs) ++ v) = true := by
  simp only [plainValue, Bool.and_eq_true, Bool.not_eq_true']
  refine ⟨by rw [noBreak_append, hpre, hv]; rfl, ?_⟩
  simp [textOpen, List.isPrefixOf, Ne.symm hc]

theorem plainValue_noBreak {v : Text} (h : plainValue v = true) : noBreak v = true := by
  simp only [plainValue, Bool.and_eq_true] at h; exact h.1

theorem noBreak_formatCreator (c : Option Text) (h : creatorOk c = true) :
    noBreak (formatCreator c) = true := by
  cases c with
  | none => decide +kernel
  | some c =>
    simp only [creatorOk] at h
    simp only [formatCreator]
    split
    · exact h
    · rw [noBreak_append, h]; decide

theorem mem_sortReports {r : FileRep} {rs : List FileRep} : r ∈ sortReports rs ↔ r ∈ rs :=
  (List.mergeSort_perm _ _).mem_iff

theorem mem_sortLics {l : LicEntry} {ls : List LicEntry} : l ∈ sortLics ls ↔ l ∈ ls :=
  (List.mergeSort_perm _ _).mem_iff

theorem mem_sortTexts {t : Text} {l : List Text} : t ∈ sortTexts l ↔ t ∈ l :=
  (List.mergeSort_perm _ _).mem_iff

theorem header_ok (p : DocParams) (h : paramsOk p = true) : ∀ e ∈ header p, entryOk e = true := by
  simp only [paramsOk, Bool.and_eq_true] at h
  obtain ⟨⟨⟨⟨⟨h1, h2⟩, h3⟩, h4⟩, h5⟩, h6⟩ := h
  intro e he
  simp only [header, List.mem_cons, List.not_mem_nil, or_false] at he
  rcases he with rfl | rfl | rfl | rfl | rfl | rfl | rfl | rfl | rfl | rfl
  · decide
  · decide
  · decide
  · simp only [entryOk, valueOk, h1, Bool.and_true]; decide
  · simp only [entryOk, valueOk, Bool.and_eq_true]
    exact ⟨by decide, plainValue_prefix 'h' _ _ (by decide) (by decide) h2⟩
  · simp only [entryOk, valueOk, Bool.and_eq_true]
    exact ⟨by decide, plainValue_prefix 'P' _ _ (by decide) (by decide) (noBreak_formatCreator _ h5)⟩
  · simp only [entryOk, valueOk, Bool.and_eq_true]
    exact ⟨by decide, plainValue_prefix 'O' _ _ (by decide) (by decide) (noBreak_formatCreator _ h6)⟩
  · simp only [entryOk, valueOk, Bool.and_eq_true]
    exact ⟨by decide, plainValue_prefix 'T' _ _ (by decide) (by decide) h4⟩
  · simp only [entryOk, valueOk, h3, Bool.and_true]; decide
  · decide +kernel

theorem relEntry_ok (r : FileRep) (h : repOk r = true) : entryOk (relEntry r) = true := by
  simp only [repOk, Bool.and_eq_true] at h
  simp only [relEntry, entryOk, valueOk, Bool.and_eq_true]
  exact ⟨by decide, plainValue_prefix 'S' _ _ (by decide) (by decide) (plainValue_noBreak h.1.1.1.1.2)⟩

theorem copyrightValue_ok (ls : List Line) (h : ls.all textLineOk = true) :
    valueOk (copyrightValue ls) = true := by
  unfold copyrightValue
  split
  · decide
  · decide
  · rename_i b bs _ _
    simpa [valueOk] using h

theorem fileBlock_ok (r : FileRep) (h : repOk r = true) : ∀ e ∈ fileBlock r, entryOk e = true := by
  simp only [repOk, Bool.and_eq_true] at h
  obtain ⟨⟨⟨⟨⟨h1, h2⟩, h3⟩, h4⟩, h5⟩, h6⟩ := h
  intro e he
  simp only [fileBlock, List.cons_append, List.nil_append, List.mem_cons, List.mem_append, List.mem_map,
    List.not_mem_nil, or_false] at he
  rcases he with rfl | rfl | rfl | rfl | ⟨k, hk, rfl⟩ | rfl
  · simp only [entryOk, valueOk, h1, Bool.and_true]; decide
  · simp only [entryOk, valueOk, h2, Bool.and_true]; decide
  · simp only [entryOk, valueOk, Bool.and_eq_true]
    exact ⟨by decide, plainValue_prefix 'S' _ _ (by decide) (by decide) h3⟩
  · simp only [entryOk, valueOk, h4, Bool.and_true]; decide
  · have := List.all_eq_true.mp h5 k (mem_sortTexts.mp hk)
    simp only [entryOk, valueOk, this, Bool.and_true]; decide
  · simp only [entryOk, copyrightValue_ok _ h6, Bool.and_true]; decide

theorem licBlock_ok (l : LicEntry) (h : licOk l = true) : ∀ e ∈ licBlock l, entryOk e = true := by
  simp only [licOk, Bool.and_eq_true] at h
  intro e he
  simp only [licBlock, List.mem_cons, List.not_mem_nil, or_false] at he
  rcases he with rfl | rfl | rfl
  · simp only [entryOk, valueOk, h.1.1, Bool.and_true]; decide
  · decide
  · simp only [entryOk, valueOk, h.1.2, h.2, Bool.and_true]; decide

theorem docOk_parts {p : DocParams} {rs : List FileRep} {ls : List LicEntry} (h : docOk p rs ls = true) :
    (∀ e ∈ header p ++ relEntries rs, entryOk e = true) ∧
    (∀ s ∈ fileBlocks rs, ∀ e ∈ s, entryOk e = true) ∧
    (∀ s ∈ licBlocks ls, ∀ e ∈ s, entryOk e = true) := by
  simp only [docOk, Bool.and_eq_true] at h
  obtain ⟨⟨hp, hr⟩, hl⟩ := h
  have hr' := List.all_eq_true.mp hr
  have hl' := List.all_eq_true.mp hl
  refine ⟨?_, ?_, ?_⟩
  · intro e he
    rcases List.mem_append.mp he with he | he
    · exact header_ok p hp e he
    · simp only [relEntries, List.mem_map] at he
      obtain ⟨r, hr1, rfl⟩ := he
      exact relEntry_ok r (hr' r (mem_sortReports.mp hr1))
  · intro s hs
    simp only [fileBlocks, List.mem_map] at hs
    obtain ⟨r, hr1, rfl⟩ := hs
    exact fileBlock_ok r (hr' r (mem_sortReports.mp hr1))
  · intro s hs
    simp only [licBlocks, List.mem_map, List.mem_filter] at hs
    obtain ⟨l, ⟨hl1, hl2⟩, rfl⟩ := hs
    exact licBlock_ok l (hl' l (List.mem_filter.mpr ⟨mem_sortLics.mp hl1, hl2⟩))

theorem read_doc {p : DocParams} {rs : List FileRep} {ls : List LicEntry} (h : docOk p rs ls = true) :
    readDoc (docLines p rs ls) = some (docEntries p rs ls) := by
  obtain ⟨h1, h2, h3⟩ := docOk_parts h
  unfold readDoc docLines docEntries
  rw [List.append_assoc, read_entries _ _ h1, read_sections _ _ h2]
  have := read_sections (licBlocks ls) [] h3
  rw [List.append_nil] at this
  rw [this]
  simp [read]

-- ---------------------------------------------------------------- physical lines

theorem noBreak_tag {t : Text} (h : t.all Char.isAlpha = true) : noBreak t = true := by
  simp only [noBreak, Bool.not_eq_true', List.contains_eq_mem, decide_eq_false_iff_not]
  intro hm
  exact absurd (List.all_eq_true.mp h _ hm) (by decide)

theorem textLineOk_noBreak {l : Line} (h : textLineOk l = true) : noBreak l = true := by
  simp only [textLineOk, Bool.and_eq_true] at h; exact h.1

theorem closeLast_noBreak (c : Line) (cs : List Line) (hc : textLineOk c = true)
    (hcs : cs.all textLineOk = true) : ∀ l ∈ closeLast c cs, noBreak l = true := by
  induction cs generalizing c with
  | nil =>
    intro l hl
    simp only [closeLast, List.mem_cons, List.not_mem_nil, or_false] at hl
    rw [hl, noBreak_append, textLineOk_noBreak hc]; decide
  | cons d ds ih =>
    simp only [List.all_cons, Bool.and_eq_true] at hcs
    intro l hl
    simp only [closeLast, List.mem_cons] at hl
    rcases hl with rfl | hl
    · exact textLineOk_noBreak hc
    · exact ih d hcs.1 hcs.2 l hl

theorem renderEntry_noBreak (e : Entry) (h : entryOk e = true) : ∀ l ∈ renderEntry e, noBreak l = true := by
  obtain ⟨tag, val⟩ := e
  simp only [entryOk, tagOk, Bool.and_eq_true] at h
  obtain ⟨⟨_, halpha⟩, hval⟩ := h
  have htag : noBreak (tag ++ colonSp) = true := by
    rw [noBreak_append, noBreak_tag halpha]; decide
  intro l hl
  cases val with
  | single v =>
    simp only [renderEntry, List.mem_cons, List.not_mem_nil, or_false] at hl
    simp only [valueOk] at hval
    rw [hl, noBreak_append, htag, plainValue_noBreak hval]; rfl
  | text b bs =>
    simp only [valueOk, Bool.and_eq_true] at hval
    cases bs with
    | nil =>
      simp only [renderEntry, List.mem_cons, List.not_mem_nil, or_false] at hl
      rw [hl, noBreak_append, htag, noBreak_append, noBreak_append, textLineOk_noBreak hval.1]; decide
    | cons c cs =>
      simp only [List.all_cons, Bool.and_eq_true] at hval
      simp only [renderEntry, List.mem_cons] at hl
      rcases hl with rfl | hl
      · rw [noBreak_append, htag, noBreak_append, textLineOk_noBreak hval.1]; decide
      · exact closeLast_noBreak c cs hval.2.1 hval.2.2 l hl

theorem docLines_noBreak {p : DocParams} {rs : List FileRep} {ls : List LicEntry} (h : docOk p rs ls = true) :
    ∀ l ∈ docLines p rs ls, noBreak l = true := by
  obtain ⟨h1, h2, h3⟩ := docOk_parts h
  have hsec : ∀ secs : List (List Entry), (∀ s ∈ secs, ∀ e ∈ s, entryOk e = true) →
      ∀ l ∈ renderSections secs, noBreak l = true := by
    intro secs hs l hl
    simp only [renderSections, renderEntries, List.mem_flatMap, List.mem_cons] at hl
    obtain ⟨s, hs1, rfl | ⟨e, he, hl⟩⟩ := hl
    · decide
    · exact renderEntry_noBreak e (hs s hs1 e he) l hl
  intro l hl
  simp only [docLines, List.mem_append] at hl
  rcases hl with (hl | hl) | hl
  · simp only [renderEntries, List.mem_flatMap] at hl
    obtain ⟨e, he, hl⟩ := hl
    exact renderEntry_noBreak e (h1 e he) l hl
  · exact hsec _ h2 l hl
  · exact hsec _ h3 l hl

end Spec.Spdx

namespace Spec.Spdx
open Py Model Model.Spdx

-- ---------------------------------------------------------------- tag comparisons and list helpers (simp set of the filter theorems)

@[simp] theorem beq_tagFileName_tagFileName : (tagFileName == tagFileName) = true := by decide
@[simp] theorem beq_tagFileName_tagSpdxId : (tagFileName == tagSpdxId) = false := by decide
@[simp] theorem beq_tagFileName_tagChecksum : (tagFileName == tagChecksum) = false := by decide
@[simp] theorem beq_tagFileName_tagConcluded : (tagFileName == tagConcluded) = false := by decide
@[simp] theorem beq_tagFileName_tagInfoInFile : (tagFileName == tagInfoInFile) = false := by decide
@[simp] theorem beq_tagFileName_tagCopyright : (tagFileName == tagCopyright) = false := by decide
@[simp] theorem beq_tagFileName_tagRelationship : (tagFileName == tagRelationship) = false := by decide
@[simp] theorem beq_tagFileName_tagLicenseId : (tagFileName == tagLicenseId) = false := by decide
@[simp] theorem beq_tagFileName_tagLicenseName : (tagFileName == tagLicenseName) = false := by decide
@[simp] theorem beq_tagFileName_tagExtracted : (tagFileName == tagExtracted) = false := by decide
@[simp] theorem beq_tagFileName_tagCreator : (tagFileName == tagCreator) = false := by decide
@[simp] theorem beq_tagSpdxId_tagFileName : (tagSpdxId == tagFileName) = false := by decide
@[simp] theorem beq_tagSpdxId_tagSpdxId : (tagSpdxId == tagSpdxId) = true := by decide
@[simp] theorem beq_tagSpdxId_tagChecksum : (tagSpdxId == tagChecksum) = false := by decide
@[simp] theorem beq_tagSpdxId_tagConcluded : (tagSpdxId == tagConcluded) = false := by decide
@[simp] theorem beq_tagSpdxId_tagInfoInFile : (tagSpdxId == tagInfoInFile) = false := by decide
@[simp] theorem beq_tagSpdxId_tagCopyright : (tagSpdxId == tagCopyright) = false := by decide
@[simp] theorem beq_tagSpdxId_tagRelationship : (tagSpdxId == tagRelationship) = false := by decide
@[simp] theorem beq_tagSpdxId_tagLicenseId : (tagSpdxId == tagLicenseId) = false := by decide
@[simp] theorem beq_tagSpdxId_tagLicenseName : (tagSpdxId == tagLicenseName) = false := by decide
@[simp] theorem beq_tagSpdxId_tagExtracted : (tagSpdxId == tagExtracted) = false := by decide
@[simp] theorem beq_tagSpdxId_tagCreator : (tagSpdxId == tagCreator) = false := by decide
@[simp] theorem beq_tagChecksum_tagFileName : (tagChecksum == tagFileName) = false := by decide
@[simp] theorem beq_tagChecksum_tagSpdxId : (tagChecksum == tagSpdxId) = false := by decide
@[simp] theorem beq_tagChecksum_tagChecksum : (tagChecksum == tagChecksum) = true := by decide
@[simp] theorem beq_tagChecksum_tagConcluded : (tagChecksum == tagConcluded) = false := by decide
@[simp] theorem beq_tagChecksum_tagInfoInFile : (tagChecksum == tagInfoInFile) = false := by decide
@[simp] theorem beq_tagChecksum_tagCopyright : (tagChecksum == tagCopyright) = false := by decide
@[simp] theorem beq_tagChecksum_tagRelationship : (tagChecksum == tagRelationship) = false := by decide
@[simp] theorem beq_tagChecksum_tagLicenseId : (tagChecksum == tagLicenseId) = false := by decide
@[simp] theorem beq_tagChecksum_tagLicenseName : (tagChecksum == tagLicenseName) = false := by decide
@[simp] theorem beq_tagChecksum_tagExtracted : (tagChecksum == tagExtracted) = false := by decide
@[simp] theorem beq_tagChecksum_tagCreator : (tagChecksum == tagCreator) = false := by decide
@[simp] theorem beq_tagConcluded_tagFileName : (tagConcluded == tagFileName) = false := by decide
@[simp] theorem beq_tagConcluded_tagSpdxId : (tagConcluded == tagSpdxId) = false := by decide
@[simp] theorem beq_tagConcluded_tagChecksum : (tagConcluded == tagChecksum) = false := by decide
@[simp] theorem beq_tagConcluded_tagConcluded : (tagConcluded == tagConcluded) = true := by decide
@[simp] theorem beq_tagConcluded_tagInfoInFile : (tagConcluded == tagInfoInFile) = false := by decide
@[simp] theorem beq_tagConcluded_tagCopyright : (tagConcluded == tagCopyright) = false := by decide
@[simp] theorem beq_tagConcluded_tagRelationship : (tagConcluded == tagRelationship) = false := by decide
@[simp] theorem beq_tagConcluded_tagLicenseId : (tagConcluded == tagLicenseId) = false := by decide
@[simp] theorem beq_tagConcluded_tagLicenseName : (tagConcluded == tagLicenseName) = false := by decide
@[simp] theorem beq_tagConcluded_tagExtracted : (tagConcluded == tagExtracted) = false := by decide
@[simp] theorem beq_tagConcluded_tagCreator : (tagConcluded == tagCreator) = false := by decide
@[simp] theorem beq_tagInfoInFile_tagFileName : (tagInfoInFile == tagFileName) = false := by decide
@[simp] theorem beq_tagInfoInFile_tagSpdxId : (tagInfoInFile == tagSpdxId) = false := by decide
@[simp] theorem beq_tagInfoInFile_tagChecksum : (tagInfoInFile == tagChecksum) = false := by decide
@[simp] theorem beq_tagInfoInFile_tagConcluded : (tagInfoInFile == tagConcluded) = false := by decide
@[simp] theorem beq_tagInfoInFile_tagInfoInFile : (tagInfoInFile == tagInfoInFile) = true := by decide
@[simp] theorem beq_tagInfoInFile_tagCopyright : (tagInfoInFile == tagCopyright) = false := by decide
@[simp] theorem beq_tagInfoInFile_tagRelationship : (tagInfoInFile == tagRelationship) = false := by decide
@[simp] theorem beq_tagInfoInFile_tagLicenseId : (tagInfoInFile == tagLicenseId) = false := by decide
@[simp] theorem beq_tagInfoInFile_tagLicenseName : (tagInfoInFile == tagLicenseName) = false := by decide
@[simp] theorem beq_tagInfoInFile_tagExtracted : (tagInfoInFile == tagExtracted) = false := by decide
@[simp] theorem beq_tagInfoInFile_tagCreator : (tagInfoInFile == tagCreator) = false := by decide
@[simp] theorem beq_tagCopyright_tagFileName : (tagCopyright == tagFileName) = false := by decide
@[simp] theorem beq_tagCopyright_tagSpdxId : (tagCopyright == tagSpdxId) = false := by decide
@[simp] theorem beq_tagCopyright_tagChecksum : (tagCopyright == tagChecksum) = false := by decide
@[simp] theorem beq_tagCopyright_tagConcluded : (tagCopyright == tagConcluded) = false := by decide
@[simp] theorem beq_tagCopyright_tagInfoInFile : (tagCopyright == tagInfoInFile) = false := by decide
@[simp] theorem beq_tagCopyright_tagCopyright : (tagCopyright == tagCopyright) = true := by decide
@[simp] theorem beq_tagCopyright_tagRelationship : (tagCopyright == tagRelationship) = false := by decide
@[simp] theorem beq_tagCopyright_tagLicenseId : (tagCopyright == tagLicenseId) = false := by decide
@[simp] theorem beq_tagCopyright_tagLicenseName : (tagCopyright == tagLicenseName) = false := by decide
@[simp] theorem beq_tagCopyright_tagExtracted : (tagCopyright == tagExtracted) = false := by decide
@[simp] theorem beq_tagCopyright_tagCreator : (tagCopyright == tagCreator) = false := by decide
@[simp] theorem beq_tagRelationship_tagFileName : (tagRelationship == tagFileName) = false := by decide
@[simp] theorem beq_tagRelationship_tagSpdxId : (tagRelationship == tagSpdxId) = false := by decide
@[simp] theorem beq_tagRelationship_tagChecksum : (tagRelationship == tagChecksum) = false := by decide
@[simp] theorem beq_tagRelationship_tagConcluded : (tagRelationship == tagConcluded) = false := by decide
@[simp] theorem beq_tagRelationship_tagInfoInFile : (tagRelationship == tagInfoInFile) = false := by decide
@[simp] theorem beq_tagRelationship_tagCopyright : (tagRelationship == tagCopyright) = false := by decide
@[simp] theorem beq_tagRelationship_tagRelationship : (tagRelationship == tagRelationship) = true := by decide
@[simp] theorem beq_tagRelationship_tagLicenseId : (tagRelationship == tagLicenseId) = false := by decide
@[simp] theorem beq_tagRelationship_tagLicenseName : (tagRelationship == tagLicenseName) = false := by decide
@[simp] theorem beq_tagRelationship_tagExtracted : (tagRelationship == tagExtracted) = false := by decide
@[simp] theorem beq_tagRelationship_tagCreator : (tagRelationship == tagCreator) = false := by decide
@[simp] theorem beq_tagLicenseId_tagFileName : (tagLicenseId == tagFileName) = false := by decide
@[simp] theorem beq_tagLicenseId_tagSpdxId : (tagLicenseId == tagSpdxId) = false := by decide
@[simp] theorem beq_tagLicenseId_tagChecksum : (tagLicenseId == tagChecksum) = false := by decide
@[simp] theorem beq_tagLicenseId_tagConcluded : (tagLicenseId == tagConcluded) = false := by decide
@[simp] theorem beq_tagLicenseId_tagInfoInFile : (tagLicenseId == tagInfoInFile) = false := by decide
@[simp] theorem beq_tagLicenseId_tagCopyright : (tagLicenseId == tagCopyright) = false := by decide
@[simp] theorem beq_tagLicenseId_tagRelationship : (tagLicenseId == tagRelationship) = false := by decide
@[simp] theorem beq_tagLicenseId_tagLicenseId : (tagLicenseId == tagLicenseId) = true := by decide
@[simp] theorem beq_tagLicenseId_tagLicenseName : (tagLicenseId == tagLicenseName) = false := by decide
@[simp] theorem beq_tagLicenseId_tagExtracted : (tagLicenseId == tagExtracted) = false := by decide
@[simp] theorem beq_tagLicenseId_tagCreator : (tagLicenseId == tagCreator) = false := by decide
@[simp] theorem beq_tagLicenseName_tagFileName : (tagLicenseName == tagFileName) = false := by decide
@[simp] theorem beq_tagLicenseName_tagSpdxId : (tagLicenseName == tagSpdxId) = false := by decide
@[simp] theorem beq_tagLicenseName_tagChecksum : (tagLicenseName == tagChecksum) = false := by decide
@[simp] theorem beq_tagLicenseName_tagConcluded : (tagLicenseName == tagConcluded) = false := by decide
@[simp] theorem beq_tagLicenseName_tagInfoInFile : (tagLicenseName == tagInfoInFile) = false := by decide
@[simp] theorem beq_tagLicenseName_tagCopyright : (tagLicenseName == tagCopyright) = false := by decide
@[simp] theorem beq_tagLicenseName_tagRelationship : (tagLicenseName == tagRelationship) = false := by decide
@[simp] theorem beq_tagLicenseName_tagLicenseId : (tagLicenseName == tagLicenseId) = false := by decide
@[simp] theorem beq_tagLicenseName_tagLicenseName : (tagLicenseName == tagLicenseName) = true := by decide
@[simp] theorem beq_tagLicenseName_tagExtracted : (tagLicenseName == tagExtracted) = false := by decide
@[simp] theorem beq_tagLicenseName_tagCreator : (tagLicenseName == tagCreator) = false := by decide
@[simp] theorem beq_tagExtracted_tagFileName : (tagExtracted == tagFileName) = false := by decide
@[simp] theorem beq_tagExtracted_tagSpdxId : (tagExtracted == tagSpdxId) = false := by decide
@[simp] theorem beq_tagExtracted_tagChecksum : (tagExtracted == tagChecksum) = false := by decide
@[simp] theorem beq_tagExtracted_tagConcluded : (tagExtracted == tagConcluded) = false := by decide
@[simp] theorem beq_tagExtracted_tagInfoInFile : (tagExtracted == tagInfoInFile) = false := by decide
@[simp] theorem beq_tagExtracted_tagCopyright : (tagExtracted == tagCopyright) = false := by decide
@[simp] theorem beq_tagExtracted_tagRelationship : (tagExtracted == tagRelationship) = false := by decide
@[simp] theorem beq_tagExtracted_tagLicenseId : (tagExtracted == tagLicenseId) = false := by decide
@[simp] theorem beq_tagExtracted_tagLicenseName : (tagExtracted == tagLicenseName) = false := by decide
@[simp] theorem beq_tagExtracted_tagExtracted : (tagExtracted == tagExtracted) = true := by decide
@[simp] theorem beq_tagExtracted_tagCreator : (tagExtracted == tagCreator) = false := by decide
@[simp] theorem beq_tagCreator_tagFileName : (tagCreator == tagFileName) = false := by decide
@[simp] theorem beq_tagCreator_tagSpdxId : (tagCreator == tagSpdxId) = false := by decide
@[simp] theorem beq_tagCreator_tagChecksum : (tagCreator == tagChecksum) = false := by decide
@[simp] theorem beq_tagCreator_tagConcluded : (tagCreator == tagConcluded) = false := by decide
@[simp] theorem beq_tagCreator_tagInfoInFile : (tagCreator == tagInfoInFile) = false := by decide
@[simp] theorem beq_tagCreator_tagCopyright : (tagCreator == tagCopyright) = false := by decide
@[simp] theorem beq_tagCreator_tagRelationship : (tagCreator == tagRelationship) = false := by decide
@[simp] theorem beq_tagCreator_tagLicenseId : (tagCreator == tagLicenseId) = false := by decide
@[simp] theorem beq_tagCreator_tagLicenseName : (tagCreator == tagLicenseName) = false := by decide
@[simp] theorem beq_tagCreator_tagExtracted : (tagCreator == tagExtracted) = false := by decide
@[simp] theorem beq_tagCreator_tagCreator : (tagCreator == tagCreator) = true := by decide

@[simp] theorem filter_const_true {α} (l : List α) : l.filter (fun _ => true) = l := by
  induction l <;> simp_all
@[simp] theorem filter_const_false {α} (l : List α) : l.filter (fun _ => false) = [] := by
  induction l <;> simp_all
@[simp] theorem flatten_map_nil' {α β} (l : List α) : (l.map fun _ => ([] : List β)).flatten = [] := by
  induction l <;> simp_all
@[simp] theorem flatten_map_single' {α β} (f : α → β) (l : List α) : (l.map fun x => [f x]).flatten = l.map f := by
  induction l <;> simp_all

end Spec.Spdx
