import ReuseVerif.Model.Aggregate

/-!
Lemmas for C14, part 1: sets as lists, sorting, and the fold of
`ProjectReport.generate` characterised by membership.
-/

namespace Model.Agg
open List Model

/-! ### sorting a permutation gives the same list -/

theorem sort_eq_of_perm {α} {le : α → α → Bool}
    (trans : ∀ a b c, le a b = true → le b c = true → le a c = true)
    (total : ∀ a b, (le a b || le b a) = true)
    (antisymm : ∀ a b, le a b = true → le b a = true → a = b)
    {l₁ l₂ : List α} (h : l₁ ~ l₂) : l₁.mergeSort le = l₂.mergeSort le :=
  List.Perm.eq_of_pairwise (le := fun a b => le a b = true) (fun a b _ _ => antisymm a b)
    (pairwise_mergeSort trans total l₁) (pairwise_mergeSort trans total l₂)
    ((mergeSort_perm l₁ le).trans (h.trans (mergeSort_perm l₂ le).symm))

theorem strLe_trans (a b c : String) : strLe a b = true → strLe b c = true → strLe a c = true := by
  simp only [strLe, decide_eq_true_eq]; exact String.le_trans
theorem strLe_total (a b : String) : (strLe a b || strLe b a) = true := by
  simp only [strLe, Bool.or_eq_true, decide_eq_true_eq]; exact String.le_total a b
theorem strLe_antisymm (a b : String) : strLe a b = true → strLe b a = true → a = b := by
  simp only [strLe, decide_eq_true_eq]; exact String.le_antisymm

theorem sortS_perm {l₁ l₂ : List String} (h : l₁ ~ l₂) : sortS l₁ = sortS l₂ :=
  sort_eq_of_perm strLe_trans strLe_total strLe_antisymm h

theorem str_lt_or_eq_or_gt (a b : String) : a < b ∨ a = b ∨ b < a := by
  by_cases h1 : a < b
  · exact .inl h1
  · by_cases h2 : b < a
    · exact .inr (.inr h2)
    · exact .inr (.inl (String.le_antisymm (String.not_lt.mp h2) (String.not_lt.mp h1)))

theorem str_lt_asymm {a b : String} (h : a < b) : ¬ b < a := fun h' =>
  String.lt_irrefl a (String.lt_trans h h')

theorem pairLe_total (a b : String × String) : (pairLe a b || pairLe b a) = true := by
  simp only [pairLe, Bool.or_eq_true, Bool.and_eq_true, decide_eq_true_eq, beq_iff_eq]
  rcases str_lt_or_eq_or_gt a.1 b.1 with h | h | h
  · exact .inl (.inl h)
  · rcases String.le_total a.2 b.2 with h2 | h2
    · exact .inl (.inr ⟨h, h2⟩)
    · exact .inr (.inr ⟨h.symm, h2⟩)
  · exact .inr (.inl h)

theorem pairLe_antisymm (a b : String × String) : pairLe a b = true → pairLe b a = true → a = b := by
  simp only [pairLe, Bool.or_eq_true, Bool.and_eq_true, decide_eq_true_eq, beq_iff_eq]
  rintro (h | ⟨h, h2⟩) (h' | ⟨h', h2'⟩)
  · exact absurd h' (str_lt_asymm h)
  · rw [h'] at h; exact absurd h (String.lt_irrefl _)
  · rw [h] at h'; exact absurd h' (String.lt_irrefl _)
  · exact Prod.ext h (String.le_antisymm h2 h2')

theorem pairLe_trans (a b c : String × String) :
    pairLe a b = true → pairLe b c = true → pairLe a c = true := by
  simp only [pairLe, Bool.or_eq_true, Bool.and_eq_true, decide_eq_true_eq, beq_iff_eq]
  rintro (h | ⟨h, h2⟩) (h' | ⟨h', h2'⟩)
  · exact .inl (String.lt_trans h h')
  · exact .inl (h' ▸ h)
  · exact .inl (h ▸ h')
  · exact .inr ⟨h.trans h', String.le_trans h2 h2'⟩

theorem sortP_perm {l₁ l₂ : List (String × String)} (h : l₁ ~ l₂) : sortP l₁ = sortP l₂ :=
  sort_eq_of_perm pairLe_trans pairLe_total pairLe_antisymm h

/-! ### sets as duplicate-free lists -/

section
variable {α : Type} [DecidableEq α]

theorem mem_setAdd {s : List α} {x y : α} : y ∈ setAdd s x ↔ y ∈ s ∨ y = x := by
  unfold setAdd
  split
  · constructor
    · exact .inl
    · rintro (h | rfl) <;> assumption
  · simp

theorem nodup_setAdd {s : List α} {x : α} (h : s.Nodup) : (setAdd s x).Nodup := by
  unfold setAdd
  split
  · exact h
  · rename_i hx
    rw [List.nodup_append]
    refine ⟨h, by simp, ?_⟩
    intro a ha b hb
    simp at hb; subst hb
    rintro rfl; exact hx ha

theorem mem_setAddAll {xs s : List α} {y : α} : y ∈ setAddAll s xs ↔ y ∈ s ∨ y ∈ xs := by
  induction xs generalizing s with
  | nil => simp [setAddAll]
  | cons x xs ih =>
    simp only [setAddAll, List.foldl_cons] at ih ⊢
    rw [ih, mem_setAdd]
    simp only [List.mem_cons]
    constructor
    · rintro ((h | h) | h)
      · exact .inl h
      · exact .inr (.inl h)
      · exact .inr (.inr h)
    · rintro (h | h | h)
      · exact .inl (.inl h)
      · exact .inl (.inr h)
      · exact .inr h

theorem nodup_setAddAll {xs s : List α} (h : s.Nodup) : (setAddAll s xs).Nodup := by
  induction xs generalizing s with
  | nil => simpa [setAddAll] using h
  | cons x xs ih =>
    simp only [setAddAll, List.foldl_cons] at ih ⊢
    exact ih (nodup_setAdd h)

theorem mem_toSet {xs : List α} {y : α} : y ∈ toSet xs ↔ y ∈ xs := by
  simp [toSet, mem_setAddAll]

theorem nodup_toSet (xs : List α) : (toSet xs).Nodup := nodup_setAddAll List.nodup_nil

/-- two set constructions with the same elements are permutations of each other -/
theorem toSet_perm {xs ys : List α} (h : ∀ a, a ∈ xs ↔ a ∈ ys) : toSet xs ~ toSet ys :=
  (List.perm_ext_iff_of_nodup (nodup_toSet xs) (nodup_toSet ys)).mpr fun a => by
    rw [mem_toSet, mem_toSet, h]

/-- adding the same elements, in any order, to permuted sets gives permuted sets -/
theorem setAddAll_perm {s t xs ys : List α} (hs : s.Nodup) (ht : t.Nodup) (hst : s ~ t)
    (h : ∀ a, a ∈ xs ↔ a ∈ ys) : setAddAll s xs ~ setAddAll t ys :=
  (List.perm_ext_iff_of_nodup (nodup_setAddAll hs) (nodup_setAddAll ht)).mpr fun a => by
    rw [mem_setAddAll, mem_setAddAll, h, hst.mem_iff]
end

/-! ### the loop of `ProjectReport.generate`, by membership -/

theorem aggStep_missing (r : Report) (x : FileResult) :
    (aggStep r x).missing =
      if x.error then r.missing else setAddAll r.missing (x.missing.map fun l => (l, x.path)) := by
  unfold aggStep; split <;> simp [setAddAll, List.foldl_map]

theorem aggStep_bad (r : Report) (x : FileResult) :
    (aggStep r x).bad =
      if x.error then r.bad else setAddAll r.bad (x.bad.map fun l => (l, x.path)) := by
  unfold aggStep; split <;> simp [setAddAll, List.foldl_map]

theorem aggStep_readErrors (r : Report) (x : FileResult) :
    (aggStep r x).readErrors = if x.error then setAdd r.readErrors x.path else r.readErrors := by
  unfold aggStep; split <;> rfl

theorem aggStep_fileReports (r : Report) (x : FileResult) :
    (aggStep r x).fileReports = if x.error then r.fileReports else setAdd r.fileReports x := by
  unfold aggStep; split <;> rfl

theorem aggStep_deprecated (r : Report) (x : FileResult) : (aggStep r x).deprecated = r.deprecated := by
  unfold aggStep; split <;> rfl

/-- every field of the report stays duplicate-free -/
structure Report.Nodup (r : Report) : Prop where
  readErrors : r.readErrors.Nodup
  fileReports : r.fileReports.Nodup
  missing : r.missing.Nodup
  bad : r.bad.Nodup
  deprecated : r.deprecated.Nodup

theorem aggStep_nodup {r : Report} (h : r.Nodup) (x : FileResult) : (aggStep r x).Nodup := by
  refine ⟨?_, ?_, ?_, ?_, ?_⟩
  · rw [aggStep_readErrors]; split
    · exact nodup_setAdd h.readErrors
    · exact h.readErrors
  · rw [aggStep_fileReports]; split
    · exact h.fileReports
    · exact nodup_setAdd h.fileReports
  · rw [aggStep_missing]; split
    · exact h.missing
    · exact nodup_setAddAll h.missing
  · rw [aggStep_bad]; split
    · exact h.bad
    · exact nodup_setAddAll h.bad
  · rw [aggStep_deprecated]; exact h.deprecated

theorem foldl_aggStep_nodup (rs : List FileResult) {r : Report} (h : r.Nodup) :
    (rs.foldl aggStep r).Nodup := by
  induction rs generalizing r with
  | nil => exact h
  | cons x xs ih => exact ih (aggStep_nodup h x)

theorem mem_foldl_readErrors (rs : List FileResult) (r : Report) (p : String) :
    p ∈ (rs.foldl aggStep r).readErrors ↔
      p ∈ r.readErrors ∨ ∃ x ∈ rs, x.error = true ∧ x.path = p := by
  induction rs generalizing r with
  | nil => simp
  | cons x xs ih =>
    rw [List.foldl_cons, ih, aggStep_readErrors]
    by_cases hx : x.error = true
    · simp only [hx, if_true, mem_setAdd, List.mem_cons, exists_eq_or_imp, true_and]
      constructor
      · rintro ((h | h) | h)
        · exact .inl h
        · exact .inr (.inl h.symm)
        · exact .inr (.inr h)
      · rintro (h | h | h)
        · exact .inl (.inl h)
        · exact .inl (.inr h.symm)
        · exact .inr h
    · simp [hx]

theorem mem_foldl_fileReports (rs : List FileResult) (r : Report) (f : FileResult) :
    f ∈ (rs.foldl aggStep r).fileReports ↔
      f ∈ r.fileReports ∨ (f ∈ rs ∧ f.error = false) := by
  induction rs generalizing r with
  | nil => simp
  | cons x xs ih =>
    rw [List.foldl_cons, ih, aggStep_fileReports]
    by_cases hx : x.error = true
    · simp only [hx, if_true, List.mem_cons]
      constructor
      · rintro (h | ⟨h, he⟩)
        · exact .inl h
        · exact .inr ⟨.inr h, he⟩
      · rintro (h | ⟨h | h, he⟩)
        · exact .inl h
        · subst h; simp [hx] at he
        · exact .inr ⟨h, he⟩
    · have hx' : x.error = false := by simpa using hx
      simp only [hx', Bool.false_eq_true, if_false, mem_setAdd, List.mem_cons]
      constructor
      · rintro ((h | h) | ⟨h, he⟩)
        · exact .inl h
        · exact .inr ⟨.inl h, h ▸ hx'⟩
        · exact .inr ⟨.inr h, he⟩
      · rintro (h | ⟨h | h, he⟩)
        · exact .inl (.inl h)
        · exact .inl (.inr h)
        · exact .inr ⟨h, he⟩

theorem mem_foldl_missing (rs : List FileResult) (r : Report) (q : String × String) :
    q ∈ (rs.foldl aggStep r).missing ↔
      q ∈ r.missing ∨ ∃ x ∈ rs, x.error = false ∧ q.2 = x.path ∧ q.1 ∈ x.missing := by
  induction rs generalizing r with
  | nil => simp
  | cons x xs ih =>
    rw [List.foldl_cons, ih, aggStep_missing]
    by_cases hx : x.error = true
    · simp [hx]
    · have hx' : x.error = false := by simpa using hx
      simp only [hx', Bool.false_eq_true, if_false, mem_setAddAll, List.mem_map, List.mem_cons,
        exists_eq_or_imp, true_and]
      have key : (∃ a, a ∈ x.missing ∧ (a, x.path) = q) ↔ (q.2 = x.path ∧ q.1 ∈ x.missing) := by
        constructor
        · rintro ⟨a, ha, rfl⟩; exact ⟨rfl, ha⟩
        · rintro ⟨h2, h1⟩; exact ⟨q.1, h1, by rw [← h2]⟩
      rw [key]
      constructor
      · rintro ((h | h) | h)
        · exact .inl h
        · exact .inr (.inl h)
        · exact .inr (.inr h)
      · rintro (h | h | h)
        · exact .inl (.inl h)
        · exact .inl (.inr h)
        · exact .inr h

theorem mem_foldl_bad (rs : List FileResult) (r : Report) (q : String × String) :
    q ∈ (rs.foldl aggStep r).bad ↔
      q ∈ r.bad ∨ ∃ x ∈ rs, x.error = false ∧ q.2 = x.path ∧ q.1 ∈ x.bad := by
  induction rs generalizing r with
  | nil => simp
  | cons x xs ih =>
    rw [List.foldl_cons, ih, aggStep_bad]
    by_cases hx : x.error = true
    · simp [hx]
    · have hx' : x.error = false := by simpa using hx
      simp only [hx', Bool.false_eq_true, if_false, mem_setAddAll, List.mem_map, List.mem_cons,
        exists_eq_or_imp, true_and]
      have key : (∃ a, a ∈ x.bad ∧ (a, x.path) = q) ↔ (q.2 = x.path ∧ q.1 ∈ x.bad) := by
        constructor
        · rintro ⟨a, ha, rfl⟩; exact ⟨rfl, ha⟩
        · rintro ⟨h2, h1⟩; exact ⟨q.1, h1, by rw [← h2]⟩
      rw [key]
      constructor
      · rintro ((h | h) | h)
        · exact .inl h
        · exact .inr (.inl h)
        · exact .inr (.inr h)
      · rintro (h | h | h)
        · exact .inl (.inl h)
        · exact .inl (.inr h)
        · exact .inr h

theorem foldl_aggStep_deprecated (rs : List FileResult) (r : Report) :
    (rs.foldl aggStep r).deprecated = r.deprecated := by
  induction rs generalizing r with
  | nil => rfl
  | cons x xs ih => rw [List.foldl_cons, ih, aggStep_deprecated]

/-! ### the licence loop -/

theorem licStep_other (ctx : LicCtx) (r : Report) (np : String × String) :
    (licStep ctx r np).readErrors = r.readErrors ∧ (licStep ctx r np).fileReports = r.fileReports ∧
    (licStep ctx r np).missing = r.missing := by
  unfold licStep; split
  · exact ⟨rfl, rfl, rfl⟩
  · split <;> exact ⟨rfl, rfl, rfl⟩

theorem licStep_nodup (ctx : LicCtx) {r : Report} (h : r.Nodup) (np : String × String) :
    (licStep ctx r np).Nodup := by
  unfold licStep; split
  · exact ⟨h.readErrors, h.fileReports, h.missing, nodup_setAdd h.bad, h.deprecated⟩
  · split
    · exact ⟨h.readErrors, h.fileReports, h.missing, h.bad, nodup_setAdd h.deprecated⟩
    · exact h

theorem foldl_licStep_nodup (ctx : LicCtx) (ls : List (String × String)) {r : Report} (h : r.Nodup) :
    (ls.foldl (licStep ctx) r).Nodup := by
  induction ls generalizing r with
  | nil => exact h
  | cons x xs ih => exact ih (licStep_nodup ctx h x)

theorem foldl_licStep_other (ctx : LicCtx) (ls : List (String × String)) (r : Report) :
    (ls.foldl (licStep ctx) r).readErrors = r.readErrors ∧
    (ls.foldl (licStep ctx) r).fileReports = r.fileReports ∧
    (ls.foldl (licStep ctx) r).missing = r.missing := by
  induction ls generalizing r with
  | nil => exact ⟨rfl, rfl, rfl⟩
  | cons x xs ih =>
    rw [List.foldl_cons]
    obtain ⟨a, b, c⟩ := ih (licStep ctx r x)
    obtain ⟨a', b', c'⟩ := licStep_other ctx r x
    exact ⟨a.trans a', b.trans b', c.trans c'⟩

theorem mem_foldl_licStep_bad (ctx : LicCtx) (ls : List (String × String)) (r : Report)
    (q : String × String) :
    q ∈ (ls.foldl (licStep ctx) r).bad ↔ q ∈ r.bad ∨ (q ∈ ls ∧ ctx.isKnown q.1 = false) := by
  induction ls generalizing r with
  | nil => simp
  | cons x xs ih =>
    rw [List.foldl_cons, ih]
    unfold licStep
    by_cases hk : ctx.isKnown x.1 = true
    · simp only [hk, Bool.not_true, Bool.false_eq_true, if_false, List.mem_cons]
      have : (if ctx.isDeprecated x.1 = true then { r with deprecated := setAdd r.deprecated x.1 } else r).bad
          = r.bad := by split <;> rfl
      rw [this]
      constructor
      · rintro (h | ⟨h, hq⟩)
        · exact .inl h
        · exact .inr ⟨.inr h, hq⟩
      · rintro (h | ⟨h | h, hq⟩)
        · exact .inl h
        · subst h; simp [hk] at hq
        · exact .inr ⟨h, hq⟩
    · have hk' : ctx.isKnown x.1 = false := by simpa using hk
      simp only [hk', Bool.not_false, if_true, mem_setAdd, List.mem_cons]
      constructor
      · rintro ((h | h) | ⟨h, hq⟩)
        · exact .inl h
        · exact .inr ⟨.inl h, h ▸ hk'⟩
        · exact .inr ⟨.inr h, hq⟩
      · rintro (h | ⟨h | h, hq⟩)
        · exact .inl (.inl h)
        · exact .inl (.inr h)
        · exact .inr ⟨h, hq⟩

theorem mem_foldl_licStep_deprecated (ctx : LicCtx) (ls : List (String × String)) (r : Report)
    (d : String) :
    d ∈ (ls.foldl (licStep ctx) r).deprecated ↔
      d ∈ r.deprecated ∨ ∃ np ∈ ls, ctx.isKnown np.1 = true ∧ ctx.isDeprecated np.1 = true ∧ np.1 = d := by
  induction ls generalizing r with
  | nil => simp
  | cons x xs ih =>
    rw [List.foldl_cons, ih]
    unfold licStep
    by_cases hk : ctx.isKnown x.1 = true
    · by_cases hd : ctx.isDeprecated x.1 = true
      · simp only [hk, hd, Bool.not_true, Bool.false_eq_true, if_false, if_true, mem_setAdd,
          List.mem_cons, exists_eq_or_imp, true_and]
        constructor
        · rintro ((h | h) | h)
          · exact .inl h
          · exact .inr (.inl h.symm)
          · exact .inr (.inr h)
        · rintro (h | h | h)
          · exact .inl (.inl h)
          · exact .inl (.inr h.symm)
          · exact .inr h
      · simp [hk, hd]
    · have hk' : ctx.isKnown x.1 = false := by simpa using hk
      simp [hk']

end Model.Agg
