/-
C20 after fixes/c10-merge-order.diff: `merge_copyright_lines` runs its loop over `sorted(copyright_lines)`.
`C20_merge_lines` is stated for the loop on *any* order of the notices; this file carries it over to the sorted
order in terms of the notices as given (`MergedLine` is a property of the multiset of notices).
-/
import ReuseVerif.Lemmas.C10OrderSort
import ReuseVerif.Lemmas.C20MergeLines

namespace C20L
open Py Model Spec C10Order

/-- the notices in the order of their lines -/
def insertNotice (x : Notice) : List Notice → List Notice
  | [] => [x]
  | y :: ys => if textLt x.line y.line then x :: y :: ys else y :: insertNotice x ys
def sortNotices (l : List Notice) : List Notice := l.foldr insertNotice []

theorem insertNotice_perm (x : Notice) : ∀ l : List Notice, (insertNotice x l).Perm (x :: l)
  | [] => .refl _
  | y :: ys => by
    rw [insertNotice]
    split
    · exact .refl _
    · exact ((insertNotice_perm x ys).cons y).trans (.swap x y ys)

theorem sortNotices_perm : ∀ l : List Notice, (sortNotices l).Perm l
  | [] => .refl _
  | x :: xs => by
    show (insertNotice x (sortNotices xs)).Perm (x :: xs)
    exact (insertNotice_perm x _).trans ((sortNotices_perm xs).cons x)

theorem insertNotice_map (x : Notice) : ∀ l : List Notice,
    (insertNotice x l).map Notice.line = insertSorted x.line (l.map Notice.line)
  | [] => rfl
  | y :: ys => by
    rw [insertNotice, List.map_cons, insertSorted]
    split
    · rfl
    · rw [List.map_cons, insertNotice_map x ys]

/-- sorting the lines of the notices is taking the lines of the sorted notices -/
theorem sortNotices_map : ∀ l : List Notice, (sortNotices l).map Notice.line = sortTexts (l.map Notice.line)
  | [] => rfl
  | x :: xs => by
    show (insertNotice x (sortNotices xs)).map Notice.line = insertSorted x.line (sortTexts (xs.map Notice.line))
    rw [insertNotice_map, sortNotices_map xs]

theorem prefixesFor_perm {a b : List Notice} (h : a.Perm b) (s : Text) : (prefixesFor a s).Perm (prefixesFor b s) :=
  (h.filter _).map _

theorem statedFor_perm {a b : List Notice} (h : a.Perm b) (s : Text) : (statedFor a s).Perm (statedFor b s) :=
  (h.filter _).flatMap_right _

/-- what a merged line of holder `h` is depends on the notices only as a multiset -/
theorem mergedLine_perm {endRe : Re} {a b : List Notice} (h : a.Perm b) {s o : Text}
    (hm : MergedLine endRe a s o) : MergedLine endRe b s o := by
  obtain ⟨px, hpx, ym, h1, h2, h3, h4, h5, h6, h7⟩ := hm
  have pp := prefixesFor_perm h s
  have ps := statedFor_perm h s
  refine ⟨px, hpx, ym, h1, h2, h3, h4, pp.mem_iff.mp h5, ?_, ?_⟩
  · intro p hp
    rw [← pp.count_eq, ← pp.count_eq]
    exact h6 p (pp.mem_iff.mpr hp)
  · rcases h7 with ⟨e, hy⟩ | ⟨lo, hlo, hi, hhi, hall, hform⟩
    · left
      refine ⟨?_, hy⟩
      rw [e] at ps
      exact List.nil_perm.mp ps
    · right
      exact ⟨lo, ps.mem_iff.mp hlo, hi, ps.mem_iff.mp hhi, fun y hy => hall y (ps.mem_iff.mpr hy), hform⟩

end C20L
