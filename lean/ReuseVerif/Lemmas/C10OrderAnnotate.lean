/-
C10 / C14 — part 4: the text `add_header_to_file` writes does not depend on the order of the requested sets.

`find_and_replace_header`, `add_new_header`, `annotateText`, `annotateFile` use the request only through one call
of `create_header` — on the header block the locator found (`headerSeen`), or on no header.  Runs whose requests
are different orders of the same sets (`runsSeq`) therefore write what runs with one fixed order write.
-/
import ReuseVerif.Lemmas.C10OrderMerge
import ReuseVerif.Lemmas.Idem

namespace C10Order
open Py Model Spec C10L

/-- two requests are the same sets in different orders -/
structure PermInfo (i j : Extracted) : Prop where
  cpr : i.cpr.Perm j.cpr
  con : i.con.Perm j.con
  lic : i.lic.Perm j.lic

theorem PermInfo.refl (i : Extracted) : PermInfo i i := ⟨.refl _, .refl _, .refl _⟩
theorem PermInfo.symm {i j : Extracted} (h : PermInfo i j) : PermInfo j i := ⟨h.cpr.symm, h.con.symm, h.lic.symm⟩
theorem PermInfo.trans {i j k : Extracted} (h1 : PermInfo i j) (h2 : PermInfo j k) : PermInfo i k :=
  ⟨h1.cpr.trans h2.cpr, h1.con.trans h2.con, h1.lic.trans h2.lic⟩

/-- two duplicate-free requests with the same members in each section (what two processes with different hash
    seeds make of the same command line) -/
theorem PermInfo.of_sameMembers {i j : Extracted}
    (hc : SameMembers i.cpr j.cpr) (hn : SameMembers i.con j.con) (hl : SameMembers i.lic j.lic)
    (di : i.cpr.Nodup ∧ i.con.Nodup ∧ i.lic.Nodup) (dj : j.cpr.Nodup ∧ j.con.Nodup ∧ j.lic.Nodup) : PermInfo i j :=
  ⟨hc.perm di.1 dj.1, hn.perm di.2.1 dj.2.1, hl.perm di.2.2 dj.2.2⟩

/-- `create_header`: requests that are orders of the same sets give the same header -/
theorem createHeader_order (c : HdrCfg) {i j : Extracted} (header : Text) (h : PermInfo i j) :
    createHeader c i header = createHeader c j header :=
  createHeader_perm c header h.cpr h.con h.lic

theorem findAndReplaceHeader_order (c : HdrCfg) {i j : Extracted} (t : Text) (h : PermInfo i j) :
    findAndReplaceHeader c i t = findAndReplaceHeader c j t := by
  rw [findAndReplace_eq, findAndReplace_eq, createHeader_order c _ h]

theorem addNewHeader_order (c : HdrCfg) {i j : Extracted} (t : Text) (h : PermInfo i j) :
    addNewHeader c i t = addNewHeader c j t := by
  unfold addNewHeader
  simp only [createHeader_order c [] h]

/-- the header block `add_header_to_file` hands to `create_header`: what the locator finds in the text with
    normalised line endings when replacing, none with `--no-replace` -/
def headerSeen (c : HdrCfg) (replace : Bool) (text : Text) : Text :=
  if replace then (replaceSections c (Py.replace text (detectLineEnding text) ['\n'])).2.1 else []

theorem annotateText_order (c : HdrCfg) (replace skip : Bool) {i j : Extracted} (text : Text) (h : PermInfo i j) :
    annotateText c replace skip i text = annotateText c replace skip j text := by
  unfold annotateText
  cases replace with
  | true => simp only [if_true, findAndReplaceHeader_order c _ h]
  | false => simp only [Bool.false_eq_true, if_false, addNewHeader_order c _ h]

/-- the text of a file after a leading byte order mark -/
def afterBom : Text → Text
  | ch :: rest => if ch == bomChar then rest else ch :: rest
  | [] => []

theorem annotateFile_order (c : HdrCfg) (replace skip : Bool) {i j : Extracted} (text : Text) (h : PermInfo i j) :
    annotateFile c replace skip i text = annotateFile c replace skip j text := by
  unfold annotateFile
  cases text with
  | nil => exact annotateText_order c replace skip [] h
  | cons ch rest =>
    by_cases hb : (ch == bomChar) = true
    · simp only [hb, if_true]
      rw [annotateText_order c replace skip rest h]
    · simp only [hb, Bool.false_eq_true, if_false]
      exact annotateText_order c replace skip _ h

/-! ### several runs, each with its own order -/

/-- replacing runs in a row, the k-th with request `is[k]` (stopping at the first failure) -/
def runsSeq (c : HdrCfg) : List Extracted → Text → Except HeaderErr Text
  | [], t => .ok t
  | i :: is, t =>
    match findAndReplaceHeader c i t with
    | .ok o => runsSeq c is o
    | .error e => .error e

theorem runsSeq_replicate (c : HdrCfg) (i : Extracted) : ∀ (n : Nat) (t : Text),
    runsSeq c (List.replicate n i) t = runs c i n t
  | 0, _ => rfl
  | n + 1, t => by
    simp only [List.replicate_succ, runsSeq, runs]
    cases findAndReplaceHeader c i t with
    | ok o => exact runsSeq_replicate c i n o
    | error e => rfl

/-- when the run with request `i` writes `o` from `t` and leaves `o` alone, so does every sequence of at least
    one run whose requests are orders of `i` -/
theorem runsSeq_fix (c : HdrCfg) {i : Extracted} {t o : Text}
    (h1 : findAndReplaceHeader c i t = .ok o) (h2 : findAndReplaceHeader c i o = .ok o)
    (j : Extracted) (js : List Extracted) (hj : PermInfo i j) (hjs : ∀ k ∈ js, PermInfo i k) :
    runsSeq c (j :: js) t = .ok o := by
  have hfix : ∀ js : List Extracted, (∀ k ∈ js, PermInfo i k) → runsSeq c js o = .ok o := by
    intro js
    induction js with
    | nil => intro _; rfl
    | cons k ks ih =>
      intro hk
      simp only [runsSeq, ← findAndReplaceHeader_order c o (hk k List.mem_cons_self), h2]
      exact ih fun k' hk' => hk k' (List.mem_cons_of_mem _ hk')
  simp only [runsSeq, ← findAndReplaceHeader_order c t hj, h1]
  exact hfix js hjs

end C10Order
