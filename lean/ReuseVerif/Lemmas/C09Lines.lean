/-
C09 (full-file step): `str.splitlines` of a text cut at a line feed — every line of
`u ++ "\n" ++ Z` is a line of `u`, a line of `Z`, or empty — and what that gives for the copyright
notices the reader finds per line.
-/
import ReuseVerif.Lemmas.Lines
import ReuseVerif.Lemmas.ExtractEmbed
import ReuseVerif.Spec.Splice

namespace Py

/-- a line of `u ++ "\n" ++ Z` is a line of `u`, a line of `Z`, or the empty line -/
theorem splitLinesAux_mem_split (acc u Z l : Text)
    (h : l ∈ splitLinesAux false acc (u ++ '\n' :: Z)) :
    l ∈ splitLinesAux false acc u ∨ l ∈ splitLinesAux false [] Z ∨ l = [] := by
  fun_induction splitLinesAux false acc u
  · simp only [List.nil_append] at h
    rw [sla_break [] Z '\n' (by decide) (by simp)] at h
    simp only [List.reverse_nil, List.mem_cons] at h
    rcases h with h | h
    · exact .inr (.inr h)
    · exact .inr (.inl h)
  · rename_i acc hacc
    simp only [List.nil_append] at h
    rw [sla_break acc Z '\n' (by decide) (by simp)] at h
    simp only [List.mem_cons] at h
    rcases h with h | h
    · left; simp [h]
    · exact .inr (.inl h)
  · rename_i acc cs ih
    rw [show ('\r' :: '\n' :: cs ++ '\n' :: Z) = '\r' :: '\n' :: (cs ++ '\n' :: Z) from rfl, sla_crlf] at h
    simp only [Bool.false_eq_true, if_false, List.mem_cons] at h ⊢
    rcases h with h | h
    · exact .inl (.inl h)
    · rcases ih h with h | h | h
      · exact .inl (.inr h)
      · exact .inr (.inl h)
      · exact .inr (.inr h)
  · rename_i acc c cs hx hb ih
    rw [show (c :: cs ++ '\n' :: Z) = c :: (cs ++ '\n' :: Z) from rfl] at h
    simp only [Bool.false_eq_true, if_false, List.mem_cons]
    by_cases hcr : c = '\r' ∧ cs = []
    · obtain ⟨rfl, rfl⟩ := hcr
      simp only [List.nil_append] at h
      rw [sla_crlf] at h
      simp only [List.mem_cons] at h
      rcases h with h | h
      · exact .inl (.inl h)
      · exact .inr (.inl h)
    · rw [sla_break acc _ c hb (by
        rintro ⟨rfl, cs', hcs'⟩
        cases cs with
        | nil => exact hcr ⟨rfl, rfl⟩
        | cons d ds =>
          simp only [List.cons_append, List.cons.injEq] at hcs'
          exact hx ds rfl (by rw [hcs'.1]))] at h
      simp only [List.mem_cons] at h
      rcases h with h | h
      · exact .inl (.inl h)
      · rcases ih h with h | h | h
        · exact .inl (.inr h)
        · exact .inr (.inl h)
        · exact .inr (.inr h)
  · rename_i acc c cs hx hb ih
    rw [show (c :: cs ++ '\n' :: Z) = c :: (cs ++ '\n' :: Z) from rfl, sla_nobreak _ _ _ (by simpa using hb)] at h
    exact ih h

/-- the lines of `u ++ "\n" ++ Z`, as a set: the lines of `u`, the lines of `Z`, possibly the empty line -/
theorem splitLines_mem_split (u Z l : Text) (h : l ∈ splitLines (u ++ '\n' :: Z)) :
    l ∈ splitLines u ∨ l ∈ splitLines Z ∨ l = [] :=
  splitLinesAux_mem_split [] u Z l h

theorem splitLines_mem_left (u Z l : Text) (h : l ∈ splitLines u) : l ∈ splitLines (u ++ '\n' :: Z) :=
  splitLinesAux_mem_append [] u Z l h

theorem splitLines_mem_right (u Z l : Text) (h : l ∈ splitLines Z) : l ∈ splitLines (u ++ '\n' :: Z) :=
  splitLinesAux_mem_prepend [] u Z l h

end Py

namespace Model
open Py Spec

/-- the copyright notices found line by line (what `extract_reuse_info` collects before it makes a set of them) -/
def cprLines (t : Text) : List Text :=
  (splitLines t).filterMap fun l => (searchLine l).map fun m => strip m.whole

theorem mem_cprLines {t x : Text} :
    x ∈ cprLines t ↔ ∃ l ∈ splitLines t, ∃ m, searchLine l = some m ∧ strip m.whole = x := by
  unfold cprLines
  simp only [List.mem_filterMap, Option.map_eq_some_iff]

theorem extractRaw_cpr_eq (t : Text) : (extractRaw t).cpr = dedup (cprLines (filterIgnore t)) := rfl

theorem mem_extractRaw_cpr {t x : Text} (h : findSub Generated.ignoreStart t = none) :
    x ∈ (extractRaw t).cpr ↔ x ∈ cprLines t := by
  rw [extractRaw_cpr_eq, mem_dedup, filterIgnore_id h]

theorem eat_none_of_head {lit : Text} {a c : Char} {cs : Text} (hl : lit.head? = some a) (hne : a ≠ c) :
    eat lit (c :: cs) = none := by
  cases lit with
  | nil => cases hl
  | cons b bs =>
    simp only [List.head?_cons, Option.some.injEq] at hl
    subst hl
    have : (b == c) = false := by simpa using hne
    simp [eat, List.isPrefixOf, this]

theorem eatHead_none_of_space (p : CPat) (c : Char) (cs : Text) (h : isSpace c = true) :
    eatHead p (c :: cs) = none := by
  cases p with
  | spdx =>
    have : eat "SPDX-".toList (c :: cs) = none :=
      eat_none_of_head (a := 'S') rfl (by rintro rfl; revert h; decide)
    show (eat "SPDX-".toList (c :: cs)).bind _ = none
    rw [this]; rfl
  | word =>
    exact eat_none_of_head (a := 'C') rfl (by rintro rfl; revert h; decide)
  | sign =>
    exact eat_none_of_head (a := Char.ofNat 0xa9) rfl (by rintro rfl; revert h; decide)

theorem matchAt_none_of_head {endRe : Re} {p : CPat} {s : Text} (h : eatHead p s = none) : matchAt endRe p s = none := by
  simp [matchAt, h]

theorem searchPat_blank (endRe : Re) (p : CPat) (w : Text) (hw : Blank w) : searchPat endRe p w = none := by
  induction w with
  | nil =>
    rw [searchPat]
    apply matchAt_none_of_head
    cases p <;> rfl
  | cons c cs ih =>
    have hc : isSpace c = true := by
      have := hw; simp only [Blank, List.all_cons, Bool.and_eq_true] at this; exact this.1
    have hcs : Blank cs := by
      have := hw; simp only [Blank, List.all_cons, Bool.and_eq_true] at this; exact this.2
    rw [searchPat, matchAt_none_of_head (eatHead_none_of_space p c cs hc)]
    exact ih hcs

/-- a line of white space holds no copyright notice -/
theorem searchLine_blank (w : Text) (hw : Blank w) : searchLine w = none := by
  unfold searchLine searchLineWith
  simp [searchPat_blank _ _ w hw]

theorem blank_of_mem_splitLines_aux (acc s l : Text) (hacc : Blank acc) (hs : Blank s)
    (h : l ∈ splitLinesAux false acc s) : Blank l := by
  fun_induction splitLinesAux false acc s
  · cases h
  · rename_i acc hne
    simp only [List.mem_singleton] at h
    subst h
    simpa [Blank] using hacc
  · rename_i acc cs ih
    simp only [Bool.false_eq_true, if_false, List.mem_cons] at h
    have hcs : Blank cs := by
      simp only [Blank, List.all_cons, Bool.and_eq_true] at hs; exact hs.2.2
    rcases h with h | h
    · subst h; simpa [Blank] using hacc
    · exact ih (by decide) hcs h
  · rename_i acc c cs hx hb ih
    simp only [Bool.false_eq_true, if_false, List.mem_cons] at h
    have hcs : Blank cs := by
      simp only [Blank, List.all_cons, Bool.and_eq_true] at hs; exact hs.2
    rcases h with h | h
    · subst h; simpa [Blank] using hacc
    · exact ih (by decide) hcs h
  · rename_i acc c cs hx hb ih
    have hc : isSpace c = true := by
      simp only [Blank, List.all_cons, Bool.and_eq_true] at hs; exact hs.1
    have hcs : Blank cs := by
      simp only [Blank, List.all_cons, Bool.and_eq_true] at hs; exact hs.2
    exact ih (by simp only [Blank, List.all_cons, hc, Bool.true_and]; exact hacc) hcs h

/-- a text of white space only holds no copyright notice -/
theorem cprLines_blank (w : Text) (hw : Blank w) : cprLines w = [] := by
  unfold cprLines
  rw [List.filterMap_eq_nil_iff]
  intro l hl
  have := blank_of_mem_splitLines_aux [] w l (by decide) hw hl
  simp [searchLine_blank l this]

/-- cut at a line feed, the notices are those of the two parts -/
theorem cprLines_split (u Z x : Text) : x ∈ cprLines (u ++ '\n' :: Z) ↔ x ∈ cprLines u ∨ x ∈ cprLines Z := by
  simp only [mem_cprLines]
  constructor
  · rintro ⟨l, hl, m, hm, hx⟩
    rcases splitLines_mem_split u Z l hl with h | h | h
    · exact .inl ⟨l, h, m, hm, hx⟩
    · exact .inr ⟨l, h, m, hm, hx⟩
    · subst h
      rw [searchLine_blank [] (by decide)] at hm
      cases hm
  · rintro (⟨l, hl, m, hm, hx⟩ | ⟨l, hl, m, hm, hx⟩)
    · exact ⟨l, splitLines_mem_left u Z l hl, m, hm, hx⟩
    · exact ⟨l, splitLines_mem_right u Z l hl, m, hm, hx⟩

end Model
