/-
Extraction is monotone under embedding a header block between line boundaries: copyright
notices (searched per `splitlines()` line) of the block are notices of the whole text, when no
ignore region opens anywhere in the text.
-/
import ReuseVerif.Lemmas.Header
import ReuseVerif.Lemmas.IgnoreMain
import ReuseVerif.Lemmas.Lines

namespace Model
open Py Spec

theorem filterIgnore_id {t : Text} (h : findSub Generated.ignoreStart t = none) : filterIgnore t = t := by
  unfold filterIgnore
  rw [filter_eq_scan _ _ _ (by decide) t]
  exact scan_out_none h

theorem findSub_none_prefix {pat a b : Text} (h : findSub pat (a ++ b) = none) : findSub pat a = none := by
  induction a with
  | nil =>
    cases pat with
    | nil => cases b <;> simp [findSub] at h
    | cons p ps => simp [findSub]
  | cons x xs ih =>
    have ⟨h1, h2⟩ := findSub_none_cons (by simpa using h : findSub pat (x :: (xs ++ b)) = none)
    have h3 : pat.isPrefixOf (x :: xs) = false := by
      cases hp : pat.isPrefixOf (x :: xs) with
      | false => rfl
      | true =>
        have := List.isPrefixOf_iff_prefix.mp hp
        have : pat <+: (x :: (xs ++ b)) := this.trans (List.prefix_append (x :: xs) b)
        rw [← List.isPrefixOf_iff_prefix] at this
        simp [this] at h1
    simp [findSub, h3, ih h2]

theorem findSub_none_infix {pat a b c : Text} (h : findSub pat (a ++ b ++ c) = none) : findSub pat b = none := by
  have h1 := findSub_none_drop h a.length
  simp only [List.append_assoc, List.drop_left] at h1
  exact findSub_none_prefix h1

theorem mem_cpr_iff (t x : Text) :
    x ∈ (extractRaw t).cpr ↔ ∃ l ∈ splitLines (filterIgnore t), ∃ m, searchLineWith Generated.endRe l = some m ∧ strip m.whole = x := by
  unfold extractRaw extractRawWith
  simp only [mem_dedup, List.mem_filterMap, Option.map_eq_some_iff]

theorem extractRaw_cpr_embed (pre h post : Text) (hpre : pre = [] ∨ ∃ p, pre = p ++ ['\n'])
    (hns : findSub Generated.ignoreStart (pre ++ h ++ ['\n'] ++ post) = none) (x : Text)
    (hx : x ∈ (extractRaw h).cpr) : x ∈ (extractRaw (pre ++ h ++ ['\n'] ++ post)).cpr := by
  rw [mem_cpr_iff] at hx ⊢
  have hh : findSub Generated.ignoreStart h = none :=
    findSub_none_infix (a := pre) (c := ['\n'] ++ post) (by simpa [List.append_assoc] using hns)
  rw [filterIgnore_id hh] at hx
  rw [filterIgnore_id hns]
  obtain ⟨l, hl, m, hm⟩ := hx
  exact ⟨l, splitLines_mem_embed pre h post l hpre hl, m, hm⟩

end Model
