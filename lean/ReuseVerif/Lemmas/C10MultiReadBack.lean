/-
C10: the block `create_comment` produces in *multi-line* mode is read back exactly by
`comment_at_first_character`, for every header text that does not contain the style's terminator
(the guard of `_create_comment_multi`) and whatever follows the block's line end.

The style-side condition `MultiOK` (decidable, checked over the generated table by `decide +kernel`
in `Theorems/C10.lean`) is the true condition: each of its three "terminator" clauses is necessary
(see the comments at the definition).
-/
import ReuseVerif.Lemmas.ReadBack
import ReuseVerif.Lemmas.Str

namespace C10L
open Py Model Spec
open Generated (Style)

/-! ### occurrences: `pat in s` is false means `s` cannot be cut around `pat` -/

theorem findSub_none_cut {pat : Text} (a b : Text) : ∀ s, findSub pat s = none → s ≠ a ++ pat ++ b := by
  induction a with
  | nil =>
    intro s hn hs
    have : pat.isPrefixOf s = true := List.isPrefixOf_iff_prefix.mpr ⟨b, by rw [hs]; simp⟩
    rw [findSub_prefix_zero this] at hn; cases hn
  | cons x a ih =>
    intro s hn hs
    subst hs
    have h2 : findSub pat (x :: (a ++ pat ++ b)) = none := by simpa using hn
    exact ih _ (findSub_none_cons h2).2 rfl

theorem not_contains_infix {pat s : Text} (h : contains s pat = false) (a b : Text) : s ≠ a ++ pat ++ b := by
  apply findSub_none_cut
  unfold contains at h
  cases hf : findSub pat s with
  | none => rfl
  | some k => simp [hf] at h

/-- every piece of `text.split("\n")` is a contiguous part of the text -/
theorem splitOnFuel_lf_infix (f : Nat) (acc s : Text) (hf : s.length < f) :
    ∀ p ∈ splitOnFuel ['\n'] f acc s, ∃ a b, acc.reverse ++ s = a ++ p ++ b := by
  induction f generalizing acc s with
  | zero => omega
  | succ f ih =>
    cases s with
    | nil =>
      intro p hp
      simp only [splitOnFuel, List.mem_singleton] at hp
      subst hp
      exact ⟨[], [], by simp⟩
    | cons c cs =>
      rw [splitOnFuel]
      by_cases hc : c = '\n'
      · subst hc
        have hp : (['\n'] : Text).isPrefixOf ('\n' :: cs) = true := by simp [List.isPrefixOf]
        simp only [hp, List.isEmpty_cons, Bool.false_eq_true, not_false_eq_true, and_self, if_true]
        simp only [List.length_cons, List.length_nil, List.drop_succ_cons, List.drop_zero]
        intro p hp
        simp only [List.mem_cons] at hp
        rcases hp with rfl | hp
        · exact ⟨[], '\n' :: cs, by simp⟩
        · obtain ⟨a, b, hab⟩ := ih [] cs (by simp at hf; simpa using hf) p hp
          simp only [List.reverse_nil, List.nil_append] at hab
          exact ⟨acc.reverse ++ '\n' :: a, b, by rw [hab]; simp⟩
      · have hp : (['\n'] : Text).isPrefixOf (c :: cs) = false := by
          simp [List.isPrefixOf]; exact fun h => hc h.symm
        simp only [hp, Bool.false_eq_true, false_and, if_false]
        intro p hp
        obtain ⟨a, b, hab⟩ := ih (c :: acc) cs (by simp at hf; omega) p hp
        exact ⟨a, b, by rw [← hab]; simp⟩

theorem splitOn_lf_infix (text : Text) : ∀ p ∈ splitOn ['\n'] text, ∃ a b, text = a ++ p ++ b := by
  intro p hp
  have := splitOnFuel_lf_infix (text.length + 1) [] text (by omega) p hp
  simpa using this

/-- a piece of a text that does not contain `pat` does not contain it -/
theorem piece_no_infix {text pat p : Text} (h : contains text pat = false) (hp : p ∈ splitOn ['\n'] text)
    (a b : Text) : p ≠ a ++ pat ++ b := by
  intro hpe
  obtain ⟨a', b', hab⟩ := splitOn_lf_infix text p hp
  exact not_contains_infix h (a' ++ a) (b ++ b') (by rw [hab, hpe]; simp)

/-! ### the lines of `_create_comment_multi` -/

/-- what `_create_comment_multi` puts before every body line -/
def midPrefix (s : Style) : Text := if s.mMiddle.isEmpty then [] else s.indentBeforeMiddle ++ s.mMiddle

/-- one body line of `_create_comment_multi` -/
def midLine (s : Style) (line : Text) : Text :=
  midPrefix s ++ (if line.isEmpty then [] else s.indentAfterMiddle ++ line)

/-- the decidable style condition under which the multi-line block is read back, for every text.
    * no marker or indentation contains a line boundary;
    * the opener line does not end with the terminator (else the block found is the opener alone);
    * the prefix of a body line does not end with the terminator (else an empty text line ends the block);
    * no non-empty end of `prefix + indentation` is a proper beginning of the terminator (else a text line that
      is the rest of the terminator — it does not *contain* the terminator — completes one across the
      boundary between marker and text and ends the block early). -/
def MultiOK (s : Style) : Prop :=
  s.canMulti = true ∧ s.isEmptyStyle = false ∧
  NoBreak s.mStart ∧ NoBreak s.mMiddle ∧ NoBreak s.mEnd ∧ NoBreak s.indentBeforeMiddle ∧
  NoBreak s.indentAfterMiddle ∧ NoBreak s.indentBeforeEnd ∧
  endsWith s.mStart s.mEnd = false ∧
  endsWith (midPrefix s) s.mEnd = false ∧
  (∀ k, k < (midPrefix s ++ s.indentAfterMiddle).length →
    ((midPrefix s ++ s.indentAfterMiddle).drop k).length < s.mEnd.length →
    startsWith s.mEnd ((midPrefix s ++ s.indentAfterMiddle).drop k) = false)

instance (s : Style) : Decidable (MultiOK s) := by
  unfold MultiOK
  exact inferInstance

theorem createMulti_eq {s : Style} (h : s.canMulti = true) {text blk : Text} (hb : createMulti s text = .ok blk) :
    contains text s.mEnd = false ∧
    blk = join ['\n'] ([s.mStart] ++ (splitOn ['\n'] text).map (midLine s) ++ [s.indentBeforeEnd ++ s.mEnd]) := by
  have hfun : (fun line : Text => (if s.mMiddle.isEmpty then [] else s.indentBeforeMiddle ++ s.mMiddle) ++
      (if line.isEmpty then [] else s.indentAfterMiddle ++ line)) = midLine s := rfl
  unfold createMulti at hb
  simp only [h, Bool.not_true, Bool.false_eq_true, if_false, hfun] at hb
  split at hb
  · cases hb
  · rename_i hc
    simp only [Except.ok.injEq] at hb
    exact ⟨by simpa using hc, hb.symm⟩

/-- a body line does not end with the terminator when the text line does not contain it -/
theorem midLine_not_end {s : Style} (h : MultiOK s) {line : Text} (hl : ∀ a b, line ≠ a ++ s.mEnd ++ b) :
    endsWith (midLine s line) s.mEnd = false := by
  obtain ⟨_, _, _, _, _, _, _, _, _, hPE, hOv⟩ := h
  cases hew : endsWith (midLine s line) s.mEnd with
  | false => rfl
  | true =>
    exfalso
    unfold midLine at hew
    by_cases hle : line.isEmpty = true
    · simp only [hle, if_true, List.append_nil] at hew
      rw [hPE] at hew; cases hew
    · simp only [hle, Bool.false_eq_true, if_false] at hew
      rw [← List.append_assoc] at hew
      have hne : line ≠ [] := by intro h0; apply hle; simp [h0]
      obtain ⟨t, ht⟩ : s.mEnd <:+ (midPrefix s ++ s.indentAfterMiddle) ++ line := List.isSuffixOf_iff_suffix.mp hew
      rcases List.append_eq_append_iff.mp ht with ⟨a', hX, hE⟩ | ⟨c', ht', hline⟩
      · -- the terminator straddles the boundary: `mEnd = a' ++ line`
        have hlen : a'.length < s.mEnd.length := by
          rw [hE]
          have : 0 < line.length := List.length_pos_iff.mpr hne
          simp only [List.length_append]; omega
        have ha' : a' ≠ [] := by
          intro h0
          subst h0
          exact hl [] [] (by simpa using hE.symm)
        have hk : t.length < (midPrefix s ++ s.indentAfterMiddle).length := by
          rw [hX]
          have : 0 < a'.length := List.length_pos_iff.mpr ha'
          simp only [List.length_append]; omega
        have hdrop : (midPrefix s ++ s.indentAfterMiddle).drop t.length = a' := by
          rw [hX]; exact List.drop_left' rfl
        have := hOv t.length hk (by rw [hdrop]; exact hlen)
        rw [hdrop] at this
        have hpre : startsWith s.mEnd a' = true := List.isPrefixOf_iff_prefix.mpr ⟨line, hE.symm⟩
        rw [hpre] at this; cases this
      · exact hl c' [] (by simpa using hline)

/-- the reader skips lines that do not end with the terminator and stops at the first that does -/
theorem multiEnd_skip (s : Style) (A : List Text) (l : Text) (X : List Text) (i : Nat)
    (hA : ∀ m ∈ A, endsWith m s.mEnd = false) (hl : endsWith l s.mEnd = true) :
    multiEnd s (A ++ l :: X) i = some (i + A.length) := by
  induction A generalizing i with
  | nil => simp [multiEnd, hl]
  | cons m ms ih =>
    simp only [List.cons_append, multiEnd, hA m (by simp), Bool.false_eq_true, if_false]
    rw [ih (i + 1) (fun x hx => hA x (by simp [hx]))]
    simp only [List.length_cons]
    congr 1; omega

theorem join_cons_ne (x : Text) (xs : List Text) (h : xs ≠ []) :
    join ['\n'] (x :: xs) = x ++ '\n' :: join ['\n'] xs := by
  cases xs with
  | nil => exact absurd rfl h
  | cons y ys =>
    rw [join]
    · simp
    · intro h; cases h

/-- **Multi-line read-back, for every header text.**  For a style with `MultiOK`, every text whose only line
    boundary is `\n` and for which `_create_comment_multi` succeeds (the text does not contain the terminator):
    the block it produces, followed by a line end and then *anything*, is exactly what
    `comment_at_first_character` returns. -/
theorem multi_readback {s : Style} (h : MultiOK s) (text : Text) (hno : NoExoticBreaks text) (blk : Text)
    (hblk : createMulti s text = .ok blk) (rest : Text) :
    commentAtFirst s (blk ++ '\n' :: rest) = .ok blk := by
  have hS := h
  obtain ⟨hcm, hes, hnbS, hnbM, hnbE, hnbIBM, hnbIAM, hnbIBE, hSE, _, _⟩ := h
  obtain ⟨hnc, hblk'⟩ := createMulti_eq hcm hblk
  obtain ⟨hne, hpieces⟩ := splitOn_lf_noBreak text hno
  have hinf : ∀ p ∈ splitOn ['\n'] text, ∀ a b, p ≠ a ++ s.mEnd ++ b := fun p hp => piece_no_infix hnc hp
  generalize splitOn ['\n'] text = L at hblk' hne hpieces hinf
  subst hblk'
  -- the lines of the block
  have hnbP : NoBreak (midPrefix s) := by
    unfold midPrefix
    split
    · intro ch hch; cases hch
    · exact noBreak_append hnbIBM hnbM
  have hBnb : ∀ m ∈ L.map (midLine s), NoBreak m := by
    intro m hm
    obtain ⟨l, hl, rfl⟩ := List.mem_map.mp hm
    unfold midLine
    split
    · simpa using hnbP
    · exact noBreak_append hnbP (noBreak_append hnbIAM (hpieces l hl))
  have hBend : ∀ m ∈ L.map (midLine s), endsWith m s.mEnd = false := by
    intro m hm
    obtain ⟨l, hl, rfl⟩ := List.mem_map.mp hm
    exact midLine_not_end hS (hinf l hl)
  generalize L.map (midLine s) = B at hBnb hBend ⊢
  have hMnb : ∀ m ∈ [s.mStart] ++ B ++ [s.indentBeforeEnd ++ s.mEnd], NoBreak m := by
    intro m hm
    simp only [List.mem_append, List.mem_singleton] at hm
    rcases hm with (rfl | hm) | rfl
    · exact hnbS
    · exact hBnb m hm
    · exact noBreak_append hnbIBE hnbE
  have hlines : splitLines (join ['\n'] ([s.mStart] ++ B ++ [s.indentBeforeEnd ++ s.mEnd]) ++ '\n' :: rest) =
      ([s.mStart] ++ B) ++ (s.indentBeforeEnd ++ s.mEnd) :: splitLinesAux false [] rest := by
    have := splitLines_join ([s.mStart] ++ B ++ [s.indentBeforeEnd ++ s.mEnd]) (by simp) hMnb rest
    rw [splitLines, this]; simp
  -- the opener is recognised
  have hopen : startsWith (join ['\n'] ([s.mStart] ++ B ++ [s.indentBeforeEnd ++ s.mEnd]) ++ '\n' :: rest) s.mStart = true := by
    have : [s.mStart] ++ B ++ [s.indentBeforeEnd ++ s.mEnd] = s.mStart :: (B ++ [s.indentBeforeEnd ++ s.mEnd]) := by simp
    rw [this, join_cons_ne _ _ (by simp)]
    exact List.isPrefixOf_iff_prefix.mpr
      ⟨'\n' :: (join ['\n'] (B ++ [s.indentBeforeEnd ++ s.mEnd]) ++ '\n' :: rest), by simp⟩
  -- the first line that ends with the terminator is the block's last line
  have hA : ∀ m ∈ [s.mStart] ++ B, endsWith m s.mEnd = false := by
    intro m hm
    simp only [List.singleton_append, List.mem_cons] at hm
    rcases hm with rfl | hm
    · exact hSE
    · exact hBend m hm
  have hlast : endsWith (s.indentBeforeEnd ++ s.mEnd) s.mEnd = true :=
    List.isSuffixOf_iff_suffix.mpr ⟨s.indentBeforeEnd, rfl⟩
  have hend := multiEnd_skip s ([s.mStart] ++ B) (s.indentBeforeEnd ++ s.mEnd) (splitLinesAux false [] rest) 0 hA hlast
  unfold commentAtFirst
  simp only [hes, Bool.false_eq_true, if_false, hcm, Bool.or_true, Bool.not_true, Bool.true_and, hopen, if_true,
    hlines, hend]
  have htake : List.take (0 + ([s.mStart] ++ B).length + 1)
      (([s.mStart] ++ B) ++ (s.indentBeforeEnd ++ s.mEnd) :: splitLinesAux false [] rest) =
      [s.mStart] ++ B ++ [s.indentBeforeEnd ++ s.mEnd] := by
    have : ([s.mStart] ++ B) ++ (s.indentBeforeEnd ++ s.mEnd) :: splitLinesAux false [] rest =
        ([s.mStart] ++ B ++ [s.indentBeforeEnd ++ s.mEnd]) ++ splitLinesAux false [] rest := by simp
    rw [this]
    exact List.take_left' (by simp)
  rw [htake]

end C10L
