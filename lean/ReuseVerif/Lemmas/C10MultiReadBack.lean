/-
C10: the block `create_comment` produces in *multi-line* mode is read back exactly by
`comment_at_first_character`, for every header text that does not contain the style's terminator
(the guard of `_create_comment_multi`) and whatever follows the block's line end.

The style-side condition `MultiOK` (decidable, checked over the generated table by `decide +kernel`
in `Theorems/C10.lean`) is the true condition: each of its "terminator" clauses is necessary
(see the comments at the definition).  The reader stops at the first line that *holds* the terminator
(the opener on the first line aside) and accepts it when only white space follows the terminator there.
-/
import ReuseVerif.Lemmas.ReadBack
import ReuseVerif.Lemmas.Str

namespace C10L
open Py Model Spec
open Generated (Style)

/-! ### occurrences: `pat in s` is false means `s` cannot be cut around `pat` -/

theorem findSub_none_cut {pat : Text} (a b : Text) : ∀ s, findSub pat s = none → s ≠ a ++ pat ++ b := by
  induction a with
  | nil =>
    intro s hn hs
    have : pat.isPrefixOf s = true := List.isPrefixOf_iff_prefix.mpr ⟨b, by rw [hs]; simp⟩
    rw [findSub_prefix_zero this] at hn; cases hn
  | cons x a ih =>
    intro s hn hs
    subst hs
    have h2 : findSub pat (x :: (a ++ pat ++ b)) = none := by simpa using hn
    exact ih _ (findSub_none_cons h2).2 rfl

theorem not_contains_infix {pat s : Text} (h : contains s pat = false) (a b : Text) : s ≠ a ++ pat ++ b := by
  apply findSub_none_cut
  unfold contains at h
  cases hf : findSub pat s with
  | none => rfl
  | some k => simp [hf] at h

/-- every piece of `text.split("\n")` is a contiguous part of the text -/
theorem splitOnFuel_lf_infix (f : Nat) (acc s : Text) (hf : s.length < f) :
    ∀ p ∈ splitOnFuel ['\n'] f acc s, ∃ a b, acc.reverse ++ s = a ++ p ++ b := by
  induction f generalizing acc s with
  | zero => omega
  | succ f ih =>
    cases s with
    | nil =>
      intro p hp
      simp only [splitOnFuel, List.mem_singleton] at hp
      subst hp
      exact ⟨[], [], by simp⟩
    | cons c cs =>
      rw [splitOnFuel]
      by_cases hc : c = '\n'
      · subst hc
        have hp : (['\n'] : Text).isPrefixOf ('\n' :: cs) = true := by simp [List.isPrefixOf]
        simp only [hp, List.isEmpty_cons, Bool.false_eq_true, not_false_eq_true, and_self, if_true]
        simp only [List.length_cons, List.length_nil, List.drop_succ_cons, List.drop_zero]
        intro p hp
        simp only [List.mem_cons] at hp
        rcases hp with rfl | hp
        · exact ⟨[], '\n' :: cs, by simp⟩
        · obtain ⟨a, b, hab⟩ := ih [] cs (by simp at hf; simpa using hf) p hp
          simp only [List.reverse_nil, List.nil_append] at hab
          exact ⟨acc.reverse ++ '\n' :: a, b, by rw [hab]; simp⟩
      · have hp : (['\n'] : Text).isPrefixOf (c :: cs) = false := by
          simp [List.isPrefixOf]; exact fun h => hc h.symm
        simp only [hp, Bool.false_eq_true, false_and, if_false]
        intro p hp
        obtain ⟨a, b, hab⟩ := ih (c :: acc) cs (by simp at hf; omega) p hp
        exact ⟨a, b, by rw [← hab]; simp⟩

theorem splitOn_lf_infix (text : Text) : ∀ p ∈ splitOn ['\n'] text, ∃ a b, text = a ++ p ++ b := by
  intro p hp
  have := splitOnFuel_lf_infix (text.length + 1) [] text (by omega) p hp
  simpa using this

/-- a piece of a text that does not contain `pat` does not contain it -/
theorem piece_no_infix {text pat p : Text} (h : contains text pat = false) (hp : p ∈ splitOn ['\n'] text)
    (a b : Text) : p ≠ a ++ pat ++ b := by
  intro hpe
  obtain ⟨a', b', hab⟩ := splitOn_lf_infix text p hp
  exact not_contains_infix h (a' ++ a) (b ++ b') (by rw [hab, hpe]; simp)

/-! ### the lines of `_create_comment_multi` -/

/-- what `_create_comment_multi` puts before every body line -/
def midPrefix (s : Style) : Text := if s.mMiddle.isEmpty then [] else s.indentBeforeMiddle ++ s.mMiddle

/-- one body line of `_create_comment_multi` -/
def midLine (s : Style) (line : Text) : Text :=
  midPrefix s ++ (if line.isEmpty then [] else s.indentAfterMiddle ++ line)

/-- the decidable style condition under which the multi-line block is read back, for every text.
    * no marker or indentation contains a line boundary;
    * the terminator is not empty and does not end in white space (white space behind the terminator is set
      aside before the closing line is tested);
    * the prefix of a body line, with and without the indentation that follows it, does not hold the terminator
      (else an empty / any text line ends the block);
    * no non-empty end of `prefix + indentation` is a proper beginning of the terminator (else a text line that
      begins with the rest of the terminator — it does not *contain* the terminator — completes one across the
      boundary between marker and text and ends the block early). -/
def MultiOK (s : Style) : Prop :=
  s.canMulti = true ∧ s.isEmptyStyle = false ∧
  NoBreak s.mStart ∧ NoBreak s.mMiddle ∧ NoBreak s.mEnd ∧ NoBreak s.indentBeforeMiddle ∧
  NoBreak s.indentAfterMiddle ∧ NoBreak s.indentBeforeEnd ∧
  ((s.mEnd.getLast?).map isSpace).getD true = false ∧
  contains (midPrefix s) s.mEnd = false ∧
  contains (midPrefix s ++ s.indentAfterMiddle) s.mEnd = false ∧
  (∀ k, k < (midPrefix s ++ s.indentAfterMiddle).length →
    ((midPrefix s ++ s.indentAfterMiddle).drop k).length < s.mEnd.length →
    startsWith s.mEnd ((midPrefix s ++ s.indentAfterMiddle).drop k) = false)

instance (s : Style) : Decidable (MultiOK s) := by
  unfold MultiOK
  exact inferInstance

theorem createMulti_eq {s : Style} (h : s.canMulti = true) {text blk : Text} (hb : createMulti s text = .ok blk) :
    contains text s.mEnd = false ∧
    blk = join ['\n'] ([s.mStart] ++ (splitOn ['\n'] text).map (midLine s) ++ [s.indentBeforeEnd ++ s.mEnd]) := by
  have hfun : (fun line : Text => (if s.mMiddle.isEmpty then [] else s.indentBeforeMiddle ++ s.mMiddle) ++
      (if line.isEmpty then [] else s.indentAfterMiddle ++ line)) = midLine s := rfl
  unfold createMulti at hb
  simp only [h, Bool.not_true, Bool.false_eq_true, if_false, hfun] at hb
  split at hb
  · cases hb
  · rename_i hc
    simp only [Except.ok.injEq] at hb
    exact ⟨by simpa using hc, hb.symm⟩

/-- an occurrence can be cut out -/
theorem contains_cut {pat s : Text} (h : contains s pat = true) : ∃ a b, s = a ++ pat ++ b := by
  unfold contains at h
  cases hf : findSub pat s with
  | none => simp [hf] at h
  | some i =>
    have hp := findSub_some_prefix hf
    obtain ⟨b, hb⟩ := List.isPrefixOf_iff_prefix.mp hp
    exact ⟨s.take i, b, by rw [List.append_assoc, hb, List.take_append_drop]⟩

theorem contains_of_cut {pat : Text} (a b : Text) : contains (a ++ pat ++ b) pat = true := by
  cases h : contains (a ++ pat ++ b) pat with
  | true => rfl
  | false => exact absurd rfl (not_contains_infix h a b)

/-- a body line does not hold the terminator when the text line does not -/
theorem midLine_no_end {s : Style} (h : MultiOK s) {line : Text} (hl : ∀ a b, line ≠ a ++ s.mEnd ++ b) :
    contains (midLine s line) s.mEnd = false := by
  obtain ⟨_, _, _, _, _, _, _, _, _, hP0, hP, hOv⟩ := h
  cases hc : contains (midLine s line) s.mEnd with
  | false => rfl
  | true =>
    exfalso
    obtain ⟨a, b, hab⟩ := contains_cut hc
    unfold midLine at hab
    by_cases hle : line.isEmpty = true
    · simp only [hle, if_true, List.append_nil] at hab
      exact not_contains_infix hP0 a b hab
    · simp only [hle, Bool.false_eq_true, if_false] at hab
      rw [← List.append_assoc, List.append_assoc a] at hab
      rcases List.append_eq_append_iff.mp hab with ⟨a', ha, hline⟩ | ⟨c', hPc, hrest⟩
      · -- the occurrence lies in the text line
        exact hl a' b (by rw [hline]; simp)
      · rcases List.append_eq_append_iff.mp hrest with ⟨d, hc', _⟩ | ⟨d, hE, hline⟩
        · -- the occurrence lies in the prefix
          exact not_contains_infix hP a d (by rw [hPc, hc']; simp)
        · by_cases hc0 : c' = []
          · subst hc0
            exact hl [] b (by rw [hline]; simp at hE; rw [hE]; simp)
          · by_cases hd0 : d = []
            · subst hd0
              simp only [List.append_nil] at hE
              exact not_contains_infix hP a [] (by rw [hPc, hE]; simp)
            · -- the terminator straddles the boundary: `mEnd = c' ++ d`, `c'` a non-empty end of the prefix
              have hk : a.length < (midPrefix s ++ s.indentAfterMiddle).length := by
                rw [hPc]
                have : 0 < c'.length := List.length_pos_iff.mpr hc0
                simp only [List.length_append]; omega
              have hdrop : (midPrefix s ++ s.indentAfterMiddle).drop a.length = c' := by
                rw [hPc]; exact List.drop_left' rfl
              have hlen : c'.length < s.mEnd.length := by
                rw [hE]
                have : 0 < d.length := List.length_pos_iff.mpr hd0
                simp only [List.length_append]; omega
              have := hOv a.length hk (by rw [hdrop]; exact hlen)
              rw [hdrop] at this
              have hpre : startsWith s.mEnd c' = true := List.isPrefixOf_iff_prefix.mpr ⟨d, hE.symm⟩
              rw [hpre] at this; cases this

/-- below the first line, the reader skips lines that do not hold the terminator and stops at the first that
    does, accepting it when nothing but white space follows the terminator there -/
theorem multiEnd_skip_pos (s : Style) (A : List Text) (l : Text) (X : List Text) (i : Nat) (hi : i ≠ 0)
    (hA : ∀ m ∈ A, contains m s.mEnd = false) (hl1 : contains l s.mEnd = true)
    (hl2 : endsWith (rstrip l) s.mEnd = true) :
    multiEnd s (A ++ l :: X) i = some (i + A.length) := by
  have hi0 : (i == 0) = false := by simpa using hi
  induction A generalizing i with
  | nil => simp [multiEnd, closesIn, hi0, hl1, hl2]
  | cons m ms ih =>
    simp only [List.cons_append, multiEnd, closesIn, hi0, Bool.false_eq_true, if_false, hA m (by simp)]
    rw [ih (i + 1) (by omega) (fun x hx => hA x (by simp [hx])) (by simp)]
    simp only [List.length_cons]
    congr 1; omega

/-- the same from the first line on: the opener is set aside there -/
theorem multiEnd_skip (s : Style) (first : Text) (B : List Text) (l : Text) (X : List Text)
    (h0 : contains (first.drop s.mStart.length) s.mEnd = false)
    (hB : ∀ m ∈ B, contains m s.mEnd = false) (hl1 : contains l s.mEnd = true)
    (hl2 : endsWith (rstrip l) s.mEnd = true) :
    multiEnd s (([first] ++ B) ++ l :: X) 0 = some (0 + ([first] ++ B).length) := by
  simp only [List.cons_append, List.nil_append, multiEnd, closesIn, beq_self_eq_true, if_true, h0,
    Bool.false_eq_true, if_false]
  rw [multiEnd_skip_pos s B l X (0 + 1) (by omega) hB hl1 hl2]
  simp only [List.length_cons]
  congr 1; omega

theorem rstrip_of_last' {u : Text} (h : ∀ c, u.getLast? = some c → isSpace c = false) : rstrip u = u := by
  unfold rstrip
  have : u.reverse.dropWhile isSpace = u.reverse := by
    cases hr : u.reverse with
    | nil => rfl
    | cons c cs =>
      have : u.getLast? = some c := by
        rw [← List.head?_reverse, hr]; rfl
      simp [List.dropWhile_cons, h c this]
  rw [this, List.reverse_reverse]

theorem join_cons_ne (x : Text) (xs : List Text) (h : xs ≠ []) :
    join ['\n'] (x :: xs) = x ++ '\n' :: join ['\n'] xs := by
  cases xs with
  | nil => exact absurd rfl h
  | cons y ys =>
    rw [join]
    · simp
    · intro h; cases h

/-- **Multi-line read-back, for every header text.**  For a style with `MultiOK`, every text whose only line
    boundary is `\n` and for which `_create_comment_multi` succeeds (the text does not contain the terminator):
    the block it produces, followed by a line end and then *anything*, is exactly what
    `comment_at_first_character` returns. -/
theorem multi_readback {s : Style} (h : MultiOK s) (text : Text) (hno : NoExoticBreaks text) (blk : Text)
    (hblk : createMulti s text = .ok blk) (rest : Text) :
    commentAtFirst s (blk ++ '\n' :: rest) = .ok blk := by
  have hS := h
  obtain ⟨hcm, hes, hnbS, hnbM, hnbE, hnbIBM, hnbIAM, hnbIBE, hLast, _, _, _⟩ := h
  obtain ⟨hnc, hblk'⟩ := createMulti_eq hcm hblk
  obtain ⟨hne, hpieces⟩ := splitOn_lf_noBreak text hno
  have hinf : ∀ p ∈ splitOn ['\n'] text, ∀ a b, p ≠ a ++ s.mEnd ++ b := fun p hp => piece_no_infix hnc hp
  generalize splitOn ['\n'] text = L at hblk' hne hpieces hinf
  subst hblk'
  -- the lines of the block
  have hnbP : NoBreak (midPrefix s) := by
    unfold midPrefix
    split
    · intro ch hch; cases hch
    · exact noBreak_append hnbIBM hnbM
  have hBnb : ∀ m ∈ L.map (midLine s), NoBreak m := by
    intro m hm
    obtain ⟨l, hl, rfl⟩ := List.mem_map.mp hm
    unfold midLine
    split
    · simpa using hnbP
    · exact noBreak_append hnbP (noBreak_append hnbIAM (hpieces l hl))
  have hBend : ∀ m ∈ L.map (midLine s), contains m s.mEnd = false := by
    intro m hm
    obtain ⟨l, hl, rfl⟩ := List.mem_map.mp hm
    exact midLine_no_end hS (hinf l hl)
  generalize L.map (midLine s) = B at hBnb hBend ⊢
  have hMnb : ∀ m ∈ [s.mStart] ++ B ++ [s.indentBeforeEnd ++ s.mEnd], NoBreak m := by
    intro m hm
    simp only [List.mem_append, List.mem_singleton] at hm
    rcases hm with (rfl | hm) | rfl
    · exact hnbS
    · exact hBnb m hm
    · exact noBreak_append hnbIBE hnbE
  have hlines : splitLines (join ['\n'] ([s.mStart] ++ B ++ [s.indentBeforeEnd ++ s.mEnd]) ++ '\n' :: rest) =
      ([s.mStart] ++ B) ++ (s.indentBeforeEnd ++ s.mEnd) :: splitLinesAux false [] rest := by
    have := splitLines_join ([s.mStart] ++ B ++ [s.indentBeforeEnd ++ s.mEnd]) (by simp) hMnb rest
    rw [splitLines, this]; simp
  -- the opener is recognised
  have hopen : startsWith (join ['\n'] ([s.mStart] ++ B ++ [s.indentBeforeEnd ++ s.mEnd]) ++ '\n' :: rest) s.mStart = true := by
    have : [s.mStart] ++ B ++ [s.indentBeforeEnd ++ s.mEnd] = s.mStart :: (B ++ [s.indentBeforeEnd ++ s.mEnd]) := by simp
    rw [this, join_cons_ne _ _ (by simp)]
    exact List.isPrefixOf_iff_prefix.mpr
      ⟨'\n' :: (join ['\n'] (B ++ [s.indentBeforeEnd ++ s.mEnd]) ++ '\n' :: rest), by simp⟩
  -- the first line that holds the terminator is the block's last line, and nothing follows the terminator there
  have hEne : s.mEnd ≠ [] := by
    intro h0; rw [h0] at hLast; simp at hLast
  have h0 : contains (s.mStart.drop s.mStart.length) s.mEnd = false := by
    rw [List.drop_length]
    cases hE : s.mEnd with
    | nil => exact absurd hE hEne
    | cons c cs => simp [contains, findSub]
  have hl1 : contains (s.indentBeforeEnd ++ s.mEnd) s.mEnd = true := by
    have := contains_of_cut (pat := s.mEnd) s.indentBeforeEnd []
    simpa using this
  have hl2 : endsWith (rstrip (s.indentBeforeEnd ++ s.mEnd)) s.mEnd = true := by
    rw [rstrip_of_last' (by
      intro c hc
      have hc' : s.mEnd.getLast? = some c := by
        cases hE : s.mEnd.getLast? with
        | none => exact absurd (List.getLast?_eq_none_iff.mp hE) hEne
        | some d =>
          rw [List.getLast?_append, hE] at hc
          simpa using hc
      rw [hc'] at hLast
      simpa using hLast)]
    exact List.isSuffixOf_iff_suffix.mpr ⟨s.indentBeforeEnd, rfl⟩
  have hend := multiEnd_skip s s.mStart B (s.indentBeforeEnd ++ s.mEnd) (splitLinesAux false [] rest) h0 hBend hl1 hl2
  unfold commentAtFirst
  simp only [hes, Bool.false_eq_true, if_false, hcm, Bool.or_true, Bool.not_true, Bool.true_and, hopen, if_true,
    hlines, hend]
  have htake : List.take (0 + ([s.mStart] ++ B).length + 1)
      (([s.mStart] ++ B) ++ (s.indentBeforeEnd ++ s.mEnd) :: splitLinesAux false [] rest) =
      [s.mStart] ++ B ++ [s.indentBeforeEnd ++ s.mEnd] := by
    have : ([s.mStart] ++ B) ++ (s.indentBeforeEnd ++ s.mEnd) :: splitLinesAux false [] rest =
        ([s.mStart] ++ B ++ [s.indentBeforeEnd ++ s.mEnd]) ++ splitLinesAux false [] rest := by simp
    rw [this]
    exact List.take_left' (by simp)
  rw [htake]

end C10L
