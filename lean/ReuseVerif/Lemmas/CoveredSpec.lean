/-
The two declarative readings of C03 in `Spec/Covered.lean` agree: the recursive one
(`CoveredIn`, the form `C03_walk` is stated with) and the flat one (`Covered`: a regular
non-empty file no file rule excludes, every directory on the way a real directory no
directory rule excludes).
-/
import ReuseVerif.Spec.Covered

namespace Model
open Spec

/-- the flat reading, relative to a directory `path` named `dirName` with entries `cs` -/
def CoveredFrom (cfg : WalkCfg) (path : List String) (dirName : String) (cs : List (String × Node))
    (rel : List String) : Prop :=
  ∃ size, At cs rel (.file size) ∧
    fileIgnored cfg (path ++ rel.dropLast) (rel.getLast?.getD "") size = false ∧
    ∀ q, q <+: rel → q ≠ [] → q ≠ rel →
      dirIgnored cfg (path ++ q.dropLast) ((q.dropLast.getLast?).getD dirName) (q.getLast?.getD "") = false

theorem at_ne_nil {cs : List (String × Node)} {p : List String} {n : Node} (h : At cs p n) : p ≠ [] := by
  cases h <;> simp

theorem dropLast_cons' {α} (a : α) {l : List α} (h : l ≠ []) : (a :: l).dropLast = a :: l.dropLast := by
  cases l with
  | nil => exact absurd rfl h
  | cons b t => rfl

theorem getLast?_cons' {α} (a : α) {l : List α} (h : l ≠ []) : (a :: l).getLast? = l.getLast? := by
  cases l with
  | nil => exact absurd rfl h
  | cons b t => simp [List.getLast?_cons_cons]

theorem getLast?_getD_cons {α} (a d : α) (l : List α) : ((a :: l).getLast?).getD d = (l.getLast?).getD a := by
  cases l with
  | nil => rfl
  | cons b t =>
    rw [List.getLast?_cons_cons]
    cases h : (b :: t).getLast? with
    | none => simp at h
    | some x => rfl

theorem coveredIn_imp_from (cfg : WalkCfg) {path : List String} {dirName : String} {cs : List (String × Node)}
    {rel : List String} (h : CoveredIn cfg path dirName cs rel) : CoveredFrom cfg path dirName cs rel := by
  induction h with
  | @file path dirName cs name size hm hf =>
    refine ⟨size, .last hm, by simpa using hf, ?_⟩
    intro q hq hne hne'
    rcases q with _ | ⟨a, t⟩
    · exact absurd rfl hne
    · have := List.IsPrefix.length_le hq
      cases t with
      | nil =>
        obtain ⟨s, hs⟩ := hq
        simp at hs
        exact absurd (by rw [hs.1]) hne'
      | cons b t => simp at this
  | @dir path dirName cs name sub rel hm hd _ ih =>
    obtain ⟨size, hat, hfile, hdirs⟩ := ih
    have hrel := at_ne_nil hat
    refine ⟨size, .step hm hat, ?_, ?_⟩
    · rw [dropLast_cons' name hrel, getLast?_cons' name hrel]
      simpa using hfile
    · intro q hq hne hne'
      rcases q with _ | ⟨a, q'⟩
      · exact absurd rfl hne
      · have ha : a = name := by
          obtain ⟨s, hs⟩ := hq
          simp at hs
          exact hs.1
        subst ha
        have hq' : q' <+: rel := by
          obtain ⟨s, hs⟩ := hq
          simp at hs
          exact ⟨s, hs⟩
        by_cases hnil : q' = []
        · subst hnil
          simpa using hd
        · have hne2 : q' ≠ rel := fun h => hne' (by rw [h])
          have := hdirs q' hq' hnil hne2
          rw [dropLast_cons' a hnil, getLast?_cons' a hnil, getLast?_getD_cons]
          simpa using this

theorem from_imp_coveredIn (cfg : WalkCfg) : ∀ (rel : List String) {path : List String} {dirName : String}
    {cs : List (String × Node)}, CoveredFrom cfg path dirName cs rel → CoveredIn cfg path dirName cs rel := by
  intro rel
  induction rel with
  | nil =>
    rintro path dirName cs ⟨size, hat, _⟩
    exact absurd rfl (at_ne_nil hat)
  | cons name rel ih =>
    rintro path dirName cs ⟨size, hat, hfile, hdirs⟩
    generalize hp : name :: rel = p at hat
    cases hat with
    | last hm =>
      simp only [List.cons.injEq] at hp
      obtain ⟨rfl, rfl⟩ := hp
      exact .file hm (by simpa using hfile)
    | @step _ nm sub p' _ hm hat' =>
      simp only [List.cons.injEq] at hp
      obtain ⟨rfl, rfl⟩ := hp
      have hrel := at_ne_nil hat'
      have hd : dirIgnored cfg path dirName name = false := by
        have := hdirs [name] ⟨rel, rfl⟩ (by simp) (by simpa using hrel)
        simpa using this
      refine .dir hm hd (ih ⟨size, hat', ?_, ?_⟩)
      · rw [dropLast_cons' name hrel, getLast?_cons' name hrel] at hfile
        simpa using hfile
      · intro q' hq' hnil hne2
        have := hdirs (name :: q') (by obtain ⟨s, hs⟩ := hq'; exact ⟨s, by simp [hs]⟩) (by simp)
          (by simpa using hne2)
        rw [dropLast_cons' name hnil, getLast?_cons' name hnil, getLast?_getD_cons] at this
        simpa using this

/-- the recursive and the flat reading of "covered file" are the same -/
theorem coveredIn_iff_covered (cfg : WalkCfg) (rootName : String) (cs : List (String × Node)) (p : List String) :
    CoveredIn cfg [] rootName cs p ↔ Covered cfg rootName cs p := by
  constructor
  · intro h
    obtain ⟨size, hat, hfile, hdirs⟩ := coveredIn_imp_from cfg h
    exact ⟨size, hat, at_ne_nil hat, by simpa using hfile, fun q hq h1 h2 => by simpa [parentNameOf] using hdirs q hq h1 h2⟩
  · rintro ⟨size, hat, _, hfile, hdirs⟩
    exact from_imp_coveredIn cfg p ⟨size, hat, by simpa using hfile, fun q hq h1 h2 => by
      simpa [parentNameOf] using hdirs q hq h1 h2⟩

end Model
