/-
C09 (full-file step): the tag reader (`findall` of `^(.*?)TAG[ \t]+(.*?)END$`) is local.  On a text `u` whose last
character that is not white space is none of `"`, `'`, `]`, followed by a line feed and any text `Z`, the matches are
those of `u` followed by those of `Z`.
-/
import ReuseVerif.Lemmas.C09EndLocal
import ReuseVerif.Lemmas.C09Pieces
import ReuseVerif.Lemmas.Tags

namespace C09L
open Py Model Spec C08L

theorem btO_map {α β : Type} (f : α → β) (r : Re) (s : Text) (k : Text → Option α) :
    Re.btO r s (fun x => (k x).map f) = (Re.btO r s k).map f := by
  fun_induction Re.btO r s k with
  | case1 s k => simp [Re.btO]
  | case2 c k => simp [Re.btO]
  | case3 c k d ds =>
    rw [Re.btO]
    cases (c == d) <;> simp [Re.guardOpt]
  | case4 neg rs k => simp [Re.btO]
  | case5 neg rs k d ds =>
    rw [Re.btO]
    cases Re.clsMatch neg rs d <;> simp [Re.guardOpt]
  | case6 a b s k ih2 ih1 =>
    rw [Re.btO]
    have : (fun s' => Re.btO b s' (fun x => (k x).map f)) = fun s' => (Re.btO b s' k).map f := funext ih2
    rw [this, ih1]
  | case7 a b s k iha ihb =>
    rw [Re.btO, iha, ihb]
    cases Re.btO a s k <;> simp
  | case8 a s k ih2 ih1 =>
    rw [Re.btO]
    have : (fun s' => if s'.length < s.length then Re.btO (.star a) s' (fun x => (k x).map f) else none) =
        fun s' => (if s'.length < s.length then Re.btO (.star a) s' k else none).map f := by
      funext s'
      by_cases hlt : s'.length < s.length
      · simp only [hlt, if_true]; exact ih2 s' hlt
      · simp [hlt]
    simp only [dite_eq_ite] at ih1
    rw [this, ih1]
    cases Re.btO a s _ <;> simp

theorem endQuotes_not_space : ∀ q ∈ endQuotes, isSpace q = false := by decide

theorem inv_of_openEnd {u : Text} (h : openEnd u = false) : Inv endQuotes false u := by
  refine ⟨fun c hc hq => ?_, fun hb => by cases hb⟩
  unfold openEnd at h
  rw [hc] at h
  simp only [List.contains_eq_mem, decide_eq_false_iff_not] at h
  exact h hq

theorem atLineEnd_append {u z : Text} (hz : atLineEnd z = true) : atLineEnd (u ++ z) = atLineEnd u := by
  cases u with
  | nil => simpa [atLineEnd] using hz
  | cons c cs => rfl

/-- **END is local.** -/
theorem matchEnd_local {endRe : Re} (hG : EndGuarded endRe) (u z : Text) (hu : openEnd u = false)
    (hz : atLineEnd z = true) : matchEndWith endRe (u ++ z) = (matchEndWith endRe u).map (· ++ z) := by
  unfold matchEndWith
  rw [← btO_map]
  have := btO_sim endQuotes endQuotes_not_space endRe u z []
    (fun r => if atLineEnd r then some r else none)
    (fun x => (if atLineEnd x then some x else none).map (· ++ z)) false false hG (inv_of_openEnd hu) hz rfl
    (by
      intro u' _ _
      simp only [List.append_nil, atLineEnd_append hz]
      cases atLineEnd u' <;> simp)
  simpa using this

theorem openEnd_suffix {p u : Text} (hs : p <:+ u) (hu : openEnd u = false) : openEnd p = false := by
  obtain ⟨a, rfl⟩ := hs
  by_cases hb : Blank p
  · unfold openEnd; rw [(lastNonSpace_none_iff p).mpr hb]
  · unfold openEnd at hu ⊢
    rw [lastNonSpace_append a p hb] at hu
    exact hu

/-! ### the value -/

theorem valueAndRest_local {endRe : Re} (hG : EndGuarded endRe) (u z : Text) (hu : openEnd u = false)
    (hz : atLineEnd z = true) :
    valueAndRestWith endRe (u ++ z) = (valueAndRestWith endRe u).map (fun p => (p.1, p.2 ++ z)) := by
  induction u with
  | nil =>
    have hm := matchEnd_local hG [] z (by decide) hz
    simp only [List.nil_append] at hm ⊢
    rcases atLineEnd_cases hz with rfl | ⟨Z, rfl⟩
    · simp [valueAndRestWith]
      cases matchEndWith endRe [] <;> simp
    · simp only [valueAndRestWith, hm]
      cases matchEndWith endRe [] <;> simp
  | cons c cs ih =>
    have hm := matchEnd_local hG (c :: cs) z hu hz
    have hcs : openEnd cs = false := openEnd_suffix (List.suffix_cons c cs) hu
    simp only [List.cons_append] at hm ⊢
    simp only [valueAndRestWith, hm]
    cases matchEndWith endRe (c :: cs) with
    | some r => simp
    | none =>
      simp only [Option.map_none]
      by_cases hc : (c == '\n') = true
      · simp [hc]
      · simp only [hc, Bool.false_eq_true, if_false, ih hcs]
        cases valueAndRestWith endRe cs <;> simp

theorem valueAndRest_rest {endRe : Re} {s v r : Text} (h : valueAndRestWith endRe s = some (v, r)) :
    r <:+ s ∧ atLineEnd r = true := by
  induction s generalizing v with
  | nil =>
    simp only [valueAndRestWith, Option.map_eq_some_iff, Prod.mk.injEq] at h
    obtain ⟨r', hr, _, rfl⟩ := h
    obtain ⟨a, ha, _, hle⟩ := matchEnd_sound hr
    exact ⟨⟨a, ha.symm⟩, hle⟩
  | cons c cs ih =>
    simp only [valueAndRestWith] at h
    cases hm : matchEndWith endRe (c :: cs) with
    | some r' =>
      simp only [hm, Option.some.injEq, Prod.mk.injEq] at h
      obtain ⟨_, rfl⟩ := h
      obtain ⟨a, ha, _, hle⟩ := matchEnd_sound hm
      exact ⟨⟨a, ha.symm⟩, hle⟩
    | none =>
      simp only [hm] at h
      split at h
      · cases h
      · simp only [Option.map_eq_some_iff, Prod.mk.injEq] at h
        obtain ⟨⟨v', r'⟩, hv, _, rfl⟩ := h
        obtain ⟨h1, h2⟩ := ih hv
        exact ⟨List.IsSuffix.trans h1 (List.suffix_cons c cs), h2⟩

/-! ### the tag -/

theorem tagCond_local (tag u z : Text) (hnl : '\n' ∉ tag) (hz : atLineEnd z = true) :
    (tag.isPrefixOf (u ++ z) && ((((u ++ z).drop tag.length).head?.map isBlank).getD false)) =
    (tag.isPrefixOf u && (((u.drop tag.length).head?.map isBlank).getD false)) := by
  induction tag generalizing u with
  | nil =>
    cases u with
    | nil =>
      rcases atLineEnd_cases hz with rfl | ⟨Z, rfl⟩
      · rfl
      · simp [isBlank]
    | cons c cs => simp
  | cons t ts ih =>
    have ht : t ≠ '\n' := fun e => hnl (by simp [e])
    have hts : '\n' ∉ ts := fun hm => hnl (by simp [hm])
    cases u with
    | nil =>
      rcases atLineEnd_cases hz with rfl | ⟨Z, rfl⟩
      · rfl
      · have : (t == '\n') = false := by simpa using ht
        simp [List.isPrefixOf, this]
    | cons c cs =>
      simp only [List.cons_append, List.isPrefixOf, List.length_cons, List.drop_succ_cons]
      rw [Bool.and_assoc, Bool.and_assoc, ih cs hts]

theorem findTagInLine_local (tag u z : Text) (hnl : '\n' ∉ tag) (hz : atLineEnd z = true) :
    findTagInLine tag (u ++ z) = (findTagInLine tag u).map (fun p => (p.1, p.2 ++ z)) := by
  induction u with
  | nil =>
    rcases atLineEnd_cases hz with rfl | ⟨Z, rfl⟩
    · rfl
    · have := tagCond_local tag [] ('\n' :: Z) hnl hz
      simp only [List.nil_append] at this
      have h2 : (tag.isPrefixOf ([] : Text) && (((([] : Text).drop tag.length).head?.map isBlank).getD false)) = false := by
        simp
      rw [h2] at this
      simp only [List.nil_append, findTagInLine, this]
      simp
  | cons c cs ih =>
    have hcnd := tagCond_local tag (c :: cs) z hnl hz
    simp only [List.cons_append] at hcnd ⊢
    simp only [findTagInLine, hcnd]
    by_cases hhit : (tag.isPrefixOf (c :: cs) && ((((c :: cs).drop tag.length).head?.map isBlank).getD false)) = true
    · simp only [hhit, if_true, Option.map_some, Option.some.injEq, Prod.mk.injEq, true_and]
      simp only [Bool.and_eq_true] at hhit
      have hlen : tag.length ≤ (c :: cs).length := (List.isPrefixOf_iff_prefix.mp hhit.1).length_le
      have := List.drop_append_of_le_length (l₂ := z) hlen
      simpa using this
    · simp only [hhit, Bool.false_eq_true, if_false]
      by_cases hc : (c == '\n') = true
      · simp [hc]
      · simp only [hc, Bool.false_eq_true, if_false, ih]
        cases findTagInLine tag cs <;> simp

theorem findTagInLine_rest {tag s p r : Text} (h : findTagInLine tag s = some (p, r)) : r <:+ s := by
  induction s generalizing p with
  | nil => simp [findTagInLine] at h
  | cons c cs ih =>
    simp only [findTagInLine] at h
    split at h
    · simp only [Option.some.injEq, Prod.mk.injEq] at h
      rw [← h.2]; exact List.drop_suffix _ _
    · split at h
      · cases h
      · simp only [Option.map_eq_some_iff, Prod.mk.injEq] at h
        obtain ⟨⟨p', r'⟩, hv, _, rfl⟩ := h
        exact List.IsSuffix.trans (ih hv) (List.suffix_cons c cs)

/-! ### the next line -/

theorem nextLine_suffix (s : Text) : nextLine s <:+ s := by
  unfold nextLine
  exact List.IsSuffix.trans (List.drop_suffix _ _) (List.dropWhile_suffix _)

theorem nextLine_length {s : Text} (hs : s ≠ []) : (nextLine s).length < s.length := by
  unfold nextLine
  have h1 := (List.dropWhile_suffix (l := s) (· != '\n')).length_le
  cases hd : s.dropWhile (· != '\n') with
  | nil =>
    simp only [List.drop_nil, List.length_nil]
    exact List.length_pos_iff.mpr hs
  | cons x xs =>
    rw [hd] at h1
    simp only [List.drop_succ_cons, List.drop_zero, List.length_cons] at h1 ⊢
    omega

theorem nextLine_local (u z : Text) (hz : atLineEnd z = true) :
    nextLine (u ++ z) = if '\n' ∈ u then nextLine u ++ z else z.drop 1 := by
  unfold nextLine
  induction u with
  | nil =>
    rcases atLineEnd_cases hz with rfl | ⟨Z, rfl⟩
    · rfl
    · simp
  | cons c cs ih =>
    by_cases hc : c = '\n'
    · subst hc; simp
    · have h1 : (c != '\n') = true := by simpa using hc
      have h2 : ('\n' ∈ c :: cs) ↔ '\n' ∈ cs := by
        simp only [List.mem_cons]
        constructor
        · rintro (h | h)
          · exact absurd h.symm hc
          · exact h
        · exact Or.inr
      simp only [List.cons_append, List.dropWhile_cons, h1, if_true, ih, h2]

theorem nextLine_no_newline {u : Text} (h : '\n' ∉ u) : nextLine u = [] := by
  unfold nextLine
  have : u.dropWhile (· != '\n') = [] := by
    rw [dropWhile_eq_nil]
    rw [List.all_eq_true]
    intro c hc
    have : c ≠ '\n' := fun e => h (e ▸ hc)
    simpa using this
  rw [this]; rfl

/-! ### fuel -/

theorem drop_one_length {r s : Text} (hr : r <:+ s) (hs : s ≠ []) : (r.drop 1).length < s.length := by
  have := hr.length_le
  cases r with
  | nil => simpa using List.length_pos_iff.mpr hs
  | cons x xs => simp only [List.drop_succ_cons, List.drop_zero, List.length_cons] at this ⊢; omega

/-- enough fuel is enough -/
theorem findAll_fuel (endRe : Re) (tag : Text) : ∀ (f1 f2 : Nat) (s : Text), s.length < f1 → s.length < f2 →
    findAllWith endRe tag f1 s = findAllWith endRe tag f2 s := by
  intro f1
  induction f1 with
  | zero => intro f2 s h1; omega
  | succ f1 ih =>
    intro f2 s h1 h2
    cases f2 with
    | zero => omega
    | succ f2 =>
      by_cases hs : s = []
      · subst hs; rw [findAllWith_nil, findAllWith_nil]
      · rw [findAllWith_step _ _ _ _ hs, findAllWith_step _ _ _ _ hs]
        have hnl := nextLine_length hs
        cases hf : findTagInLine tag s with
        | none => exact ih f2 _ (by omega) (by omega)
        | some pa =>
          obtain ⟨pre, afterTag⟩ := pa
          simp only
          cases hv : valueAndRestWith endRe (afterTag.dropWhile isBlank) with
          | none => exact ih f2 _ (by omega) (by omega)
          | some vr =>
            obtain ⟨v, r⟩ := vr
            simp only
            have hr : r <:+ s :=
              List.IsSuffix.trans (valueAndRest_rest hv).1
                (List.IsSuffix.trans (List.dropWhile_suffix _) (findTagInLine_rest hf))
            have := drop_one_length hr hs
            rw [ih f2 _ (by omega) (by omega)]

/-! ### `findall` is local -/

theorem dropWhile_blank_append (a z : Text) (hz : atLineEnd z = true) :
    (a ++ z).dropWhile isBlank = a.dropWhile isBlank ++ z := by
  induction a with
  | nil =>
    rcases atLineEnd_cases hz with rfl | ⟨Z, rfl⟩
    · rfl
    · simp [isBlank]
  | cons c cs ih =>
    simp only [List.cons_append, List.dropWhile_cons]
    split
    · exact ih
    · rfl

theorem findAll_local {endRe : Re} (hG : EndGuarded endRe) (tag : Text) (hnl : '\n' ∉ tag) :
    ∀ (f : Nat) (u Z : Text), openEnd u = false → (u ++ '\n' :: Z).length < f →
      findAllWith endRe tag f (u ++ '\n' :: Z) = findAllWith endRe tag f u ++ findAllWith endRe tag f Z := by
  intro f
  induction f with
  | zero => intro u Z _ h; omega
  | succ f ih =>
    intro u Z hu hlen
    have hzl : atLineEnd ('\n' :: Z) = true := rfl
    have hZf : Z.length < f := by simp only [List.length_append, List.length_cons] at hlen; omega
    have hZ : findAllWith endRe tag (f + 1) Z = findAllWith endRe tag f Z := findAll_fuel endRe tag _ _ Z (by omega) hZf
    rw [hZ, findAllWith_step _ _ _ _ (by simp)]
    -- the line is skipped: on to the next one
    have hskip : findAllWith endRe tag f (nextLine (u ++ '\n' :: Z)) =
        findAllWith endRe tag f (nextLine u) ++ findAllWith endRe tag f Z := by
      rw [nextLine_local u _ hzl]
      by_cases hmem : '\n' ∈ u
      · simp only [hmem, if_true]
        have hsuf := nextLine_suffix u
        have hne : u ≠ [] := by rintro rfl; simp at hmem
        have hl := nextLine_length hne
        exact ih (nextLine u) Z (openEnd_suffix hsuf hu) (by
          simp only [List.length_append, List.length_cons] at hlen ⊢; omega)
      · simp only [hmem, if_false, List.drop_succ_cons, List.drop_zero, nextLine_no_newline hmem, findAllWith_nil,
          List.nil_append]
    rw [findTagInLine_local tag u _ hnl hzl]
    by_cases hune : u = []
    · subst hune
      simp only [findTagInLine, Option.map_none, findAllWith_nil, List.nil_append]
      simp [nextLine]
    · rw [findAllWith_step _ _ _ _ hune]
      cases hf : findTagInLine tag u with
      | none => simpa using hskip
      | some pa =>
        obtain ⟨pre, a0⟩ := pa
        simp only [Option.map_some]
        have ha0 : a0 <:+ u := findTagInLine_rest hf
        have ha1 : a0.dropWhile isBlank <:+ u := List.IsSuffix.trans (List.dropWhile_suffix _) ha0
        rw [dropWhile_blank_append a0 _ hzl, valueAndRest_local hG _ _ (openEnd_suffix ha1 hu) hzl]
        cases hv : valueAndRestWith endRe (a0.dropWhile isBlank) with
        | none => simpa using hskip
        | some vr =>
          obtain ⟨v, r⟩ := vr
          simp only [Option.map_some, List.cons_append, List.cons.injEq, true_and]
          obtain ⟨hr1, hr2⟩ := valueAndRest_rest hv
          have hru : r <:+ u := List.IsSuffix.trans hr1 ha1
          rcases atLineEnd_cases hr2 with rfl | ⟨r2, rfl⟩
          · simp [findAllWith_nil]
          · simp only [List.cons_append, List.drop_succ_cons, List.drop_zero]
            have hr2u : r2 <:+ u := List.IsSuffix.trans (List.suffix_cons _ _) hru
            have hl := hru.length_le
            exact ih r2 Z (openEnd_suffix hr2u hu) (by
              simp only [List.length_append, List.length_cons] at hlen hl ⊢; omega)

/-! ### white space holds no tag -/

theorem blank_suffix {p u : Text} (hs : p <:+ u) (hu : Blank u) : Blank p := by
  obtain ⟨a, rfl⟩ := hs
  exact (blank_append.mp hu).2

theorem findTagInLine_blank (tag w : Text) (hhead : ∃ c, tag.head? = some c ∧ isSpace c = false) (hw : Blank w) :
    findTagInLine tag w = none := by
  obtain ⟨t, ht, hts⟩ := hhead
  induction w with
  | nil => rfl
  | cons c cs ih =>
    have hc : isSpace c = true := by
      have := hw; simp only [Blank, List.all_cons, Bool.and_eq_true] at this; exact this.1
    have hcs : Blank cs := by
      have := hw; simp only [Blank, List.all_cons, Bool.and_eq_true] at this; exact this.2
    have hpre : tag.isPrefixOf (c :: cs) = false := by
      cases tag with
      | nil => cases ht
      | cons t' ts =>
        simp only [List.head?_cons, Option.some.injEq] at ht
        subst ht
        have : (t' == c) = false := by
          have : t' ≠ c := by rintro rfl; rw [hc] at hts; cases hts
          simpa using this
        simp [List.isPrefixOf, this]
    simp only [findTagInLine, hpre, Bool.false_and, Bool.false_eq_true, if_false, ih hcs]
    split <;> rfl

theorem findAll_blank (endRe : Re) (tag : Text) (hhead : ∃ c, tag.head? = some c ∧ isSpace c = false) :
    ∀ (f : Nat) (w : Text), Blank w → findAllWith endRe tag f w = [] := by
  intro f
  induction f with
  | zero => intro w _; rfl
  | succ f ih =>
    intro w hw
    by_cases hne : w = []
    · subst hne; rfl
    · rw [findAllWith_step _ _ _ _ hne, findTagInLine_blank tag w hhead hw]
      exact ih _ (blank_suffix (nextLine_suffix w) hw)

/-! ### the tag reader is piecewise -/

theorem findSpdxTag_split {endRe : Re} (hG : EndGuarded endRe) (tag : Text) (hnl : '\n' ∉ tag) (u Z : Text)
    (hu : openEnd u = false) :
    findSpdxTagWith endRe tag (u ++ '\n' :: Z) = findSpdxTagWith endRe tag u ++ findSpdxTagWith endRe tag Z := by
  unfold findSpdxTagWith
  rw [findAll_local hG tag hnl _ u Z hu (Nat.lt_succ_self _), List.map_append]
  have hl : (u ++ '\n' :: Z).length = u.length + Z.length + 1 := by simp only [List.length_append, List.length_cons]; omega
  rw [findAll_fuel endRe tag _ (u.length + 1) u (by omega) (by omega),
    findAll_fuel endRe tag _ (Z.length + 1) Z (by omega) (by omega)]

theorem openEnd_of_blank {w : Text} (hw : Blank w) : openEnd w = false := by
  unfold openEnd; rw [(lastNonSpace_none_iff w).mpr hw]

theorem tags_piecewise {endRe : Re} (hG : EndGuarded endRe) (tag : Text) (hnl : '\n' ∉ tag)
    (hhead : ∃ c, tag.head? = some c ∧ isSpace c = false) :
    Piecewise (findSpdxTagWith endRe tag) (fun u => openEnd u = false) where
  split := fun u Z hu x => by rw [findSpdxTag_split hG tag hnl u Z hu, List.mem_append]
  blank := fun w hw => by unfold findSpdxTagWith; rw [findAll_blank endRe tag hhead _ w hw]; rfl
  okBlank := fun w hw => openEnd_of_blank hw
  okStrip := fun u w hw => by unfold openEnd; rw [lastNonSpace_append_blank u w hw]
  okSuffix := fun u v hv hnb => by unfold openEnd at hv ⊢; rw [lastNonSpace_append u v hnb]; exact hv

end C09L
