import ReuseVerif.Lemmas.Aggregate
import ReuseVerif.Lemmas.Re
import ReuseVerif.Lemmas.ReInv
import ReuseVerif.Lemmas.Glob

/-!
Lemmas for C14, part 2: permutation invariance of the aggregated report, of the
walk, of `findRelevantTomls`, of the END language; the lexical path algebra.
-/

namespace Model.Agg
open List Py Model

/-! ### reports whose fields are permutations of each other -/

structure ReportPerm (a b : Report) : Prop where
  readErrors : a.readErrors ~ b.readErrors
  fileReports : a.fileReports ~ b.fileReports
  missing : a.missing ~ b.missing
  bad : a.bad ~ b.bad
  deprecated : a.deprecated ~ b.deprecated

theorem isEmpty_perm {α} {l₁ l₂ : List α} (h : l₁ ~ l₂) : l₁.isEmpty = l₂.isEmpty := by
  have := h.length_eq
  cases l₁ <;> cases l₂ <;> simp_all

theorem usedLicenses_perm {a b : Report} (h : a.fileReports ~ b.fileReports) :
    usedLicenses a ~ usedLicenses b := by
  apply toSet_perm
  intro l
  simp only [List.mem_flatMap]
  constructor
  · rintro ⟨f, hf, hl⟩; exact ⟨f, h.mem_iff.mp hf, hl⟩
  · rintro ⟨f, hf, hl⟩; exact ⟨f, h.mem_iff.mpr hf, hl⟩

theorem contains_perm {l₁ l₂ : List String} (h : l₁ ~ l₂) (x : String) : l₁.contains x = l₂.contains x := by
  rw [Bool.eq_iff_iff]; simp [h.mem_iff]

theorem unusedLicenses_perm {ctx ctx' : LicCtx} {a b : Report} (hl : ctx.licenses ~ ctx'.licenses)
    (h : a.fileReports ~ b.fileReports) : unusedLicenses ctx a ~ unusedLicenses ctx' b := by
  apply toSet_perm
  intro l
  have hu := usedLicenses_perm h
  simp only [List.mem_filter, contains_perm hu]
  rw [(hl.map (·.1)).mem_iff]

theorem filesWithoutLicenses_perm {a b : Report} (h : a.fileReports ~ b.fileReports) :
    filesWithoutLicenses a ~ filesWithoutLicenses b := by
  apply toSet_perm
  intro p
  rw [((h.filter _).map _).mem_iff]

theorem filesWithoutCopyright_perm {a b : Report} (h : a.fileReports ~ b.fileReports) :
    filesWithoutCopyright a ~ filesWithoutCopyright b := by
  apply toSet_perm
  intro p
  rw [((h.filter _).map _).mem_iff]

theorem normalise_congr {ctx ctx' : LicCtx} {a b : Report} (hl : ctx.licenses ~ ctx'.licenses)
    (h : ReportPerm a b) : normalise ctx a = normalise ctx' b := by
  unfold normalise
  congr 1
  · exact sortS_perm h.readErrors
  · exact sortS_perm (h.fileReports.map _)
  · exact sortP_perm h.missing
  · exact sortP_perm h.bad
  · exact sortS_perm h.deprecated
  · exact sortS_perm (usedLicenses_perm h.fileReports)
  · exact sortS_perm (unusedLicenses_perm hl h.fileReports)
  · exact sortS_perm (filesWithoutLicenses_perm h.fileReports)
  · exact sortS_perm (filesWithoutCopyright_perm h.fileReports)
  · exact h.fileReports.length_eq
  · rw [isEmpty_perm h.missing, isEmpty_perm (unusedLicenses_perm hl h.fileReports), isEmpty_perm h.bad,
      isEmpty_perm h.deprecated, isEmpty_perm (filesWithoutCopyright_perm h.fileReports),
      isEmpty_perm (filesWithoutLicenses_perm h.fileReports), isEmpty_perm h.readErrors]

theorem empty_nodup : Report.Nodup {} := ⟨.nil, .nil, .nil, .nil, .nil⟩

theorem aggregate_perm {ctx ctx' : LicCtx} {rs rs' : List FileResult}
    (hk : ctx.isKnown = ctx'.isKnown) (hd : ctx.isDeprecated = ctx'.isDeprecated)
    (hl : ctx.licenses ~ ctx'.licenses) (h : rs ~ rs') :
    ReportPerm (aggregate ctx rs) (aggregate ctx' rs') := by
  have n1 := foldl_licStep_nodup ctx ctx.licenses (foldl_aggStep_nodup rs empty_nodup)
  have n2 := foldl_licStep_nodup ctx' ctx'.licenses (foldl_aggStep_nodup rs' empty_nodup)
  obtain ⟨e1, f1, m1⟩ := foldl_licStep_other ctx ctx.licenses (rs.foldl aggStep {})
  obtain ⟨e2, f2, m2⟩ := foldl_licStep_other ctx' ctx'.licenses (rs'.foldl aggStep {})
  have ex : ∀ (P : FileResult → Prop), (∃ x ∈ rs, P x) ↔ (∃ x ∈ rs', P x) := fun P =>
    ⟨fun ⟨x, hx, hp⟩ => ⟨x, h.mem_iff.mp hx, hp⟩, fun ⟨x, hx, hp⟩ => ⟨x, h.mem_iff.mpr hx, hp⟩⟩
  unfold aggregate at *
  refine ⟨?_, ?_, ?_, ?_, ?_⟩
  · refine (List.perm_ext_iff_of_nodup n1.readErrors n2.readErrors).mpr fun p => ?_
    rw [e1, e2, mem_foldl_readErrors, mem_foldl_readErrors, ex]
  · refine (List.perm_ext_iff_of_nodup n1.fileReports n2.fileReports).mpr fun p => ?_
    rw [f1, f2, mem_foldl_fileReports, mem_foldl_fileReports, h.mem_iff]
  · refine (List.perm_ext_iff_of_nodup n1.missing n2.missing).mpr fun p => ?_
    rw [m1, m2, mem_foldl_missing, mem_foldl_missing, ex]
  · refine (List.perm_ext_iff_of_nodup n1.bad n2.bad).mpr fun p => ?_
    rw [mem_foldl_licStep_bad, mem_foldl_licStep_bad, mem_foldl_bad, mem_foldl_bad, ex, hl.mem_iff, hk]
  · refine (List.perm_ext_iff_of_nodup n1.deprecated n2.deprecated).mpr fun p => ?_
    rw [mem_foldl_licStep_deprecated, mem_foldl_licStep_deprecated, foldl_aggStep_deprecated,
      foldl_aggStep_deprecated, hk, hd]
    constructor
    · rintro (h0 | ⟨np, hn, hp⟩)
      · exact .inl h0
      · exact .inr ⟨np, hl.mem_iff.mp hn, hp⟩
    · rintro (h0 | ⟨np, hn, hp⟩)
      · exact .inl h0
      · exact .inr ⟨np, hl.mem_iff.mpr hn, hp⟩

/-! ### the walk over re-ordered listings -/

theorem walkList_perm (cfg : WalkCfg) (path : List String) (dirName : String)
    {l l' : List (String × Node)} (h : l ~ l') :
    walkList cfg path dirName l ~ walkList cfg path dirName l' := by
  induction h with
  | nil => exact .refl _
  | cons x _ ih => obtain ⟨n, c⟩ := x; simp only [walkList]; exact ih.append_left _
  | swap x y l =>
    obtain ⟨n, c⟩ := x; obtain ⟨m, d⟩ := y
    simp only [walkList, ← List.append_assoc]
    exact List.perm_append_comm.append_right _
  | trans _ _ ih1 ih2 => exact ih1.trans ih2

mutual
theorem walkNode_reorder (σ : List (String × Node) → List (String × Node)) (hσ : ∀ l, σ l ~ l)
    (cfg : WalkCfg) : ∀ (n : Node) (path : List String) (parentName name : String),
      walkNode cfg path parentName name (reorderNode σ n) ~ walkNode cfg path parentName name n
  | .file size, path, parentName, name => by simp only [reorderNode]; exact .refl _
  | .symlink, path, parentName, name => by simp only [reorderNode]; exact .refl _
  | .dir cs, path, parentName, name => by
      simp only [reorderNode, walkNode]
      split
      · exact .refl _
      · exact (walkList_perm cfg _ _ (hσ _)).trans (walkList_reorder σ hσ cfg cs _ _)
theorem walkList_reorder (σ : List (String × Node) → List (String × Node)) (hσ : ∀ l, σ l ~ l)
    (cfg : WalkCfg) : ∀ (cs : List (String × Node)) (path : List String) (dirName : String),
      walkList cfg path dirName (reorderList σ cs) ~ walkList cfg path dirName cs
  | [], path, dirName => by simp only [reorderList]; exact .refl _
  | (n, c) :: rest, path, dirName => by
      simp only [reorderList, walkList]
      exact (walkNode_reorder σ hσ cfg c path dirName n).append (walkList_reorder σ hσ cfg rest path dirName)
end

/-! ### `_find_relevant_tomls` -/

theorem partsLe_total : ∀ (a b : List String), (partsLe a b || partsLe b a) = true
  | [], _ => by simp [partsLe]
  | _ :: _, [] => by simp [partsLe]
  | a :: as, b :: bs => by
    simp only [partsLe, Bool.or_eq_true, Bool.and_eq_true, decide_eq_true_eq, beq_iff_eq]
    rcases str_lt_or_eq_or_gt a b with h | h | h
    · exact .inl (.inl h)
    · have := partsLe_total as bs
      simp only [Bool.or_eq_true] at this
      rcases this with t | t
      · exact .inl (.inr ⟨h, t⟩)
      · exact .inr (.inr ⟨h.symm, t⟩)
    · exact .inr (.inl h)

theorem partsLe_antisymm : ∀ (a b : List String), partsLe a b = true → partsLe b a = true → a = b
  | [], [] => fun _ _ => rfl
  | [], _ :: _ => by simp [partsLe]
  | _ :: _, [] => by simp [partsLe]
  | a :: as, b :: bs => by
    simp only [partsLe, Bool.or_eq_true, Bool.and_eq_true, decide_eq_true_eq, beq_iff_eq]
    rintro (h | ⟨h, t⟩) (h' | ⟨h', t'⟩)
    · exact absurd h' (str_lt_asymm h)
    · rw [h'] at h; exact absurd h (String.lt_irrefl _)
    · rw [h] at h'; exact absurd h' (String.lt_irrefl _)
    · rw [h, partsLe_antisymm as bs t t']

theorem partsLe_trans : ∀ (a b c : List String), partsLe a b = true → partsLe b c = true → partsLe a c = true
  | [], _, _ => by simp [partsLe]
  | _ :: _, [], _ => by simp [partsLe]
  | _ :: _, _ :: _, [] => by simp [partsLe]
  | a :: as, b :: bs, c :: cs => by
    simp only [partsLe, Bool.or_eq_true, Bool.and_eq_true, decide_eq_true_eq, beq_iff_eq]
    rintro (h | ⟨h, t⟩) (h' | ⟨h', t'⟩)
    · exact .inl (String.lt_trans h h')
    · exact .inl (h' ▸ h)
    · exact .inl (h ▸ h')
    · exact .inr ⟨h.trans h', partsLe_trans as bs cs t t'⟩

/-- in a list with pairwise distinct directories, a toml is determined by its directory -/
theorem eq_of_dir_eq : ∀ {ts : List Toml}, (ts.map (·.dir)).Nodup → ∀ {a b : Toml}, a ∈ ts → b ∈ ts →
    a.dir = b.dir → a = b
  | [], _, _, _, ha, _, _ => by cases ha
  | t :: ts, hn, a, b, ha, hb, e => by
    simp only [List.map_cons, List.nodup_cons, List.mem_map, not_exists, not_and] at hn
    rcases List.mem_cons.mp ha with rfl | ha' <;> rcases List.mem_cons.mp hb with rfl | hb'
    · rfl
    · exact absurd e.symm (hn.1 b hb')
    · exact absurd e (hn.1 a ha')
    · exact eq_of_dir_eq hn.2 ha' hb' e

theorem sortToml_perm {l₁ l₂ : List Toml} (hn : (l₁.map (·.dir)).Nodup) (h : l₁ ~ l₂) :
    l₁.mergeSort (fun a b => partsLe a.dir b.dir) = l₂.mergeSort (fun a b => partsLe a.dir b.dir) := by
  have tr : ∀ a b c : Toml, partsLe a.dir b.dir = true → partsLe b.dir c.dir = true →
      partsLe a.dir c.dir = true := fun a b c => partsLe_trans a.dir b.dir c.dir
  have tot : ∀ a b : Toml, (partsLe a.dir b.dir || partsLe b.dir a.dir) = true :=
    fun a b => partsLe_total a.dir b.dir
  refine List.Perm.eq_of_pairwise (le := fun a b => partsLe a.dir b.dir = true) ?_
    (pairwise_mergeSort (le := fun a b => partsLe a.dir b.dir) tr tot l₁)
    (pairwise_mergeSort (le := fun a b => partsLe a.dir b.dir) tr tot l₂)
    ((mergeSort_perm l₁ _).trans (h.trans (mergeSort_perm l₂ _).symm))
  intro a b ha hb hab hba
  have ha' : a ∈ l₁ := (mergeSort_perm l₁ _).mem_iff.mp ha
  have hb' : b ∈ l₁ := h.mem_iff.mpr ((mergeSort_perm l₂ _).mem_iff.mp hb)
  exact eq_of_dir_eq hn ha' hb' (partsLe_antisymm _ _ hab hba)

/-! ### `_find_licenses` -/

theorem foldl_findLicStep_none (ident : String → String) (ps : List String) :
    ps.foldl (findLicStep ident) none = none := by
  induction ps with
  | nil => rfl
  | cons p ps ih => simpa [findLicStep] using ih

theorem foldl_findLicStep (ident : String → String) (ps : List String) (d0 : List (String × String))
    (hn : (d0.map (·.1)).Nodup) :
    ps.foldl (findLicStep ident) (some d0) =
      if (d0.map (·.1) ++ ps.map ident).Nodup then some (d0 ++ ps.map fun p => (ident p, p)) else none := by
  induction ps generalizing d0 with
  | nil => simp [hn]
  | cons p ps ih =>
    rw [List.foldl_cons]
    by_cases hc : ident p ∈ d0.map (·.1)
    · have : ¬ (d0.map (·.1) ++ (p :: ps).map ident).Nodup := by
        rw [List.nodup_append]
        rintro ⟨_, _, h3⟩
        exact h3 _ hc _ (by simp) rfl
      simp only [findLicStep, List.contains_iff_mem, hc, if_true, foldl_findLicStep_none, this, if_false]
    · have hn' : ((d0 ++ [(ident p, p)]).map (·.1)).Nodup := by
        simp only [List.map_append, List.map_cons, List.map_nil]
        rw [List.nodup_append]
        refine ⟨hn, by simp, ?_⟩
        intro a ha b hb
        simp at hb; subst hb
        rintro rfl; exact hc ha
      have e1 : (d0 ++ [(ident p, p)]).map (·.1) ++ ps.map ident = d0.map (·.1) ++ (p :: ps).map ident := by
        simp
      have e2 : (d0 ++ [(ident p, p)]) ++ ps.map (fun p => (ident p, p)) =
          d0 ++ (p :: ps).map fun p => (ident p, p) := by simp
      simp only [findLicStep, List.contains_iff_mem, hc, if_false]
      rw [ih _ hn', e1, e2]

theorem findLicenses_eq (ident : String → String) (ps : List String) :
    findLicenses ident ps =
      if (ps.map ident).Nodup then some (ps.map fun p => (ident p, p)) else none := by
  unfold findLicenses
  rw [foldl_findLicStep _ _ _ (by simp)]
  simp

/-! ### the END language -/

theorem matches_altList {alts : List Re} {s : Text} :
    Re.Matches (altList alts) s ↔ ∃ a ∈ alts, Re.Matches a s := by
  induction alts with
  | nil =>
    simp only [altList, List.not_mem_nil, false_and, exists_false, iff_false]
    intro h
    generalize hq : Re.cls false [] = q at h
    cases h <;> cases hq
    rename_i h; simp [Re.clsMatch, Re.inRanges] at h
  | cons a as ih =>
    simp only [altList, Re.matches_alt, ih, List.mem_cons, exists_eq_or_imp]

/-- the language of a star depends only on the language under it -/
theorem matches_star_congr {r r' : Re} (h : ∀ s, Re.Matches r s → Re.Matches r' s) {s : Text}
    (hm : Re.Matches (.star r) s) : Re.Matches (.star r') s := by
  generalize hq : Re.star r = q at hm
  induction hm with
  | starNil => exact .starNil
  | starCons h1 _ _ ih2 =>
    cases hq
    exact .starCons (h _ h1) (ih2 rfl)
  | _ => cases hq

/-! ### paths -/

theorem stripPrefix_append (r rel : List String) : stripPrefix r (r ++ rel) = some rel := by
  induction r with
  | nil => rfl
  | cons a as ih => simp [stripPrefix, ih]

theorem foldl_normStep_clean (acc rel : List String) (h : ".." ∉ rel) :
    rel.foldl normStep acc = acc ++ rel := by
  induction rel generalizing acc with
  | nil => simp
  | cons c cs ih =>
    simp only [List.mem_cons, not_or] at h
    have hc : c ≠ ".." := fun e => h.1 e.symm
    rw [List.foldl_cons, ih _ h.2]
    simp [normStep, hc]

theorem normParts_append_clean (a rel : List String) (h : ".." ∉ rel) :
    normParts (a ++ rel) = normParts a ++ rel := by
  unfold normParts
  rw [List.foldl_append, foldl_normStep_clean _ _ h]

theorem resolve_joinRel (cwd : List String) (p : PPath) (rel : List String) (h : ".." ∉ rel) :
    resolve cwd (joinRel p rel) = resolve cwd p ++ rel := by
  unfold resolve
  show normParts ((if p.abs then [] else cwd) ++ (p.parts ++ rel)) = _
  rw [← List.append_assoc, normParts_append_clean _ _ h]

end Model.Agg
