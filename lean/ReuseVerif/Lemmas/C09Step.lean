/-
C09 (full-file step): one successful invocation, for a piecewise reader `F`: what `F` finds in the old
text it finds in the new text or in the old header block; what it finds in the new header block it finds in
the new text.  Instance: copyright notices.
-/
import ReuseVerif.Lemmas.C09Sections
import ReuseVerif.Lemmas.C09Lines
import ReuseVerif.Lemmas.C09TagsLocal

namespace C09L
open Py Model Spec C08L C10L

variable {α : Type} {F : Text → List α} {ok : Text → Prop}

/-- a text whose sections reach its end (nothing below the block, the block given its line feed) is `ok` when the
    seam is -/
theorem ok_of_sections_end (P : Piecewise F ok) {t b0 b h : Text} (hb0 : Blank b0)
    (hokb : ok (rstrip b)) (hokh : OkEnded ok h) (ht : t ++ ['\n'] = b0 ++ b ++ h) : ok t := by
  obtain ⟨w, hw, hwb⟩ := rstrip_spec b
  -- the part above, white space aside
  have hK : ok (b0 ++ rstrip b) := by
    by_cases hR : Blank (rstrip b)
    · exact P.okBlank _ (blank_append.mpr ⟨hb0, hR⟩)
    · exact P.okSuffix b0 _ hokb hR
  have hKb : ok (b0 ++ b) := by
    rw [hw, ← List.append_assoc]
    exact (P.okStrip _ w hwb).mpr hK
  rcases hokh with rfl | ⟨h0, rfl, hh0⟩
  · -- no block: the text is what stands above, less its line feed
    simp only [List.append_nil] at ht
    rw [← ht] at hKb
    exact (P.okStrip t ['\n'] (by decide)).mp hKb
  · have : t = b0 ++ b ++ h0 := by
      have := congrArg List.dropLast ht
      simpa [← List.append_assoc, List.dropLast_concat] using this
    rw [this]
    by_cases hb : Blank h0
    · exact (P.okStrip _ h0 hb).mpr hKb
    · exact P.okSuffix _ h0 hh0 hb

/-- **One step, piecewise.** -/
theorem step_pieces (P : Piecewise F ok) {t b h a hdr : Text} (e : Bool)
    (hs : SectionsOK t b h a ∨ (b = [] ∧ h = [] ∧ a = [] ∧ F t = []))
    (hc : cleanSeam b = true) (hokb : ok (rstrip b)) (hokh : h = [] ∨ ∃ h0, h = h0 ++ ['\n'] ∧ ok h0) (hokhdr : ok hdr) :
    (∀ x ∈ F t, x ∈ F (placeHeader hdr b a e) ∨ x ∈ F h) ∧ (∀ x ∈ F hdr, x ∈ F (placeHeader hdr b a e)) := by
  refine ⟨fun x hx => ?_, fun x hx => placed_holds P e hc hokb hokhdr x (.inr (.inl hx))⟩
  rcases hs with hs | ⟨_, _, _, hnone⟩
  case inr => rw [hnone] at hx; cases hx
  obtain ⟨b0, hb0, hb0l, htext⟩ := hs.text
  have hx' : x ∈ F (b0 ++ b ++ h ++ a) := by
    rcases htext with h1 | ⟨h1, h2⟩
    · rw [← h1]; exact hx
    · rw [← h1]
      have hokt : ok t := ok_of_sections_end P hb0 hokb hokh (by rw [h1, h2]; simp)
      exact (P.ended hokt x).mpr hx
  rcases sections_cover P hb0 hb0l hc hokb hs.above hokh x hx' with h1 | h1 | h1
  · exact .inl (placed_holds P e hc hokb hokhdr x (.inl h1))
  · exact .inr h1
  · exact .inl (placed_holds P e hc hokb hokhdr x (.inr (.inr h1)))

/-! ### copyright notices -/

theorem cpr_piecewise : Piecewise cprLines (fun _ => True) where
  split := fun u Z _ x => cprLines_split u Z x
  blank := cprLines_blank
  okBlank := fun _ _ => trivial
  okStrip := fun _ _ _ => Iff.rfl
  okSuffix := fun _ _ _ _ => trivial

/-! ### from `annotateText` to the sections -/

theorem oldHeader_sections (c : HdrCfg) (replace : Bool) (t : Text) :
    oldHeader c replace t = (sectionsOf c replace t).2.1 := by
  unfold oldHeader sectionsOf replaceSections
  cases replace
  · rfl
  · rfl

theorem headerParts_sections {c : HdrCfg} {replace : Bool} {info : Extracted} {t : Text}
    {p : Text × Text × Text × Bool} (h : headerParts c replace info t = .ok p) :
    p.2.1 = (sectionsOf c replace t).1 ∧ p.2.2.1 = (sectionsOf c replace t).2.2 ∧
      p.2.2.2 = !(sectionsOf c replace t).2.1.isEmpty := by
  unfold headerParts at h
  unfold sectionsOf replaceSections addSections
  cases replace
  · simp only [Bool.false_eq_true, if_false] at h ⊢
    split at h
    · cases h
    · cases h; exact ⟨rfl, rfl, rfl⟩
  · simp only [if_true] at h ⊢
    split at h
    · cases h
    · cases h; exact ⟨rfl, rfl, rfl⟩

theorem noCR_of_noExotic {t : Text} (h : NoExoticBreaks t) : NoCR t := by
  intro ch hch e
  subst e
  exact absurd (h '\r' hch (by decide)) (by decide)

/-- a successful invocation on a text with "\n" line ends, in terms of its sections -/
theorem annotate_sections {c : HdrCfg} {replace skip : Bool} {info : Extracted} {t t' : Text}
    (hw : annotateText c replace skip info t = .written t') (hno : NoExoticBreaks t) :
    ∃ hdr, createHeader c info (sectionsOf c replace t).2.1 = .ok hdr ∧
      t' = placeHeader hdr (sectionsOf c replace t).1 (sectionsOf c replace t).2.2 (!(sectionsOf c replace t).2.1.isEmpty) := by
  obtain ⟨p, hp, ht⟩ := annotateText_parts hw
  have hle : detectLineEnding t = ['\n'] := detect_lf (noCR_of_noExotic hno)
  rw [hle, replace_lf_lf] at hp
  rw [hle] at ht
  have hc := headerParts_created hp
  rw [oldHeader_sections] at hc
  obtain ⟨h1, h2, h3⟩ := headerParts_sections hp
  refine ⟨p.1, hc, ?_⟩
  rw [ht, h1, h2, h3]
  simp [retranslate]

/-- what `Spec.styleOK` says -/
theorem styleOK_cases {o : Op} {t : Text} (h : styleOK o t = true) :
    o.replace = false ∨ (o.c.style.name == "EmptyCommentStyle") = false ∨
      ((o.c.style.name == "EmptyCommentStyle") = true ∧ o.c.style.shebangs = [] ∧ (extractRaw t).lic.all o.c.parses = true) := by
  unfold styleOK at h
  simp only [Bool.or_eq_true, Bool.not_eq_true', Bool.and_eq_true, List.isEmpty_iff] at h
  rcases h with (h | h) | h
  · exact .inl h
  · exact .inr (.inl h)
  · cases hn : (o.c.style.name == "EmptyCommentStyle") with
    | false => exact .inr (.inl rfl)
    | true => exact .inr (.inr ⟨rfl, h.1, h.2⟩)

/-- the sections of an invocation are sections of the text — or (`.license` pseudo style, no information found) the text
    declares nothing and is replaced as a whole -/
theorem sections_ok (o : Op) (t : Text) (hstyle : styleOK o t = true) (hno : NoExoticBreaks t) :
    SectionsOK t (sectionsOf o.c o.replace t).1 (sectionsOf o.c o.replace t).2.1 (sectionsOf o.c o.replace t).2.2 ∨
    ((sectionsOf o.c o.replace t).1 = [] ∧ (sectionsOf o.c o.replace t).2.1 = [] ∧ (sectionsOf o.c o.replace t).2.2 = [] ∧
      Nothing t) := by
  unfold sectionsOf
  rcases styleOK_cases hstyle with h | h | ⟨h1, h2, h3⟩
  · rw [h]; left; simpa using sections_add o.c t hno
  · cases o.replace
    · left; simpa using sections_add o.c t hno
    · left; simpa using sections_replace o.c t h hno
  · cases o.replace
    · left; simpa using sections_add o.c t hno
    · simpa using sections_license o.c t h1 h2 h3

/-! ### the ignore filter -/

theorem findSub_none_snoc {pat t : Text} (h : findSub pat t = none) (hnl : '\n' ∉ pat) (hne : pat ≠ []) :
    findSub pat (t ++ ['\n']) = none := by
  induction t with
  | nil =>
    cases pat with
    | nil => exact absurd rfl hne
    | cons p ps =>
      have : (p == '\n') = false := by
        have : p ≠ '\n' := fun e => hnl (by simp [e])
        simpa using this
      simp [findSub, List.isPrefixOf, this]
  | cons x xs ih =>
    have ⟨h1, h2⟩ := findSub_none_cons h
    have h3 : pat.isPrefixOf (x :: xs ++ ['\n']) = false := by
      cases hp : pat.isPrefixOf (x :: xs ++ ['\n']) with
      | false => rfl
      | true =>
        have hpre := List.isPrefixOf_iff_prefix.mp hp
        have : pat <+: (x :: xs) := prefix_break_free (a := x :: xs) (c := '\n') (rest := []) (by simpa using hpre) hnl
        rw [← List.isPrefixOf_iff_prefix] at this
        simp [this] at h1
    simp only [List.cons_append] at h3 ⊢
    simp [findSub, h3, ih h2]

/-- no ignore region opens in the old header block when none opens in the text -/
theorem noIgnore_block {t b h a : Text} {X : Prop} (hs : SectionsOK t b h a ∨ (b = [] ∧ h = [] ∧ a = [] ∧ X))
    (hns : noIgnoreStart t = true) : findSub Generated.ignoreStart h = none := by
  rcases hs with hs | ⟨_, rfl, _, _⟩
  case inr => decide
  unfold noIgnoreStart at hns
  simp only [Option.isNone_iff_eq_none] at hns
  obtain ⟨b0, _, _, htext⟩ := hs.text
  rcases htext with h1 | ⟨h1, _⟩
  · rw [h1] at hns
    exact findSub_none_infix (a := b0 ++ b) (c := a) (by simpa [List.append_assoc] using hns)
  · have := findSub_none_snoc hns (by decide) (by decide)
    rw [h1] at this
    exact findSub_none_infix (a := b0 ++ b) (c := a) (by simpa [List.append_assoc] using this)

theorem noIgnore_placed {hdr b a : Text} {e : Bool} (hns : noIgnoreStart (placeHeader hdr b a e) = true) :
    findSub Generated.ignoreStart hdr = none := by
  unfold noIgnoreStart at hns
  simp only [Option.isNone_iff_eq_none] at hns
  rw [placeHeader_parts] at hns
  exact findSub_none_infix (a := aboveOf b) (c := ['\n'] ++ belowOf a e) (by simpa [List.append_assoc] using hns)

/-! ### copyright notices: the step -/

/-- what a header returned by `create_header` holds of copyright notices (no `--merge-copyrights`): the requested ones and
    those of the old block -/
theorem createHeader_cpr {c : HdrCfg} {info : Extracted} {header h : Text} (hmerge : c.merge = false)
    (hok : createHeader c info header = .ok h) (x : Text)
    (hx : x ∈ info.cpr ∨ x ∈ (extractRaw header).cpr) : x ∈ (extractRaw h).cpr := by
  by_cases he : header = []
  · subst he
    have hok' : createNewHeader c info = .ok h := by
      unfold createHeader at hok; simpa [hmerge] using hok
    have hg := (createNewHeader_ok hok').2
    unfold guardOk at hg
    simp only [Bool.and_eq_true] at hg
    rcases hx with hx | hx
    · exact (sameSet_iff.mp hg.2.1.1 x).mp hx
    · rw [mem_extractRaw_cpr (by decide), cprLines_blank [] (by decide)] at hx; cases hx
  · unfold createHeader at hok
    have he' : header.isEmpty = false := by cases header <;> simp_all
    simp only [he', Bool.false_eq_true, if_false] at hok
    by_cases hp : (extractRaw header).lic.all c.parses = true
    · simp only [hp, Bool.not_true, Bool.false_eq_true, if_false, hmerge] at hok
      have hok' : createNewHeader c
          { lic := dedup (((extractRaw header).lic ++ info.lic).map c.normLic),
            con := unionTexts (extractRaw header).con info.con,
            cpr := unionTexts info.cpr (extractRaw header).cpr } = .ok h := hok
      have hg := (createNewHeader_ok hok').2
      unfold guardOk at hg
      simp only [Bool.and_eq_true] at hg
      exact (sameSet_iff.mp hg.2.1.1 x).mp (mem_unionTexts.mpr hx)
    · simp only [hp, Bool.not_false, if_true] at hok
      cases hok

/-- the disjunction `sections_ok` gives, for a reader `F` that finds nothing in a text that declares nothing -/
theorem sections_for {F : Text → List Text} {t b h a : Text} (hs : SectionsOK t b h a ∨ (b = [] ∧ h = [] ∧ a = [] ∧ Nothing t))
    (hF : Nothing t → F t = []) : SectionsOK t b h a ∨ (b = [] ∧ h = [] ∧ a = [] ∧ F t = []) := by
  rcases hs with h1 | ⟨h1, h2, h3, h4⟩
  · exact .inl h1
  · exact .inr ⟨h1, h2, h3, hF h4⟩

theorem sections_block {t b h a : Text} {X : Prop} (hs : SectionsOK t b h a ∨ (b = [] ∧ h = [] ∧ a = [] ∧ X)) :
    lineEnded h = true := by
  rcases hs with h1 | ⟨_, rfl, _, _⟩
  · exact h1.block
  · rfl

/-- **Copyright notices, one step, the whole file.**  Every notice the old text declares and every requested notice is
    declared by the new text. -/
theorem step_cpr {o : Op} {t t' : Text}
    (hw : annotateText o.c o.replace o.skipExisting o.info t = .written t') (hmerge : o.c.merge = false)
    (hstyle : styleOK o t = true)
    (hno : NoExoticBreaks t) (hns : noIgnoreStart t = true) (hns' : noIgnoreStart t' = true)
    (hc : cleanSeam (sectionsOf o.c o.replace t).1 = true) (x : Text)
    (hx : x ∈ (extractRaw t).cpr ∨ x ∈ o.info.cpr) : x ∈ (extractRaw t').cpr := by
  obtain ⟨hdr, hcr, ht'⟩ := annotate_sections hw hno
  have hs := sections_ok o t hstyle hno
  have hnsT : findSub Generated.ignoreStart t = none := by
    unfold noIgnoreStart at hns; simpa using hns
  have hnsT' : findSub Generated.ignoreStart t' = none := by
    unfold noIgnoreStart at hns'; simpa using hns'
  have hnsH := noIgnore_block hs hns
  have hnsHdr : findSub Generated.ignoreStart hdr = none := noIgnore_placed (by rw [← ht']; exact hns')
  have hokh : (sectionsOf o.c o.replace t).2.1 = [] ∨ ∃ h0, (sectionsOf o.c o.replace t).2.1 = h0 ++ ['\n'] ∧ True := by
    rcases lineEnded_iff.mp (sections_block hs) with h | ⟨u, hu⟩
    · exact .inl h
    · exact .inr ⟨u, hu, trivial⟩
  have hs' := sections_for (F := cprLines) hs (fun hn => by
    have : ∀ y, y ∉ cprLines t := fun y hy => by
      have := (mem_extractRaw_cpr hnsT).mpr hy
      rw [hn.1] at this; cases this
    exact List.eq_nil_iff_forall_not_mem.mpr this)
  obtain ⟨h1, h2⟩ := step_pieces cpr_piecewise (hdr := hdr) (!(sectionsOf o.c o.replace t).2.1.isEmpty) hs' hc trivial hokh trivial
  rw [mem_extractRaw_cpr hnsT', ht']
  have hfromHdr : x ∈ (extractRaw hdr).cpr → x ∈ cprLines (placeHeader hdr (sectionsOf o.c o.replace t).1 (sectionsOf o.c o.replace t).2.2
      (!(sectionsOf o.c o.replace t).2.1.isEmpty)) := fun h => h2 x ((mem_extractRaw_cpr hnsHdr).mp h)
  rcases hx with hx | hx
  · rcases h1 x ((mem_extractRaw_cpr hnsT).mp hx) with h | h
    · exact h
    · exact hfromHdr (createHeader_cpr hmerge hcr x (.inr ((mem_extractRaw_cpr hnsH).mpr h)))
  · exact hfromHdr (createHeader_cpr hmerge hcr x (.inl hx))

/-! ### licence expressions and contributors: the step -/

/-- the licence values a text declares: the values of its licence tags, empty values aside (a tag without a value declares
    nothing) -/
def licValues (t : Text) : List Text :=
  (findSpdxTagWith Generated.endRe Generated.licenseTag t).filter (fun v => !v.isEmpty)

theorem mem_extractRaw_lic {t x : Text} (h : findSub Generated.ignoreStart t = none) :
    x ∈ (extractRaw t).lic ↔ x ∈ licValues t := by
  unfold extractRaw extractRawWith licValues
  simp only [List.mem_filter, mem_dedup, filterIgnore_id h]

theorem mem_extractRaw_con {t x : Text} (h : findSub Generated.ignoreStart t = none) :
    x ∈ (extractRaw t).con ↔ x ∈ findSpdxTagWith Generated.endRe Generated.contributorTag t := by
  unfold extractRaw extractRawWith
  simp only [mem_dedup, filterIgnore_id h]

/-- **Table obligation.**  The generated END expression reads a line feed only inside the white space that follows
    `"`, `'` or `]`. -/
theorem endRe_guarded : EndGuarded Generated.endRe := by decide

theorem lic_piecewise : Piecewise licValues (fun u => openEnd u = false) :=
  (tags_piecewise endRe_guarded _ (by decide) ⟨'S', rfl, by decide⟩).filter _

theorem con_piecewise : Piecewise (findSpdxTagWith Generated.endRe Generated.contributorTag) (fun u => openEnd u = false) :=
  tags_piecewise endRe_guarded _ (by decide) ⟨'S', rfl, by decide⟩

theorem openEnd_rstrip (b : Text) : openEnd (rstrip b) = openEnd b := by
  obtain ⟨w, hw, hb⟩ := rstrip_spec b
  conv => rhs; rw [hw]
  unfold openEnd
  rw [lastNonSpace_append_blank _ w hb]

theorem okEnded_of_openEnd {h : Text} (hl : lineEnded h = true) (ho : openEnd h = false) :
    h = [] ∨ ∃ h0, h = h0 ++ ['\n'] ∧ openEnd h0 = false := by
  rcases lineEnded_iff.mp hl with h1 | ⟨u, rfl⟩
  · exact .inl h1
  · refine .inr ⟨u, rfl, ?_⟩
    unfold openEnd at ho ⊢
    rw [lastNonSpace_append_blank u ['\n'] (by decide)] at ho
    exact ho

theorem eq_nil_of_mem_iff {F : Text → List Text} {G : List Text} {t : Text} (h : ∀ x, x ∈ G ↔ x ∈ F t) (hG : G = []) : F t = [] :=
  List.eq_nil_iff_forall_not_mem.mpr fun y hy => by
    have := (h y).mpr hy
    rw [hG] at this; cases this

/-- **Tag values, one step, the whole file** (for either tag): a value the old text holds is held by the new text or by the
    old header block; a value the new header block holds is held by the new text. -/
theorem step_tag {F : Text → List Text} (P : Piecewise F (fun u => openEnd u = false))
    {o : Op} {t t' hdr : Text} (hstyle : styleOK o t = true) (hno : NoExoticBreaks t) (hF : Nothing t → F t = [])
    (ht' : t' = placeHeader hdr (sectionsOf o.c o.replace t).1 (sectionsOf o.c o.replace t).2.2 (!(sectionsOf o.c o.replace t).2.1.isEmpty))
    (hc : cleanSeam (sectionsOf o.c o.replace t).1 = true)
    (ho1 : openEnd (sectionsOf o.c o.replace t).1 = false) (ho2 : openEnd (sectionsOf o.c o.replace t).2.1 = false)
    (ho3 : openEnd hdr = false) :
    (∀ x ∈ F t, x ∈ F t' ∨ x ∈ F (sectionsOf o.c o.replace t).2.1) ∧ (∀ x ∈ F hdr, x ∈ F t') := by
  have hs := sections_ok o t hstyle hno
  rw [ht']
  exact step_pieces P _ (sections_for hs hF) hc (by rw [openEnd_rstrip]; exact ho1) (okEnded_of_openEnd (sections_block hs) ho2) ho3

/-- what `stepGoodFull` gives for a step that wrote `t'` -/
theorem seamOK_parts {o : Op} {t hdr : Text} (h : seamOK o t = true)
    (hcr : createHeader o.c o.info (sectionsOf o.c o.replace t).2.1 = .ok hdr) :
    cleanSeam (sectionsOf o.c o.replace t).1 = true ∧ openEnd (sectionsOf o.c o.replace t).1 = false ∧
      openEnd (sectionsOf o.c o.replace t).2.1 = false ∧ openEnd hdr = false := by
  unfold seamOK newHeaderOf at h
  simp only [hcr, Bool.and_eq_true, Bool.not_eq_true'] at h
  exact ⟨h.1.1.1, h.1.1.2, h.1.2, h.2⟩

/-- **One step, the whole file: copyright notices and licence expressions.** -/
theorem step_declares {norm : Text → Text} {o : Op} {t t' : Text}
    (hw : annotateText o.c o.replace o.skipExisting o.info t = .written t') (hg : stepGoodFull norm o t) :
    Declares norm (extractRaw t') ((extractRaw t).cpr ++ o.info.cpr) ((extractRaw t).lic ++ o.info.lic) := by
  obtain ⟨hn, hidem, hmerge, hstyle, hno, hns, hns', hseam⟩ := hg t' hw
  obtain ⟨hdr, hcr, ht'⟩ := annotate_sections hw hno
  obtain ⟨hc, ho1, ho2, ho3⟩ := seamOK_parts hseam hcr
  refine ⟨fun x hx => step_cpr hw hmerge hstyle hno hns hns' hc x (List.mem_append.mp hx), fun x hx => ?_⟩
  have hs := sections_ok o t hstyle hno
  have hnsT : findSub Generated.ignoreStart t = none := by
    unfold noIgnoreStart at hns; simpa using hns
  have hnsT' : findSub Generated.ignoreStart t' = none := by
    unfold noIgnoreStart at hns'; simpa using hns'
  have hnsH := noIgnore_block hs hns
  have hnsHdr : findSub Generated.ignoreStart hdr = none := noIgnore_placed (by rw [← ht']; exact hns')
  obtain ⟨h1, h2⟩ := step_tag lic_piecewise hstyle hno
    (fun hn => eq_nil_of_mem_iff (fun x => mem_extractRaw_lic hnsT) hn.2.1) ht' hc ho1 ho2 ho3
  have hd := createHeader_declares hmerge (by rw [hn]; exact hidem) hcr
  rw [hn] at hd
  -- a value read from the new block is read from the new text
  have hfromHdr : ∀ x, norm x ∈ (extractRaw hdr).lic.map norm → norm x ∈ (extractRaw t').lic.map norm := by
    intro x hx
    obtain ⟨v, hv, hvx⟩ := List.mem_map.mp hx
    exact List.mem_map.mpr ⟨v, (mem_extractRaw_lic hnsT').mpr (h2 v ((mem_extractRaw_lic hnsHdr).mp hv)), hvx⟩
  rcases List.mem_append.mp hx with hx | hx
  · rcases h1 x ((mem_extractRaw_lic hnsT).mp hx) with h | h
    · exact List.mem_map_of_mem ((mem_extractRaw_lic hnsT').mpr h)
    · have hne : (sectionsOf o.c o.replace t).2.1 ≠ [] := by
        intro e; rw [e, lic_piecewise.nil] at h; cases h
      exact hfromHdr x ((hd.2 hne).2 x ((mem_extractRaw_lic hnsH).mpr h))
  · exact hfromHdr x (hd.1.2 x hx)

/-- **One step, the whole file: contributors**, for a template that renders the contributors it is handed. -/
theorem step_contributors {norm : Text → Text} {o : Op} {t t' : Text}
    (hw : annotateText o.c o.replace o.skipExisting o.info t = .written t') (hg : stepGoodFull norm o t)
    (hren : rendersCon o t = true) (x : Text) (hx : x ∈ (extractRaw t).con ∨ x ∈ o.info.con) :
    x ∈ (extractRaw t').con := by
  obtain ⟨hn, hidem, hmerge, hstyle, hno, hns, hns', hseam⟩ := hg t' hw
  obtain ⟨hdr, hcr, ht'⟩ := annotate_sections hw hno
  obtain ⟨hc, ho1, ho2, ho3⟩ := seamOK_parts hseam hcr
  have hs := sections_ok o t hstyle hno
  have hnsT : findSub Generated.ignoreStart t = none := by
    unfold noIgnoreStart at hns; simpa using hns
  have hnsT' : findSub Generated.ignoreStart t' = none := by
    unfold noIgnoreStart at hns'; simpa using hns'
  have hnsH := noIgnore_block hs hns
  have hnsHdr : findSub Generated.ignoreStart hdr = none := noIgnore_placed (by rw [← ht']; exact hns')
  obtain ⟨h1, h2⟩ := step_tag con_piecewise hstyle hno
    (fun hn => eq_nil_of_mem_iff (fun x => mem_extractRaw_con hnsT) hn.2.2) ht' hc ho1 ho2 ho3
  unfold rendersCon newHeaderOf at hren
  simp only [hcr, List.all_eq_true, List.mem_append, List.contains_eq_mem, decide_eq_true_eq] at hren
  have hfromHdr : x ∈ (extractRaw hdr).con → x ∈ (extractRaw t').con :=
    fun h => (mem_extractRaw_con hnsT').mpr (h2 x ((mem_extractRaw_con hnsHdr).mp h))
  rcases hx with hx | hx
  · rcases h1 x ((mem_extractRaw_con hnsT).mp hx) with h | h
    · exact (mem_extractRaw_con hnsT').mpr h
    · exact hfromHdr (hren x (.inr ((mem_extractRaw_con hnsH).mpr h)))
  · exact hfromHdr (hren x (.inl hx))

end C09L
