/-
Plumbing between the composed model `Model.lintE2E` and the tree-level reading of C01
(`Spec/LintE2E.lean`): the abstract project the composed model hands to `Model.generate`
is, clause by clause, what the tree-level clauses speak about.  The two component theorems
used are `C03.C03_walk` (the walk yields exactly the covered files) and `C04.C04_items`
(the attribution is what the sources-and-precedence rules say).
-/
import ReuseVerif.Spec.LintE2E
import ReuseVerif.Theorems.C03
import ReuseVerif.Theorems.C04
import ReuseVerif.Lemmas.ReportMain

namespace Model
open Py Spec

variable {tbl : LicenseMap} {c : E2ECfg} {g : GlobalLic} {tree : ETree}

/-- the files of the abstract project are the covered files (C03) -/
theorem mem_projectFiles {f : CovFile} :
    f ∈ (projectOf c g tree).files ↔ ∃ p, CoveredT c tree p ∧ f = (fileOf c g tree p).toCov c := by
  simp only [projectOf, filesOf, coveredFiles, List.map_map, List.mem_map, Function.comp, CoveredT]
  constructor
  · rintro ⟨p, hp, rfl⟩; exact ⟨p, (C03.C03_walk _ _ _ _).mp hp, rfl⟩
  · rintro ⟨p, hp, rfl⟩; exact ⟨p, (C03.C03_walk _ _ _ _).mpr hp, rfl⟩

theorem readable_iff (p : List String) :
    ((fileOf c g tree p).toCov c).readable = true ↔ ReadableT c g tree p := by
  simp only [EFile.toCov, fileOf, ReadableT]
  cases h : ownAt tree p with
  | bytes b s => simp [readableOf, Own.isUnreadable]
  | unreadable => simp [readableOf, Own.isUnreadable, override_isEmpty]

theorem fileInfo_src (p : List String) (own : Own) : (fileInfoOf c p own).src = .own := by
  cases own with
  | bytes b s => simp only [fileInfoOf]; split <;> rfl
  | unreadable => rfl

/-- the attribution is what the sources-and-precedence rules say (C04) -/
theorem items_iff (p : List String) (it : Item) :
    it ∈ itemsOf (fileOf c g tree p).infos ↔ AttributedT c g tree p it :=
  C04.C04_items _ _ (fileInfo_src p _) it

theorem mem_cprItems_iff {infos : List Info} {x : String} :
    x ∈ infos.flatMap (·.cpr) ↔ ∃ it ∈ itemsOf infos, it.kind = .cpr ∧ it.value = x := by
  simp only [List.mem_flatMap, mem_itemsOf]
  constructor
  · rintro ⟨i, hi, hx⟩
    exact ⟨⟨.cpr, x, i.src⟩, ⟨i, hi, rfl, hx⟩, rfl, rfl⟩
  · rintro ⟨it, ⟨i, hi, _, hv⟩, hk, rfl⟩
    rw [hk] at hv
    exact ⟨i, hi, hv⟩

theorem mem_exprs_iff {f : EFile} {e : List Text} :
    e ∈ (f.toCov c).exprs ↔ ∃ it ∈ itemsOf f.infos, it.kind = .lic ∧ e = c.keysOf it.value := by
  simp only [EFile.toCov, List.mem_flatMap, List.mem_map, mem_itemsOf]
  constructor
  · rintro ⟨i, hi, v, hv, rfl⟩
    exact ⟨⟨.lic, v, i.src⟩, ⟨i, hi, rfl, hv⟩, rfl, rfl⟩
  · rintro ⟨it, ⟨i, hi, _, hv⟩, hk, rfl⟩
    rw [hk] at hv
    exact ⟨i, hi, it.value, hv, rfl⟩

theorem joinedNonEmpty_iff {l : List String} (h : ∀ x ∈ l, isBlankStr x = false) : joinedNonEmpty l = true ↔ l ≠ [] := by
  match l, h with
  | [], _ => simp [joinedNonEmpty]
  | x :: xs, h => simp [joinedNonEmpty, h x (by simp)]

/-- a covered file "has copyright" in the report exactly when a non-blank copyright line is attributed to
    it (no hypothesis: blank lines are not notices, however many there are) -/
theorem hasCopyright_iff' {p : List String} :
    ((fileOf c g tree p).toCov c).hasCopyright = true ↔ HasNotice c g tree p := by
  simp only [EFile.toCov, joinedNonEmpty, List.any_eq_true, Bool.not_eq_true']
  constructor
  · rintro ⟨x, hx, hb⟩
    obtain ⟨it, hit, hk, rfl⟩ := mem_cprItems_iff.mp hx
    exact ⟨it, (items_iff p it).mp hit, hk, hb⟩
  · rintro ⟨it, hit, hk, hb⟩
    exact ⟨it.value, mem_cprItems_iff.mpr ⟨it, (items_iff p it).mpr hit, hk, rfl⟩, hb⟩

theorem hasCopyright_iff (_hne : NoEmptyNotice c g tree) {p : List String} (_hp : CoveredT c tree p) :
    ((fileOf c g tree p).toCov c).hasCopyright = true ↔ HasNotice c g tree p := hasCopyright_iff'

theorem hasLicence_iff (p : List String) :
    (∃ e ∈ ((fileOf c g tree p).toCov c).exprs, e ≠ []) ↔ HasLicence c g tree p := by
  constructor
  · rintro ⟨e, he, hne⟩
    obtain ⟨it, hit, hk, rfl⟩ := mem_exprs_iff.mp he
    exact ⟨it, (items_iff p it).mp hit, hk, hne⟩
  · rintro ⟨it, hit, hk, hne⟩
    exact ⟨_, mem_exprs_iff.mpr ⟨it, (items_iff p it).mpr hit, hk, rfl⟩, hne⟩

theorem used_iff (k : Text) : Used (projectOf c g tree).files k ↔ UsedT c g tree k := by
  unfold Used UsedBy UsedT UsedByT
  constructor
  · rintro ⟨_, f, hf, hr, _, e, he, hk⟩
    obtain ⟨p, hp, rfl⟩ := mem_projectFiles.mp hf
    obtain ⟨it, hit, hkind, rfl⟩ := mem_exprs_iff.mp he
    exact ⟨p, hp, (readable_iff p).mp hr, it, (items_iff p it).mp hit, hkind, hk⟩
  · rintro ⟨p, hp, hr, it, hit, hkind, hk⟩
    exact ⟨_, _, mem_projectFiles.mpr ⟨p, hp, rfl⟩, (readable_iff p).mpr hr, rfl, _,
      mem_exprs_iff.mpr ⟨it, (items_iff p it).mpr hit, hkind, rfl⟩, hk⟩

theorem clauseA_tree : ClauseA (projectOf c g tree) ↔ TreeClauseA c g tree := by
  unfold ClauseA TreeClauseA
  constructor
  · intro h p hp hr
    have := h _ (mem_projectFiles.mpr ⟨p, hp, rfl⟩) ((readable_iff p).mpr hr)
    exact ⟨(hasCopyright_iff' (p := p)).mp this.1, (hasLicence_iff p).mp this.2⟩
  · intro h f hf hr
    obtain ⟨p, hp, rfl⟩ := mem_projectFiles.mp hf
    have := h p hp ((readable_iff p).mp hr)
    exact ⟨(hasCopyright_iff' (p := p)).mpr this.1, (hasLicence_iff p).mpr this.2⟩

theorem clauseD_tree : ClauseD (projectOf c g tree) ↔ TreeClauseD c g tree := by
  unfold ClauseD TreeClauseD
  constructor
  · intro h p hp; exact (readable_iff p).mp (h _ (mem_projectFiles.mpr ⟨p, hp, rfl⟩))
  · intro h f hf
    obtain ⟨p, hp, rfl⟩ := mem_projectFiles.mp hf
    exact (readable_iff p).mpr (h p hp)

theorem clauseB_tree : ClauseB tbl (projectOf c g tree) ↔ TreeClauseB tbl c g tree := by
  unfold ClauseB TreeClauseB ProvidedT
  constructor
  · intro h k hk; exact h k ((used_iff k).mpr hk)
  · intro h k hk; exact h k ((used_iff k).mp hk)

theorem clauseC_tree : ClauseC tbl (projectOf c g tree) ↔ TreeClauseC tbl c g tree := by
  unfold ClauseC TreeClauseC
  simp only [used_iff]
  rfl

/-- clauses (a)–(d) over the abstract project of the composed model are clauses (a)–(d) over the tree -/
theorem compliant_iff_tree :
    Compliant tbl (projectOf c g tree) ↔ TreeCompliant tbl c g tree := by
  unfold Compliant TreeCompliant
  rw [clauseA_tree, clauseB_tree, clauseC_tree, clauseD_tree]

end Model

/-! ### the glue, said declaratively -/

namespace Model
open Py Spec

variable {tbl : LicenseMap} {c : E2ECfg} {g : GlobalLic} {tree : ETree}

theorem elookup_iff {es : ETree} (hwf : wfEntries es) {n : String} {node : ENode} :
    elookup es n = some node ↔ (n, node) ∈ es := by
  induction es with
  | nil => simp [elookup]
  | cons e rest ih =>
    obtain ⟨m, x⟩ := e
    simp only [wfEntries] at hwf
    obtain ⟨hne, _, hrest⟩ := hwf
    by_cases hm : m = n
    · subst hm
      simp only [elookup, List.find?_cons, beq_self_eq_true, Option.map_some, Option.some.injEq, List.mem_cons,
        Prod.mk.injEq, true_and]
      constructor
      · intro h; exact .inl h.symm
      · rintro (h | h)
        · exact h.symm
        · exact absurd rfl (hne _ h)
    · have hb : (m == n) = false := by simpa using hm
      have := ih hrest
      simp only [elookup, List.find?_cons, hb] at this ⊢
      rw [this]
      simp only [List.mem_cons, Prod.mk.injEq]
      constructor
      · intro h; exact .inr h
      · rintro (⟨h, _⟩ | h)
        · exact absurd h.symm hm
        · exact h

theorem wf_of_mem {es : ETree} (hwf : wfEntries es) {n : String} {sub : ETree}
    (h : (n, ENode.dir sub) ∈ es) : wfEntries sub := by
  induction es with
  | nil => cases h
  | cons e rest ih =>
    obtain ⟨m, x⟩ := e
    simp only [wfEntries] at hwf
    rcases List.mem_cons.mp h with h | h
    · cases h
      simpa [wfNode] using hwf.2.1
    · exact ih hwf.2.2 h

/-- in a well-formed tree, "the entry at this path" and the model's look-ups agree -/
theorem eat_snoc_iff (d : List String) : ∀ {tree : ETree}, wfEntries tree → ∀ (n : String) (node : ENode),
    (EAt tree (d ++ [n]) node ↔ ∃ es, subtree tree d = some es ∧ elookup es n = some node) := by
  induction d with
  | nil =>
    intro tree hwf n node
    simp only [List.nil_append, subtree, Option.some.injEq, exists_eq_left', elookup_iff hwf]
    constructor
    · intro h
      cases h with
      | last hm => exact hm
      | step _ h' => cases h'
    · exact .last
  | cons x d ih =>
    intro tree hwf n node
    simp only [List.cons_append, subtree]
    constructor
    · intro h
      generalize hq : x :: (d ++ [n]) = q at h
      cases h with
      | last _ =>
        simp only [List.cons.injEq] at hq
        exact absurd hq.2 (by simp)
      | step hm h' =>
        simp only [List.cons.injEq] at hq
        obtain ⟨rfl, rfl⟩ := hq
        rw [(elookup_iff hwf).mpr hm]
        exact (ih (wf_of_mem hwf hm) n node).mp h'
    · rintro ⟨es, hs, hl⟩
      cases hx : elookup tree x with
      | none => simp [hx] at hs
      | some y =>
        cases y with
        | file b => simp [hx] at hs
        | symlink t => simp [hx] at hs
        | dir sub =>
          simp only [hx] at hs
          have hm := (elookup_iff hwf).mp hx
          exact .step hm ((ih (wf_of_mem hwf hm) n node).mpr ⟨es, hs, hl⟩)

/-- `_determine_license_path`, said about the tree: FILE.license replaces FILE as the own source
    exactly when it exists -/
theorem ownAt_spec (hwf : wfEntries tree) (dir : List String) (name : String) (content : Bytes)
    (hf : EAt tree (dir ++ [name]) (.file content)) :
    OwnSourceIs tree dir name content (ownAt tree (dir ++ [name])) := by
  obtain ⟨es, hs, hl⟩ := (eat_snoc_iff dir hwf name _).mp hf
  have hown : ownAt tree (dir ++ [name]) = ownOf es name content := by
    simp [ownAt, hs, hl]
  rw [hown]
  unfold ownOf
  cases hsib : elookup es (name ++ ".license") with
  | none =>
    refine .self ?_ ?_
    · intro b hb
      obtain ⟨es', hs', hl'⟩ := (eat_snoc_iff dir hwf _ _).mp hb
      rw [hs] at hs'; cases hs'; rw [hsib] at hl'; cases hl'
    · intro sub hb
      obtain ⟨es', hs', hl'⟩ := (eat_snoc_iff dir hwf _ _).mp hb
      rw [hs] at hs'; cases hs'; rw [hsib] at hl'; cases hl'
  | some y =>
    cases y with
    | file b => exact .sibling ((eat_snoc_iff dir hwf _ _).mpr ⟨es, hs, hsib⟩)
    | dir sub => exact .siblingDir ((eat_snoc_iff dir hwf _ _).mpr ⟨es, hs, hsib⟩)
    | symlink t =>
      refine .self ?_ ?_
      · intro b hb
        obtain ⟨es', hs', hl'⟩ := (eat_snoc_iff dir hwf _ _).mp hb
        rw [hs] at hs'; cases hs'; rw [hsib] at hl'; cases hl'
      · intro sub hb
        obtain ⟨es', hs', hl'⟩ := (eat_snoc_iff dir hwf _ _).mp hb
        rw [hs] at hs'; cases hs'; rw [hsib] at hl'; cases hl'

mutual
theorem mem_licWalkNode : ∀ (n : ENode) (path : List String) (name : String) (q : List String),
    q ∈ licWalkNode path name n ↔ ∃ rel, q = path ++ rel ∧ LicIn [(name, n)] rel
  | .file b, path, name, q => by
      simp only [licWalkNode]
      constructor
      · intro h
        split at h
        · cases h
        · rename_i hh
          simp at h; subst h
          exact ⟨[name], rfl, .file (b := b) (by simp) (by simpa using hh)⟩
      · rintro ⟨rel, rfl, hc⟩
        cases hc with
        | file hm hh =>
          simp at hm; obtain ⟨rfl, _⟩ := hm
          simp [hh]
        | dir hm _ _ => simp at hm
        | linkFile hm _ => simp at hm
        | linkDir hm _ _ => simp at hm
  | .symlink t, path, name, q => by
      simp only [licWalkNode]
      exact mem_licWalkLink t path name q
  | .dir cs, path, name, q => by
      simp only [licWalkNode]
      constructor
      · intro h
        split at h
        · cases h
        · rename_i hh
          obtain ⟨rel, rfl, hc⟩ := (mem_licWalkList cs (path ++ [name]) q).mp h
          exact ⟨name :: rel, by simp, .dir (by simp) (by simpa using hh) hc⟩
      · rintro ⟨rel, rfl, hc⟩
        cases hc with
        | file hm _ => simp at hm
        | dir hm hh hsub =>
          simp at hm; obtain ⟨rfl, rfl⟩ := hm
          simp only [hh, Bool.false_eq_true, if_false]
          exact (mem_licWalkList _ _ _).mpr ⟨_, by simp, hsub⟩
        | linkFile hm _ => simp at hm
        | linkDir hm _ _ => simp at hm
theorem mem_licWalkLink : ∀ (t : LinkTarget) (path : List String) (name : String) (q : List String),
    q ∈ licWalkLink path name t ↔ ∃ rel, q = path ++ rel ∧ LicIn [(name, .symlink t)] rel
  | .dangling, path, name, q => by
      simp only [licWalkLink]
      constructor
      · intro h; cases h
      · rintro ⟨rel, rfl, hc⟩
        cases hc with
        | file hm _ => simp at hm
        | dir hm _ _ => simp at hm
        | linkFile hm _ => simp at hm
        | linkDir hm _ _ => simp at hm
  | .file b, path, name, q => by
      simp only [licWalkLink]
      constructor
      · intro h
        split at h
        · cases h
        · rename_i hh
          simp at h; subst h
          exact ⟨[name], rfl, .linkFile (b := b) (by simp) (by simpa using hh)⟩
      · rintro ⟨rel, rfl, hc⟩
        cases hc with
        | file hm _ => simp at hm
        | dir hm _ _ => simp at hm
        | linkFile hm hh =>
          simp at hm; obtain ⟨rfl, _⟩ := hm
          simp [hh]
        | linkDir hm _ _ => simp at hm
  | .dir cs, path, name, q => by
      simp only [licWalkLink]
      constructor
      · intro h
        split at h
        · cases h
        · rename_i hh
          obtain ⟨rel, rfl, hc⟩ := (mem_licWalkList cs (path ++ [name]) q).mp h
          exact ⟨name :: rel, by simp, .linkDir (by simp) (by simpa using hh) hc⟩
      · rintro ⟨rel, rfl, hc⟩
        cases hc with
        | file hm _ => simp at hm
        | dir hm _ _ => simp at hm
        | linkFile hm _ => simp at hm
        | linkDir hm hh hsub =>
          simp at hm; obtain ⟨rfl, rfl⟩ := hm
          simp only [hh, Bool.false_eq_true, if_false]
          exact (mem_licWalkList _ _ _).mpr ⟨_, by simp, hsub⟩
theorem mem_licWalkList : ∀ (cs : List (String × ENode)) (path : List String) (q : List String),
    q ∈ licWalkList path cs ↔ ∃ rel, q = path ++ rel ∧ LicIn cs rel
  | [], path, q => by
      simp only [licWalkList, List.not_mem_nil, false_iff]
      rintro ⟨rel, _, hc⟩
      cases hc with
      | file hm _ => cases hm
      | dir hm _ _ => cases hm
      | linkFile hm _ => cases hm
      | linkDir hm _ _ => cases hm
  | (n, x) :: rest, path, q => by
      simp only [licWalkList, List.mem_append]
      rw [mem_licWalkNode x path n q, mem_licWalkList rest path q]
      constructor
      · rintro (⟨rel, e, hc⟩ | ⟨rel, e, hc⟩)
        · refine ⟨rel, e, ?_⟩
          cases hc with
          | file hm hh =>
            rename_i nm b
            exact .file (b := b) (by simp at hm; simp [hm]) hh
          | dir hm hh hs => exact .dir (by simp at hm; simp [hm]) hh hs
          | linkFile hm hh =>
            rename_i nm b
            exact .linkFile (b := b) (by simp at hm; simp [hm]) hh
          | linkDir hm hh hs => exact .linkDir (by simp at hm; simp [hm]) hh hs
        · refine ⟨rel, e, ?_⟩
          cases hc with
          | file hm hh => exact .file (List.mem_cons_of_mem _ hm) hh
          | dir hm hh hs => exact .dir (List.mem_cons_of_mem _ hm) hh hs
          | linkFile hm hh => exact .linkFile (List.mem_cons_of_mem _ hm) hh
          | linkDir hm hh hs => exact .linkDir (List.mem_cons_of_mem _ hm) hh hs
      · rintro ⟨rel, e, hc⟩
        cases hc with
        | file hm hh =>
          rename_i nm b
          rcases List.mem_cons.mp hm with h | h
          · exact .inl ⟨_, e, .file (b := b) (by rw [h]; simp) hh⟩
          · exact .inr ⟨_, e, .file h hh⟩
        | dir hm hh hs =>
          rcases List.mem_cons.mp hm with h | h
          · exact .inl ⟨_, e, .dir (by rw [h]; simp) hh hs⟩
          · exact .inr ⟨_, e, .dir h hh hs⟩
        | linkFile hm hh =>
          rename_i nm b
          rcases List.mem_cons.mp hm with h | h
          · exact .inl ⟨_, e, .linkFile (b := b) (by rw [h]; simp) hh⟩
          · exact .inr ⟨_, e, .linkFile h hh⟩
        | linkDir hm hh hs =>
          rcases List.mem_cons.mp hm with h | h
          · exact .inl ⟨_, e, .linkDir (by rw [h]; simp) hh hs⟩
          · exact .inr ⟨_, e, .linkDir h hh hs⟩
end

/-- `_find_licenses`: with a directory LICENSES in the root — a real one, or a symbolic link that resolves
    to one — the licence texts are the entries `LicIn` describes -/
theorem mem_licFilesOf' {l : ENode} {cs : ETree} (hd : elookup tree "LICENSES" = some l) (hl : DirOrLinkToDir l cs)
    (q : Text) : q ∈ licFilesOf tree ↔ ∃ rel, LicIn cs rel ∧ q = relText ("LICENSES" :: rel) := by
  have hp : licPathsOf tree = licWalkList ["LICENSES"] cs := by
    rcases hl with rfl | rfl <;> simp only [licPathsOf, hd]
  simp only [licFilesOf, hp, List.mem_map, mem_licWalkList]
  constructor
  · rintro ⟨p, ⟨rel, rfl, hl⟩, rfl⟩; exact ⟨rel, hl, rfl⟩
  · rintro ⟨rel, hl, rfl⟩; exact ⟨_, ⟨rel, rfl, hl⟩, rfl⟩

/-- `_find_licenses`: with a directory LICENSES in the root, the licence texts are the regular files
    (and links to regular files) below it reached through (real or linked) directories, hidden names
    excluded at every level -/
theorem mem_licFilesOf {cs : ETree} (hd : elookup tree "LICENSES" = some (.dir cs)) (q : Text) :
    q ∈ licFilesOf tree ↔ ∃ rel, LicIn cs rel ∧ q = relText ("LICENSES" :: rel) :=
  mem_licFilesOf' hd (.inl rfl) q

/-- no directory LICENSES in the root (absent, a regular file, a dangling link, a link to a file): no licence texts -/
theorem licFilesOf_nil (h : ∀ l, elookup tree "LICENSES" = some l → ∀ cs, ¬ DirOrLinkToDir l cs) :
    licFilesOf tree = [] := by
  unfold licFilesOf licPathsOf
  cases hd : elookup tree "LICENSES" with
  | none => rfl
  | some l =>
    cases l with
    | file b => rfl
    | dir cs => exact absurd (.inl rfl) (h _ hd cs)
    | symlink t =>
      cases t with
      | dangling => rfl
      | file b => rfl
      | dir cs => exact absurd (.inr rfl) (h _ hd cs)

/-- the two readings of "licence text below this directory" agree: the recursive one (`LicIn`, the form
    the walk is characterised with) and the entry-by-entry one (`LinkedText`) -/
theorem licIn_iff_linkedText : ∀ (rel : List String) (cs : ETree), LicIn cs rel ↔ LinkedText cs rel := by
  intro rel
  induction rel with
  | nil =>
    intro cs
    constructor
    · intro h; cases h
    · rintro ⟨n, h, _⟩; cases h
  | cons name rel ih =>
    intro cs
    constructor
    · intro h
      generalize hq : name :: rel = q at h
      cases h with
      | file hm hh =>
        obtain ⟨rfl, rfl⟩ := List.cons.inj hq
        exact ⟨_, .last hm, .inl ⟨_, rfl⟩, by simpa using hh⟩
      | linkFile hm hh =>
        obtain ⟨rfl, rfl⟩ := List.cons.inj hq
        exact ⟨_, .last hm, .inr ⟨_, rfl⟩, by simpa using hh⟩
      | dir hm hh hs =>
        obtain ⟨rfl, rfl⟩ := List.cons.inj hq
        obtain ⟨n, hat, hf, hhid⟩ := (ih _).mp hs
        exact ⟨n, .step hm (.inl rfl) hat, hf, by
          intro x hx
          rcases List.mem_cons.mp hx with rfl | hx
          · exact hh
          · exact hhid x hx⟩
      | linkDir hm hh hs =>
        obtain ⟨rfl, rfl⟩ := List.cons.inj hq
        obtain ⟨n, hat, hf, hhid⟩ := (ih _).mp hs
        exact ⟨n, .step hm (.inr rfl) hat, hf, by
          intro x hx
          rcases List.mem_cons.mp hx with rfl | hx
          · exact hh
          · exact hhid x hx⟩
    · rintro ⟨n, hat, hf, hhid⟩
      generalize hq : name :: rel = q at hat
      cases hat with
      | last hm =>
        obtain ⟨rfl, rfl⟩ := List.cons.inj hq
        have hh := hhid name (by simp)
        rcases hf with ⟨b, rfl⟩ | ⟨b, rfl⟩
        · exact .file hm hh
        · exact .linkFile hm hh
      | step hm hd hat' =>
        obtain ⟨rfl, rfl⟩ := List.cons.inj hq
        have hh := hhid name (by simp)
        have hs := (ih _).mpr ⟨n, hat', hf, fun x hx => hhid x (List.mem_cons_of_mem _ hx)⟩
        rcases hd with rfl | rfl
        · exact .dir hm hh hs
        · exact .linkDir hm hh hs

/-- an `override` means the own source is not consulted: the attribution is the same whatever the
    file (or its sibling) holds and whether or not it is binary -/
theorem infos_of_override {p : List String} (h : hasOverride (chainOf c g p) = true) :
    (fileOf c g tree p).infos = reuseInfoOf (chainOf c g p) emptyOwn := by
  simp [fileOf, reuseInfoOf, assemble, override_isEmpty, h]

/-- a run that ends with a report is `Model.generate` on the abstract project of the composed model -/
theorem lintE2E_ok {files : List EFile} {r : Report} (h : lintE2E tbl c tree = .ok files r) :
    ∃ g, globalOf c tree = some g ∧ generate tbl (projectOf c g tree) = some r ∧ files = filesOf c g tree := by
  unfold lintE2E at h
  cases hg : globalOf c tree with
  | none => simp [hg] at h
  | some g =>
    simp only [hg] at h
    cases hr : generate tbl (projectOf c g tree) with
    | none => simp [hr] at h
    | some r' =>
      simp only [hr, E2EOut.ok.injEq] at h
      exact ⟨g, rfl, by rw [hr, h.2], h.1.symm⟩

theorem usedBy_iff_tree (k q : Text) :
    UsedBy (projectOf c g tree).files k q ↔ ∃ p, UsedByT c g tree k p ∧ q = relText p := by
  unfold UsedBy UsedByT
  constructor
  · rintro ⟨f, hf, hr, rfl, e, he, hk⟩
    obtain ⟨p, hp, rfl⟩ := mem_projectFiles.mp hf
    obtain ⟨it, hit, hkind, rfl⟩ := mem_exprs_iff.mp he
    exact ⟨p, ⟨hp, (readable_iff p).mp hr, it, (items_iff p it).mp hit, hkind, hk⟩, rfl⟩
  · rintro ⟨p, ⟨hp, hr, it, hit, hkind, hk⟩, rfl⟩
    exact ⟨_, mem_projectFiles.mpr ⟨p, hp, rfl⟩, (readable_iff p).mpr hr, rfl, _,
      mem_exprs_iff.mpr ⟨it, (items_iff p it).mpr hit, hkind, rfl⟩, hk⟩

/-- the hypothesis `NoEmptyNotice` can be read off the model's output -/
theorem noEmptyNotice_of_B (h : noEmptyNoticeB (filesOf c g tree) = true) : NoEmptyNotice c g tree := by
  intro p it hp hit hk
  cases hv : isBlankStr it.value
  · rfl
  simp only [noEmptyNoticeB, List.all_eq_true] at h
  have hf : fileOf c g tree p ∈ filesOf c g tree := by
    simp only [filesOf, coveredFiles, List.mem_map]
    exact ⟨p, (C03.C03_walk _ _ _ _).mpr hp, rfl⟩
  have := h _ hf it ((items_iff p it).mpr hit)
  simp [hk, hv] at this

theorem levelAt_found {tomls : List (List String)} {p : List String} {i : Nat} {ts : List TomlTable}
    (hfound : (p.take i ++ ["REUSE.toml"]) ∈ tomls) (hload : c.tomlOf (p.take i) = some ts) :
    levelAt c tomls p i = findItem (ts.map fun t => (itemMatches t.paths (relText (p.drop i)), t.toTable)) := by
  simp [levelAt, hfound, hload]

end Model
