/-
C07 (achievability of the default template) — the extraction of the commented header the default
template gives: exactly the requested licence expressions, copyright lines and contributors.
-/
import ReuseVerif.Lemmas.C07Render
import ReuseVerif.Lemmas.C07Tags
import ReuseVerif.Lemmas.ExtractEmbed
import ReuseVerif.Model.StyleTable

namespace C07A
open Py Model Spec Py.Re
open Generated (Style)

/-! ### small list facts -/

theorem mem_insertSorted {x y : Text} {l : List Text} : y ∈ insertSorted x l ↔ y = x ∨ y ∈ l := by
  induction l with
  | nil => simp [insertSorted]
  | cons a as ih =>
    simp only [insertSorted]
    split
    · simp
    · simp only [List.mem_cons, ih]
      constructor
      · rintro (h | h | h)
        · exact .inr (.inl h)
        · exact .inl h
        · exact .inr (.inr h)
      · rintro (h | h | h)
        · exact .inr (.inl h)
        · exact .inl h
        · exact .inr (.inr h)

theorem mem_sortTexts {y : Text} {l : List Text} : y ∈ sortTexts l ↔ y ∈ l := by
  induction l with
  | nil => simp [sortTexts]
  | cons a as ih =>
    have : sortTexts (a :: as) = insertSorted a (sortTexts as) := rfl
    rw [this, mem_insertSorted, ih]; simp

theorem filterMap_none_of {α β : Type} (f : α → Option β) (L : List α) (h : ∀ x ∈ L, f x = none) :
    L.filterMap f = [] := by
  induction L with
  | nil => rfl
  | cons a as ih =>
    rw [List.filterMap_cons_none (h a (by simp))]
    exact ih fun x hx => h x (by simp [hx])

theorem filterMap_map_some {α β : Type} (f : β → Option α) (g : α → β) (A : List α)
    (h : ∀ a ∈ A, f (g a) = some a) : (A.map g).filterMap f = A := by
  induction A with
  | nil => rfl
  | cons a as ih =>
    rw [List.map_cons, List.filterMap_cons_some (h a (by simp)), ih fun x hx => h x (by simp [hx])]

/-- `splitlines()` of joined break-free lines, as far as a per-line reader that finds nothing in an
    empty line is concerned -/
theorem splitLines_filterMap_join {α : Type} (f : Text → Option α) (hf : f [] = none) (P : List Text)
    (hnb : ∀ l ∈ P, C10L.NoBreak l) :
    (splitLines (join ['\n'] P)).filterMap f = P.filterMap f := by
  rcases List.eq_nil_or_concat P with rfl | ⟨P0, q, rfl⟩
  · rfl
  · simp only [List.concat_eq_append] at hnb ⊢
    by_cases hq : q = []
    · subst hq
      have e1 : (P0 ++ [[]]).filterMap f = P0.filterMap f := by
        rw [List.filterMap_append]; simp [hf]
      rw [e1, join_snoc]
      cases P0 with
      | nil => rfl
      | cons p ps =>
        rw [joinLines_eq_join _ (by simp)]
        have := C10L.splitLines_join (p :: ps) (by simp) (fun m hm => hnb m (List.mem_append_left _ hm)) []
        unfold splitLines
        simp only [List.append_nil] at this ⊢
        rw [this]
        simp [splitLinesAux]
    · have := C10L.splitLines_join_end (P0 ++ [q]) hnb (by simpa using hq) (by simp)
      unfold splitLines
      rw [this]

/-! ### the tag reader on a header: free lines, the value lines, free lines -/

theorem filterMap_free (F : List Text) : (F.map TLine.free).filterMap (·.value) = [] := by
  induction F with
  | nil => rfl
  | cons a as ih =>
    rw [List.map_cons, List.filterMap_cons_none (by rfl)]; exact ih

theorem filterMap_val (pre : Text) (V : List Text) : (V.map (TLine.val pre)).filterMap (·.value) = V := by
  induction V with
  | nil => rfl
  | cons a as ih =>
    rw [List.map_cons, List.filterMap_cons_some (b := a) (by rfl), ih]

theorem findTag_sandwich (endRe : Re) (tag : Text) (hnl : '\n' ∉ tag)
    (hnil : Matches endRe []) (hcs : canStart endRe '\n' = false) (hnull : nullable endRe = true)
    (pre : Text) (F1 V F2 : List Text)
    (h1 : ∀ l ∈ F1, tagFreeLine tag l = true) (h2 : ∀ l ∈ F2, tagFreeLine tag l = true)
    (hV : ∀ v ∈ V, (TLine.val pre v).ok endRe tag) :
    findSpdxTagWith endRe tag (join ['\n'] (F1 ++ V.map (fun v => pre ++ tag ++ ' ' :: v) ++ F2)) = V := by
  have e : (F1.map TLine.free ++ V.map (TLine.val pre) ++ F2.map TLine.free).map (·.text tag) =
      F1 ++ V.map (fun v => pre ++ tag ++ ' ' :: v) ++ F2 := by
    simp [List.map_append, List.map_map, Function.comp_def]
  rw [← e, findTag_join endRe tag hnl hnil hcs hnull]
  · rw [List.filterMap_append, List.filterMap_append, filterMap_free, filterMap_val, filterMap_free]
    simp
  · intro l hl
    simp only [List.mem_append, List.mem_map] at hl
    rcases hl with (⟨x, hx, rfl⟩ | ⟨v, hv, rfl⟩) | ⟨x, hx, rfl⟩
    · exact h1 x hx
    · exact hV v hv
    · exact h2 x hx

/-! ### what the style condition gives -/

structure StyleFacts (s : Style) (m : LineMode) : Prop where
  preQuiet : quiet (linePrefix s m) = true
  preNB : C10L.NoBreak (linePrefix s m)
  emptyQuiet : quiet (emptyLine s m) = true
  emptyNB : C10L.NoBreak (emptyLine s m)
  frame : ∀ l ∈ openLines s m ++ closeLines s m, quiet l = true ∧ C10L.NoBreak l ∧ l ≠ []
  endNB : m = .multi → NoNL s.mEnd

theorem styleFacts {s : Style} {m : LineMode} (h : styleReadable s m = true) : StyleFacts s m := by
  unfold styleReadable at h
  simp only [Bool.and_eq_true, List.all_eq_true, Bool.or_eq_true, Bool.not_eq_true', bne_iff_ne, ne_eq] at h
  obtain ⟨⟨⟨⟨⟨h1, h2⟩, h3⟩, h4⟩, h5⟩, h6⟩ := h
  refine ⟨h1, noBreak_of_B h2, h3, noBreak_of_B h4, ?_, ?_⟩
  · intro l hl
    obtain ⟨⟨a, b⟩, c⟩ := h5 l hl
    exact ⟨a, noBreak_of_B b, by intro e; rw [e] at c; cases c⟩
  · intro hm
    rcases h6 with h6 | h6
    · exact absurd hm h6
    · exact noNL_of_noBreak (noBreak_of_B h6)

theorem quiet_noticeless (endRe : Re) (a : Text) (hq : quiet a = true) :
    (searchLineWith endRe a).map (fun m => strip m.whole) = none := by
  rw [searchLine_quiet endRe a hq]; rfl

theorem quiet_ignoreless (a : Text) (hq : quiet a = true) : findSub Generated.ignoreStart a = none :=
  findSub_quiet loudLits _ mem_loud_ignore (by decide) a hq

/-- both tags begin with `SPDX-` -/
def IsSpdxTag (tag : Text) : Prop := ∃ x, tag = "SPDX-".toList ++ x

theorem licTag_spdx : IsSpdxTag Generated.licenseTag := ⟨"License-Identifier:".toList, by decide⟩
theorem conTag_spdx : IsSpdxTag Generated.contributorTag := ⟨"FileContributor:".toList, by decide⟩

theorem quiet_tagFree {tag : Text} (ht : IsSpdxTag tag) (a : Text) (hq : quiet a = true) (hnb : C10L.NoBreak a) :
    tagFreeLine tag a = true := by
  obtain ⟨x, rfl⟩ := ht
  exact tagFree_quiet loudLits _ x mem_loud_spdx a hq (noNewline_of_noBreak hnb)

theorem quiet_noEarlier {tag : Text} (ht : IsSpdxTag tag) (a rest : Text) (hq : quiet a = true) :
    noEarlierTag tag a rest = true := by
  obtain ⟨x, rfl⟩ := ht
  exact noEarlierTag_quiet loudLits _ x mem_loud_spdx a rest hq

/-! ### the physical line of a rendered line -/

section phys
variable {s : Style} {m : LineMode} (sf : StyleFacts s m)
include sf

theorem phys_tagFree {tag : Text} (ht : IsSpdxTag tag) (l : Text) (h : l = [] ∨ tagFreeLine tag l = true) :
    tagFreeLine tag (physLine s m l) = true := by
  by_cases hl : l = []
  · subst hl
    rw [physLine_nil]
    exact quiet_tagFree ht _ sf.emptyQuiet sf.emptyNB
  · rw [physLine_ne hl]
    obtain ⟨x, rfl⟩ := ht
    exact tagFree_quiet_append loudLits _ x mem_loud_spdx _ l sf.preQuiet (noNewline_of_noBreak sf.preNB)
      (h.resolve_left hl)

theorem phys_noBreak (l : Text) (h : C10L.NoBreak l) : C10L.NoBreak (physLine s m l) := by
  by_cases hl : l = []
  · subst hl; rw [physLine_nil]; exact sf.emptyNB
  · rw [physLine_ne hl]; exact C10L.noBreak_append sf.preNB h

theorem phys_ignoreless (l : Text) (h : findSub Generated.ignoreStart l = none) :
    findSub Generated.ignoreStart (physLine s m l) = none := by
  by_cases hl : l = []
  · subst hl; rw [physLine_nil]; exact quiet_ignoreless _ sf.emptyQuiet
  · rw [physLine_ne hl]
    exact findSub_quiet_append loudLits _ mem_loud_ignore _ l sf.preQuiet h

theorem phys_notice (endRe : Re) (l : Text) :
    (searchLineWith endRe (physLine s m l)).map (fun x => strip x.whole) =
      (searchLineWith endRe l).map (fun x => strip x.whole) := by
  by_cases hl : l = []
  · subst hl
    rw [physLine_nil, quiet_noticeless endRe _ sf.emptyQuiet, searchLine_quiet endRe [] rfl]; rfl
  · rw [physLine_ne hl, searchLine_quiet_append endRe _ l sf.preQuiet]

end phys

/-! ### the request, line by line -/

theorem calm_elim {s : Style} {m : LineMode} {l : Text} (h : calmLine s m l = true) :
    C10L.NoBreak l ∧ findSub Generated.ignoreStart l = none ∧ (m = .multi → contains l s.mEnd = false) := by
  unfold calmLine at h
  simp only [Bool.and_eq_true, Option.isNone_iff_eq_none, Bool.or_eq_true, bne_iff_ne, ne_eq,
    Bool.not_eq_true'] at h
  refine ⟨noBreak_of_B h.1.1, h.1.2, fun hm => ?_⟩
  rcases h.2 with h2 | h2
  · exact absurd hm h2
  · exact h2

theorem noBreak_suffix {a b : Text} (h : C10L.NoBreak (a ++ b)) : C10L.NoBreak b :=
  fun ch hch => h ch (List.mem_append_right _ hch)

theorem noticeSelf_ne {endRe : Re} {l : Text} (h : noticeSelf endRe l = true) : l ≠ [] := by
  intro e
  subst e
  unfold noticeSelf at h
  rw [searchLine_quiet endRe [] rfl] at h
  cases h

theorem noticeSelf_eq {endRe : Re} {l : Text} (h : noticeSelf endRe l = true) :
    (searchLineWith endRe l).map (fun x => strip x.whole) = some l := by
  unfold noticeSelf at h
  simpa using h

/-- the hypotheses of a copyright line / of a value line of tag `tag` whose other tag is `other` -/
def CprOK (endRe : Re) (s : Style) (m : LineMode) (l : Text) : Prop :=
  noticeSelf endRe l = true ∧ tagFreeLine Generated.licenseTag l = true ∧
    tagFreeLine Generated.contributorTag l = true ∧ calmLine s m l = true

def ValOK (endRe : Re) (s : Style) (m : LineMode) (tag other : Text) (v : Text) : Prop :=
  wfTagValue endRe (linePrefix s m) v = true ∧ tagFreeLine other (tag ++ ' ' :: v) = true ∧
    noticeFree endRe (tag ++ ' ' :: v) = true ∧ calmLine s m (tag ++ ' ' :: v) = true

theorem valOK_tline {endRe : Re} {s : Style} {m : LineMode} (sf : StyleFacts s m) {tag other v : Text}
    (ht : IsSpdxTag tag) (h : ValOK endRe s m tag other v) : (TLine.val (linePrefix s m) v).ok endRe tag := by
  obtain ⟨hw, _, _, hc⟩ := h
  unfold wfTagValue at hw
  simp only [Bool.and_eq_true, Bool.not_eq_true'] at hw
  obtain ⟨⟨⟨hne, hs⟩, hsafe⟩, hff⟩ := hw
  have hnb : C10L.NoBreak v := by
    have := (calm_elim hc).1
    have e : tag ++ ' ' :: v = (tag ++ [' ']) ++ v := by simp
    rw [e] at this
    exact noBreak_suffix this
  exact ⟨noNewline_of_noBreak sf.preNB, fun rest => quiet_noEarlier ht _ rest sf.preQuiet,
    (by intro e; rw [e] at hne; cases hne), noNewline_of_noBreak hnb, hs, hsafe, hff⟩

theorem physLine_val (s : Style) (m : LineMode) (tag v : Text) :
    physLine s m (tag ++ ' ' :: v) = linePrefix s m ++ tag ++ ' ' :: v := by
  rw [physLine_ne (by simp), List.append_assoc]

/-! ### the extraction of the header -/

/-- the rendered lines -/
def bodyLines (A C L : List Text) : List Text :=
  (A ++ C.map conLine) ++ gap (A ++ C.map conLine) (L.map licLine) ++ L.map licLine

/-- the hypotheses on the three lists of a request -/
structure ReqOK (endRe : Re) (s : Style) (m : LineMode) (A C L : List Text) : Prop where
  hA : ∀ l ∈ A, CprOK endRe s m l
  hC : ∀ v ∈ C, ValOK endRe s m Generated.contributorTag Generated.licenseTag v
  hL : ∀ v ∈ L, ValOK endRe s m Generated.licenseTag Generated.contributorTag v

/-- every rendered line is empty, or calm and not empty -/
theorem body_calm {endRe : Re} {s : Style} {m : LineMode} {A C L : List Text} (rq : ReqOK endRe s m A C L) :
    ∀ l ∈ bodyLines A C L, l = [] ∨ (l ≠ [] ∧ calmLine s m l = true) := by
  intro l hl
  simp only [bodyLines, List.mem_append, List.mem_map] at hl
  rcases hl with ((hl | ⟨v, hv, rfl⟩) | hl) | ⟨v, hv, rfl⟩
  · exact .inr ⟨noticeSelf_ne (rq.hA l hl).1, (rq.hA l hl).2.2.2⟩
  · exact .inr ⟨by simp [conLine], (rq.hC v hv).2.2.2⟩
  · exact .inl (gap_mem hl)
  · exact .inr ⟨by simp [licLine], (rq.hL v hv).2.2.2⟩

theorem header_noBreak {endRe : Re} {s : Style} {m : LineMode} {A C L : List Text} (sf : StyleFacts s m)
    (rq : ReqOK endRe s m A C L) : ∀ p ∈ headerLines s m (bodyLines A C L), C10L.NoBreak p := by
  intro p hp
  simp only [headerLines, List.mem_append, List.mem_map] at hp
  rcases hp with (hp | ⟨l, hl, rfl⟩) | hp
  · exact (sf.frame p (List.mem_append_left _ hp)).2.1
  · apply phys_noBreak sf
    rcases body_calm rq l hl with rfl | ⟨_, hc⟩
    · intro ch hch; cases hch
    · exact (calm_elim hc).1
  · exact (sf.frame p (List.mem_append_right _ hp)).2.1

theorem header_ignoreless {endRe : Re} {s : Style} {m : LineMode} {A C L : List Text} (sf : StyleFacts s m)
    (rq : ReqOK endRe s m A C L) :
    findSub Generated.ignoreStart (join ['\n'] (headerLines s m (bodyLines A C L))) = none := by
  apply findSub_join_none _ (by decide) (by decide)
  intro p hp
  simp only [headerLines, List.mem_append, List.mem_map] at hp
  rcases hp with (hp | ⟨l, hl, rfl⟩) | hp
  · exact quiet_ignoreless p (sf.frame p (List.mem_append_left _ hp)).1
  · apply phys_ignoreless sf
    rcases body_calm rq l hl with rfl | ⟨_, hc⟩
    · rfl
    · exact (calm_elim hc).2.1
  · exact quiet_ignoreless p (sf.frame p (List.mem_append_right _ hp)).1

theorem header_lic_shape (endRe : Re) {s : Style} {m : LineMode} {A C L : List Text} (sf : StyleFacts s m)
    (rq : ReqOK endRe s m A C L) :
    ∃ F1 F2, headerLines s m (bodyLines A C L) =
        F1 ++ L.map (fun v => linePrefix s m ++ Generated.licenseTag ++ ' ' :: v) ++ F2 ∧
      (∀ l ∈ F1, tagFreeLine Generated.licenseTag l = true) ∧ (∀ l ∈ F2, tagFreeLine Generated.licenseTag l = true) ∧
      (∀ v ∈ L, (TLine.val (linePrefix s m) v).ok endRe Generated.licenseTag) := by
  have e : headerLines s m (bodyLines A C L) =
      (openLines s m ++ ((A ++ C.map conLine) ++ gap (A ++ C.map conLine) (L.map licLine)).map (physLine s m)) ++
        L.map (fun v => linePrefix s m ++ Generated.licenseTag ++ ' ' :: v) ++ closeLines s m := by
    have e1 : (L.map licLine).map (physLine s m) =
        L.map (fun v => linePrefix s m ++ Generated.licenseTag ++ ' ' :: v) := by
      rw [List.map_map]
      apply List.map_congr_left
      intro v _
      exact physLine_val s m Generated.licenseTag v
    simp only [headerLines, bodyLines, List.map_append, e1, List.append_assoc]
  refine ⟨_, _, e, ?_, ?_, ?_⟩
  · intro p hp
    rcases List.mem_append.mp hp with hp | hp
    · exact quiet_tagFree licTag_spdx p (sf.frame p (List.mem_append_left _ hp)).1
        (sf.frame p (List.mem_append_left _ hp)).2.1
    · obtain ⟨l, hl, rfl⟩ := List.mem_map.mp hp
      apply phys_tagFree sf licTag_spdx
      simp only [List.mem_append, List.mem_map] at hl
      rcases hl with (hl | ⟨v, hv, rfl⟩) | hl
      · exact .inr (rq.hA l hl).2.1
      · exact .inr (rq.hC v hv).2.1
      · exact .inl (gap_mem hl)
  · intro p hp
    exact quiet_tagFree licTag_spdx p (sf.frame p (List.mem_append_right _ hp)).1
      (sf.frame p (List.mem_append_right _ hp)).2.1
  · intro v hv
    exact valOK_tline sf licTag_spdx (rq.hL v hv)


theorem header_lic (endRe : Re) (hnil : Matches endRe []) (hcs : canStart endRe '\n' = false)
    (hnull : nullable endRe = true) {s : Style} {m : LineMode} {A C L : List Text} (sf : StyleFacts s m)
    (rq : ReqOK endRe s m A C L) :
    findSpdxTagWith endRe Generated.licenseTag (join ['\n'] (headerLines s m (bodyLines A C L))) = L := by
  obtain ⟨F1, F2, e, h1, h2, hV⟩ := header_lic_shape endRe sf rq
  rw [e]
  exact findTag_sandwich endRe _ (by decide) hnil hcs hnull _ F1 L F2 h1 h2 hV

theorem header_con_shape (endRe : Re) {s : Style} {m : LineMode} {A C L : List Text} (sf : StyleFacts s m)
    (rq : ReqOK endRe s m A C L) :
    ∃ F1 F2, headerLines s m (bodyLines A C L) =
        F1 ++ C.map (fun v => linePrefix s m ++ Generated.contributorTag ++ ' ' :: v) ++ F2 ∧
      (∀ l ∈ F1, tagFreeLine Generated.contributorTag l = true) ∧ (∀ l ∈ F2, tagFreeLine Generated.contributorTag l = true) ∧
      (∀ v ∈ C, (TLine.val (linePrefix s m) v).ok endRe Generated.contributorTag) := by
  have e : headerLines s m (bodyLines A C L) =
      (openLines s m ++ A.map (physLine s m)) ++
        C.map (fun v => linePrefix s m ++ Generated.contributorTag ++ ' ' :: v) ++
        ((gap (A ++ C.map conLine) (L.map licLine) ++ L.map licLine).map (physLine s m) ++ closeLines s m) := by
    have e1 : (C.map conLine).map (physLine s m) =
        C.map (fun v => linePrefix s m ++ Generated.contributorTag ++ ' ' :: v) := by
      rw [List.map_map]
      apply List.map_congr_left
      intro v _
      exact physLine_val s m Generated.contributorTag v
    simp only [headerLines, bodyLines, List.map_append, e1, List.append_assoc]
  refine ⟨_, _, e, ?_, ?_, ?_⟩
  · intro p hp
    rcases List.mem_append.mp hp with hp | hp
    · exact quiet_tagFree conTag_spdx p (sf.frame p (List.mem_append_left _ hp)).1
        (sf.frame p (List.mem_append_left _ hp)).2.1
    · obtain ⟨l, hl, rfl⟩ := List.mem_map.mp hp
      exact phys_tagFree sf conTag_spdx l (.inr (rq.hA l hl).2.2.1)
  · intro p hp
    rcases List.mem_append.mp hp with hp | hp
    · obtain ⟨l, hl, rfl⟩ := List.mem_map.mp hp
      apply phys_tagFree sf conTag_spdx
      simp only [List.mem_append, List.mem_map] at hl
      rcases hl with hl | ⟨v, hv, rfl⟩
      · exact .inl (gap_mem hl)
      · exact .inr (rq.hL v hv).2.1
    · exact quiet_tagFree conTag_spdx p (sf.frame p (List.mem_append_right _ hp)).1
        (sf.frame p (List.mem_append_right _ hp)).2.1
  · intro v hv
    exact valOK_tline sf conTag_spdx (rq.hC v hv)


theorem header_con (endRe : Re) (hnil : Matches endRe []) (hcs : canStart endRe '\n' = false)
    (hnull : nullable endRe = true) {s : Style} {m : LineMode} {A C L : List Text} (sf : StyleFacts s m)
    (rq : ReqOK endRe s m A C L) :
    findSpdxTagWith endRe Generated.contributorTag (join ['\n'] (headerLines s m (bodyLines A C L))) = C := by
  obtain ⟨F1, F2, e, h1, h2, hV⟩ := header_con_shape endRe sf rq
  rw [e]
  exact findTag_sandwich endRe _ (by decide) hnil hcs hnull _ F1 C F2 h1 h2 hV

/-- the per-line reader of copyright notices -/
def cprOf (endRe : Re) (l : Text) : Option Text := (searchLineWith endRe l).map fun x => strip x.whole

theorem header_cpr (endRe : Re) {s : Style} {m : LineMode} {A C L : List Text} (sf : StyleFacts s m)
    (rq : ReqOK endRe s m A C L) :
    (splitLines (join ['\n'] (headerLines s m (bodyLines A C L)))).filterMap (cprOf endRe) = A := by
  rw [splitLines_filterMap_join (cprOf endRe) (by unfold cprOf; rw [searchLine_quiet endRe [] rfl]; rfl) _
    (header_noBreak sf rq)]
  have e : headerLines s m (bodyLines A C L) =
      openLines s m ++ (A.map (physLine s m) ++
        ((C.map conLine ++ (gap (A ++ C.map conLine) (L.map licLine) ++ L.map licLine)).map (physLine s m) ++
          closeLines s m)) := by
    simp only [headerLines, bodyLines, List.map_append, List.append_assoc]
  rw [e, List.filterMap_append, List.filterMap_append, List.filterMap_append]
  rw [filterMap_none_of (cprOf endRe) (openLines s m) (fun p hp =>
      quiet_noticeless endRe p (sf.frame p (List.mem_append_left _ hp)).1),
    filterMap_none_of (cprOf endRe) (closeLines s m) (fun p hp =>
      quiet_noticeless endRe p (sf.frame p (List.mem_append_right _ hp)).1),
    filterMap_map_some (cprOf endRe) (physLine s m) A (fun a ha => by
      unfold cprOf
      rw [phys_notice sf endRe a]; exact noticeSelf_eq (rq.hA a ha).1),
    filterMap_none_of (cprOf endRe) _ (fun p hp => by
      obtain ⟨l, hl, rfl⟩ := List.mem_map.mp hp
      unfold cprOf
      rw [phys_notice sf endRe l]
      simp only [List.mem_map, List.mem_append] at hl
      rcases hl with ⟨v, hv, rfl⟩ | hl | ⟨v, hv, rfl⟩
      · have := (rq.hC v hv).2.2.1
        unfold noticeFree at this
        rw [Option.isNone_iff_eq_none] at this
        rw [conLine, this]; rfl
      · rw [gap_mem hl, searchLine_quiet endRe [] rfl]; rfl
      · have := (rq.hL v hv).2.2.1
        unfold noticeFree at this
        rw [Option.isNone_iff_eq_none] at this
        rw [licLine, this]; rfl)]
  simp

/-- **The extraction of the commented default header**: exactly what was requested. -/
theorem extract_header (endRe : Re) (hnil : Matches endRe []) (hcs : canStart endRe '\n' = false)
    (hnull : nullable endRe = true) {s : Style} {m : LineMode} {A C L : List Text} (sf : StyleFacts s m)
    (rq : ReqOK endRe s m A C L) :
    extractRawWith endRe (join ['\n'] (headerLines s m (bodyLines A C L))) = ⟨dedup L, dedup A, dedup C⟩ := by
  unfold extractRawWith
  simp only [filterIgnore_id (header_ignoreless sf rq)]
  rw [header_lic endRe hnil hcs hnull sf rq, header_con endRe hnil hcs hnull sf rq]
  -- every requested licence value is non-empty (`wfTagValue`): the filter of empty values keeps them all
  have hfil : (dedup L).filter (fun v => !v.isEmpty) = dedup L := by
    apply List.filter_eq_self.mpr
    intro v hv
    have hw := (rq.hL v (mem_dedup.mp hv)).1
    unfold wfTagValue at hw
    simp only [Bool.and_eq_true] at hw
    exact hw.1.1.1
  rw [hfil]
  have := header_cpr endRe sf rq
  unfold cprOf at this
  rw [this]

/-! ### `_create_new_header` with the default template succeeds -/

theorem ends_header {s : Style} {m : LineMode} {fm : Bool} (hm : lineMode s fm = some m) (sf : StyleFacts s m)
    (M : List Text) (hM : M ≠ []) (hE : Ends M) : Ends (headerLines s m M) := by
  cases m with
  | plain =>
    have : M.map (physLine s .plain) = M := by
      rw [List.map_congr_left (fun l _ => physLine_plain s l)]; simp
    simpa [headerLines, openLines, closeLines, this] using hE
  | single =>
    obtain ⟨_, _, hc⟩ := lineMode_single hm
    have hs : s.single ≠ [] := by
      intro h0; simp [Generated.Style.canSingle, h0] at hc
    have hne : ∀ l, physLine s .single l ≠ [] := by
      intro l
      cases l with
      | nil => simpa [physLine, emptyLine] using hs
      | cons c cs => simp [physLine, linePrefix]
    right
    obtain ⟨a, as, rfl⟩ := List.exists_cons_of_ne_nil hM
    obtain ⟨q, hq⟩ : ∃ q, (a :: as).getLast? = some q := ⟨_, List.getLast?_eq_some_getLast (by simp)⟩
    refine ⟨⟨physLine s .single a, by simp [headerLines, openLines, closeLines], hne a⟩,
      ⟨physLine s .single q, ?_, hne q⟩⟩
    simp only [headerLines, openLines, closeLines, List.nil_append, List.append_nil]
    rw [List.getLast?_map, hq]; rfl
  | multi =>
    right
    have h1 := sf.frame s.mStart (by simp [openLines])
    have h2 := sf.frame (s.indentBeforeEnd ++ s.mEnd) (by simp [closeLines])
    refine ⟨⟨s.mStart, by simp [headerLines, openLines], h1.2.2⟩, ⟨s.indentBeforeEnd ++ s.mEnd, ?_, h2.2.2⟩⟩
    simp [headerLines, closeLines, List.getLast?_append]

theorem reqOK_of_wfRequest {endRe : Re} {s : Style} {m : LineMode} {info : Extracted}
    (h : wfRequest endRe s m info = true) :
    ReqOK endRe s m (sortTexts info.cpr) (sortTexts info.con) (sortTexts info.lic) := by
  unfold wfRequest at h
  simp only [Bool.and_eq_true, List.all_eq_true] at h
  obtain ⟨⟨h1, h2⟩, h3⟩ := h
  refine ⟨fun l hl => ?_, fun v hv => ?_, fun v hv => ?_⟩
  · obtain ⟨⟨⟨a, b⟩, c⟩, d⟩ := h1 l (mem_sortTexts.mp hl)
    exact ⟨a, b, c, d⟩
  · obtain ⟨⟨⟨a, b⟩, c⟩, d⟩ := h2 v (mem_sortTexts.mp hv)
    exact ⟨a, b, c, d⟩
  · obtain ⟨⟨⟨a, b⟩, c⟩, d⟩ := h3 v (mem_sortTexts.mp hv)
    exact ⟨a, b, c, d⟩

/-- what `_create_new_header` renders and comments for the default template: the header lines -/
theorem renderedHeader_default {endRe : Re} (c : HdrCfg) (info : Extracted) (m : LineMode)
    (hr : c.render = defaultRender) (hc : c.commented = false)
    (hm : lineMode c.style c.forceMulti = some m) (sf : StyleFacts c.style m)
    (rq : ReqOK endRe c.style m (sortTexts info.cpr) (sortTexts info.con) (sortTexts info.lic)) :
    renderedHeader c info = .ok (join ['\n'] (headerLines c.style m
      (bodyLines (sortTexts info.cpr) (sortTexts info.con) (sortTexts info.lic)))) := by
  generalize hA : sortTexts info.cpr = A at rq ⊢
  generalize hC : sortTexts info.con = C at rq ⊢
  generalize hL : sortTexts info.lic = L at rq ⊢
  have hcalm := body_calm rq
  have hX : ∀ l ∈ A ++ C.map conLine, l ≠ [] ∧ NoNL l := by
    intro l hl
    have : l ∈ bodyLines A C L := by
      unfold bodyLines; exact List.mem_append_left _ (List.mem_append_left _ hl)
    simp only [List.mem_append, List.mem_map] at hl
    have hne : l ≠ [] := by
      rcases hl with hl | ⟨v, _, rfl⟩
      · exact noticeSelf_ne (rq.hA l hl).1
      · simp [conLine]
    rcases hcalm l this with h0 | ⟨_, hcl⟩
    · exact absurd h0 hne
    · exact ⟨hne, noNL_of_noBreak (calm_elim hcl).1⟩
  have hY : ∀ l ∈ L.map licLine, l ≠ [] ∧ NoNL l := by
    intro l hl
    have : l ∈ bodyLines A C L := by
      unfold bodyLines; exact List.mem_append_right _ hl
    obtain ⟨v, _, rfl⟩ := List.mem_map.mp hl
    rcases hcalm _ this with h0 | ⟨hne, hcl⟩
    · simp [licLine] at h0
    · exact ⟨hne, noNL_of_noBreak (calm_elim hcl).1⟩
  have hrender : stripChars ['\n'] (c.render ⟨A, C, L⟩) = join ['\n'] (bodyLines A C L) := by
    rw [hr, defaultRender_eq]
    exact strip_render _ _ hX hY
  have hnlBody : ∀ l ∈ bodyLines A C L, NoNL l := by
    intro l hl
    rcases hcalm l hl with rfl | ⟨_, hcl⟩
    · intro h; cases h
    · exact noNL_of_noBreak (calm_elim hcl).1
  have hcomment := createComment_lines c.style c.forceMulti m hm (bodyLines A C L) (lines_ne_nil _ _) hnlBody
    sf.endNB (fun hmm l hl => by
      rcases hcalm l hl with rfl | ⟨_, hcl⟩
      · subst hmm
        obtain ⟨_, _, hcm⟩ := lineMode_multi hm
        have hne : c.style.mEnd ≠ [] := by
          intro h0; simp [Generated.Style.canMulti, h0] at hcm
        obtain ⟨e, es, he⟩ := List.exists_cons_of_ne_nil hne
        simp [contains, findSub, he]
      · exact (calm_elim hcl).2.2 hmm)
  unfold renderedHeader
  simp only [hc, Bool.false_eq_true, if_false, hA, hC, hL, hrender, hcomment]
  have hE : Ends (headerLines c.style m (bodyLines A C L)) :=
    ends_header hm sf _ (lines_ne_nil _ _) (ends_gap _ _ (fun l hl => (hX l hl).1) (fun l hl => (hY l hl).1))
  rw [stripLF_join_ends _ hE (fun l hl => noNL_of_noBreak (header_noBreak sf rq l hl))]

/-! ### naming a style of the table (for examples) -/

/-- the style of the generated table with the given class name (an empty record when there is none) -/
def styleNamed (n : String) : Style :=
  (styleByName n).getD ⟨"", "", [], none, [], [], [], [], [], [], [], []⟩

theorem styleNamed_mem (n : String) (h : (styleByName n).isSome = true) : styleNamed n ∈ Generated.styles := by
  obtain ⟨s, hs⟩ := Option.isSome_iff_exists.mp h
  unfold styleNamed
  rw [hs]
  unfold styleByName at hs
  exact List.mem_of_find?_eq_some hs

end C07A
