/-
Helper lemmas for C19 (`reuse download`): the association-list file system, one
step (`putLicense`), the loop.
-/
import ReuseVerif.Model.Download
import ReuseVerif.Spec.Download

namespace Model.Download
open Py

theorem Fs.get_set (fs : Fs) (p q : Path) (n : Node) :
    (fs.set p n).get q = if q = p then some n else fs.get q := by
  unfold Fs.set Fs.get
  rw [List.lookup_cons]
  by_cases h : q = p
  · simp [h]
  · have : (q == p) = false := by simpa using h
    simp [this, h]

theorem mem_dedup (x : Text) (l : List Text) : x ∈ dedup l ↔ x ∈ l := by
  induction l with
  | nil => simp [dedup]
  | cons y ys ih =>
    simp only [dedup, List.mem_cons, List.mem_filter, ih]
    by_cases h : x = y <;> simp [h]

theorem nodup_dedup (l : List Text) : (dedup l).Nodup := by
  induction l with
  | nil => simp [dedup]
  | cons y ys ih =>
    simp only [dedup, List.nodup_cons, List.mem_filter]
    exact ⟨by simp, ih.filter _⟩

theorem dropLast_eq_self {α} (l : List α) (h : l.dropLast = l) : l = [] := by
  have := congrArg List.length h
  cases l with
  | nil => rfl
  | cons a t => simp at this

/-- What `mkdir(exist_ok=True)` of the parent does when it succeeds. -/
theorem mkdirParent_ok {fs fs1 : Fs} {dest : Path} (h : mkdirParent fs dest = .ok fs1) :
    (fs1 = fs ∧ fs.get dest.dropLast = some .dir) ∨
    (fs1 = fs.set dest.dropLast .dir ∧ fs.get dest.dropLast = none ∧
      fs.get dest.dropLast.dropLast = some .dir) := by
  unfold mkdirParent at h
  split at h
  · left; cases h; simp_all
  · cases h
  · split at h
    · right; cases h; simp_all
    · cases h

theorem mkdirParent_error {fs : Fs} {dest : Path} {e : Outcome} (h : mkdirParent fs dest = .error e) :
    e ≠ .ok := by
  unfold mkdirParent at h
  split at h
  · cases h
  · cases h; simp
  · split at h
    · cases h
    · cases h; simp

/-- After the `mkdir`: either nothing changes and the outcome is a failure, or the
    destination was absent and now holds a regular file. -/
theorem putAt_cases (fetch : Text → Option Text) (fs1 : Fs) (src : Option Path) (id : Text) (dest : Path) :
    ((putAt fetch fs1 src id dest).fs = fs1 ∧ (putAt fetch fs1 src id dest).outcome ≠ .ok) ∨
    (fs1.get dest = none ∧ (putAt fetch fs1 src id dest).outcome = .ok ∧
      ∃ t, (putAt fetch fs1 src id dest).fs = fs1.set dest (.file t)) := by
  unfold putAt
  split
  · left; simp
  · split
    · split
      · right; exact ⟨by assumption, rfl, _, rfl⟩
      · split
        · right; exact ⟨by assumption, rfl, _, rfl⟩
        · left; simp
    · split
      · left; simp
      · right; exact ⟨by assumption, rfl, _, rfl⟩

/-- One step, as two optional writes: the parent directory (only where nothing was, below a
    directory) and the destination (only where nothing was, only on success). -/
theorem putLicense_cases (fetch : Text → Option Text) (fs : Fs) (src : Option Path) (id : Text)
    (dest : Path) :
    ∃ fs1, (fs1 = fs ∨ (fs1 = fs.set dest.dropLast .dir ∧ fs.get dest.dropLast = none ∧
              fs.get dest.dropLast.dropLast = some .dir)) ∧
      (((putLicense fetch fs src id dest).fs = fs1 ∧ (putLicense fetch fs src id dest).outcome ≠ .ok) ∨
       (fs1.get dest = none ∧ (putLicense fetch fs src id dest).outcome = .ok ∧
          ∃ t, (putLicense fetch fs src id dest).fs = fs1.set dest (.file t))) := by
  unfold putLicense
  split
  · next e he => exact ⟨fs, .inl rfl, .inl ⟨rfl, mkdirParent_error he⟩⟩
  · next fs1 h1 =>
    refine ⟨fs1, ?_, putAt_cases fetch fs1 src id dest⟩
    rcases mkdirParent_ok h1 with ⟨h, _⟩ | ⟨h, h', h''⟩
    · exact .inl h
    · exact .inr ⟨h, h', h''⟩

/-- Nothing that exists is replaced or altered by a step. -/
theorem putLicense_preserves (fetch : Text → Option Text) (fs : Fs) (src : Option Path) (id : Text)
    (dest p : Path) (n : Node) (h : fs.get p = some n) :
    (putLicense fetch fs src id dest).fs.get p = some n := by
  obtain ⟨fs1, h1, h2⟩ := putLicense_cases fetch fs src id dest
  have e1 : fs1.get p = some n := by
    rcases h1 with rfl | ⟨rfl, hn, _⟩
    · exact h
    · rw [Fs.get_set]; split
      · next hp => subst hp; rw [hn] at h; cases h
      · exact h
  rcases h2 with ⟨hfs, _⟩ | ⟨hn, _, t, hfs⟩
  · rw [hfs]; exact e1
  · rw [hfs, Fs.get_set]; split
    · next hp => subst hp; rw [hn] at e1; cases e1
    · exact e1

/-- Where a step can create something: the destination's directory (as a directory, below an
    existing directory) and the destination (as a regular file, on success). -/
theorem putLicense_locus (fetch : Text → Option Text) (fs : Fs) (src : Option Path) (id : Text)
    (dest p : Path) :
    (putLicense fetch fs src id dest).fs.get p = fs.get p ∨
    (fs.get p = none ∧
      ((p = dest.dropLast ∧ (putLicense fetch fs src id dest).fs.get p = some .dir ∧
          fs.get dest.dropLast.dropLast = some .dir) ∨
       (p = dest ∧ (putLicense fetch fs src id dest).outcome = .ok ∧
          ∃ t, (putLicense fetch fs src id dest).fs.get p = some (.file t)))) := by
  obtain ⟨fs1, h1, h2⟩ := putLicense_cases fetch fs src id dest
  by_cases hp : fs.get p = none
  · -- p is absent: look at what the two writes do there
    rcases h2 with ⟨hfs, _⟩ | ⟨hn, hok, t, hfs⟩
    · rw [hfs]
      rcases h1 with rfl | ⟨rfl, hpar, hgp⟩
      · exact .inl rfl
      · by_cases hpp : p = dest.dropLast
        · right; exact ⟨hp, .inl ⟨hpp, by rw [Fs.get_set]; simp [hpp], hgp⟩⟩
        · left; rw [Fs.get_set]; simp [hpp]
    · rw [hfs]
      by_cases hpd : p = dest
      · right; exact ⟨hp, .inr ⟨hpd, hok, t, by rw [Fs.get_set]; simp [hpd]⟩⟩
      · rcases h1 with rfl | ⟨rfl, hpar, hgp⟩
        · left; rw [Fs.get_set]; simp [hpd]
        · by_cases hpp : p = dest.dropLast
          · right
            have hpd' : ¬ dest.dropLast = dest := fun h => hpd (hpp.trans h)
            exact ⟨hp, .inl ⟨hpp, by rw [Fs.get_set, Fs.get_set]; simp [hpp, hpd'], hgp⟩⟩
          · left; rw [Fs.get_set, Fs.get_set]; simp [hpd, hpp]
  · obtain ⟨n, hn⟩ := Option.ne_none_iff_exists'.mp hp
    left; rw [hn]; exact putLicense_preserves fetch fs src id dest p n hn

/-- Success puts a regular file at the destination. -/
theorem putLicense_ok (fetch : Text → Option Text) (fs : Fs) (src : Option Path) (id : Text)
    (dest : Path) (h : (putLicense fetch fs src id dest).outcome = .ok) :
    ∃ t, (putLicense fetch fs src id dest).fs.get dest = some (.file t) := by
  obtain ⟨fs1, _, h2⟩ := putLicense_cases fetch fs src id dest
  rcases h2 with ⟨_, hne⟩ | ⟨_, _, t, hfs⟩
  · exact absurd h hne
  · exact ⟨t, by rw [hfs, Fs.get_set]; simp⟩

/-- A failed step leaves the destination as it was. -/
theorem putLicense_failed (fetch : Text → Option Text) (fs : Fs) (src : Option Path) (id : Text)
    (dest : Path) (h : (putLicense fetch fs src id dest).outcome ≠ .ok) :
    (putLicense fetch fs src id dest).fs.get dest = fs.get dest := by
  rcases putLicense_locus fetch fs src id dest dest with h' | ⟨hn, ⟨hpar, _, hgp⟩ | ⟨_, hok, _⟩⟩
  · exact h'
  · -- the destination cannot be its own parent directory
    have : dest = [] := dropLast_eq_self dest hpar.symm
    subst this
    simp at hgp; rw [hn] at hgp; cases hgp
  · exact absurd hok h

theorem putAt_fetched (fetch : Text → Option Text) (fs1 : Fs) (src : Option Path) (id : Text)
    (dest : Path) (h : (putAt fetch fs1 src id dest).fetched = true) : isLicenseRef id = false := by
  unfold putAt at h
  split at h
  · cases h
  · split at h
    · split at h
      · cases h
      · split at h <;> cases h
    · simp_all

theorem putLicense_fetched (fetch : Text → Option Text) (fs : Fs) (src : Option Path) (id : Text)
    (dest : Path) (h : (putLicense fetch fs src id dest).fetched = true) : isLicenseRef id = false := by
  unfold putLicense at h
  split at h
  · cases h
  · exact putAt_fetched _ _ _ _ _ h

/-- The oracle is read at `id` only, and not at all for a LicenseRef-. -/
theorem putLicense_fetch_congr (f g : Text → Option Text) (fs : Fs) (src : Option Path) (id : Text)
    (dest : Path) (h : isLicenseRef id = false → f id = g id) :
    putLicense f fs src id dest = putLicense g fs src id dest := by
  unfold putLicense putAt
  split
  · rfl
  · split
    · rfl
    · split
      · rfl
      · next hr => rw [h (by simpa using hr)]

/-- Without text from the network a non-LicenseRef identifier is not supplied. -/
theorem putLicense_no_text (fetch : Text → Option Text) (fs : Fs) (src : Option Path) (id : Text)
    (dest : Path) (hr : isLicenseRef id = false) (hf : fetch id = none) :
    (putLicense fetch fs src id dest).outcome ≠ .ok := by
  unfold putLicense
  split
  · next e he => exact mkdirParent_error he
  · unfold putAt
    split
    · simp
    · simp [hr, hf]

section loop
variable (fetch : Text → Option Text) (src : Option Path) (dest : Text → Path)

theorem loop_preserves (fs : Fs) (ids : List Text) (p : Path) (n : Node) (h : fs.get p = some n) :
    (loop fetch src dest fs ids).fs.get p = some n := by
  induction ids generalizing fs with
  | nil => exact h
  | cons id rest ih =>
    simp only [loop]
    exact ih _ (putLicense_preserves fetch fs src id (dest id) p n h)

theorem loop_keys (fs : Fs) (ids : List Text) :
    (loop fetch src dest fs ids).outcomes.map (·.1) = ids := by
  induction ids generalizing fs with
  | nil => rfl
  | cons id rest ih => simp only [loop, List.map_cons, ih]

/-- Everything the loop creates: for some processed identifier, its destination's directory (as
    a directory) or — when that identifier succeeded — its destination (as a regular file). -/
theorem loop_locus (fs : Fs) (ids : List Text) (p : Path) :
    (loop fetch src dest fs ids).fs.get p = fs.get p ∨
    (fs.get p = none ∧ ∃ id ∈ ids,
      ((p = (dest id).dropLast ∧ (loop fetch src dest fs ids).fs.get p = some .dir) ∨
       (p = dest id ∧ (id, Outcome.ok) ∈ (loop fetch src dest fs ids).outcomes ∧
          ∃ t, (loop fetch src dest fs ids).fs.get p = some (.file t)))) := by
  induction ids generalizing fs with
  | nil => exact .inl rfl
  | cons id rest ih =>
    simp only [loop]
    rcases putLicense_locus fetch fs src id (dest id) p with h | ⟨hn, h⟩
    · -- this step leaves p alone
      rcases ih (putLicense fetch fs src id (dest id)).fs with h' | ⟨hn', j, hj, h'⟩
      · exact .inl (h'.trans h)
      · right
        refine ⟨h ▸ hn', j, List.mem_cons_of_mem _ hj, ?_⟩
        rcases h' with ⟨e, hd⟩ | ⟨e, ho, ht⟩
        · exact .inl ⟨e, hd⟩
        · exact .inr ⟨e, List.mem_cons_of_mem _ ho, ht⟩
    · right
      refine ⟨hn, id, List.mem_cons_self, ?_⟩
      rcases h with ⟨e, hd, _⟩ | ⟨e, hok, t, ht⟩
      · exact .inl ⟨e, loop_preserves fetch src dest _ rest p _ hd⟩
      · refine .inr ⟨e, ?_, t, loop_preserves fetch src dest _ rest p _ ht⟩
        rw [← hok]; exact List.mem_cons_self

theorem loop_ok_file (fs : Fs) (ids : List Text) (id : Text)
    (h : (id, Outcome.ok) ∈ (loop fetch src dest fs ids).outcomes) :
    ∃ t, (loop fetch src dest fs ids).fs.get (dest id) = some (.file t) := by
  induction ids generalizing fs with
  | nil => simp [loop] at h
  | cons j rest ih =>
    simp only [loop, List.mem_cons] at h ⊢
    rcases h with h | h
    · obtain ⟨hj, ho⟩ := Prod.mk.inj h
      subst hj
      obtain ⟨t, ht⟩ := putLicense_ok fetch fs src id (dest id) ho.symm
      exact ⟨t, loop_preserves fetch src dest _ rest _ _ ht⟩
    · exact ih _ h

theorem loop_calls (fs : Fs) (ids : List Text) (c : Text)
    (h : c ∈ (loop fetch src dest fs ids).calls) : c ∈ ids ∧ isLicenseRef c = false := by
  induction ids generalizing fs with
  | nil => simp [loop] at h
  | cons j rest ih =>
    simp only [loop] at h
    split at h
    · next hf =>
      rcases List.mem_cons.mp h with rfl | h
      · exact ⟨List.mem_cons_self, putLicense_fetched _ _ _ _ _ hf⟩
      · exact ⟨List.mem_cons_of_mem _ (ih _ h).1, (ih _ h).2⟩
    · exact ⟨List.mem_cons_of_mem _ (ih _ h).1, (ih _ h).2⟩

end loop

theorem loop_fetch_congr (f g : Text → Option Text) (src : Option Path) (dest : Text → Path)
    (fs : Fs) (ids : List Text) (h : ∀ id ∈ ids, isLicenseRef id = false → f id = g id) :
    loop f src dest fs ids = loop g src dest fs ids := by
  induction ids generalizing fs with
  | nil => rfl
  | cons id rest ih =>
    simp only [loop]
    rw [putLicense_fetch_congr f g fs src id (dest id) (h id List.mem_cons_self),
      ih _ (fun j hj => h j (List.mem_cons_of_mem _ hj))]

/-! ### Independence of the identifiers of one batch -/

theorem get_sourcePath_congr {fs1 fs2 : Fs} {s : Path} {id : Text} (h : fs1.get s = fs2.get s)
    (h' : fs1.get (s ++ [id ++ txtSuffix]) = fs2.get (s ++ [id ++ txtSuffix])) :
    fs1.get (sourcePath fs1 s id) = fs2.get (sourcePath fs2 s id) := by
  unfold sourcePath
  rw [h]
  split
  · exact h'
  · exact h

/-- What is observed of one step: outcome, whether the network was consulted, and what is at
    the destination afterwards. -/
def obs (r : StepResult) (d : Path) : Outcome × Bool × Option Node := (r.outcome, r.fetched, r.fs.get d)

theorem putAt_congr (fetch : Text → Option Text) (fs1 fs2 : Fs) (src : Option Path) (id : Text)
    (d : Path) (h1 : fs1.get d = fs2.get d)
    (h2 : ∀ s, src = some s →
      fs1.get s = fs2.get s ∧ fs1.get (s ++ [id ++ txtSuffix]) = fs2.get (s ++ [id ++ txtSuffix])) :
    obs (putAt fetch fs1 src id d) d = obs (putAt fetch fs2 src id d) d := by
  unfold putAt obs
  rw [← h1]
  cases hd : fs1.get d with
  | some n => simp [hd, h1 ▸ hd]
  | none =>
    simp only
    split
    · cases src with
      | none => simp [Fs.get_set]
      | some s =>
        simp only
        rw [← get_sourcePath_congr (h2 s rfl).1 (h2 s rfl).2]
        split
        · simp [Fs.get_set]
        · simp [hd, h1 ▸ hd]
    · cases fetch id with
      | none => simp [hd, h1 ▸ hd]
      | some t => simp [Fs.get_set]

theorem mkdirParent_dir {fs : Fs} {d : Path} (h : fs.get d.dropLast = some .dir) :
    mkdirParent fs d = .ok fs := by
  unfold mkdirParent; rw [h]

theorem mkdirParent_other {fs : Fs} {d : Path} {n : Node} (h : fs.get d.dropLast = some n)
    (hn : n ≠ .dir) : mkdirParent fs d = .error .exists_ := by
  unfold mkdirParent; rw [h]
  cases n with
  | dir => exact absurd rfl hn
  | file _ => rfl
  | link _ => rfl

theorem mkdirParent_create {fs : Fs} {d : Path} (h : fs.get d.dropLast = none)
    (hg : fs.get d.dropLast.dropLast = some .dir) :
    mkdirParent fs d = .ok (fs.set d.dropLast .dir) := by
  unfold mkdirParent; rw [h, hg]

theorem mkdirParent_missing {fs : Fs} {d : Path} (h : fs.get d.dropLast = none)
    (hg : fs.get d.dropLast.dropLast ≠ some .dir) :
    mkdirParent fs d = .error .notFound := by
  unfold mkdirParent; rw [h]
  cases hq : fs.get d.dropLast.dropLast with
  | none => rfl
  | some n =>
    cases n with
    | dir => exact absurd hq hg
    | file _ => rfl
    | link _ => rfl

/-- `fs'` looks to the step for `id` like `fs`: same destination, same sources, and the
    LICENSES directory either as in `fs` or already created where `fs` would create it. -/
structure Sim (fs fs' : Fs) (L : Path) (src : Option Path) (id : Text) : Prop where
  dest : fs'.get (L ++ [id ++ txtSuffix]) = fs.get (L ++ [id ++ txtSuffix])
  par : fs'.get L = fs.get L ∨
    (fs.get L = none ∧ fs.get L.dropLast = some .dir ∧ fs'.get L = some .dir)
  gpar : fs'.get L.dropLast = fs.get L.dropLast
  source : ∀ s, src = some s →
    fs'.get s = fs.get s ∧ fs'.get (s ++ [id ++ txtSuffix]) = fs.get (s ++ [id ++ txtSuffix])

theorem Sim.refl (fs : Fs) (L : Path) (src : Option Path) (id : Text) : Sim fs fs L src id :=
  ⟨rfl, .inl rfl, rfl, fun _ _ => ⟨rfl, rfl⟩⟩

theorem concat_ne_self {α} (L : List α) (x : α) : L ++ [x] ≠ L := by
  intro h
  have := congrArg List.length h
  simp at this

theorem putLicense_congr (fetch : Text → Option Text) (fs fs' : Fs) (L : Path) (src : Option Path)
    (id : Text) (hs : ∀ s, src = some s → fs.get s ≠ none ∧ s ++ [id ++ txtSuffix] ≠ L)
    (sim : Sim fs fs' L src id) :
    obs (putLicense fetch fs' src id (L ++ [id ++ txtSuffix])) (L ++ [id ++ txtSuffix]) =
    obs (putLicense fetch fs src id (L ++ [id ++ txtSuffix])) (L ++ [id ++ txtSuffix]) := by
  have hdl : (L ++ [id ++ txtSuffix]).dropLast = L := by simp
  have hdne : L ++ [id ++ txtSuffix] ≠ L := concat_ne_self _ _
  unfold putLicense
  cases hL : fs.get L with
  | some n =>
    have hL' : fs'.get L = some n := by
      rcases sim.par with h | ⟨h, _, _⟩
      · rw [h, hL]
      · rw [hL] at h; cases h
    by_cases hn : n = .dir
    · subst hn
      rw [mkdirParent_dir (by rw [hdl]; exact hL'), mkdirParent_dir (by rw [hdl]; exact hL)]
      exact putAt_congr fetch fs' fs src id _ sim.dest (sim.source)
    · rw [mkdirParent_other (by rw [hdl]; exact hL') hn, mkdirParent_other (by rw [hdl]; exact hL) hn]
      simp only [obs, sim.dest]
  | none =>
    have hsL : ∀ s, src = some s → s ≠ L := by
      intro s hsrc h; subst h; exact (hs s hsrc).1 hL
    have src_set : ∀ (fs1 fs2 : Fs), (∀ p, p ≠ L → fs1.get p = fs'.get p) →
        (∀ p, p ≠ L → fs2.get p = fs.get p) → ∀ s, src = some s →
        fs1.get s = fs2.get s ∧ fs1.get (s ++ [id ++ txtSuffix]) = fs2.get (s ++ [id ++ txtSuffix]) := by
      intro fs1 fs2 h1 h2 s hsrc
      obtain ⟨e1, e2⟩ := sim.source s hsrc
      exact ⟨by rw [h1 _ (hsL s hsrc), h2 _ (hsL s hsrc), e1],
        by rw [h1 _ (hs s hsrc).2, h2 _ (hs s hsrc).2, e2]⟩
    have set_ne : ∀ (g : Fs) p, p ≠ L → (g.set L .dir).get p = g.get p := by
      intro g p hp; rw [Fs.get_set]; simp [hp]
    rcases sim.par with hp | ⟨_, hg, hp⟩
    · rw [hL] at hp
      by_cases hg : fs.get L.dropLast = some .dir
      · have hg' : fs'.get L.dropLast = some .dir := by rw [sim.gpar, hg]
        rw [mkdirParent_create (by rw [hdl]; exact hp) (by rw [hdl]; exact hg'),
          mkdirParent_create (by rw [hdl]; exact hL) (by rw [hdl]; exact hg), hdl]
        apply putAt_congr
        · rw [set_ne _ _ hdne, set_ne _ _ hdne, sim.dest]
        · exact src_set _ _ (set_ne fs') (set_ne fs)
      · have hg' : fs'.get L.dropLast ≠ some .dir := by rw [sim.gpar]; exact hg
        rw [mkdirParent_missing (by rw [hdl]; exact hp) (by rw [hdl]; exact hg'),
          mkdirParent_missing (by rw [hdl]; exact hL) (by rw [hdl]; exact hg)]
        simp only [obs, sim.dest]
    · rw [mkdirParent_dir (by rw [hdl]; exact hp),
        mkdirParent_create (by rw [hdl]; exact hL) (by rw [hdl]; exact hg), hdl]
      apply putAt_congr
      · rw [set_ne _ _ hdne, sim.dest]
      · exact src_set _ _ (fun _ _ => rfl) (set_ne fs)

theorem name_inj {s L : Path} {i j : Text} (h : s ++ [i ++ txtSuffix] = L ++ [j ++ txtSuffix]) : i = j := by
  have := congrArg List.getLast? h
  simp only [List.getLast?_append, List.getLast?_singleton, Option.some_or, Option.some.injEq] at this
  exact List.append_cancel_right this

/-- A step for another identifier does not disturb what the step for `id` reads. -/
theorem Sim.step (fetch : Text → Option Text) {fs fs' : Fs} {L : Path} {src : Option Path} {id : Text}
    (j : Text) (hj : j ≠ id)
    (hs : ∀ s, src = some s → fs.get s ≠ none ∧ s ++ [id ++ txtSuffix] ≠ L)
    (sim : Sim fs fs' L src id) :
    Sim fs (putLicense fetch fs' src j (L ++ [j ++ txtSuffix])).fs L src id := by
  have hdl : (L ++ [j ++ txtSuffix]).dropLast = L := by simp
  have loc := putLicense_locus fetch fs' src j (L ++ [j ++ txtSuffix])
  rw [hdl] at loc
  refine ⟨?_, ?_, ?_, ?_⟩
  · rcases loc (L ++ [id ++ txtSuffix]) with h | ⟨_, ⟨h, _⟩ | ⟨h, _⟩⟩
    · rw [h, sim.dest]
    · exact absurd h (concat_ne_self _ _)
    · exact absurd (name_inj h).symm hj
  · rcases loc L with h | ⟨hn, ⟨_, hd, hg⟩ | ⟨h, _⟩⟩
    · rw [h]; exact sim.par
    · rcases sim.par with hp | ⟨_, _, hp⟩
      · right; exact ⟨by rw [← hp, hn], by rw [← sim.gpar, hg], hd⟩
      · rw [hn] at hp; cases hp
    · exact absurd h.symm (concat_ne_self _ _)
  · rcases loc L.dropLast with h | ⟨hn, ⟨_, _, hg⟩ | ⟨h, _⟩⟩
    · rw [h, sim.gpar]
    · rw [hn] at hg; cases hg
    · have := congrArg List.length h
      simp at this
  · intro s hsrc
    obtain ⟨hs1, hs2⟩ := hs s hsrc
    obtain ⟨e1, e2⟩ := sim.source s hsrc
    constructor
    · obtain ⟨n, hn⟩ := Option.ne_none_iff_exists'.mp hs1
      rw [hn]; exact putLicense_preserves _ _ _ _ _ _ _ (by rw [e1, hn])
    · rcases loc (s ++ [id ++ txtSuffix]) with h | ⟨_, ⟨h, _⟩ | ⟨h, _⟩⟩
      · rw [h, e2]
      · exact absurd h hs2
      · exact absurd (name_inj h).symm hj

/-- The destination function of the command without `--output`. -/
def licDest (L : Path) (i : Text) : Path := L ++ [i ++ txtSuffix]

/-- In a batch, every identifier fares exactly as it would alone on the initial file system:
    same outcome, same node at its destination at the end, network consulted or not. -/
theorem loop_batch (fetch : Text → Option Text) (src : Option Path) (L : Path) (fs : Fs) (id : Text)
    (hs : ∀ s, src = some s → fs.get s ≠ none ∧ s ++ [id ++ txtSuffix] ≠ L)
    (ids : List Text) (fs' : Fs) (sim : Sim fs fs' L src id) (hid : id ∈ ids) (hnd : ids.Nodup) :
    (loop fetch src (licDest L) fs' ids).outcomes.lookup id
        = some (putLicense fetch fs src id (licDest L id)).outcome ∧
    (loop fetch src (licDest L) fs' ids).fs.get (licDest L id)
        = (putLicense fetch fs src id (licDest L id)).fs.get (licDest L id) ∧
    (id ∈ (loop fetch src (licDest L) fs' ids).calls ↔
        (putLicense fetch fs src id (licDest L id)).fetched = true) := by
  induction ids generalizing fs' with
  | nil => cases hid
  | cons j rest ih =>
    obtain ⟨hjr, hnd'⟩ := List.nodup_cons.mp hnd
    by_cases hj : j = id
    · subst hj
      have hd : ∀ i, L ++ [i ++ txtSuffix] = licDest L i := fun _ => rfl
      have c := putLicense_congr fetch fs fs' L src j hs sim
      simp only [obs, Prod.mk.injEq, hd] at c
      obtain ⟨c1, c2, c3⟩ := c
      simp only [loop]
      refine ⟨?_, ?_, ?_⟩
      · simp [c1]
      · rw [← c3]
        rcases loop_locus fetch src (licDest L) (putLicense fetch fs' src j (licDest L j)).fs rest
            (licDest L j) with h | ⟨_, k, hk, ⟨h, _⟩ | ⟨h, _⟩⟩
        · exact h
        · simp only [licDest, List.dropLast_concat] at h
          exact absurd h (concat_ne_self _ _)
        · have : j = k := name_inj h
          subst this; exact absurd hk hjr
      · rw [← c2]
        by_cases hf : (putLicense fetch fs' src j (licDest L j)).fetched = true
        · simp [hf]
        · rw [if_neg hf]
          constructor
          · exact fun hc => absurd (loop_calls fetch src _ _ rest j hc).1 hjr
          · exact fun h => absurd h hf
    · have hid' : id ∈ rest := by
        rcases List.mem_cons.mp hid with h | h
        · exact absurd h.symm hj
        · exact h
      have hd : ∀ i, L ++ [i ++ txtSuffix] = licDest L i := fun _ => rfl
      have := ih _ (Sim.step fetch j hj hs sim) hid' hnd'
      simp only [hd] at this
      obtain ⟨i1, i2, i3⟩ := this
      simp only [loop]
      refine ⟨?_, i2, ?_⟩
      · have hne : (id == j) = false := by simpa using fun h => hj h.symm
        rw [List.lookup_cons, hne]; exact i1
      · rw [← i3]
        split
        · have hne : ¬ id = j := fun h => hj h.symm
          simp [List.mem_cons, hne, licDest]
        · rfl

theorem putAt_text (fetch : Text → Option Text) (fs1 : Fs) (src : Option Path) (id : Text)
    (dest : Path) (h : (putAt fetch fs1 src id dest).outcome = .ok) :
    (isLicenseRef id = false → ∃ t, fetch id = some t ∧
        (putAt fetch fs1 src id dest).fs.get dest = some (.file t)) ∧
    (isLicenseRef id = true → src = none →
        (putAt fetch fs1 src id dest).fs.get dest = some (.file [])) := by
  unfold putAt at h ⊢
  cases hd : fs1.get dest with
  | some n => simp [hd] at h
  | none =>
    simp only [hd] at h ⊢
    cases hr : isLicenseRef id with
    | true =>
      refine ⟨by simp, fun _ hs => ?_⟩
      subst hs
      simp [Fs.get_set]
    | false =>
      simp only [hr] at h ⊢
      cases hf : fetch id with
      | none => simp [hf] at h
      | some t => simp [Fs.get_set]

/-- A supplied non-LicenseRef licence holds exactly the text the network returned; a supplied
    LicenseRef- without `--source` is the empty file. -/
theorem putLicense_text (fetch : Text → Option Text) (fs : Fs) (src : Option Path) (id : Text)
    (dest : Path) (h : (putLicense fetch fs src id dest).outcome = .ok) :
    (isLicenseRef id = false → ∃ t, fetch id = some t ∧
        (putLicense fetch fs src id dest).fs.get dest = some (.file t)) ∧
    (isLicenseRef id = true → src = none →
        (putLicense fetch fs src id dest).fs.get dest = some (.file [])) := by
  unfold putLicense at h ⊢
  split at h
  · next e he => exact absurd h (mkdirParent_error he)
  · next fs1 hm => exact putAt_text fetch fs1 src id dest h

theorem licensesDir_last (e : Env) : (licensesDir e).getLast? = some licensesName := by
  unfold licensesDir
  split
  · split
    · next h => simpa using h
    · simp
  · simp

theorem txt_ne_licenses (id : Text) : id ++ txtSuffix ≠ licensesName := by
  intro h
  have := congrArg List.getLast? h
  rw [show txtSuffix = ['.', 't', 'x', 't'] from rfl,
    show licensesName = ['L', 'I', 'C', 'E', 'N', 'S', 'E', 'S'] from rfl] at this
  simp [List.getLast?_append] at this

theorem source_ne_licensesDir (e : Env) (s : Path) (id : Text) :
    s ++ [id ++ txtSuffix] ≠ licensesDir e := by
  intro h
  have := congrArg List.getLast? h
  rw [licensesDir_last] at this
  simp only [List.getLast?_append, List.getLast?_singleton, Option.some_or, Option.some.injEq] at this
  exact txt_ne_licenses id this

/-! ### The command -/

theorem done_inv {fetch : Text → Option Text} {e : Env} {missing : List Text} {a : Args} {fs : Fs} {r : Run} {exit : Nat} (h : download fetch e missing a fs = .done r exit) :
    usageError fs a = false ∧
    r = loop fetch a.source (destOf e a.output) fs (targets missing a) ∧
    exit = exitOf r.outcomes := by
  unfold download at h
  split at h
  · cases h
  · next hu =>
    cases h
    exact ⟨by simpa using hu, rfl, rfl⟩

theorem mem_targets {missing : List Text} {a : Args} {id : Text} : id ∈ targets missing a ↔ ∃ i ∈ Spec.Download.requested missing a, stripPlus i = id := by
  unfold targets Spec.Download.requested
  rw [mem_dedup, List.mem_map]

end Model.Download
