/-
Algebra of `Spec.Declares` used by the history induction of C09.
-/
import ReuseVerif.Spec.History

namespace Spec
open Py Model

theorem declares_trans {norm : Text → Text} {e1 e2 : Extracted} {cpr lic : List Text}
    (h12 : Declares norm e2 e1.cpr e1.lic) (h1 : Declares norm e1 cpr lic) : Declares norm e2 cpr lic := by
  refine ⟨fun x hx => h12.1 x (h1.1 x hx), fun x hx => ?_⟩
  obtain ⟨v, hv, hvx⟩ := List.mem_map.mp (h1.2 x hx)
  rw [← hvx]; exact h12.2 v hv

theorem declares_self (norm : Text → Text) (e : Extracted) : Declares norm e e.cpr e.lic :=
  ⟨fun _ h => h, fun x hx => List.mem_map.mpr ⟨x, hx, rfl⟩⟩

theorem declares_append {norm : Text → Text} {e : Extracted} {c1 c2 l1 l2 : List Text}
    (h1 : Declares norm e c1 l1) (h2 : Declares norm e c2 l2) : Declares norm e (c1 ++ c2) (l1 ++ l2) := by
  refine ⟨fun x hx => ?_, fun x hx => ?_⟩
  · rcases List.mem_append.mp hx with h | h
    · exact h1.1 x h
    · exact h2.1 x h
  · rcases List.mem_append.mp hx with h | h
    · exact h1.2 x h
    · exact h2.2 x h

theorem run_cons (t : Text) (o : Op) (os : List Op) : run t (o :: os) = run (stepText t o) os := rfl

end Spec
