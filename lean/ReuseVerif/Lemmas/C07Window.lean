/-
C07 — the header inside lint's window: when the written text up to the end of the header block
fits into the first 4096 bytes, the decoded window begins with it.
-/
import ReuseVerif.Lemmas.C07Closed
import ReuseVerif.Lemmas.Window
import ReuseVerif.Lemmas.HeaderParts

namespace C07A
open Py Model Spec

theorem placeHeader_headPart (h b a : Text) (e : Bool) : ∃ rest, placeHeader h b a e = headPart h b ++ rest := by
  unfold placeHeader headPart
  by_cases hb : (strip b).isEmpty = true <;> by_cases ha : (strip a).isEmpty = true
  · exact ⟨[], by simp [hb, ha]⟩
  · exact ⟨_, by simp only [hb, ha, if_true]; simp; rfl⟩
  · exact ⟨[], by simp [hb, ha]⟩
  · exact ⟨_, by simp only [hb, ha]; simp; rfl⟩

theorem headPart_shape (h b : Text) : ∃ pre, headPart h b = pre ++ h ++ ['\n'] ∧ (pre = [] ∨ ∃ p, pre = p ++ ['\n']) := by
  unfold headPart
  by_cases hb : (strip b).isEmpty = true
  · exact ⟨[], by simp [hb], .inl rfl⟩
  · exact ⟨rstrip b ++ ['\n', '\n'], by simp [hb], .inr ⟨rstrip b ++ ['\n'], by simp⟩⟩

theorem encodeUtf8_append (a b : Text) : encodeUtf8 (a ++ b) = encodeUtf8 a ++ encodeUtf8 b := by
  unfold encodeUtf8; simp

/-- the decoded window of the written file begins with the head part when that fits -/
theorem window_head (h b a : Text) (e : Bool) (hcr : '\r' ∉ headPart h b)
    (hlen : (encodeUtf8 (headPart h b)).length ≤ 4096) :
    ∃ pre tailText, decodedText (window (encodeUtf8 (placeHeader h b a e))) = pre ++ h ++ ['\n'] ++ tailText ∧
      (pre = [] ∨ ∃ p, pre = p ++ ['\n']) := by
  obtain ⟨rest, hr⟩ := placeHeader_headPart h b a e
  obtain ⟨pre, hp, hpre⟩ := headPart_shape h b
  obtain ⟨tailText, ht⟩ := decodedText_window_head (headPart h b) (encodeUtf8 rest) hcr hlen
  refine ⟨pre, tailText, ?_, hpre⟩
  rw [hr, encodeUtf8_append, ht, hp]

end C07A
