import ReuseVerif.Spec.Covered

namespace Model
open Spec

mutual
theorem mem_walkNode (cfg : WalkCfg) : ∀ (n : Node) (path : List String) (parentName name : String)
    (p : List String), p ∈ walkNode cfg path parentName name n ↔
      ∃ rel, p = path ++ rel ∧ CoveredIn cfg path parentName [(name, n)] rel
  | .file size, path, parentName, name, p => by
      simp only [walkNode]
      constructor
      · intro h
        split at h
        · cases h
        · rename_i hf
          simp at h; subst h
          exact ⟨[name], rfl, .file (size := size) (by simp) (by simpa using hf)⟩
      · rintro ⟨rel, rfl, hc⟩
        cases hc with
        | file hm hf =>
          simp at hm; obtain ⟨rfl, rfl⟩ := hm
          simp [hf]
        | dir hm _ _ => simp at hm
  | .symlink, path, parentName, name, p => by
      simp only [walkNode]
      constructor
      · intro h; cases h
      · rintro ⟨rel, rfl, hc⟩
        cases hc with
        | file hm _ => simp at hm
        | dir hm _ _ => simp at hm
  | .dir cs, path, parentName, name, p => by
      simp only [walkNode]
      constructor
      · intro h
        split at h
        · cases h
        · rename_i hd
          obtain ⟨rel, rfl, hc⟩ := (mem_walkList cfg cs (path ++ [name]) name p).mp h
          exact ⟨name :: rel, by simp, .dir (by simp) (by simpa using hd) hc⟩
      · rintro ⟨rel, rfl, hc⟩
        cases hc with
        | file hm _ => simp at hm
        | dir hm hd hsub =>
          simp at hm; obtain ⟨rfl, rfl⟩ := hm
          simp only [hd, Bool.false_eq_true, if_false]
          exact (mem_walkList cfg _ _ _ _).mpr ⟨_, by simp, hsub⟩
theorem mem_walkList (cfg : WalkCfg) : ∀ (cs : List (String × Node)) (path : List String)
    (dirName : String) (p : List String), p ∈ walkList cfg path dirName cs ↔
      ∃ rel, p = path ++ rel ∧ CoveredIn cfg path dirName cs rel
  | [], path, dirName, p => by
      simp only [walkList, List.not_mem_nil, false_iff]
      rintro ⟨rel, _, hc⟩
      cases hc with
      | file hm _ => cases hm
      | dir hm _ _ => cases hm
  | (n, c) :: rest, path, dirName, p => by
      simp only [walkList, List.mem_append]
      rw [mem_walkNode cfg c path dirName n p, mem_walkList cfg rest path dirName p]
      constructor
      · rintro (⟨rel, e, hc⟩ | ⟨rel, e, hc⟩)
        · refine ⟨rel, e, ?_⟩
          cases hc with
          | file hm hf => exact .file (by simp at hm; simp [hm]) hf
          | dir hm hd hs => exact .dir (by simp at hm; simp [hm]) hd hs
        · refine ⟨rel, e, ?_⟩
          cases hc with
          | file hm hf => exact .file (List.mem_cons_of_mem _ hm) hf
          | dir hm hd hs => exact .dir (List.mem_cons_of_mem _ hm) hd hs
      · rintro ⟨rel, e, hc⟩
        cases hc with
        | file hm hf =>
          rcases List.mem_cons.mp hm with h | h
          · exact .inl ⟨_, e, .file (by rw [h]; simp) hf⟩
          · exact .inr ⟨_, e, .file h hf⟩
        | dir hm hd hs =>
          rcases List.mem_cons.mp hm with h | h
          · exact .inl ⟨_, e, .dir (by rw [h]; simp) hd hs⟩
          · exact .inr ⟨_, e, .dir h hd hs⟩
end

end Model
