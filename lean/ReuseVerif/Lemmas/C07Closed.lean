/-
C07 — the header the default template gives is a block of closed lines (`Spec.tagLinesClosed`):
hypothesis `hclosed` of `C07_file` holds for it.
-/
import ReuseVerif.Lemmas.C07Achievable
import ReuseVerif.Lemmas.C07Scan

namespace C07A
open Py Model Spec Py.Re
open Generated (Style)

/-! ### `allLines` on joined lines -/

theorem allLines_nl_free (P : Text → Bool) (acc l : Text) (hl : noNewline l = true) :
    allLines P acc l = P (acc.reverse ++ l) := by
  induction l generalizing acc with
  | nil => simp [allLines]
  | cons c cs ih =>
    obtain ⟨hc, hcs⟩ := Model.noNewline_cons hl
    simp only [allLines, hc, Bool.false_eq_true, if_false]
    rw [ih (c :: acc) hcs]; simp

theorem allLines_nl (P : Text → Bool) (acc l rest : Text) (hl : noNewline l = true) :
    allLines P acc (l ++ '\n' :: rest) = (P (acc.reverse ++ l) && allLines P [] rest) := by
  induction l generalizing acc with
  | nil => simp [allLines]
  | cons c cs ih =>
    obtain ⟨hc, hcs⟩ := Model.noNewline_cons hl
    simp only [List.cons_append, allLines, hc, Bool.false_eq_true, if_false]
    rw [ih (c :: acc) hcs]; simp

theorem allLines_join (P : Text → Bool) (Ls : List Text) (hne : Ls ≠ []) (hnl : ∀ l ∈ Ls, noNewline l = true)
    (h : ∀ l ∈ Ls, P l = true) : allLines P [] (join ['\n'] Ls) = true := by
  induction Ls with
  | nil => exact absurd rfl hne
  | cons l ls ih =>
    cases ls with
    | nil =>
      simp only [join]
      rw [allLines_nl_free P [] l (hnl l (by simp))]
      simpa using h l (by simp)
    | cons l2 ls2 =>
      rw [join_two, allLines_nl P [] l _ (hnl l (by simp))]
      simp only [List.reverse_nil, List.nil_append, Bool.and_eq_true]
      exact ⟨h l (by simp), ih (by simp) (fun x hx => hnl x (by simp [hx])) (fun x hx => h x (by simp [hx]))⟩

/-! ### closed lines -/

theorem lineClosed_free (endRe : Re) (tag l : Text) (hnl : '\n' ∉ tag) (h : tagFreeLine tag l = true) :
    lineClosed endRe tag l = true := by
  unfold tagFreeLine at h
  simp only [Bool.and_eq_true] at h
  have h1 := Model.findTagInLine_none tag l [] hnl h.1 h.2
  rw [findTagInLine_ctx tag l [] hnl h.1] at h1
  have : findTagInLine tag l = none := by
    cases hf : findTagInLine tag l with
    | none => rfl
    | some pa => rw [hf] at h1; cases h1
  unfold lineClosed
  rw [this]

theorem lineClosed_val (endRe : Re) (tag pre v : Text) (hnil : Matches endRe [])
    (h : (TLine.val pre v).ok endRe tag) : lineClosed endRe tag (pre ++ tag ++ ' ' :: v) = true := by
  obtain ⟨hpre, hno, hne, hvnl, hs, hsafe, _⟩ := h
  have hhit := Model.findTagInLine_hit tag pre (tag ++ ' ' :: v) hpre (hno _)
    (by simpa using Model.tagHere_intro tag [' '] v rfl rfl)
  have e : pre ++ tag ++ ' ' :: v = pre ++ (tag ++ ' ' :: v) := by simp
  unfold lineClosed
  rw [e, hhit]
  simp only [List.drop_left]
  have hhead := head_not_blank_of_stripped hne hs
  have hdw : (' ' :: v).dropWhile isBlank = v := by
    have := Model.dropWhile_blanks [' '] v rfl (by
      obtain ⟨c, cs, rfl⟩ := List.exists_cons_of_ne_nil hne
      simpa using hhead)
    simpa using this
  rw [hdw]
  obtain ⟨r, hm⟩ := Option.isSome_iff_exists.mp (Model.matchEnd_complete (endRe := endRe) (a := []) (b := []) hnil rfl)
  have hex := Model.valueAndRest_exact endRe v [] r hvnl (noEndSuffix_of_tailSafe endRe v [] hvnl hsafe)
    (by simpa using hm)
  simp only [List.append_nil] at hex
  rw [hex]
  have : v.isEmpty = false := by cases v with
    | nil => exact absurd rfl hne
    | cons _ _ => rfl
  simp [this, hsafe]

theorem sandwich_closed (endRe : Re) (tag : Text) (hnl : '\n' ∉ tag) (hnil : Matches endRe [])
    (pre : Text) (F1 V F2 : List Text)
    (h1 : ∀ l ∈ F1, tagFreeLine tag l = true) (h2 : ∀ l ∈ F2, tagFreeLine tag l = true)
    (hV : ∀ v ∈ V, (TLine.val pre v).ok endRe tag) :
    ∀ p ∈ F1 ++ V.map (fun v => pre ++ tag ++ ' ' :: v) ++ F2, lineClosed endRe tag p = true := by
  intro p hp
  simp only [List.mem_append, List.mem_map] at hp
  rcases hp with (hp | ⟨v, hv, rfl⟩) | hp
  · exact lineClosed_free endRe tag p hnl (h1 p hp)
  · exact lineClosed_val endRe tag pre v hnil (hV v hv)
  · exact lineClosed_free endRe tag p hnl (h2 p hp)

/-- **The default header is a block of closed lines.** -/
theorem default_header_closed (endRe : Re) (hnil : Matches endRe []) {s : Style} {m : LineMode}
    {A C L : List Text} (sf : StyleFacts s m) (rq : ReqOK endRe s m A C L) :
    tagLinesClosed endRe (join ['\n'] (headerLines s m (bodyLines A C L))) = true := by
  have hne : headerLines s m (bodyLines A C L) ≠ [] := by
    have := lines_ne_nil (A ++ C.map conLine) (L.map licLine)
    unfold headerLines bodyLines
    intro h
    have h1 := (List.append_eq_nil_iff.mp (List.append_eq_nil_iff.mp h).1).2
    exact this (List.map_eq_nil_iff.mp h1)
  have hnlines : ∀ l ∈ headerLines s m (bodyLines A C L), noNewline l = true :=
    fun l hl => noNewline_of_noBreak (header_noBreak sf rq l hl)
  unfold tagLinesClosed
  simp only [Bool.and_eq_true]
  refine ⟨allLines_join _ _ hne hnlines ?_, allLines_join _ _ hne hnlines ?_⟩
  · obtain ⟨F1, F2, e, h1, h2, hV⟩ := header_lic_shape endRe sf rq
    rw [e]
    exact sandwich_closed endRe _ (by decide) hnil _ F1 L F2 h1 h2 hV
  · obtain ⟨F1, F2, e, h1, h2, hV⟩ := header_con_shape endRe sf rq
    rw [e]
    exact sandwich_closed endRe _ (by decide) hnil _ F1 C F2 h1 h2 hV

end C07A
