/-
C07 (achievability of the default template) — generic text lemmas: `join`, `split("\n")`,
`strip("\n")`, `find` on texts made of lines, and markers that clash with a literal.
-/
import ReuseVerif.Spec.Achievable
import ReuseVerif.Lemmas.ReadBack
import ReuseVerif.Lemmas.TagsText
import ReuseVerif.Lemmas.Str

namespace C07A
open Py Model Spec

/-! ### `join` -/

theorem join_cons_cons (sep x y : Text) (ys : List Text) :
    join sep (x :: y :: ys) = x ++ sep ++ join sep (y :: ys) := by
  rw [join]; intro h; cases h

theorem join_two (x y : Text) (ys : List Text) :
    join ['\n'] (x :: y :: ys) = x ++ '\n' :: join ['\n'] (y :: ys) := by
  rw [join_cons_cons]; simp

theorem joinLines_eq_join (L : List Text) (hL : L ≠ []) : joinLines L = join ['\n'] L ++ ['\n'] := by
  induction L with
  | nil => exact absurd rfl hL
  | cons l ls ih =>
    cases ls with
    | nil => simp [joinLines, join]
    | cons l2 ls2 =>
      rw [joinLines, ih (by simp), join_two]
      simp

theorem joinLines_append (A B : List Text) : joinLines (A ++ B) = joinLines A ++ joinLines B := by
  induction A with
  | nil => rfl
  | cons a as ih => simp [joinLines, ih]

/-- `join` of a list with one more line -/
theorem join_snoc (A : List Text) (q : Text) : join ['\n'] (A ++ [q]) = joinLines A ++ q := by
  induction A with
  | nil => simp [join, joinLines]
  | cons a as ih =>
    cases as with
    | nil => simp [join_two, join, joinLines]
    | cons a2 as2 =>
      have : (a :: a2 :: as2) ++ [q] = a :: a2 :: (as2 ++ [q]) := rfl
      rw [this, join_two]
      have ih' : join ['\n'] (a2 :: (as2 ++ [q])) = joinLines (a2 :: as2) ++ q := ih
      rw [ih']
      simp [joinLines]

theorem join_length_two (x y : Text) (ys : List Text) :
    (join ['\n'] (x :: y :: ys)).length = x.length + 1 + (join ['\n'] (y :: ys)).length := by
  rw [join_two]; simp; omega

/-! ### `text.split("\n")` of joined lines -/

def NoNL (l : Text) : Prop := '\n' ∉ l

theorem lf_prefix_cons (c : Char) (cs : Text) : (['\n'] : Text).isPrefixOf (c :: cs) = (c == '\n') := by
  by_cases hc : c = '\n'
  · subst hc; rfl
  · have h1 : (c == '\n') = false := by simpa using hc
    have h2 : ('\n' == c) = false := by simpa using fun e : '\n' = c => hc e.symm
    simp [List.isPrefixOf, h1, h2]

theorem splitOnFuel_last (l acc : Text) (f : Nat) (hf : l.length < f) (hl : NoNL l) :
    splitOnFuel ['\n'] f acc l = [acc.reverse ++ l] := by
  induction l generalizing f acc with
  | nil =>
    cases f with
    | zero => omega
    | succ f => simp [splitOnFuel]
  | cons c cs ih =>
    cases f with
    | zero => omega
    | succ f =>
      have hc : c ≠ '\n' := fun e => hl (by simp [e])
      have hp : (['\n'] : Text).isPrefixOf (c :: cs) = false := by rw [lf_prefix_cons]; simpa using hc
      rw [splitOnFuel]
      simp only [hp, Bool.false_eq_true, false_and, if_false]
      rw [ih (c :: acc) f (by simp at hf; omega) (fun h => hl (by simp [h]))]
      simp

theorem splitOnFuel_line (l rest acc : Text) (f : Nat) (hf : l.length < f) (hl : NoNL l) :
    splitOnFuel ['\n'] f acc (l ++ '\n' :: rest) =
      (acc.reverse ++ l) :: splitOnFuel ['\n'] (f - l.length - 1) [] rest := by
  induction l generalizing f acc with
  | nil =>
    cases f with
    | zero => omega
    | succ f =>
      have hp : (['\n'] : Text).isPrefixOf ('\n' :: rest) = true := by rw [lf_prefix_cons]; rfl
      simp only [List.nil_append]
      rw [splitOnFuel]
      simp [hp]
  | cons c cs ih =>
    cases f with
    | zero => omega
    | succ f =>
      have hc : c ≠ '\n' := fun e => hl (by simp [e])
      have hp : (['\n'] : Text).isPrefixOf (c :: (cs ++ '\n' :: rest)) = false := by
        rw [lf_prefix_cons]; simpa using hc
      show splitOnFuel ['\n'] (f + 1) acc (c :: (cs ++ '\n' :: rest)) = _
      rw [splitOnFuel]
      simp only [hp, Bool.false_eq_true, false_and, if_false]
      rw [ih (c :: acc) f (by simp at hf; omega) (fun h => hl (by simp [h]))]
      simp only [List.reverse_cons, List.append_assoc, List.singleton_append, List.length_cons]
      congr 2
      omega

theorem splitOnFuel_join (L : List Text) (hL : L ≠ []) (hnl : ∀ l ∈ L, NoNL l) (f : Nat)
    (hf : (join ['\n'] L).length < f) : splitOnFuel ['\n'] f [] (join ['\n'] L) = L := by
  induction L generalizing f with
  | nil => exact absurd rfl hL
  | cons l ls ih =>
    cases ls with
    | nil =>
      simp only [join] at hf ⊢
      rw [splitOnFuel_last l [] f hf (hnl l (by simp))]
      simp
    | cons l2 ls2 =>
      rw [join_length_two] at hf
      rw [join_two, splitOnFuel_line l _ [] f (by omega) (hnl l (by simp))]
      rw [ih (by simp) (fun x hx => hnl x (by simp [hx])) _ (by omega)]
      simp

/-- `"\n".join(L).split("\n") == L` for lines without a line feed -/
theorem splitOn_join (L : List Text) (hL : L ≠ []) (hnl : ∀ l ∈ L, NoNL l) :
    splitOn ['\n'] (join ['\n'] L) = L :=
  splitOnFuel_join L hL hnl _ (by omega)

theorem splitOn_nil : splitOn ['\n'] [] = [[]] := by
  simp [splitOn, splitOnFuel]

/-! ### `text.strip("\n")` -/

theorem lf_contains (c : Char) : (['\n'] : Text).contains c = (c == '\n') := by
  by_cases hc : c = '\n'
  · subst hc; rfl
  · have h1 : (c == '\n') = false := by simpa using hc
    simp [h1, hc]

theorem lstripLF_id (s : Text) (h : ∀ c cs, s = c :: cs → c ≠ '\n') : lstripChars ['\n'] s = s := by
  cases s with
  | nil => rfl
  | cons c cs =>
    have := h c cs rfl
    simp [lstripChars, List.dropWhile_cons, lf_contains, this]

theorem lstripLF_cons (s : Text) : lstripChars ['\n'] ('\n' :: s) = lstripChars ['\n'] s := by
  simp [lstripChars, List.dropWhile_cons, lf_contains]

theorem rstripLF_id (s : Text) (h : ∀ c, s.getLast? = some c → c ≠ '\n') : rstripChars ['\n'] s = s := by
  unfold rstripChars
  have : s.reverse.dropWhile (fun x => (['\n'] : Text).contains x) = s.reverse := by
    cases hr : s.reverse with
    | nil => rfl
    | cons c cs =>
      have hl : s.getLast? = some c := by
        rw [← List.head?_reverse, hr]; rfl
      have := h c hl
      simp [List.dropWhile_cons, lf_contains, this]
  rw [this, List.reverse_reverse]

theorem rstripLF_snoc (s : Text) : rstripChars ['\n'] (s ++ ['\n']) = rstripChars ['\n'] s := by
  simp [rstripChars, List.dropWhile_cons, lf_contains]

/-- a text that neither begins nor ends with a line feed is unchanged by `strip("\n")` -/
theorem stripLF_id (s : Text) (h1 : ∀ c cs, s = c :: cs → c ≠ '\n') (h2 : ∀ c, s.getLast? = some c → c ≠ '\n') :
    stripChars ['\n'] s = s := by
  unfold stripChars
  rw [lstripLF_id s h1, rstripLF_id s h2]

/-! ### first and last character of joined lines -/

theorem join_head (L : List Text) (l : Text) (ls : List Text) (hL : L = l :: ls) (c : Char) (cs : Text)
    (hl : l ≠ []) (h : join ['\n'] L = c :: cs) : ∃ t, l = c :: t := by
  subst hL
  obtain ⟨a, as, rfl⟩ := List.exists_cons_of_ne_nil hl
  cases ls with
  | nil =>
    simp only [join] at h
    injection h with h1 _
    exact ⟨as, by rw [h1]⟩
  | cons l2 ls2 =>
    rw [join_two] at h
    simp only [List.cons_append, List.cons.injEq] at h
    exact ⟨as, by rw [h.1]⟩

theorem join_getLast (L : List Text) (hL : L ≠ []) (q : Text) (hq : L.getLast? = some q) (hne : q ≠ []) :
    (join ['\n'] L).getLast? = q.getLast? := by
  induction L with
  | nil => exact absurd rfl hL
  | cons l ls ih =>
    cases ls with
    | nil =>
      simp only [List.getLast?_singleton, Option.some.injEq] at hq
      subst hq; rfl
    | cons l2 ls2 =>
      rw [join_two]
      have hq' : (l2 :: ls2).getLast? = some q := by simpa [List.getLast?_cons_cons] using hq
      have ih' := ih (by simp) hq'
      have hne' : join ['\n'] (l2 :: ls2) ≠ [] := by
        intro h0
        rw [h0] at ih'
        cases hq2 : q.getLast? with
        | none => exact hne (List.getLast?_eq_none_iff.mp hq2)
        | some x => rw [hq2] at ih'; cases ih'
      have : l ++ '\n' :: join ['\n'] (l2 :: ls2) = (l ++ ['\n']) ++ join ['\n'] (l2 :: ls2) := by simp
      rw [this, Model.getLast?_append_ne hne', ih']

/-! ### `find` on joined lines -/

theorem isPrefixOf_append_left_of_no (pat a b : Text) (c : Char) (hc : c ∉ pat)
    (h : pat.isPrefixOf (a ++ c :: b) = true) : pat.isPrefixOf a = true := by
  have hp := List.isPrefixOf_iff_prefix.mp h
  exact List.isPrefixOf_iff_prefix.mpr (C10L.prefix_break_free hp hc)

theorem findSub_line_none (pat l rest : Text) (hpat : pat ≠ []) (hnl : '\n' ∉ pat)
    (h1 : findSub pat l = none) (h2 : findSub pat rest = none) : findSub pat (l ++ '\n' :: rest) = none := by
  induction l with
  | nil =>
    obtain ⟨p, ps, rfl⟩ := List.exists_cons_of_ne_nil hpat
    have hp : p ≠ '\n' := fun e => hnl (by simp [e])
    have : (p :: ps).isPrefixOf ('\n' :: rest) = false := by
      simp [List.isPrefixOf]; intro e; exact absurd e hp
    simp [findSub, this, h2]
  | cons c cs ih =>
    obtain ⟨hc1, hc2⟩ := Py.findSub_none_cons h1
    have hpre : pat.isPrefixOf (c :: cs ++ '\n' :: rest) = false := by
      cases hp : pat.isPrefixOf (c :: cs ++ '\n' :: rest) with
      | false => rfl
      | true =>
        have := isPrefixOf_append_left_of_no pat (c :: cs) rest '\n' hnl hp
        rw [this] at hc1; cases hc1
    show findSub pat (c :: (cs ++ '\n' :: rest)) = none
    rw [findSub]
    simp only [List.cons_append] at hpre
    simp [hpre, ih hc2]

/-- a literal without a line feed that occurs in no line does not occur in the joined lines -/
theorem findSub_join_none (pat : Text) (hpat : pat ≠ []) (hnl : '\n' ∉ pat) (L : List Text)
    (h : ∀ l ∈ L, findSub pat l = none) : findSub pat (join ['\n'] L) = none := by
  induction L with
  | nil =>
    obtain ⟨p, ps, rfl⟩ := List.exists_cons_of_ne_nil hpat
    simp [join, findSub]
  | cons l ls ih =>
    cases ls with
    | nil => simpa [join] using h l (by simp)
    | cons l2 ls2 =>
      rw [join_two]
      exact findSub_line_none pat l _ hpat hnl (h l (by simp)) (ih fun x hx => h x (by simp [hx]))

/-! ### clashing markers -/

theorem clash_isPrefixOf (l u rest : Text) (h : clash l u = true) : l.isPrefixOf (u ++ rest) = false := by
  induction l generalizing u with
  | nil => simp [clash] at h
  | cons a as ih =>
    cases u with
    | nil => simp [clash] at h
    | cons b bs =>
      simp only [clash, Bool.or_eq_true, bne_iff_ne, ne_eq] at h
      simp only [List.cons_append, List.isPrefixOf]
      rcases h with h | h
      · have : (a == b) = false := by simpa using h
        simp [this]
      · simp [ih bs h]

theorem clash_extend (l x u : Text) (h : clash l u = true) : clash (l ++ x) u = true := by
  induction l generalizing u with
  | nil => simp [clash] at h
  | cons a as ih =>
    cases u with
    | nil => simp [clash] at h
    | cons b bs =>
      simp only [clash, Bool.or_eq_true] at h
      simp only [List.cons_append, clash, Bool.or_eq_true]
      rcases h with h | h
      · exact .inl h
      · exact .inr (ih bs h)

theorem quietFor_cons {lits : List Text} {c : Char} {cs : Text} (h : quietFor lits (c :: cs) = true) :
    (∀ l ∈ lits, clash l (c :: cs) = true) ∧ quietFor lits cs = true := by
  simp only [quietFor, Bool.and_eq_true, List.all_eq_true] at h
  exact h

/-- a literal that clashes with every tail of `a` and does not occur in `b` does not occur in `a ++ b` -/
theorem findSub_quiet_append (lits : List Text) (pat : Text) (hp : pat ∈ lits) (a b : Text)
    (hq : quietFor lits a = true) (hb : findSub pat b = none) : findSub pat (a ++ b) = none := by
  induction a with
  | nil => simpa using hb
  | cons c cs ih =>
    obtain ⟨h1, h2⟩ := quietFor_cons hq
    have := clash_isPrefixOf pat (c :: cs) b (h1 pat hp)
    show findSub pat (c :: (cs ++ b)) = none
    rw [findSub]
    simp only [List.cons_append] at this
    simp [this, ih h2]

theorem findSub_quiet (lits : List Text) (pat : Text) (hp : pat ∈ lits) (hne : pat ≠ []) (a : Text)
    (hq : quietFor lits a = true) : findSub pat a = none := by
  have := findSub_quiet_append lits pat hp a [] hq (by
    obtain ⟨p, ps, rfl⟩ := List.exists_cons_of_ne_nil hne
    simp [findSub])
  simpa using this

/-! ### `NoBreak` -/

theorem noBreak_of_B {t : Text} (h : noBreakB t = true) : C10L.NoBreak t := by
  intro ch hch
  simp only [noBreakB, List.all_eq_true, Bool.not_eq_true'] at h
  exact h ch hch

theorem noNL_of_noBreak {t : Text} (h : C10L.NoBreak t) : NoNL t := by
  intro hm
  have := h '\n' hm
  exact absurd this (by decide)

theorem noNewline_of_noBreak {t : Text} (h : C10L.NoBreak t) : noNewline t = true :=
  Model.noNewline_of_not_mem (noNL_of_noBreak h)

end C07A
