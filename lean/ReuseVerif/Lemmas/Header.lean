/-
Helper lemmas about the header model (`Model/Header.lean`): set equality on lists, the
guard of `createNewHeader`, the shape of what `placeHeader` returns.
-/
import ReuseVerif.Model.Header
import ReuseVerif.Lemmas.Merge

namespace Model
open Py

theorem sameSet_iff {a b : List Text} : sameSet a b = true ↔ ∀ x, x ∈ a ↔ x ∈ b := by
  unfold sameSet
  simp only [Bool.and_eq_true, List.all_eq_true, List.contains_eq_mem, decide_eq_true_eq]
  constructor
  · rintro ⟨h1, h2⟩ x; exact ⟨h1 x, h2 x⟩
  · intro h; exact ⟨fun x hx => (h x).mp hx, fun x hx => (h x).mpr hx⟩

theorem mem_unionTexts {a b : List Text} {x : Text} : x ∈ unionTexts a b ↔ x ∈ a ∨ x ∈ b := by
  unfold unionTexts; rw [mem_dedup]; simp

/-- the body of `createNewHeader` before the guard: what would be written -/
def renderedHeader (c : HdrCfg) (info : Extracted) : Except HeaderErr Text :=
  let rendered := stripChars ['\n'] (c.render ⟨sortTexts info.cpr, sortTexts info.con, sortTexts info.lic⟩)
  if c.commented then .ok rendered
  else match createComment c.style rendered c.forceMulti with
    | .ok t => .ok (stripChars ['\n'] t)
    | .error _ => .error .commentCreate

/-- the guard of `_create_new_header` as a Boolean -/
def guardOk (c : HdrCfg) (info : Extracted) (result : Text) : Bool :=
  sameSet info.cpr (extractRaw result).cpr &&
    sameSet (info.lic.map c.normLic) ((extractRaw result).lic.map c.normLic)

theorem createNewHeader_eq (c : HdrCfg) (info : Extracted) :
    createNewHeader c info =
      match renderedHeader c info with
      | .error e => .error e
      | .ok result => if guardOk c info result then .ok result else .error .missingInfo := by
  unfold createNewHeader renderedHeader guardOk
  by_cases hc : c.commented = true
  · simp only [hc, if_true]; rfl
  · simp only [hc, Bool.false_eq_true, if_false]
    cases createComment c.style _ c.forceMulti <;> rfl

/-- success of `createNewHeader` means: the text is the rendered (and commented) header, and
    the guard held on it -/
theorem createNewHeader_ok {c : HdrCfg} {info : Extracted} {h : Text}
    (hok : createNewHeader c info = .ok h) :
    renderedHeader c info = .ok h ∧ guardOk c info h = true := by
  rw [createNewHeader_eq] at hok
  cases hr : renderedHeader c info with
  | error e => simp [hr] at hok
  | ok result =>
    simp only [hr] at hok
    by_cases hg : guardOk c info result = true
    · simp only [hg, if_true] at hok
      cases hok; exact ⟨rfl, hg⟩
    · simp only [hg, if_false] at hok
      cases hok

end Model
