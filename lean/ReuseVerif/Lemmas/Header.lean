/-
Helper lemmas about the header model (`Model/Header.lean`): set equality on lists, the
guard of `createNewHeader`, the shape of what `placeHeader` returns.
-/
import ReuseVerif.Model.Header
import ReuseVerif.Lemmas.Merge

namespace Model
open Py

theorem sameSet_iff {a b : List Text} : sameSet a b = true ↔ ∀ x, x ∈ a ↔ x ∈ b := by
  unfold sameSet
  simp only [Bool.and_eq_true, List.all_eq_true, List.contains_eq_mem, decide_eq_true_eq]
  constructor
  · rintro ⟨h1, h2⟩ x; exact ⟨h1 x, h2 x⟩
  · intro h; exact ⟨fun x hx => (h x).mp hx, fun x hx => (h x).mpr hx⟩

theorem mem_unionTexts {a b : List Text} {x : Text} : x ∈ unionTexts a b ↔ x ∈ a ∨ x ∈ b := by
  unfold unionTexts; rw [mem_dedup]; simp

/-- the body of `createNewHeader` before the guard: what would be written -/
def renderedHeader (c : HdrCfg) (info : Extracted) : Except HeaderErr Text :=
  let rendered := stripChars ['\n'] (c.render ⟨sortTexts info.cpr, sortTexts info.con, sortTexts info.lic⟩)
  if c.commented then .ok rendered
  else match createComment c.style rendered c.forceMulti with
    | .ok t => .ok (stripChars ['\n'] t)
    | .error _ => .error .commentCreate

/-- the guard of `_create_new_header` as a Boolean -/
def guardOk (c : HdrCfg) (info : Extracted) (result : Text) : Bool :=
  (extractRaw result).lic.all c.parses &&
  (sameSet info.cpr (extractRaw result).cpr &&
    sameSet (info.lic.map c.normLic) ((extractRaw result).lic.map c.normLic) &&
    ((extractRaw result).con.isEmpty || sameSet info.con (extractRaw result).con))

theorem createNewHeader_eq (c : HdrCfg) (info : Extracted) :
    createNewHeader c info =
      match renderedHeader c info with
      | .error e => .error e
      | .ok result => if guardOk c info result then .ok result else .error .missingInfo := by
  unfold createNewHeader renderedHeader guardOk
  by_cases hc : c.commented = true
  · simp only [hc, if_true]; rfl
  · simp only [hc, Bool.false_eq_true, if_false]
    cases createComment c.style _ c.forceMulti <;> rfl

/-- success of `createNewHeader` means: the text is the rendered (and commented) header, and
    the guard held on it -/
theorem createNewHeader_ok {c : HdrCfg} {info : Extracted} {h : Text}
    (hok : createNewHeader c info = .ok h) :
    renderedHeader c info = .ok h ∧ guardOk c info h = true := by
  rw [createNewHeader_eq] at hok
  cases hr : renderedHeader c info with
  | error e => simp [hr] at hok
  | ok result =>
    simp only [hr] at hok
    by_cases hg : guardOk c info result = true
    · simp only [hg, if_true] at hok
      cases hok; exact ⟨rfl, hg⟩
    · simp only [hg] at hok
      cases hok

/-! ### the shape of what is written -/

theorem placeHeader_shape (h b a : Text) (e : Bool) :
    ∃ pre post, placeHeader h b a e = pre ++ h ++ ['\n'] ++ post ∧ (pre = [] ∨ ∃ p, pre = p ++ ['\n']) := by
  unfold placeHeader
  by_cases hb : (strip b).isEmpty = true <;> by_cases ha : (strip a).isEmpty = true
  · exact ⟨[], [], by simp [hb, ha], .inl rfl⟩
  · exact ⟨[], _, by simp only [hb, ha, if_true]; simp; rfl, .inl rfl⟩
  · exact ⟨rstrip b ++ ['\n', '\n'], [], by simp [hb, ha], .inr ⟨rstrip b ++ ['\n'], by simp⟩⟩
  · exact ⟨rstrip b ++ ['\n', '\n'], _, by simp only [hb, ha]; simp; rfl, .inr ⟨rstrip b ++ ['\n'], by simp⟩⟩

theorem far_ok {c : HdrCfg} {info : Extracted} {text t : Text}
    (h : findAndReplaceHeader c info text = .ok t) :
    ∃ before header after nh e, createHeader c info header = .ok nh ∧ t = placeHeader nh before after e := by
  unfold findAndReplaceHeader at h
  simp only [bind, Except.bind] at h
  split at h
  · cases h
  · rename_i v hv
    simp only [pure, Except.pure, Except.ok.injEq] at h
    exact ⟨_, _, _, v, _, hv, h.symm⟩

theorem anh_ok {c : HdrCfg} {info : Extracted} {text t : Text}
    (h : addNewHeader c info text = .ok t) :
    ∃ before after nh e, createHeader c info [] = .ok nh ∧ t = placeHeader nh before after e := by
  unfold addNewHeader at h
  simp only [bind, Except.bind] at h
  split at h
  · cases h
  · rename_i v hv
    simp only [pure, Except.pure, Except.ok.injEq] at h
    exact ⟨_, _, v, _, hv, h.symm⟩

theorem annotateText_written {c : HdrCfg} {replace skip : Bool} {info : Extracted} {text t : Text}
    (h : annotateText c replace skip info text = .written t) :
    ∃ before header after nh e, createHeader c info header = .ok nh ∧
      t = (if detectLineEnding text == ['\n'] then placeHeader nh before after e
           else Py.replace (placeHeader nh before after e) ['\n'] (detectLineEnding text)) := by
  unfold annotateText at h
  split at h
  · cases h
  · simp only at h
    split at h
    · cases h
    · rename_i t0 ht0
      cases h
      by_cases hr : replace = true
      · simp only [hr, if_true] at ht0
        obtain ⟨b, hd, a, nh, e, h1, h2⟩ := far_ok ht0
        exact ⟨b, hd, a, nh, e, h1, by rw [h2]⟩
      · simp only [hr] at ht0
        obtain ⟨b, a, nh, e, h1, h2⟩ := anh_ok ht0
        exact ⟨b, [], a, nh, e, h1, by rw [h2]⟩

end Model
