/-
C09 (full-file step): END is local.  The END expression of the tag patterns can read a line feed only inside the
`\s*` that follows `"`, `'` or `]` (`Spec.guardStep`, decided on the generated expression).  Hence on a text `u`
whose last character that is not white space is none of these, the backtracking matcher never looks beyond `u`:
`matchEndWith endRe (u ++ z)` is `matchEndWith endRe u` with `z` appended to what remains (`z` empty or starting
with a line feed).
-/
import ReuseVerif.Spec.HistoryFull
import ReuseVerif.Lemmas.Splice
import ReuseVerif.Lemmas.Re

namespace C09L
open Py Model Spec C08L

/-! ### the last character that is not white space -/

theorem isSpace_eq_nat (c : Char) : isSpace c = isSpaceNat c.toNat := rfl

theorem lastNonSpace_cons (d : Char) (ds : Text) :
    lastNonSpace (d :: ds) = match lastNonSpace ds with
      | some c => some c
      | none => if isSpace d then none else some d := by
  unfold lastNonSpace
  cases hd : isSpace d
  · simp only [List.filter_cons, hd, Bool.not_false, if_true]
    cases hf : (ds.filter fun c => !isSpace c) with
    | nil => simp
    | cons x xs =>
      rw [List.getLast?_cons_cons]
      cases h2 : (x :: xs).getLast? with
      | none => simp at h2
      | some c => rfl
  · simp only [List.filter_cons, hd, Bool.not_true, Bool.false_eq_true, if_false]
    cases (ds.filter fun c => !isSpace c).getLast? <;> rfl

theorem head?_dropWhile_filter (v : Text) :
    (v.dropWhile isSpace).head? = (v.filter fun c => !isSpace c).head? := by
  induction v with
  | nil => rfl
  | cons c cs ih =>
    cases hc : isSpace c <;> simp [hc, ih]

/-- the last character of `rstrip u` is the last character of `u` that is not white space -/
theorem rstrip_getLast (u : Text) : (rstrip u).getLast? = lastNonSpace u := by
  unfold rstrip lastNonSpace
  rw [List.getLast?_reverse, head?_dropWhile_filter, ← List.getLast?_reverse, List.filter_reverse, List.reverse_reverse]

theorem lastNonSpace_none_iff (u : Text) : lastNonSpace u = none ↔ Blank u := by
  rw [← rstrip_getLast, List.getLast?_eq_none_iff, rstrip_nil_iff]

theorem lastNonSpace_append_blank (u w : Text) (hw : Blank w) : lastNonSpace (u ++ w) = lastNonSpace u := by
  unfold lastNonSpace
  have : (w.filter fun c => !isSpace c) = [] := by
    rw [List.filter_eq_nil_iff]
    intro c hc
    have := List.all_eq_true.mp hw c hc
    simp [this]
  rw [List.filter_append, this, List.append_nil]

theorem lastNonSpace_append (u v : Text) (hv : ¬ Blank v) : lastNonSpace (u ++ v) = lastNonSpace v := by
  unfold lastNonSpace
  rw [List.filter_append]
  have hne : (v.filter fun c => !isSpace c) ≠ [] := by
    intro h
    apply hv
    have := (lastNonSpace_none_iff v).mp (by unfold lastNonSpace; rw [h]; rfl)
    exact this
  exact getLast?_append_ne _ hne

/-! ### the invariant of the simulation -/

/-- the rest of `u` still to be read: it does not end (white space aside) with a quote character, and when the matcher
    is armed it holds a character that is not white space -/
def Inv (Q : List Char) (b : Bool) (u : Text) : Prop :=
  (∀ c, lastNonSpace u = some c → c ∉ Q) ∧ (b = true → lastNonSpace u ≠ none)

theorem Inv.mono {Q : List Char} {b1 b2 : Bool} {u : Text} (h : b2 = true → b1 = true) (hi : Inv Q b1 u) : Inv Q b2 u :=
  ⟨hi.1, fun hb => hi.2 (h hb)⟩

theorem Inv.nil_false {Q : List Char} {b : Bool} (hi : Inv Q b []) : b = false := by
  cases b with
  | false => rfl
  | true => exact absurd rfl (hi.2 rfl)

/-- after reading `d`: the state the abstract run computes -/
theorem Inv.tail {Q : List Char} (hQ : ∀ q ∈ Q, isSpace q = false) {b : Bool} {d : Char} {ds : Text}
    (hi : Inv Q b (d :: ds)) (b' : Bool)
    (hb' : b' = true → (d ∈ Q ∨ (isSpace d = true ∧ b = true))) : Inv Q b' ds := by
  have hc := lastNonSpace_cons d ds
  refine ⟨fun c hcs => hi.1 c (by rw [hc, hcs]), fun hb hnone => ?_⟩
  rw [hnone] at hc
  simp only at hc
  rcases hb' hb with hq | ⟨hsp, hbt⟩
  · have hns := hQ d hq
    rw [hns] at hc
    simp only [Bool.false_eq_true, if_false] at hc
    exact hi.1 d hc hq
  · rw [hsp] at hc
    simp only [if_true] at hc
    exact hi.2 hbt hc

theorem clsAllSpace_sound {neg : Bool} {rs : List (Char × Char)} (h : clsAllSpace neg rs = true) {d : Char}
    (hd : Re.clsMatch neg rs d = true) : isSpace d = true := by
  unfold clsAllSpace at h
  simp only [Bool.and_eq_true, Bool.not_eq_true', List.all_eq_true, List.mem_range] at h
  obtain ⟨hneg, hall⟩ := h
  unfold Re.clsMatch at hd
  simp only [hneg, Bool.false_eq_true, if_false] at hd
  unfold Re.inRanges at hd
  simp only [List.any_eq_true, decide_eq_true_eq] at hd
  obtain ⟨r, hr, h1, h2⟩ := hd
  have h1' : r.1.toNat ≤ d.toNat := by
    have := Char.le_def.mp h1
    exact UInt32.le_iff_toNat_le.mp this
  have h2' : d.toNat ≤ r.2.toNat := by
    have := Char.le_def.mp h2
    exact UInt32.le_iff_toNat_le.mp this
  have := hall r hr (d.toNat - r.1.toNat) (by omega)
  rw [isSpace_eq_nat]
  rw [show r.1.toNat + (d.toNat - r.1.toNat) = d.toNat by omega] at this
  exact this

/-! ### the simulation -/

theorem atLineEnd_cases {z : Text} (h : atLineEnd z = true) : z = [] ∨ ∃ Z, z = '\n' :: Z := by
  cases z with
  | nil => exact .inl rfl
  | cons c cs =>
    simp only [atLineEnd, beq_iff_eq] at h
    subst h; exact .inr ⟨cs, rfl⟩

/-- **Simulation.**  While the part `u` still to be read satisfies the invariant, the matcher does the same on
    `u ++ z1` and on `u ++ z2` — it never reads a character of `z1` / `z2`. -/
theorem btO_sim {α : Type} (Q : List Char) (hQ : ∀ q ∈ Q, isSpace q = false) (r : Re) :
    ∀ (u z1 z2 : Text) (k1 k2 : Text → Option α) (b b' : Bool),
      guardStep Q r b = some b' → Inv Q b u → atLineEnd z1 = true → atLineEnd z2 = true →
      (∀ u', u'.length ≤ u.length → Inv Q b' u' → k1 (u' ++ z1) = k2 (u' ++ z2)) →
      Re.btO r (u ++ z1) k1 = Re.btO r (u ++ z2) k2 := by
  induction r with
  | eps =>
    intro u z1 z2 k1 k2 b b' hg hi _ _ hk
    simp only [guardStep, Option.some.injEq] at hg
    subst hg
    rw [Re.btO, Re.btO]
    exact hk u (Nat.le_refl _) hi
  | chr c =>
    intro u z1 z2 k1 k2 b b' hg hi hz1 hz2 hk
    cases u with
    | nil =>
      have hb := hi.nil_false
      subst hb
      have hc : (c == '\n') = false := by
        cases hcn : (c == '\n') with
        | false => rfl
        | true => simp [guardStep, hcn] at hg
      have side : ∀ z, atLineEnd z = true → ∀ k : Text → Option α, Re.btO (.chr c) ([] ++ z) k = none := by
        intro z hz k
        rcases atLineEnd_cases hz with rfl | ⟨Z, rfl⟩
        · simp [Re.btO]
        · simp [Re.btO, hc, Re.guardOpt]
      rw [side z1 hz1, side z2 hz2]
    | cons d ds =>
      simp only [List.cons_append]
      rw [Re.btO, Re.btO]
      cases hcd : (c == d) with
      | false => rfl
      | true =>
        simp only [Re.guardOpt]
        have hcd' : c = d := by simpa using hcd
        subst hcd'
        apply hk ds (by simp)
        apply hi.tail hQ
        intro hb'
        simp only [guardStep] at hg
        split at hg
        · rename_i hn
          split at hg
          · rename_i hb
            right
            have : c = '\n' := by simpa using hn
            exact ⟨by rw [this]; decide, hb⟩
          · cases hg
        · simp only [Option.some.injEq] at hg
          subst hg
          split at hb'
          · rename_i hq
            left; simpa using hq
          · split at hb'
            · rename_i hsp
              exact .inr ⟨hsp, hb'⟩
            · cases hb'
  | cls neg rs =>
    intro u z1 z2 k1 k2 b b' hg hi hz1 hz2 hk
    simp only [guardStep] at hg
    split at hg
    · cases hg
    · rename_i hcond
      simp only [Option.some.injEq] at hg
      cases u with
      | nil =>
        have hb := hi.nil_false
        subst hb
        have hc : Re.clsMatch neg rs '\n' = false := by
          cases hcn : Re.clsMatch neg rs '\n' with
          | false => rfl
          | true => simp [hcn] at hcond
        have side : ∀ z, atLineEnd z = true → ∀ k : Text → Option α, Re.btO (.cls neg rs) ([] ++ z) k = none := by
          intro z hz k
          rcases atLineEnd_cases hz with rfl | ⟨Z, rfl⟩
          · simp [Re.btO]
          · simp [Re.btO, hc, Re.guardOpt]
        rw [side z1 hz1, side z2 hz2]
      | cons d ds =>
        simp only [List.cons_append]
        rw [Re.btO, Re.btO]
        cases hcd : Re.clsMatch neg rs d with
        | false => rfl
        | true =>
          simp only [Re.guardOpt]
          apply hk ds (by simp)
          apply hi.tail hQ
          intro hb'
          rw [← hg] at hb'
          simp only [Bool.and_eq_true] at hb'
          exact .inr ⟨clsAllSpace_sound hb'.2 hcd, hb'.1⟩
  | cat a b2 iha ihb =>
    intro u z1 z2 k1 k2 b b' hg hi hz1 hz2 hk
    simp only [guardStep] at hg
    cases hga : guardStep Q a b with
    | none => simp [hga] at hg
    | some bm =>
      simp only [hga, Option.bind_some] at hg
      rw [Re.btO, Re.btO]
      apply iha u z1 z2 _ _ b bm hga hi hz1 hz2
      intro u' hu' hi'
      exact ihb u' z1 z2 k1 k2 bm b' hg hi' hz1 hz2 (fun u'' hu'' hi'' => hk u'' (Nat.le_trans hu'' hu') hi'')
  | alt a b2 iha ihb =>
    intro u z1 z2 k1 k2 b b' hg hi hz1 hz2 hk
    simp only [guardStep] at hg
    cases hga : guardStep Q a b with
    | none => simp [hga] at hg
    | some x =>
      cases hgb : guardStep Q b2 b with
      | none => simp [hga, hgb] at hg
      | some y =>
        simp only [hga, hgb, Option.some.injEq] at hg
        subst hg
        rw [Re.btO, Re.btO]
        have h1 := iha u z1 z2 k1 k2 b x hga hi hz1 hz2
          (fun u' hu' hi' => hk u' hu' (hi'.mono (by simp; intro h _; exact h)))
        have h2 := ihb u z1 z2 k1 k2 b y hgb hi hz1 hz2
          (fun u' hu' hi' => hk u' hu' (hi'.mono (by simp)))
        rw [h1, h2]
  | star a iha =>
    -- inner induction on the length of what is still to be read
    have key : ∀ n, ∀ (u z1 z2 : Text) (k1 k2 : Text → Option α) (b b' : Bool), u.length ≤ n →
        guardStep Q (.star a) b = some b' → Inv Q b u → atLineEnd z1 = true → atLineEnd z2 = true →
        (∀ u', u'.length ≤ u.length → Inv Q b' u' → k1 (u' ++ z1) = k2 (u' ++ z2)) →
        Re.btO (.star a) (u ++ z1) k1 = Re.btO (.star a) (u ++ z2) k2 := by
      intro n
      induction n with
      | zero =>
        intro u z1 z2 k1 k2 b b' hn hg hi hz1 hz2 hk
        have hu : u = [] := List.length_eq_zero_iff.mp (Nat.le_zero.mp hn)
        subst hu
        -- nothing left of `u`: the body cannot read anything, the continuation decides
        simp only [guardStep] at hg
        cases hga : guardStep Q a b with
        | none => simp [hga] at hg
        | some b1 =>
          have hb := hi.nil_false
          subst hb
          rw [Re.btO, Re.btO]
          have hbody := iha [] z1 z2
            (fun s' => if s'.length < ([] ++ z1).length then Re.btO (.star a) s' k1 else none)
            (fun s' => if s'.length < ([] ++ z2).length then Re.btO (.star a) s' k2 else none) false b1 hga hi hz1 hz2
            (by
              intro u' hu' _
              have : u' = [] := List.length_eq_zero_iff.mp (Nat.le_zero.mp hu')
              subst this
              simp)
          rw [hbody]
          have hkk : k1 ([] ++ z1) = k2 ([] ++ z2) := by
            apply hk [] (Nat.le_refl _)
            simp only [hga] at hg
            split at hg
            · simp only [Option.some.injEq] at hg; subst hg; exact hi
            · split at hg
              · simp only [Option.some.injEq] at hg; subst hg; exact hi
              · cases hg
          rw [hkk]
      | succ n ihn =>
        intro u z1 z2 k1 k2 b b' hn hg hi hz1 hz2 hk
        have hg0 := hg
        simp only [guardStep] at hg
        cases hga : guardStep Q a b with
        | none => simp [hga] at hg
        | some b1 =>
          simp only [hga] at hg
          rw [Re.btO, Re.btO]
          -- the state in which every later round of the star starts, and the state after the star
          have hstate : ∃ bs, guardStep Q (.star a) bs = some b' ∧ (b1 = true → bs = true) ∧ (bs = true → b1 = true) ∧
              (b' = true → b = true) := by
            split at hg
            · rename_i heq
              have : b1 = b := by simpa using heq
              simp only [Option.some.injEq] at hg
              subst hg; subst this
              exact ⟨b1, hg0, id, id, id⟩
            · rename_i hne
              split at hg
              · rename_i hf
                simp only [Option.some.injEq] at hg
                subst hg
                have hb1 : b1 = false := by
                  cases b with
                  | false => rw [hga] at hf; simp only [Option.some.injEq] at hf; exact hf
                  | true => cases b1 with
                    | false => rfl
                    | true => simp at hne
                subst hb1
                refine ⟨false, ?_, id, id, by simp⟩
                simp [guardStep, hf]
              · cases hg
          obtain ⟨bs, hgs, hb1s, hsb1, hb'b⟩ := hstate
          have hbody := iha u z1 z2
            (fun s' => if s'.length < (u ++ z1).length then Re.btO (.star a) s' k1 else none)
            (fun s' => if s'.length < (u ++ z2).length then Re.btO (.star a) s' k2 else none) b b1 hga hi hz1 hz2
            (by
              intro u' hu' hi'
              by_cases hlt : u'.length < u.length
              · have l1 : (u' ++ z1).length < (u ++ z1).length := by simp only [List.length_append]; omega
                have l2 : (u' ++ z2).length < (u ++ z2).length := by simp only [List.length_append]; omega
                simp only [l1, l2, if_true]
                exact ihn u' z1 z2 k1 k2 bs b' (by omega) hgs (hi'.mono hsb1) hz1 hz2
                  (fun u'' hu'' hi'' => hk u'' (by omega) hi'')
              · have l1 : ¬ (u' ++ z1).length < (u ++ z1).length := by simp only [List.length_append]; omega
                have l2 : ¬ (u' ++ z2).length < (u ++ z2).length := by simp only [List.length_append]; omega
                simp only [l1, l2, if_false])
          rw [hbody, hk u (Nat.le_refl _) (hi.mono hb'b)]
    intro u z1 z2 k1 k2 b b' hg hi hz1 hz2 hk
    exact key u.length u z1 z2 k1 k2 b b' (Nat.le_refl _) hg hi hz1 hz2 hk

end C09L
