/-
C17: the two shapes excluded by `dep5Plain` are *necessarily* excluded.  For every valid dep5 glob
with an unescaped `?` and for every glob `*…*/r` (`r` plain) a path is constructed on which
python-debian's matcher and the REUSE.toml matcher of the converted glob differ.
-/
import ReuseVerif.Lemmas.Dep5

namespace Model
open Py Py.Re Spec

/-- how many `?` characters a REUSE.toml glob demands literally -/
def reqQ : Text → Nat
  | [] => 0
  | ['\\'] => 0
  | '\\' :: c :: r => (if c == '?' then 1 else 0) + reqQ r
  | c :: r => (if c == '?' then 1 else 0) + reqQ r

/-- how many `/` characters a dep5 glob demands literally -/
def reqSlash : Text → Nat
  | [] => 0
  | ['\\'] => 0
  | '\\' :: _ :: r => reqSlash r
  | c :: r => (if c == '/' then 1 else 0) + reqSlash r

theorem wit_esc (c : Char) (r : Text) : dep5Witness ('\\' :: c :: r) = c :: dep5Witness r := by rw [dep5Witness]
theorem wit_cons {c : Char} (r : Text) (h : c ≠ '\\') :
    dep5Witness (c :: r) = if c == '*' then dep5Witness r else if c == '?' then 'x' :: dep5Witness r else c :: dep5Witness r := by
  rw [dep5Witness]
  · intro e _; exact h e
  · intro c' r' e _; exact h e

theorem reqQ_esc (c : Char) (r : Text) : reqQ ('\\' :: c :: r) = (if c == '?' then 1 else 0) + reqQ r := by rw [reqQ]
theorem reqQ_cons {c : Char} (r : Text) (h : c ≠ '\\') : reqQ (c :: r) = (if c == '?' then 1 else 0) + reqQ r := by
  rw [reqQ]
  · intro e _; exact h e
  · intro c' r' e _; exact h e

theorem reqSlash_esc (c : Char) (r : Text) : reqSlash ('\\' :: c :: r) = reqSlash r := by rw [reqSlash]
theorem reqSlash_cons {c : Char} (r : Text) (h : c ≠ '\\') : reqSlash (c :: r) = (if c == '/' then 1 else 0) + reqSlash r := by
  rw [reqSlash]
  · intro e _; exact h e
  · intro c' r' e _; exact h e

theorem hasQ_esc (c : Char) (r : Text) : hasQ ('\\' :: c :: r) = hasQ r := by rw [hasQ]
theorem hasQ_cons {c : Char} (r : Text) (h : c ≠ '\\') : hasQ (c :: r) = (c == '?' || hasQ r) := by
  rw [hasQ]
  · intro e _; exact h e
  · intro c' r' e _; exact h e

theorem reqQ_stars (m : Nat) (r : Text) : reqQ (List.replicate m '*' ++ r) = reqQ r := by
  induction m with
  | zero => simp
  | succ k ih =>
    rw [List.replicate_succ, List.cons_append, reqQ_cons _ (by decide), ih]
    simp

/-! ### the witness is in the dep5 language -/

theorem dep5Witness_matches : ∀ (d : Text) (bs : List Re), dep5Blocks d = some bs → Matches (seq bs) (dep5Witness d) := by
  intro d
  induction hlen : d.length using Nat.strongRecOn generalizing d with
  | _ len ih =>
    intro bs hb
    cases d with
    | nil => rw [dep5Blocks] at hb; cases hb; rw [dep5Witness]; exact .eps
    | cons c d' =>
      by_cases hbs : c = '\\'
      · subst hbs
        cases d' with
        | nil => rw [dep5Blocks] at hb; cases hb
        | cons e d'' =>
          rw [dep5Blocks] at hb
          split at hb
          · obtain ⟨bs', hb', rfl⟩ := Option.map_eq_some_iff.mp hb
            rw [wit_esc, matches_seq_cons]
            exact ⟨[e], _, rfl, .chr e, ih d''.length (by subst hlen; simp; omega) d'' rfl bs' hb'⟩
          · cases hb
      · by_cases hst : c = '*'
        · subst hst
          rw [dep5Blocks] at hb
          obtain ⟨bs', hb', rfl⟩ := Option.map_eq_some_iff.mp hb
          rw [wit_cons _ (by decide), matches_seq_cons]
          simp only [beq_self_eq_true, if_true]
          exact ⟨[], _, rfl, matches_star_any [], ih d'.length (by subst hlen; simp) d' rfl bs' hb'⟩
        · by_cases hq : c = '?'
          · subst hq
            rw [dep5Blocks] at hb
            obtain ⟨bs', hb', rfl⟩ := Option.map_eq_some_iff.mp hb
            rw [wit_cons _ (by decide), matches_seq_cons]
            refine ⟨['x'], _, by simp, ?_, ih d'.length (by subst hlen; simp) d' rfl bs' hb'⟩
            rw [anyChar]; exact .cls (by simp [clsMatch, inRanges])
          · rw [dep5Blocks_lit d' hst hbs hq] at hb
            obtain ⟨bs', hb', rfl⟩ := Option.map_eq_some_iff.mp hb
            rw [wit_cons _ hbs, matches_seq_cons]
            have h1 : (c == '*') = false := by simpa using hst
            have h2 : (c == '?') = false := by simpa using hq
            simp only [h1, h2, Bool.false_eq_true, if_false]
            exact ⟨[c], _, rfl, .chr c, ih d'.length (by subst hlen; simp) d' rfl bs' hb'⟩

/-! ### every path of the REUSE.toml language carries the demanded `?` characters -/

theorem glob_reqQ_le (g : Text) : ∀ p, Matches (seq (translate g)) p → reqQ g ≤ p.count '?' := by
  induction hlen : g.length using Nat.strongRecOn generalizing g with
  | _ len ih =>
    intro p hm
    cases g with
    | nil => rw [reqQ]; exact Nat.zero_le _
    | cons c g' =>
      by_cases hbs : c = '\\'
      · subst hbs
        cases g' with
        | nil => rw [reqQ]; exact Nat.zero_le _
        | cons e g'' =>
          rw [translate_esc, matches_seq_cons] at hm
          obtain ⟨a, t, rfl, ha, ht⟩ := hm
          rw [matches_chr] at ha; subst ha
          have := ih g''.length (by subst hlen; simp; omega) g'' rfl t ht
          rw [reqQ_esc]
          simp only [List.singleton_append, List.count_cons]
          omega
      · by_cases hst : c = '*'
        · subst hst
          obtain ⟨m, r, rfl, hr⟩ := stars_split g'
          have hq : reqQ ('*' :: (List.replicate m '*' ++ r)) = reqQ r := by
            have := reqQ_stars (m + 1) r
            rwa [List.replicate_succ, List.cons_append] at this
          rw [hq]
          have hlr : r.length < len := by subst hlen; simp; omega
          cases m with
          | zero =>
            simp only [List.replicate_zero, List.nil_append] at hm
            rw [translate_star1 r hr, matches_seq_cons] at hm
            obtain ⟨a, t, rfl, _, ht⟩ := hm
            have := ih r.length hlr r rfl t ht
            rw [List.count_append]; omega
          | succ k =>
            by_cases hsl : r.head? = some '/'
            · obtain ⟨r', rfl⟩ : ∃ r', r = '/' :: r' := by
                cases r with
                | nil => simp at hsl
                | cons c cs => simp at hsl; exact ⟨cs, by rw [hsl]⟩
              rw [translate_starDir _ _ (by omega), matches_seq_cons] at hm
              obtain ⟨a, t, rfl, _, ht⟩ := hm
              have := ih r'.length (by simp at hlr; omega) r' rfl t ht
              rw [reqQ_cons _ (by decide), List.count_append]
              simp only [show (('/' : Char) == '?') = false from by decide, Bool.false_eq_true, if_false]
              omega
            · rw [translate_starN _ _ (by omega) hr hsl, matches_seq_cons] at hm
              obtain ⟨a, t, rfl, _, ht⟩ := hm
              have := ih r.length hlr r rfl t ht
              rw [List.count_append]; omega
        · rw [translate_lit g' hst hbs, matches_seq_cons] at hm
          obtain ⟨a, t, rfl, ha, ht⟩ := hm
          rw [matches_chr] at ha; subst ha
          have := ih g'.length (by subst hlen; simp) g' rfl t ht
          rw [reqQ_cons _ hbs]
          simp only [List.singleton_append, List.count_cons]
          omega

/-- the conversion keeps every `?` (it only rewrites asterisk runs) -/
theorem reqQ_convert (d : Text) : reqQ (convertGlob d) = reqQ d := by
  induction hlen : d.length using Nat.strongRecOn generalizing d with
  | _ len ih =>
    cases d with
    | nil => rw [convert_nil]
    | cons c d' =>
      by_cases hbs : c = '\\'
      · subst hbs
        cases d' with
        | nil => rw [convertGlob]
        | cons e d'' =>
          rw [convert_esc, reqQ_esc, reqQ_esc, ih d''.length (by subst hlen; simp; omega) d'' rfl]
      · by_cases hst : c = '*'
        · subst hst
          obtain ⟨m, r, rfl, hr⟩ := stars_split d'
          rw [convert_star m r hr, reqQ_stars, ih r.length (by subst hlen; simp; omega) r rfl]
          have := reqQ_stars (m + 1) r
          rw [List.replicate_succ, List.cons_append] at this
          exact this.symm
        · rw [convert_lit d' hst hbs, reqQ_cons _ hbs, reqQ_cons _ hbs, ih d'.length (by subst hlen; simp) d' rfl]

/-- the witness carries fewer `?` than demanded as soon as the glob has a `?` wildcard -/
theorem witness_count_q (d : Text) :
    (dep5Witness d).count '?' + (if hasQ d then 1 else 0) ≤ reqQ d := by
  induction hlen : d.length using Nat.strongRecOn generalizing d with
  | _ len ih =>
    cases d with
    | nil => simp [dep5Witness, hasQ, reqQ]
    | cons c d' =>
      by_cases hbs : c = '\\'
      · subst hbs
        cases d' with
        | nil => simp [dep5Witness, hasQ, reqQ]
        | cons e d'' =>
          have := ih d''.length (by subst hlen; simp; omega) d'' rfl
          rw [wit_esc, hasQ_esc, reqQ_esc, List.count_cons]
          omega
      · have := ih d'.length (by subst hlen; simp) d' rfl
        rw [wit_cons _ hbs, hasQ_cons _ hbs, reqQ_cons _ hbs]
        by_cases hst : c = '*'
        · subst hst
          simp only [beq_self_eq_true, if_true, show (('*' : Char) == '?') = false from by decide,
            Bool.false_or, Bool.false_eq_true, if_false]
          omega
        · have h1 : (c == '*') = false := by simpa using hst
          by_cases hq : c = '?'
          · subst hq
            simp only [h1, beq_self_eq_true, Bool.true_or, if_true, Bool.false_eq_true, if_false, List.count_cons,
              show (('x' : Char) == '?') = false from by decide]
            split at this <;> omega
          · have h2 : (c == '?') = false := by simpa using hq
            simp only [h1, h2, Bool.false_or, Bool.false_eq_true, if_false, List.count_cons]
            omega

/-! ### slashes -/

theorem dep5_reqSlash_le : ∀ (d : Text) (bs : List Re), dep5Blocks d = some bs →
    ∀ p, Matches (seq bs) p → reqSlash d ≤ p.count '/' := by
  intro d
  induction hlen : d.length using Nat.strongRecOn generalizing d with
  | _ len ih =>
    intro bs hb p hm
    cases d with
    | nil => rw [reqSlash]; exact Nat.zero_le _
    | cons c d' =>
      by_cases hbs : c = '\\'
      · subst hbs
        cases d' with
        | nil => rw [reqSlash]; exact Nat.zero_le _
        | cons e d'' =>
          rw [dep5Blocks] at hb
          split at hb
          · obtain ⟨bs', hb', rfl⟩ := Option.map_eq_some_iff.mp hb
            rw [matches_seq_cons] at hm
            obtain ⟨a, t, rfl, _, ht⟩ := hm
            have := ih d''.length (by subst hlen; simp; omega) d'' rfl bs' hb' t ht
            rw [reqSlash_esc, List.count_append]; omega
          · cases hb
      · have key : ∀ (b : Re) (bs' : List Re), dep5Blocks d' = some bs' → bs = b :: bs' →
            reqSlash d' ≤ p.count '/' ∧
            (c = '/' → b = .chr '/' → reqSlash d' + 1 ≤ p.count '/') := by
          intro b bs' hb' e
          subst e
          rw [matches_seq_cons] at hm
          obtain ⟨a, t, rfl, ha, ht⟩ := hm
          have := ih d'.length (by subst hlen; simp) d' rfl bs' hb' t ht
          refine ⟨by rw [List.count_append]; omega, ?_⟩
          intro _ hb2
          subst hb2
          rw [matches_chr] at ha; subst ha
          simp only [List.singleton_append, List.count_cons, beq_self_eq_true, if_true]
          omega
        rw [reqSlash_cons _ hbs]
        by_cases hst : c = '*'
        · subst hst
          rw [dep5Blocks] at hb
          obtain ⟨bs', hb', rfl⟩ := Option.map_eq_some_iff.mp hb
          have := (key _ bs' hb' rfl).1
          simp only [show (('*' : Char) == '/') = false from by decide, Bool.false_eq_true, if_false]
          omega
        · by_cases hq : c = '?'
          · subst hq
            rw [dep5Blocks] at hb
            obtain ⟨bs', hb', rfl⟩ := Option.map_eq_some_iff.mp hb
            have := (key _ bs' hb' rfl).1
            simp only [show (('?' : Char) == '/') = false from by decide, Bool.false_eq_true, if_false]
            omega
          · rw [dep5Blocks_lit d' hst hbs hq] at hb
            obtain ⟨bs', hb', rfl⟩ := Option.map_eq_some_iff.mp hb
            have k := key (.chr c) bs' hb' rfl
            by_cases hsl : c = '/'
            · subst hsl
              have := k.2 rfl rfl
              simp only [beq_self_eq_true, if_true]; omega
            · have h3 : (c == '/') = false := by simpa using hsl
              have := k.1
              simp only [h3, Bool.false_eq_true, if_false]; omega

theorem witness_count_slash : ∀ (d : Text) (bs : List Re), dep5Blocks d = some bs →
    (dep5Witness d).count '/' = reqSlash d := by
  intro d
  induction hlen : d.length using Nat.strongRecOn generalizing d with
  | _ len ih =>
    intro bs hb
    cases d with
    | nil => simp [dep5Witness, reqSlash]
    | cons c d' =>
      by_cases hbs : c = '\\'
      · subst hbs
        cases d' with
        | nil => simp [dep5Witness, reqSlash]
        | cons e d'' =>
          rw [dep5Blocks] at hb
          split at hb
          · rename_i he
            obtain ⟨bs', hb', rfl⟩ := Option.map_eq_some_iff.mp hb
            have := ih d''.length (by subst hlen; simp; omega) d'' rfl bs' hb'
            have hne : (e == '/') = false := by
              simp only [Bool.or_eq_true, beq_iff_eq] at he
              rcases he with (rfl | rfl) | rfl <;> decide
            rw [wit_esc, reqSlash_esc, List.count_cons, hne]
            simpa using this
          · cases hb
      · have hb' : ∃ bs', dep5Blocks d' = some bs' := by
          by_cases hst : c = '*'
          · subst hst; rw [dep5Blocks] at hb
            obtain ⟨bs', hb', _⟩ := Option.map_eq_some_iff.mp hb; exact ⟨bs', hb'⟩
          · by_cases hq : c = '?'
            · subst hq; rw [dep5Blocks] at hb
              obtain ⟨bs', hb', _⟩ := Option.map_eq_some_iff.mp hb; exact ⟨bs', hb'⟩
            · rw [dep5Blocks_lit d' hst hbs hq] at hb
              obtain ⟨bs', hb', _⟩ := Option.map_eq_some_iff.mp hb; exact ⟨bs', hb'⟩
        obtain ⟨bs', hb'⟩ := hb'
        have := ih d'.length (by subst hlen; simp) d' rfl bs' hb'
        rw [wit_cons _ hbs, reqSlash_cons _ hbs]
        by_cases hst : c = '*'
        · subst hst
          simp only [beq_self_eq_true, if_true, show (('*' : Char) == '/') = false from by decide,
            Bool.false_eq_true, if_false]
          omega
        · have h1 : (c == '*') = false := by simpa using hst
          by_cases hq : c = '?'
          · subst hq
            simp only [h1, beq_self_eq_true, if_true, Bool.false_eq_true, if_false, List.count_cons,
              show (('x' : Char) == '/') = false from by decide, show (('?' : Char) == '/') = false from by decide]
            omega
          · have h2 : (c == '?') = false := by simpa using hq
            simp only [h1, h2, Bool.false_eq_true, if_false, List.count_cons]
            omega

/-- a plain glob is a valid dep5 glob -/
theorem dep5Plain_valid (d : Text) (h : dep5Plain d = true) : ∃ bs, dep5Blocks d = some bs := by
  obtain ⟨bs, hbs, _⟩ := dep5_equiv d h
  exact ⟨bs, hbs⟩

end Model
