/-
C09 (full-file step): a reader `F` that works piece by piece — cut a text at a line feed and what `F`
finds is what it finds in the two parts (`Piecewise`) — finds in the text `place_header` writes everything it
found above the old block, in the new block and below the old block.  Instances: copyright notices
(`Model.cprLines`, no side condition) and tag values (`findSpdxTag`, side condition: END cannot run across
the cut).
-/
import ReuseVerif.Spec.HistoryFull
import ReuseVerif.Lemmas.Idem

namespace C09L
open Py Model Spec C08L C10L

/-- `F` reads piece by piece: at a line feed behind a text `u` that is `ok`, the findings are those of the two
    parts; white space holds nothing and is `ok` -/
structure Piecewise {α : Type} (F : Text → List α) (ok : Text → Prop) : Prop where
  split : ∀ u Z, ok u → ∀ x, x ∈ F (u ++ '\n' :: Z) ↔ x ∈ F u ∨ x ∈ F Z
  blank : ∀ w, Blank w → F w = []
  okBlank : ∀ w, Blank w → ok w
  /-- `ok` looks at the end of the text only, white space aside -/
  okStrip : ∀ u w, Blank w → (ok (u ++ w) ↔ ok u)
  okSuffix : ∀ u v, ok v → ¬ Blank v → ok (u ++ v)

/-- empty, or an `ok` text and its line feed -/
def OkEnded (ok : Text → Prop) (X : Text) : Prop := X = [] ∨ ∃ u, X = u ++ ['\n'] ∧ ok u

variable {α : Type} {F : Text → List α} {ok : Text → Prop}

theorem Piecewise.nil (P : Piecewise F ok) : F [] = [] := P.blank [] (by decide)

/-- keeping only the findings that satisfy `p` reads piece by piece as well -/
theorem Piecewise.filter (P : Piecewise F ok) (p : α → Bool) : Piecewise (fun t => (F t).filter p) ok where
  split u Z hu x := by
    simp only [List.mem_filter, P.split u Z hu x]
    constructor
    · rintro ⟨h | h, hp⟩
      · exact .inl ⟨h, hp⟩
      · exact .inr ⟨h, hp⟩
    · rintro (⟨h, hp⟩ | ⟨h, hp⟩)
      · exact ⟨.inl h, hp⟩
      · exact ⟨.inr h, hp⟩
  blank w hw := by simp only [P.blank w hw, List.filter_nil]
  okBlank := P.okBlank
  okStrip := P.okStrip
  okSuffix := P.okSuffix

theorem Piecewise.glue (P : Piecewise F ok) {X : Text} (hX : OkEnded ok X) (Y : Text) (x : α) :
    x ∈ F (X ++ Y) ↔ x ∈ F X ∨ x ∈ F Y := by
  rcases hX with rfl | ⟨u, rfl, hu⟩
  · simp [P.nil]
  · have h1 := P.split u Y hu x
    have h2 := P.split u [] hu x
    simp only [List.append_assoc, List.singleton_append]
    rw [h1, h2, P.nil]
    simp

theorem Piecewise.ended (P : Piecewise F ok) {u : Text} (hu : ok u) (x : α) : x ∈ F (u ++ ['\n']) ↔ x ∈ F u := by
  rw [P.split u [] hu x, P.nil]; simp

theorem lineEnded_iff {t : Text} : lineEnded t = true ↔ t = [] ∨ ∃ u, t = u ++ ['\n'] := by
  unfold lineEnded
  simp only [Bool.or_eq_true, List.isEmpty_iff, beq_iff_eq]
  constructor
  · rintro (h | h)
    · exact .inl h
    · right
      obtain ⟨u, hu⟩ := List.getLast?_eq_some_iff.mp h
      exact ⟨u, hu⟩
  · rintro (h | ⟨u, rfl⟩)
    · exact .inl h
    · right; simp

theorem okEnded_blank (P : Piecewise F ok) {w : Text} (hw : Blank w) (hl : lineEnded w = true) : OkEnded ok w := by
  rcases lineEnded_iff.mp hl with rfl | ⟨u, rfl⟩
  · exact .inl rfl
  · exact .inr ⟨u, rfl, P.okBlank u (blank_append.mp hw).1⟩

theorem Piecewise.skipBlank (P : Piecewise F ok) {w : Text} (hw : Blank w) (hl : lineEnded w = true) (Y : Text) (x : α) :
    x ∈ F (w ++ Y) ↔ x ∈ F Y := by
  rw [P.glue (okEnded_blank P hw hl), P.blank w hw]; simp

/-- what `cleanSeam` says -/
theorem cleanSeam_spec {b : Text} (h : cleanSeam b = true) :
    b = rstrip b ∨ ∃ w', b = rstrip b ++ '\n' :: w' ∧ Blank w' := by
  obtain ⟨w, hw, hb⟩ := rstrip_spec b
  have hd : b.drop (rstrip b).length = w := by
    have := congrArg (List.drop (rstrip b).length) hw
    simpa using this
  unfold cleanSeam at h
  rw [hd] at h
  cases w with
  | nil => left; simpa using hw
  | cons c w' =>
    simp only [beq_iff_eq] at h
    subst h
    exact .inr ⟨w', hw, (blank_append (a := ['\n']) (b := w')).mp (by simpa using hb) |>.2⟩

/-- the part above the header: with a clean seam, `F` finds in `b` what it finds in `rstrip b` -/
theorem above_core (P : Piecewise F ok) {b : Text} (hc : cleanSeam b = true) (hok : ok (rstrip b)) (x : α) :
    x ∈ F b ↔ x ∈ F (rstrip b) := by
  rcases cleanSeam_spec hc with h | ⟨w', h, hw'⟩
  · rw [← h]
  · conv => lhs; rw [h]
    rw [P.split _ w' hok, P.blank w' hw']; simp

theorem aboveOf_mem (P : Piecewise F ok) {b : Text} (hc : cleanSeam b = true) (hok : ok (rstrip b)) (x : α) :
    x ∈ F (aboveOf b) ↔ x ∈ F b := by
  unfold aboveOf
  by_cases hb : (strip b).isEmpty = true
  · have hbl := (strip_isEmpty_iff b).mp hb
    simp [hb, P.nil, P.blank b hbl]
  · simp only [hb, Bool.false_eq_true, if_false]
    rw [above_core P hc hok]
    have : rstrip b ++ ['\n', '\n'] = rstrip b ++ '\n' :: ['\n'] := rfl
    rw [this, P.split _ _ hok, P.blank ['\n'] (by decide)]; simp

/-- `b` followed by more text: the findings are those of `b` and those of the rest, when `b` ends a line -/
theorem above_glue (P : Piecewise F ok) {b : Text} (hc : cleanSeam b = true) (hok : ok (rstrip b))
    (Y : Text) (hl : lineEnded b = true ∨ Y = []) (x : α) :
    x ∈ F (b ++ Y) ↔ x ∈ F b ∨ x ∈ F Y := by
  rcases hl with hl | rfl
  · rcases cleanSeam_spec hc with h | ⟨w', h, hw'⟩
    · -- `b` has no trailing white space and ends a line: it is empty
      rcases lineEnded_iff.mp hl with rfl | ⟨u, hu⟩
      · simp [P.nil]
      · exfalso
        have hb : Blank (rstrip b) → False := by
          intro hbl
          have : rstrip b = [] := by rw [← rstrip_idem]; exact (rstrip_nil_iff _).mpr hbl
          rw [this] at h; rw [h] at hu; simp at hu
        obtain ⟨w, hw, hbw⟩ := rstrip_spec (u ++ ['\n'])
        have h2 : rstrip (u ++ ['\n']) = rstrip u := by
          unfold rstrip; simp [List.reverse_append, show isSpace '\n' = true from by decide]
        rw [← hu, ← h] at h2
        -- b = rstrip u, but b = u ++ "\n"
        have hlen := congrArg List.length hu
        obtain ⟨w2, hw2, _⟩ := rstrip_spec u
        have hl2 := congrArg List.length hw2
        rw [h2] at hlen
        simp only [List.length_append, List.length_cons, List.length_nil] at hlen hl2
        omega
    · have hw'l : lineEnded w' = true := by
        rcases lineEnded_iff.mp hl with hb | ⟨u, hu⟩
        · rw [hb] at h; simp at h
        · apply lineEnded_iff.mpr
          cases hw : w'.reverse with
          | nil => left; simpa using hw
          | cons c cs =>
            right
            have hw2 : w' = cs.reverse ++ [c] := by
              have := congrArg List.reverse hw; simpa using this
            refine ⟨cs.reverse, ?_⟩
            rw [hw2] at h
            rw [h] at hu
            have := congrArg List.getLast? hu
            rw [show rstrip b ++ '\n' :: (cs.reverse ++ [c]) = (rstrip b ++ '\n' :: cs.reverse) ++ [c] by simp] at this
            simp only [List.getLast?_append, List.getLast?_singleton, Option.some_or, Option.some.injEq] at this
            rw [hw2, this]
      have e1 : b ++ Y = rstrip b ++ '\n' :: (w' ++ Y) := by
        conv => lhs; rw [h]
        simp
      rw [e1, P.split _ _ hok, P.skipBlank hw' hw'l, above_core P hc hok]
  · simp [P.nil]

/-- **What the old text holds is in one of its sections.**  `b0` (white space, set aside by the shebang
    loop), `b` above the block, the block `h`, `a` below: every finding of the text is a finding of `b`, of `h`
    or of `a`. -/
theorem sections_cover (P : Piecewise F ok) {b0 b h a : Text}
    (hb0 : Blank b0) (hb0l : lineEnded b0 = true)
    (hc : cleanSeam b = true) (hok : ok (rstrip b))
    (hal : lineEnded b = true ∨ (h = [] ∧ a = []))
    (hh : OkEnded ok h) (x : α) (hx : x ∈ F (b0 ++ b ++ h ++ a)) :
    x ∈ F b ∨ x ∈ F h ∨ x ∈ F a := by
  rw [List.append_assoc, List.append_assoc, P.skipBlank hb0 hb0l] at hx
  have hl : lineEnded b = true ∨ h ++ a = [] := by
    rcases hal with h1 | ⟨h1, h2⟩
    · exact .inl h1
    · right; simp [h1, h2]
  rw [above_glue P hc hok _ hl, P.glue hh] at hx
  exact hx

/-- **…and the new text holds what stood above, what the new block holds, and what stood below.** -/
theorem placed_holds (P : Piecewise F ok) {hdr b a : Text} (e : Bool)
    (hc : cleanSeam b = true) (hok : ok (rstrip b)) (hokh : ok hdr) (x : α)
    (hx : x ∈ F b ∨ x ∈ F hdr ∨ x ∈ F a) : x ∈ F (placeHeader hdr b a e) := by
  rw [placeHeader_parts]
  have hbelow : x ∈ F a → x ∈ F (belowOf a e) := by
    intro ha
    unfold belowOf
    by_cases hb : (strip a).isEmpty = true
    · rw [P.blank a ((strip_isEmpty_iff a).mp hb)] at ha; cases ha
    · simp only [hb, Bool.false_eq_true, if_false]
      split
      · have : ['\n'] ++ a = [] ++ '\n' :: a := rfl
        rw [this, P.split [] a (P.okBlank [] (by decide))]
        exact .inr ha
      · simpa using ha
  have hmid : x ∈ F hdr ∨ x ∈ F (belowOf a e) → x ∈ F (hdr ++ ['\n'] ++ belowOf a e) := by
    intro h
    have : hdr ++ ['\n'] ++ belowOf a e = hdr ++ '\n' :: belowOf a e := by simp
    rw [this, P.split _ _ hokh]; exact h
  have habove : x ∈ F (aboveOf b) ∨ x ∈ F (hdr ++ ['\n'] ++ belowOf a e) →
      x ∈ F (aboveOf b ++ hdr ++ ['\n'] ++ belowOf a e) := by
    intro h
    unfold aboveOf at h ⊢
    by_cases hb : (strip b).isEmpty = true
    · simp only [hb, if_true, P.nil, List.not_mem_nil, false_or, List.nil_append] at h ⊢
      exact h
    · simp only [hb, Bool.false_eq_true, if_false] at h ⊢
      have e1 : rstrip b ++ ['\n', '\n'] ++ hdr ++ ['\n'] ++ belowOf a e =
          rstrip b ++ '\n' :: ([] ++ '\n' :: (hdr ++ ['\n'] ++ belowOf a e)) := by simp
      have e2 : rstrip b ++ ['\n', '\n'] = rstrip b ++ '\n' :: ['\n'] := rfl
      rw [e1, P.split _ _ hok, P.split [] _ (P.okBlank [] (by decide)), P.nil]
      rw [e2, P.split _ _ hok, P.blank ['\n'] (by decide)] at h
      simpa using h
  rcases hx with h | h | h
  · exact habove (.inl ((aboveOf_mem P hc hok x).mpr h))
  · exact habove (.inr (hmid (.inl h)))
  · exact habove (.inr (hmid (.inr (hbelow h))))

end C09L
