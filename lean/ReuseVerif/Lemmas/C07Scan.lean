/-
C07 (the file) — `findall` of a tag pattern on an arbitrary text:
* what a hit of `findTagInLine` / `valueAndRestWith` looks like;
* **the scan reaches every line that holds a character END cannot consume** (`scan_reaches`): a
  match may run on across line breaks through END's `\s*`, but everything it swallows after its
  own line is END material, so it can never jump over such a line;
* a header block all of whose lines are *closed* (`Spec.lineClosed`) keeps its matches when it is
  embedded between line boundaries in any text (`closed_embed`).
-/
import ReuseVerif.Lemmas.C07Tags

namespace C07A
open Py Model Spec Py.Re

/-! ### hits -/

theorem findTagInLine_sound (tag : Text) (s p a : Text) (h : findTagInLine tag s = some (p, a)) :
    s = p ++ tag ++ a ∧ noNewline p = true := by
  induction s generalizing p with
  | nil => simp [findTagInLine] at h
  | cons c cs ih =>
    rw [findTagInLine] at h
    split at h
    · rename_i hc
      simp only [Option.some.injEq, Prod.mk.injEq] at h
      obtain ⟨rfl, rfl⟩ := h
      simp only [Bool.and_eq_true] at hc
      obtain ⟨t, ht⟩ := List.isPrefixOf_iff_prefix.mp hc.1
      refine ⟨?_, rfl⟩
      rw [← ht]; simp
    · split at h
      · cases h
      · rename_i hn
        cases hr : findTagInLine tag cs with
        | none => simp [hr] at h
        | some pr =>
          obtain ⟨p', r⟩ := pr
          simp only [hr, Option.map_some, Option.some.injEq, Prod.mk.injEq] at h
          obtain ⟨rfl, rfl⟩ := h
          obtain ⟨h1, h2⟩ := ih p' hr
          refine ⟨by rw [h1]; simp, ?_⟩
          have hc : (c == '\n') = false := by simpa using hn
          simp only [noNewline, List.all_cons, Bool.and_eq_true, bne_iff_ne, ne_eq] at h2 ⊢
          exact ⟨by simpa using hc, h2⟩

theorem valueAndRest_sound (endRe : Re) (t v r : Text) (h : valueAndRestWith endRe t = some (v, r)) :
    ∃ a, t = v ++ a ++ r ∧ noNewline v = true ∧ Matches endRe a ∧ atLineEnd r = true := by
  induction t generalizing v with
  | nil =>
    simp only [valueAndRestWith, Option.map_eq_some_iff, Prod.mk.injEq] at h
    obtain ⟨r', hm, rfl, rfl⟩ := h
    obtain ⟨a, hs, ha, hb⟩ := Model.matchEnd_sound hm
    exact ⟨a, by simpa using hs, rfl, ha, hb⟩
  | cons c cs ih =>
    rw [valueAndRestWith] at h
    split at h
    · rename_i r' hm
      simp only [Option.some.injEq, Prod.mk.injEq] at h
      obtain ⟨rfl, rfl⟩ := h
      obtain ⟨a, hs, ha, hb⟩ := Model.matchEnd_sound hm
      exact ⟨a, by simpa using hs, rfl, ha, hb⟩
    · split at h
      · cases h
      · rename_i hn
        cases hr : valueAndRestWith endRe cs with
        | none => simp [hr] at h
        | some vr =>
          obtain ⟨v', r'⟩ := vr
          simp only [hr, Option.map_some, Option.some.injEq, Prod.mk.injEq] at h
          obtain ⟨rfl, rfl⟩ := h
          obtain ⟨a, hs, hv, ha, hb⟩ := ih v' hr
          refine ⟨a, by rw [hs]; simp, ?_, ha, hb⟩
          have hc : (c == '\n') = false := by simpa using hn
          simp only [noNewline, List.all_cons, Bool.and_eq_true, bne_iff_ne, ne_eq] at hv ⊢
          exact ⟨by simpa using hc, hv⟩

theorem dropWhile_blank_split (a : Text) : ∃ b, a = b ++ a.dropWhile isBlank ∧ noNewline b = true := by
  refine ⟨a.takeWhile isBlank, (List.takeWhile_append_dropWhile).symm, ?_⟩
  simp only [noNewline, List.all_eq_true, bne_iff_ne, ne_eq]
  intro c hc e
  have := Model.mem_takeWhile_p hc
  subst e
  simp [isBlank] at this

theorem noNewline_append {a b : Text} (ha : noNewline a = true) (hb : noNewline b = true) :
    noNewline (a ++ b) = true := by
  simp only [noNewline, List.all_append, Bool.and_eq_true] at ha hb ⊢
  exact ⟨ha, hb⟩

/-! ### line starts -/

/-- the text is empty or ends with a line feed: what follows it begins a line -/
def AtLS (U : Text) : Prop := U = [] ∨ ∃ u, U = u ++ ['\n']

theorem atLS_suffix {A B : Text} (h : AtLS (A ++ B)) (hB : B ≠ []) : AtLS B := by
  rcases h with h | ⟨u, hu⟩
  · simp only [List.append_eq_nil_iff] at h; exact absurd h.2 hB
  · right
    have hl : (A ++ B).getLast? = some '\n' := by rw [hu]; simp
    rw [Model.getLast?_append_ne hB] at hl
    obtain ⟨u', c, hu'⟩ := List.eq_nil_or_concat B |>.resolve_left hB
    rw [hu', List.concat_eq_append] at hl ⊢
    simp only [List.getLast?_append, List.getLast?_singleton, Option.some_or, Option.some.injEq] at hl
    exact ⟨u', by rw [hl]⟩

theorem atLS_snoc (A : Text) : AtLS (A ++ ['\n']) := .inr ⟨A, rfl⟩

theorem atLS_append {A B : Text} (hA : AtLS A) (hB : AtLS B) : AtLS (A ++ B) := by
  rcases hB with rfl | ⟨u, rfl⟩
  · simpa using hA
  · exact .inr ⟨A ++ u, by simp⟩

/-- the first line of a non-empty text that ends with a line feed -/
theorem split_first_line (u : Text) :
    ∃ first U2, u ++ ['\n'] = first ++ '\n' :: U2 ∧ noNewline first = true ∧ AtLS U2 ∧ U2.length ≤ u.length := by
  induction u with
  | nil => exact ⟨[], [], rfl, rfl, .inl rfl, by simp⟩
  | cons c cs ih =>
    by_cases hc : c = '\n'
    · subst hc
      exact ⟨[], cs ++ ['\n'], rfl, rfl, atLS_snoc cs, by simp⟩
    · obtain ⟨first, U2, h1, h2, h3, h4⟩ := ih
      refine ⟨c :: first, U2, by simp [h1], ?_, h3, by simp; omega⟩
      simp only [noNewline, List.all_cons, Bool.and_eq_true, bne_iff_ne, ne_eq] at h2 ⊢
      exact ⟨hc, h2⟩

/-- a newline-free prefix of a text lies within its first line -/
theorem prefix_in_first_line {H rest first tail : Text} (h : H ++ rest = first ++ '\n' :: tail)
    (hH : noNewline H = true) : ∃ h2, first = H ++ h2 ∧ rest = h2 ++ '\n' :: tail := by
  have hp : H <+: first ++ '\n' :: tail := ⟨rest, h⟩
  obtain ⟨h2, hh2⟩ := C10L.prefix_break_free hp (Model.noNewline_mem hH)
  refine ⟨h2, hh2.symm, ?_⟩
  rw [← hh2, List.append_assoc] at h
  exact List.append_cancel_left h

/-! ### the scan reaches every line END cannot run across -/

theorem scan_reaches (endRe : Re) (tag : Text) (hnl : '\n' ∉ tag) (l after : Text) (hl : noNewline l = true)
    (hbad : ∃ c ∈ l, mayUse endRe c = false) (x : Text × Text)
    (hx : ∀ f, x ∈ findAllWith endRe tag (f + 1) (l ++ '\n' :: after)) :
    ∀ (n : Nat) (U : Text), U.length ≤ n → AtLS U → ∀ F, n < F →
      x ∈ findAllWith endRe tag F (U ++ (l ++ '\n' :: after)) := by
  intro n
  induction n with
  | zero =>
    intro U hU _ F hF
    have : U = [] := List.eq_nil_of_length_eq_zero (by omega)
    subst this
    obtain ⟨f, rfl⟩ : ∃ f, F = f + 1 := ⟨F - 1, by omega⟩
    exact hx f
  | succ n ih =>
    intro U hU hLS F hF
    rcases hLS with rfl | ⟨u, rfl⟩
    · obtain ⟨f, rfl⟩ : ∃ f, F = f + 1 := ⟨F - 1, by omega⟩
      exact hx f
    · obtain ⟨F', rfl⟩ : ∃ f, F = f + 1 := ⟨F - 1, by omega⟩
      obtain ⟨first, U2, hsplit, hfirst, hU2, hlen⟩ := split_first_line u
      have hs : u ++ ['\n'] ++ (l ++ '\n' :: after) = first ++ '\n' :: (U2 ++ (l ++ '\n' :: after)) := by
        rw [hsplit]; simp
      have hnext : x ∈ findAllWith endRe tag F' (U2 ++ (l ++ '\n' :: after)) :=
        ih U2 (by simp at hU; omega) hU2 F' (by omega)
      rw [hs, findAllWith_step _ _ _ _ (by simp)]
      cases hft : findTagInLine tag (first ++ '\n' :: (U2 ++ (l ++ '\n' :: after))) with
      | none =>
        simp only []
        rw [Model.nextLine_line first _ hfirst]; exact hnext
      | some pa =>
        obtain ⟨p, a0⟩ := pa
        simp only []
        cases hvr : valueAndRestWith endRe (a0.dropWhile isBlank) with
        | none =>
          simp only []
          rw [Model.nextLine_line first _ hfirst]; exact hnext
        | some vr =>
          obtain ⟨v, r⟩ := vr
          simp only []
          apply List.mem_cons_of_mem
          -- where does the match end?
          obtain ⟨h1, hp⟩ := findTagInLine_sound tag _ p a0 hft
          obtain ⟨b, hb, hbnl⟩ := dropWhile_blank_split a0
          obtain ⟨a, h2, hv, ha, hr⟩ := valueAndRest_sound endRe _ v r hvr
          have hH : noNewline (p ++ tag ++ b ++ v) = true :=
            noNewline_append (noNewline_append (noNewline_append hp (Model.noNewline_of_not_mem hnl)) hbnl) hv
          have hdec : (p ++ tag ++ b ++ v) ++ (a ++ r) = first ++ '\n' :: (U2 ++ (l ++ '\n' :: after)) := by
            rw [h1]
            conv => rhs; rw [hb, h2]
            simp [List.append_assoc]
          obtain ⟨h2', hfirst', hrest⟩ := prefix_in_first_line hdec hH
          -- `a ++ r = W ++ (l ++ "\n" ++ after)` with `W` ending a line
          have hW : a ++ r = (h2' ++ '\n' :: U2) ++ (l ++ '\n' :: after) := by rw [hrest]; simp
          have hWlen : (h2' ++ '\n' :: U2).length ≤ u.length + 1 := by
            have := congrArg List.length hsplit
            simp only [List.length_append, List.length_cons, List.length_nil, hfirst'] at this ⊢
            omega
          have hWLS : AtLS (h2' ++ '\n' :: U2) := by
            have e : h2' ++ '\n' :: U2 = (h2' ++ ['\n']) ++ U2 := by simp
            rw [e]; exact atLS_append (atLS_snoc _) hU2
          obtain ⟨cb, hcb, hcbad⟩ := hbad
          have hlne : l ≠ [] := by intro e; rw [e] at hcb; cases hcb
          rcases List.append_eq_append_iff.mp hW with ⟨W', hW1, hW2⟩ | ⟨m, ha', hm⟩
          · -- the match ends inside `W`: at a line feed of it
            cases W' with
            | nil =>
              exfalso
              simp only [List.nil_append] at hW2
              obtain ⟨y, ys, hy⟩ := List.exists_cons_of_ne_nil hlne
              rw [hW2, hy] at hr
              have : y = '\n' := by simpa [atLineEnd] using hr
              exact Model.noNewline_mem hl (by rw [hy, this]; simp)
            | cons y U3 =>
              rw [hW2] at hr ⊢
              have hy : y = '\n' := by simpa [atLineEnd] using hr
              subst hy
              simp only [List.cons_append, List.drop_succ_cons, List.drop_zero]
              have hU3 : AtLS U3 := by
                by_cases h3 : U3 = []
                · exact .inl h3
                · have e : h2' ++ '\n' :: U2 = (a ++ ['\n']) ++ U3 := by rw [hW1]; simp
                  rw [e] at hWLS
                  exact atLS_suffix hWLS h3
              have hU3len : U3.length ≤ n := by
                have := congrArg List.length hW1
                simp only [List.length_append, List.length_cons] at this hWlen hU
                omega
              exact ih U3 hU3len hU3 F' (by omega)
          · -- the match would end inside or after the line `l`: impossible
            exfalso
            rcases List.append_eq_append_iff.mp hm with ⟨m', hm1, _⟩ | ⟨l2, hl1, hl2⟩
            · have : mayUse endRe cb = true :=
                Model.matches_mayUse ha cb (by
                  rw [ha', hm1]
                  exact List.mem_append_right _ (List.mem_append_left _ hcb))
              rw [hcbad] at this; cases this
            · cases l2 with
              | nil =>
                have hml : m = l := by simpa using hl1.symm
                have : mayUse endRe cb = true :=
                  Model.matches_mayUse ha cb (by rw [ha', hml]; exact List.mem_append_right _ hcb)
                rw [hcbad] at this; cases this
              | cons y ys =>
                rw [hl2] at hr
                have : y = '\n' := by simpa [atLineEnd] using hr
                exact Model.noNewline_mem hl (by rw [hl1, this]; simp)

end C07A
