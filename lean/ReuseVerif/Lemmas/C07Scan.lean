/-
C07 (the file) — `findall` of a tag pattern on an arbitrary text:
* what a hit of `findTagInLine` / `valueAndRestWith` looks like;
* **the scan reaches every line that holds a character END cannot consume** (`scan_reaches`): a
  match may run on across line breaks through END's `\s*`, but everything it swallows after its
  own line is END material, so it can never jump over such a line;
* a header block all of whose lines are *closed* (`Spec.lineClosed`) keeps its matches when it is
  embedded between line boundaries in any text (`closed_embed`).
-/
import ReuseVerif.Lemmas.C07Tags

namespace C07A
open Py Model Spec Py.Re

/-! ### hits -/

theorem findTagInLine_sound (tag : Text) (s p a : Text) (h : findTagInLine tag s = some (p, a)) :
    s = p ++ tag ++ a ∧ noNewline p = true := by
  induction s generalizing p with
  | nil => simp [findTagInLine] at h
  | cons c cs ih =>
    rw [findTagInLine] at h
    split at h
    · rename_i hc
      simp only [Option.some.injEq, Prod.mk.injEq] at h
      obtain ⟨rfl, rfl⟩ := h
      simp only [Bool.and_eq_true] at hc
      obtain ⟨t, ht⟩ := List.isPrefixOf_iff_prefix.mp hc.1
      refine ⟨?_, rfl⟩
      rw [← ht]; simp
    · split at h
      · cases h
      · rename_i hn
        cases hr : findTagInLine tag cs with
        | none => simp [hr] at h
        | some pr =>
          obtain ⟨p', r⟩ := pr
          simp only [hr, Option.map_some, Option.some.injEq, Prod.mk.injEq] at h
          obtain ⟨rfl, rfl⟩ := h
          obtain ⟨h1, h2⟩ := ih p' hr
          refine ⟨by rw [h1]; simp, ?_⟩
          have hc : (c == '\n') = false := by simpa using hn
          simp only [noNewline, List.all_cons, Bool.and_eq_true, bne_iff_ne, ne_eq] at h2 ⊢
          exact ⟨by simpa using hc, h2⟩

theorem valueAndRest_sound (endRe : Re) (t v r : Text) (h : valueAndRestWith endRe t = some (v, r)) :
    ∃ a, t = v ++ a ++ r ∧ noNewline v = true ∧ Matches endRe a ∧ atLineEnd r = true := by
  induction t generalizing v with
  | nil =>
    simp only [valueAndRestWith, Option.map_eq_some_iff, Prod.mk.injEq] at h
    obtain ⟨r', hm, rfl, rfl⟩ := h
    obtain ⟨a, hs, ha, hb⟩ := Model.matchEnd_sound hm
    exact ⟨a, by simpa using hs, rfl, ha, hb⟩
  | cons c cs ih =>
    rw [valueAndRestWith] at h
    split at h
    · rename_i r' hm
      simp only [Option.some.injEq, Prod.mk.injEq] at h
      obtain ⟨rfl, rfl⟩ := h
      obtain ⟨a, hs, ha, hb⟩ := Model.matchEnd_sound hm
      exact ⟨a, by simpa using hs, rfl, ha, hb⟩
    · split at h
      · cases h
      · rename_i hn
        cases hr : valueAndRestWith endRe cs with
        | none => simp [hr] at h
        | some vr =>
          obtain ⟨v', r'⟩ := vr
          simp only [hr, Option.map_some, Option.some.injEq, Prod.mk.injEq] at h
          obtain ⟨rfl, rfl⟩ := h
          obtain ⟨a, hs, hv, ha, hb⟩ := ih v' hr
          refine ⟨a, by rw [hs]; simp, ?_, ha, hb⟩
          have hc : (c == '\n') = false := by simpa using hn
          simp only [noNewline, List.all_cons, Bool.and_eq_true, bne_iff_ne, ne_eq] at hv ⊢
          exact ⟨by simpa using hc, hv⟩

theorem dropWhile_blank_split (a : Text) :
    ∃ b, a = b ++ a.dropWhile isBlank ∧ noNewline b = true ∧ b.all isBlank = true := by
  refine ⟨a.takeWhile isBlank, (List.takeWhile_append_dropWhile).symm, ?_, ?_⟩
  · simp only [noNewline, List.all_eq_true, bne_iff_ne, ne_eq]
    intro c hc e
    have := Model.mem_takeWhile_p hc
    subst e
    simp [isBlank] at this
  · rw [List.all_eq_true]
    intro c hc; exact Model.mem_takeWhile_p hc

theorem noNewline_append {a b : Text} (ha : noNewline a = true) (hb : noNewline b = true) :
    noNewline (a ++ b) = true := by
  simp only [noNewline, List.all_append, Bool.and_eq_true] at ha hb ⊢
  exact ⟨ha, hb⟩

/-! ### line starts -/

/-- the text is empty or ends with a line feed: what follows it begins a line -/
def AtLS (U : Text) : Prop := U = [] ∨ ∃ u, U = u ++ ['\n']

theorem atLS_suffix {A B : Text} (h : AtLS (A ++ B)) (hB : B ≠ []) : AtLS B := by
  rcases h with h | ⟨u, hu⟩
  · simp only [List.append_eq_nil_iff] at h; exact absurd h.2 hB
  · right
    have hl : (A ++ B).getLast? = some '\n' := by rw [hu]; simp
    rw [Model.getLast?_append_ne hB] at hl
    obtain ⟨u', c, hu'⟩ := List.eq_nil_or_concat B |>.resolve_left hB
    rw [hu', List.concat_eq_append] at hl ⊢
    simp only [List.getLast?_append, List.getLast?_singleton, Option.some_or, Option.some.injEq] at hl
    exact ⟨u', by rw [hl]⟩

theorem atLS_snoc (A : Text) : AtLS (A ++ ['\n']) := .inr ⟨A, rfl⟩

theorem atLS_append {A B : Text} (hA : AtLS A) (hB : AtLS B) : AtLS (A ++ B) := by
  rcases hB with rfl | ⟨u, rfl⟩
  · simpa using hA
  · exact .inr ⟨A ++ u, by simp⟩

/-- the first line of a non-empty text that ends with a line feed -/
theorem split_first_line (u : Text) :
    ∃ first U2, u ++ ['\n'] = first ++ '\n' :: U2 ∧ noNewline first = true ∧ AtLS U2 ∧ U2.length ≤ u.length := by
  induction u with
  | nil => exact ⟨[], [], rfl, rfl, .inl rfl, by simp⟩
  | cons c cs ih =>
    by_cases hc : c = '\n'
    · subst hc
      exact ⟨[], cs ++ ['\n'], rfl, rfl, atLS_snoc cs, by simp⟩
    · obtain ⟨first, U2, h1, h2, h3, h4⟩ := ih
      refine ⟨c :: first, U2, by simp [h1], ?_, h3, by simp; omega⟩
      simp only [noNewline, List.all_cons, Bool.and_eq_true, bne_iff_ne, ne_eq] at h2 ⊢
      exact ⟨hc, h2⟩

/-- a newline-free prefix of a text lies within its first line -/
theorem prefix_in_first_line {H rest first tail : Text} (h : H ++ rest = first ++ '\n' :: tail)
    (hH : noNewline H = true) : ∃ h2, first = H ++ h2 ∧ rest = h2 ++ '\n' :: tail := by
  have hp : H <+: first ++ '\n' :: tail := ⟨rest, h⟩
  obtain ⟨h2, hh2⟩ := C10L.prefix_break_free hp (Model.noNewline_mem hH)
  refine ⟨h2, hh2.symm, ?_⟩
  rw [← hh2, List.append_assoc] at h
  exact List.append_cancel_left h

/-! ### the scan reaches every line END cannot run across -/

theorem scan_reaches (endRe : Re) (tag : Text) (hnl : '\n' ∉ tag) (l after : Text) (hl : noNewline l = true)
    (hbad : ∃ c ∈ l, mayUse endRe c = false) (x : Text × Text)
    (hx : ∀ f, x ∈ findAllWith endRe tag (f + 1) (l ++ '\n' :: after)) :
    ∀ (n : Nat) (U : Text), U.length ≤ n → AtLS U → ∀ F, n < F →
      x ∈ findAllWith endRe tag F (U ++ (l ++ '\n' :: after)) := by
  intro n
  induction n with
  | zero =>
    intro U hU _ F hF
    have : U = [] := List.eq_nil_of_length_eq_zero (by omega)
    subst this
    obtain ⟨f, rfl⟩ : ∃ f, F = f + 1 := ⟨F - 1, by omega⟩
    exact hx f
  | succ n ih =>
    intro U hU hLS F hF
    rcases hLS with rfl | ⟨u, rfl⟩
    · obtain ⟨f, rfl⟩ : ∃ f, F = f + 1 := ⟨F - 1, by omega⟩
      exact hx f
    · obtain ⟨F', rfl⟩ : ∃ f, F = f + 1 := ⟨F - 1, by omega⟩
      obtain ⟨first, U2, hsplit, hfirst, hU2, hlen⟩ := split_first_line u
      have hs : u ++ ['\n'] ++ (l ++ '\n' :: after) = first ++ '\n' :: (U2 ++ (l ++ '\n' :: after)) := by
        rw [hsplit]; simp
      have hnext : x ∈ findAllWith endRe tag F' (U2 ++ (l ++ '\n' :: after)) :=
        ih U2 (by simp at hU; omega) hU2 F' (by omega)
      rw [hs, findAllWith_step _ _ _ _ (by simp)]
      cases hft : findTagInLine tag (first ++ '\n' :: (U2 ++ (l ++ '\n' :: after))) with
      | none =>
        simp only []
        rw [Model.nextLine_line first _ hfirst]; exact hnext
      | some pa =>
        obtain ⟨p, a0⟩ := pa
        simp only []
        cases hvr : valueAndRestWith endRe (a0.dropWhile isBlank) with
        | none =>
          simp only []
          rw [Model.nextLine_line first _ hfirst]; exact hnext
        | some vr =>
          obtain ⟨v, r⟩ := vr
          simp only []
          apply List.mem_cons_of_mem
          -- where does the match end?
          obtain ⟨h1, hp⟩ := findTagInLine_sound tag _ p a0 hft
          obtain ⟨b, hb, hbnl, _⟩ := dropWhile_blank_split a0
          obtain ⟨a, h2, hv, ha, hr⟩ := valueAndRest_sound endRe _ v r hvr
          have hH : noNewline (p ++ tag ++ b ++ v) = true :=
            noNewline_append (noNewline_append (noNewline_append hp (Model.noNewline_of_not_mem hnl)) hbnl) hv
          have hdec : (p ++ tag ++ b ++ v) ++ (a ++ r) = first ++ '\n' :: (U2 ++ (l ++ '\n' :: after)) := by
            rw [h1]
            conv => rhs; rw [hb, h2]
            simp [List.append_assoc]
          obtain ⟨h2', hfirst', hrest⟩ := prefix_in_first_line hdec hH
          -- `a ++ r = W ++ (l ++ "\n" ++ after)` with `W` ending a line
          have hW : a ++ r = (h2' ++ '\n' :: U2) ++ (l ++ '\n' :: after) := by rw [hrest]; simp
          have hWlen : (h2' ++ '\n' :: U2).length ≤ u.length + 1 := by
            have := congrArg List.length hsplit
            simp only [List.length_append, List.length_cons, List.length_nil, hfirst'] at this ⊢
            omega
          have hWLS : AtLS (h2' ++ '\n' :: U2) := by
            have e : h2' ++ '\n' :: U2 = (h2' ++ ['\n']) ++ U2 := by simp
            rw [e]; exact atLS_append (atLS_snoc _) hU2
          obtain ⟨cb, hcb, hcbad⟩ := hbad
          have hlne : l ≠ [] := by intro e; rw [e] at hcb; cases hcb
          rcases List.append_eq_append_iff.mp hW with ⟨W', hW1, hW2⟩ | ⟨m, ha', hm⟩
          · -- the match ends inside `W`: at a line feed of it
            cases W' with
            | nil =>
              exfalso
              simp only [List.nil_append] at hW2
              obtain ⟨y, ys, hy⟩ := List.exists_cons_of_ne_nil hlne
              rw [hW2, hy] at hr
              have : y = '\n' := by simpa [atLineEnd] using hr
              exact Model.noNewline_mem hl (by rw [hy, this]; simp)
            | cons y U3 =>
              rw [hW2] at hr ⊢
              have hy : y = '\n' := by simpa [atLineEnd] using hr
              subst hy
              simp only [List.cons_append, List.drop_succ_cons, List.drop_zero]
              have hU3 : AtLS U3 := by
                by_cases h3 : U3 = []
                · exact .inl h3
                · have e : h2' ++ '\n' :: U2 = (a ++ ['\n']) ++ U3 := by rw [hW1]; simp
                  rw [e] at hWLS
                  exact atLS_suffix hWLS h3
              have hU3len : U3.length ≤ n := by
                have := congrArg List.length hW1
                simp only [List.length_append, List.length_cons] at this hWlen hU
                omega
              exact ih U3 hU3len hU3 F' (by omega)
          · -- the match would end inside or after the line `l`: impossible
            exfalso
            rcases List.append_eq_append_iff.mp hm with ⟨m', hm1, _⟩ | ⟨l2, hl1, hl2⟩
            · have : mayUse endRe cb = true :=
                Model.matches_mayUse ha cb (by
                  rw [ha', hm1]
                  exact List.mem_append_right _ (List.mem_append_left _ hcb))
              rw [hcbad] at this; cases this
            · cases l2 with
              | nil =>
                have hml : m = l := by simpa using hl1.symm
                have : mayUse endRe cb = true :=
                  Model.matches_mayUse ha cb (by rw [ha', hml]; exact List.mem_append_right _ hcb)
                rw [hcbad] at this; cases this
              | cons y ys =>
                rw [hl2] at hr
                have : y = '\n' := by simpa [atLineEnd] using hr
                exact Model.noNewline_mem hl (by rw [hl1, this]; simp)

/-! ### `TAG[ \t]` within a line does not depend on what follows the line -/

theorem tagHere_line (tag suf X : Text) (hnl : '\n' ∉ tag) : tagHere tag (suf ++ '\n' :: X) = tagHere tag suf := by
  unfold tagHere
  induction tag generalizing suf with
  | nil => cases suf <;> simp [isBlank]
  | cons t ts ih =>
    have ht : t ≠ '\n' := fun e => hnl (by simp [e])
    have hts : '\n' ∉ ts := fun hm => hnl (by simp [hm])
    have htb : (t == '\n') = false := by simpa using ht
    cases suf with
    | nil => simp [List.isPrefixOf, htb]
    | cons c cs =>
      simp only [List.cons_append, List.isPrefixOf, List.length_cons, List.drop_succ_cons]
      rw [Bool.and_assoc, Bool.and_assoc, ih cs hts]

theorem findTagInLine_ctx (tag l X : Text) (hnl : '\n' ∉ tag) (hl : noNewline l = true) :
    findTagInLine tag (l ++ '\n' :: X) = (findTagInLine tag l).map (fun pa => (pa.1, pa.2 ++ '\n' :: X)) := by
  induction l with
  | nil =>
    have h := Model.tagHere_at_newline tag X hnl
    unfold tagHere at h
    simp only [List.nil_append, findTagInLine]
    rw [if_neg (by rw [h]; exact Bool.false_ne_true)]
    simp
  | cons c cs ih =>
    obtain ⟨hc, hcs⟩ := Model.noNewline_cons hl
    have hth := tagHere_line tag (c :: cs) X hnl
    unfold tagHere at hth
    show findTagInLine tag (c :: (cs ++ '\n' :: X)) = _
    rw [findTagInLine, findTagInLine]
    simp only [List.cons_append] at hth
    by_cases hcond : (tag.isPrefixOf (c :: cs) && (((c :: cs).drop tag.length).head?.map isBlank).getD false) = true
    · rw [if_pos (by rw [hth]; exact hcond), if_pos hcond]
      simp only [Option.map_some, Option.some.injEq, Prod.mk.injEq, true_and]
      simp only [Bool.and_eq_true] at hcond
      have hlen : tag.length ≤ (c :: cs).length := (List.isPrefixOf_iff_prefix.mp hcond.1).length_le
      rw [show c :: (cs ++ '\n' :: X) = (c :: cs) ++ '\n' :: X from rfl, List.drop_append_of_le_length hlen]
    · rw [if_neg (by rw [hth]; exact hcond), if_neg hcond, if_neg (by rw [hc]; exact Bool.false_ne_true),
        if_neg (by rw [hc]; exact Bool.false_ne_true), ih hcs]
      cases findTagInLine tag cs with
      | none => rfl
      | some pr => rfl

theorem nextLine_noNewline (l : Text) (hl : noNewline l = true) : nextLine l = [] := by
  unfold nextLine
  induction l with
  | nil => rfl
  | cons d ds ih =>
    obtain ⟨hd, hds⟩ := Model.noNewline_cons hl
    have : (d != '\n') = true := by simp [bne, hd]
    simp only [List.dropWhile_cons, this, if_true]
    exact ih hds

/-- a line followed by nothing or by a line feed and more -/
def EndsLine (X : Text) : Prop := X = [] ∨ ∃ Y, X = '\n' :: Y

theorem atLineEnd_of_endsLine {X : Text} (h : EndsLine X) : atLineEnd X = true := by
  rcases h with rfl | ⟨Y, rfl⟩ <;> rfl

theorem findTagInLine_ends (tag l X : Text) (hnl : '\n' ∉ tag) (hl : noNewline l = true) (hX : EndsLine X) :
    findTagInLine tag (l ++ X) = (findTagInLine tag l).map (fun pa => (pa.1, pa.2 ++ X)) := by
  rcases hX with rfl | ⟨Y, rfl⟩
  · cases h : findTagInLine tag l with
    | none => simp [h]
    | some pa => simp [h]
  · exact findTagInLine_ctx tag l Y hnl hl

theorem nextLine_ends (l X : Text) (hl : noNewline l = true) (hX : EndsLine X) : nextLine (l ++ X) = X.drop 1 := by
  rcases hX with rfl | ⟨Y, rfl⟩
  · simpa using nextLine_noNewline l hl
  · simpa using Model.nextLine_line l Y hl

/-! ### one step of the scan at a closed line -/

/-- at a closed line holding the tag, in any context: the match is `(p, w)` and the scan resumes
    after a line end of the text -/
theorem closed_hit (endRe : Re) (tag : Text) (hnl : '\n' ∉ tag) (l p a : Text) (hl : noNewline l = true)
    (hc : lineClosed endRe tag l = true) (hf : findTagInLine tag l = some (p, a)) :
    ∃ w, ∀ X, EndsLine X → ∀ F, ∃ r A, atLineEnd r = true ∧ l ++ X = A ++ r ∧
      findAllWith endRe tag (F + 1) (l ++ X) = (p, w) :: findAllWith endRe tag F (r.drop 1) := by
  unfold lineClosed at hc
  rw [hf] at hc
  simp only at hc
  cases hv : valueAndRestWith endRe (a.dropWhile isBlank) with
  | none => rw [hv] at hc; cases hc
  | some wr =>
    obtain ⟨w, r0⟩ := wr
    rw [hv] at hc
    simp only [Bool.and_eq_true, Bool.not_eq_true'] at hc
    obtain ⟨hwne, hsafe⟩ := hc
    have hwne' : w ≠ [] := by intro e; rw [e] at hwne; cases hwne
    obtain ⟨hla, hp⟩ := findTagInLine_sound tag l p a hf
    obtain ⟨b, hb, hbnl, hball⟩ := dropWhile_blank_split a
    obtain ⟨trail, ht, hwnl, htrail, hr0⟩ := valueAndRest_sound endRe _ w r0 hv
    -- the rest after END is empty: the line holds no line feed
    have hr0nil : r0 = [] := by
      cases r0 with
      | nil => rfl
      | cons y ys =>
        exfalso
        have hy : y = '\n' := by simpa [atLineEnd] using hr0
        apply Model.noNewline_mem hl
        rw [hla, hb, ht, hy]; simp
    subst hr0nil
    simp only [List.append_nil] at ht
    refine ⟨w, fun X hX F => ?_⟩
    obtain ⟨r, hm⟩ := Option.isSome_iff_exists.mp
      (Model.matchEnd_complete (endRe := endRe) (a := trail) (b := X) htrail (atLineEnd_of_endsLine hX))
    obtain ⟨a', hs, _, hra⟩ := Model.matchEnd_sound hm
    have hne : l ++ X ≠ [] := by
      rw [hla]
      obtain ⟨c, cs, hcs⟩ := List.exists_cons_of_ne_nil hwne'
      rw [hb, ht, hcs]; simp
    refine ⟨r, p ++ tag ++ b ++ w ++ a', hra, ?_, ?_⟩
    · rw [hla, hb, ht]
      simp only [List.append_assoc]
      rw [← hs]
    · rw [findAllWith_step _ _ _ _ hne, findTagInLine_ends tag l X hnl hl hX, hf]
      simp only [Option.map_some]
      have hdrop : (a ++ X).dropWhile isBlank = w ++ (trail ++ X) := by
        rw [hb, ht]
        have hhead : (((w ++ trail) ++ X).head?.map (fun c => !isBlank c)).getD true = true := by
          obtain ⟨c, cs, hcs⟩ := List.exists_cons_of_ne_nil hwne'
          have hd : a.dropWhile isBlank = c :: (cs ++ trail) := by rw [ht, hcs]; rfl
          have := Model.dropWhile_head_not a c _ hd
          rw [hcs]; simp [this]
        have := Model.dropWhile_blanks b ((w ++ trail) ++ X) hball hhead
        simp only [List.append_assoc] at this ⊢
        exact this
      rw [hdrop, Model.valueAndRest_exact endRe w (trail ++ X) r hwnl (noEndSuffix_of_tailSafe endRe w _ hwnl hsafe) hm]

/-- one step of the scan at a closed line, in any context -/
theorem closed_step (endRe : Re) (tag : Text) (hnl : '\n' ∉ tag) (l X : Text) (hl : noNewline l = true)
    (hX : EndsLine X) (hc : lineClosed endRe tag l = true) (F : Nat) :
    findAllWith endRe tag (F + 1) (l ++ X) = findAllWith endRe tag F (X.drop 1) ∨
    ∃ p w r A, (∃ a, l = p ++ tag ++ a) ∧ atLineEnd r = true ∧ l ++ X = A ++ r ∧
      findAllWith endRe tag (F + 1) (l ++ X) = (p, w) :: findAllWith endRe tag F (r.drop 1) ∧
      ∀ after f, (p, w) ∈ findAllWith endRe tag (f + 1) (l ++ '\n' :: after) := by
  cases hf : findTagInLine tag l with
  | none =>
    left
    by_cases hne : l ++ X = []
    · simp only [List.append_eq_nil_iff] at hne
      rw [hne.1, hne.2]; simp [findAllWith_nil]
    · rw [findAllWith_step _ _ _ _ hne, findTagInLine_ends tag l X hnl hl hX, hf]
      simp only [Option.map_none]
      rw [nextLine_ends l X hl hX]
  | some pa =>
    obtain ⟨p, a⟩ := pa
    right
    obtain ⟨w, hw⟩ := closed_hit endRe tag hnl l p a hl hc hf
    obtain ⟨r, A, hr, hdec, hstep⟩ := hw X hX F
    refine ⟨p, w, r, A, ⟨a, (findTagInLine_sound tag l p a hf).1⟩, hr, hdec, hstep, fun after f => ?_⟩
    obtain ⟨r', _, _, _, hstep'⟩ := hw ('\n' :: after) (.inr ⟨after, rfl⟩) f
    rw [hstep']; simp

/-! ### every line of a text -/

theorem split_line (s : Text) : ∃ l X, s = l ++ X ∧ noNewline l = true ∧ EndsLine X := by
  induction s with
  | nil => exact ⟨[], [], rfl, rfl, .inl rfl⟩
  | cons c cs ih =>
    by_cases hc : c = '\n'
    · subst hc; exact ⟨[], '\n' :: cs, rfl, rfl, .inr ⟨cs, rfl⟩⟩
    · obtain ⟨l, X, h1, h2, h3⟩ := ih
      refine ⟨c :: l, X, by simp [h1], ?_, h3⟩
      simp only [noNewline, List.all_cons, Bool.and_eq_true, bne_iff_ne, ne_eq] at h2 ⊢
      exact ⟨hc, h2⟩

theorem allLines_line (P : Text → Bool) (acc l X : Text) (hl : noNewline l = true) (hX : EndsLine X)
    (h : allLines P acc (l ++ X) = true) : P (acc.reverse ++ l) = true := by
  induction l generalizing acc with
  | nil =>
    rcases hX with rfl | ⟨Y, rfl⟩
    · simpa [allLines] using h
    · simp only [List.nil_append, allLines, beq_self_eq_true, if_true, Bool.and_eq_true] at h
      simpa using h.1
  | cons c cs ih =>
    obtain ⟨hc, hcs⟩ := Model.noNewline_cons hl
    simp only [List.cons_append, allLines, hc, Bool.false_eq_true, if_false] at h
    have := ih (c :: acc) hcs h
    simpa using this

theorem allLines_skip (P : Text → Bool) (acc u rest : Text) (h : allLines P acc (u ++ '\n' :: rest) = true) :
    allLines P [] rest = true := by
  induction u generalizing acc with
  | nil =>
    simp only [List.nil_append, allLines, beq_self_eq_true, if_true, Bool.and_eq_true] at h
    exact h.2
  | cons c cs ih =>
    simp only [List.cons_append, allLines] at h
    split at h
    · simp only [Bool.and_eq_true] at h; exact ih [] h.2
    · exact ih (c :: acc) h

theorem allLines_at (P : Text → Bool) (U l X : Text) (hU : AtLS U) (hl : noNewline l = true) (hX : EndsLine X)
    (h : allLines P [] (U ++ (l ++ X)) = true) : P l = true := by
  rcases hU with rfl | ⟨u, rfl⟩
  · simpa using allLines_line P [] l X hl hX (by simpa using h)
  · have h' : allLines P [] (u ++ '\n' :: (l ++ X)) = true := by simpa using h
    simpa using allLines_line P [] l X hl hX (allLines_skip P [] u _ h')

/-! ### a block of closed lines keeps its matches wherever it is embedded -/

theorem closed_embed (endRe : Re) (tag : Text) (hnl : '\n' ∉ tag) (hun : tagUnusable endRe tag = true)
    (pre hdr post : Text) (hpre : AtLS pre) (hclosed : allLines (lineClosed endRe tag) [] hdr = true)
    (G : Nat) (hG : (pre ++ hdr).length < G) :
    ∀ (F : Nat) (U s : Text), hdr = U ++ s → AtLS U → ∀ x ∈ findAllWith endRe tag F s,
      x ∈ findAllWith endRe tag G (pre ++ hdr ++ '\n' :: post) := by
  intro F
  induction F with
  | zero => intro U s _ _ x hx; simp [findAllWith] at hx
  | succ F ih =>
    intro U s hdec hU x hx
    obtain ⟨l, X, rfl, hl, hX⟩ := split_line s
    have hcl : lineClosed endRe tag l = true := allLines_at _ U l X hU hl hX (by rw [← hdec]; exact hclosed)
    rcases closed_step endRe tag hnl l X hl hX hcl F with hstep | ⟨p, w, r, A, ⟨a, hla⟩, hr, hAr, hstep, hany⟩
    · rw [hstep] at hx
      rcases hX with rfl | ⟨Y, rfl⟩
      · simp [findAllWith_nil] at hx
      · exact ih (U ++ l ++ ['\n']) Y (by rw [hdec]; simp) (atLS_snoc _) x (by simpa using hx)
    · rw [hstep] at hx
      rcases List.mem_cons.mp hx with rfl | hx
      · -- the match of this line: the scan of the whole text reaches the line
        have hbad : ∃ c ∈ l, mayUse endRe c = false := by
          unfold tagUnusable at hun
          obtain ⟨c, hc, hcu⟩ := List.any_eq_true.mp hun
          exact ⟨c, by rw [hla]; simp [hc], by simpa using hcu⟩
        have hfull : ∃ after, pre ++ hdr ++ '\n' :: post = (pre ++ U) ++ (l ++ '\n' :: after) := by
          rcases hX with rfl | ⟨Y, rfl⟩
          · exact ⟨post, by rw [hdec]; simp⟩
          · exact ⟨Y ++ '\n' :: post, by rw [hdec]; simp⟩
        obtain ⟨after, hfull⟩ := hfull
        rw [hfull]
        have hUlen : (pre ++ U).length ≤ (pre ++ hdr).length := by
          rw [hdec]; simp only [List.length_append]; omega
        exact scan_reaches endRe tag hnl l after hl hbad (p, w) (hany after) _ (pre ++ U) (Nat.le_refl _)
          (atLS_append hpre hU) G (by omega)
      · cases r with
        | nil => simp [findAllWith_nil] at hx
        | cons y Y =>
          have hy : y = '\n' := by simpa [atLineEnd] using hr
          subst hy
          exact ih (U ++ A ++ ['\n']) Y (by rw [hdec, hAr]; simp) (atLS_snoc _) x (by simpa using hx)

/-- **The tag values of a block of closed lines are tag values of every text that holds the block
    between line boundaries.** -/
theorem findTag_embed (endRe : Re) (tag : Text) (hnl : '\n' ∉ tag) (hun : tagUnusable endRe tag = true)
    (pre hdr post : Text) (hpre : AtLS pre) (hclosed : allLines (lineClosed endRe tag) [] hdr = true)
    (v : Text) (hv : v ∈ findSpdxTagWith endRe tag hdr) :
    v ∈ findSpdxTagWith endRe tag (pre ++ hdr ++ '\n' :: post) := by
  unfold findSpdxTagWith at hv ⊢
  obtain ⟨x, hx, rfl⟩ := List.mem_map.mp hv
  refine List.mem_map.mpr ⟨x, ?_, rfl⟩
  exact closed_embed endRe tag hnl hun pre hdr post hpre hclosed _
    (by simp only [List.length_append, List.length_cons]; omega) _ [] hdr rfl (.inl rfl) x hx

end C07A
