/-
`find_and_replace_header` / `add_new_header` / the text-level `add_header_to_file` of the model,
expressed through `Spec.headerParts` (new header, text in front, text behind).
-/
import ReuseVerif.Spec.Header
import ReuseVerif.Lemmas.Header
import ReuseVerif.Lemmas.ExtractEmbed

namespace Model
open Py Spec

theorem far_parts (c : HdrCfg) (info : Extracted) (text : Text) :
    findAndReplaceHeader c info text =
      match headerParts c true info text with
      | .error e => .error e
      | .ok p => .ok (placeHeader p.1 p.2.1 p.2.2.1 p.2.2.2) := by
  unfold findAndReplaceHeader headerParts
  cases hf : findFirstSpdxComment c text <;>
    (simp only [bind, Except.bind, if_true]; split <;> rename_i hh <;> rw [hh] <;> rfl)

theorem anh_parts (c : HdrCfg) (info : Extracted) (text : Text) :
    addNewHeader c info text =
      match headerParts c false info text with
      | .error e => .error e
      | .ok p => .ok (placeHeader p.1 p.2.1 p.2.2.1 p.2.2.2) := by
  unfold addNewHeader headerParts
  cases hf : c.style.shebangs.find? (startsWith text ·) <;>
    (simp only [bind, Except.bind, Bool.false_eq_true, if_false]; split <;> rename_i hh <;> rw [hh] <;> rfl)

theorem headerParts_created {c : HdrCfg} {replace : Bool} {info : Extracted} {text : Text}
    {p : Text × Text × Text × Bool} (h : headerParts c replace info text = .ok p) :
    createHeader c info (oldHeader c replace text) = .ok p.1 := by
  unfold headerParts at h
  unfold oldHeader
  cases replace
  · simp only [Bool.false_eq_true, if_false] at h ⊢
    split at h
    · cases h
    · rename_i nh hnh; cases h; exact hnh
  · simp only [if_true] at h ⊢
    split at h
    · cases h
    · rename_i nh hnh; cases h; exact hnh

/-- newline translation on write (`open(..., newline=line_ending)`) -/
def retranslate (le t : Text) : Text := if le == ['\n'] then t else Py.replace t ['\n'] le

theorem annotateText_parts {c : HdrCfg} {replace skip : Bool} {info : Extracted} {text t : Text}
    (h : annotateText c replace skip info text = .written t) :
    ∃ p, headerParts c replace info (Py.replace text (detectLineEnding text) ['\n']) = .ok p ∧
      t = retranslate (detectLineEnding text) (placeHeader p.1 p.2.1 p.2.2.1 p.2.2.2) := by
  unfold annotateText at h
  split at h
  · cases h
  · simp only at h
    split at h
    · cases h
    · rename_i t0 ht0
      cases h
      cases replace
      · simp only [Bool.false_eq_true, if_false] at ht0
        rw [anh_parts] at ht0
        split at ht0
        · cases ht0
        · rename_i p hp
          cases ht0
          exact ⟨p, hp, rfl⟩
      · simp only [if_true] at ht0
        rw [far_parts] at ht0
        split at ht0
        · cases ht0
        · rename_i p hp
          cases ht0
          exact ⟨p, hp, rfl⟩

/-- what a header returned by `create_header` declares (no `--merge-copyrights`): everything
    requested, and everything the old header block declared -/
theorem createHeader_declares {c : HdrCfg} {info : Extracted} {header h : Text}
    (hmerge : c.merge = false) (hnorm : ∀ x, c.normLic (c.normLic x) = c.normLic x)
    (hok : createHeader c info header = .ok h) :
    Declares c.normLic (extractRaw h) info.cpr info.lic ∧
    (header ≠ [] → Declares c.normLic (extractRaw h) (extractRaw header).cpr (extractRaw header).lic) := by
  by_cases he : header = []
  · subst he
    have hok' : createNewHeader c info = .ok h := by
      unfold createHeader at hok; simpa [hmerge] using hok
    have hg := (createNewHeader_ok hok').2
    unfold guardOk at hg
    simp only [Bool.and_eq_true] at hg
    refine ⟨⟨fun x hx => (sameSet_iff.mp hg.2.1.1 x).mp hx, fun x hx => ?_⟩, fun h => (h rfl).elim⟩
    exact (sameSet_iff.mp hg.2.1.2 _).mp (List.mem_map.mpr ⟨x, hx, rfl⟩)
  · unfold createHeader at hok
    have he' : header.isEmpty = false := by cases header <;> simp_all
    simp only [he', Bool.false_eq_true, if_false] at hok
    by_cases hp : (extractRaw header).lic.all c.parses = true
    · simp only [hp, Bool.not_true, Bool.false_eq_true, if_false, hmerge] at hok
      have hok' : createNewHeader c
          { lic := dedup (((extractRaw header).lic ++ info.lic).map c.normLic),
            con := unionTexts (extractRaw header).con info.con,
            cpr := unionTexts info.cpr (extractRaw header).cpr } = .ok h := hok
      have hg := (createNewHeader_ok hok').2
      unfold guardOk at hg
      simp only [Bool.and_eq_true] at hg
      have h1 := sameSet_iff.mp hg.2.1.1
      have h2 := sameSet_iff.mp hg.2.1.2
      have hl : ∀ x, x ∈ (extractRaw header).lic ∨ x ∈ info.lic → c.normLic x ∈ (extractRaw h).lic.map c.normLic := by
        intro x hx
        rw [← h2 (c.normLic x)]
        simp only [List.mem_map, mem_dedup, List.mem_append]
        exact ⟨c.normLic x, ⟨x, hx, rfl⟩, hnorm x⟩
      refine ⟨⟨fun x hx => (h1 x).mp (mem_unionTexts.mpr (.inl hx)), fun x hx => hl x (.inr hx)⟩,
        fun _ => ⟨fun x hx => (h1 x).mp (mem_unionTexts.mpr (.inr hx)), fun x hx => hl x (.inl hx)⟩⟩
    · simp only [hp, Bool.not_false, if_true] at hok
      cases hok

/-- licence expressions carried from the header block to the whole text -/
theorem declares_of_embed {norm : Text → Text} {pre hdr post : Text} {cpr lic : List Text}
    (hpre : pre = [] ∨ ∃ p, pre = p ++ ['\n'])
    (hns : noIgnoreStart (pre ++ hdr ++ ['\n'] ++ post) = true)
    (htags : tagsCompose hdr (pre ++ hdr ++ ['\n'] ++ post) = true)
    (hd : Declares norm (extractRaw hdr) cpr lic) :
    Declares norm (extractRaw (pre ++ hdr ++ ['\n'] ++ post)) cpr lic := by
  unfold noIgnoreStart at hns
  simp only [Option.isNone_iff_eq_none] at hns
  unfold tagsCompose at htags
  simp only [Bool.and_eq_true, List.all_eq_true, List.contains_eq_mem, decide_eq_true_eq] at htags
  refine ⟨fun x hx => extractRaw_cpr_embed pre hdr post hpre hns x (hd.1 x hx), fun x hx => ?_⟩
  obtain ⟨v, hv, hvx⟩ := List.mem_map.mp (hd.2 x hx)
  exact List.mem_map.mpr ⟨v, htags.1 v hv, hvx⟩

end Model
