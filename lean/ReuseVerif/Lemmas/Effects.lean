/-
Lemmas about the effect models: frame, failure-leaves-no-trace and locality of
`addHeader` / `step`, then the loop.
-/
import ReuseVerif.Spec.Effects

namespace Model.Eff
open Spec.Eff

/-! ### the file system -/

@[simp] theorem Fs.set_same (fs : Fs) (p : Path) (n : Option Node) : Fs.set fs p n p = n := by
  simp [Fs.set]

theorem Fs.set_other (fs : Fs) {p q : Path} (n : Option Node) (h : q ≠ p) : Fs.set fs p n q = fs q := by
  simp [Fs.set, h]

theorem Fs.unlink_create (fs : Fs) (p : Path) (h : fs p = none) : Fs.unlink (Fs.create fs p) p = fs := by
  funext q
  by_cases hq : q = p
  · subst hq; simp [Fs.unlink, h]
  · simp [Fs.unlink, Fs.create, Fs.set, hq]

theorem Fs.readText_congr {fs fs' : Fs} {p : Path} (h : fs p = fs' p) : Fs.readText fs p = Fs.readText fs' p := by
  simp [Fs.readText, h]

/-! ### `.license` names -/

theorem licSuffix_cases (p : Path) : licSuffix p = p ∨ licSuffix p = sibling p := by
  unfold licSuffix; split <;> simp

theorem sibling_inj {p q : Path} (h : sibling p = sibling q) : p = q :=
  List.append_cancel_right h

theorem stem_sibling (p : Path) : stem (sibling p) = p := by
  simp [stem, sibling]

theorem hasLicSuffix_sibling {p : Path} (h : WfPath p) : hasLicSuffix (sibling p) = true := by
  obtain ⟨h1, h2⟩ := h
  unfold hasLicSuffix
  rw [stem_sibling]
  have : licExt.isSuffixOf (sibling p) = true := by
    rw [List.isSuffixOf_iff_suffix]; exact List.suffix_append p licExt
  simp [this, h1, h2]

theorem licSuffix_sibling {p : Path} (h : WfPath p) : licSuffix (sibling p) = sibling p := by
  simp [licSuffix, hasLicSuffix_sibling h]

/-- everything one loop iteration can write to -/
def writeSet (p : Path) : List Path := [p, licSuffix p, licSuffix (licSuffix p)]

theorem writeSet_sub_claim {p : Path} (h : WfPath p) {x : Path} (hx : x ∈ writeSet p) : x ∈ claim p := by
  simp only [writeSet, List.mem_cons, List.not_mem_nil, or_false] at hx
  simp only [claim, List.mem_cons, List.not_mem_nil, or_false]
  rcases licSuffix_cases p with h1 | h1
  · rw [h1, h1] at hx; rcases hx with hx | hx | hx <;> exact .inl hx
  · rw [h1, licSuffix_sibling h] at hx; rcases hx with hx | hx | hx
    · exact .inl hx
    · exact .inr hx
    · exact .inr hx

theorem writeSet_sibling {p : Path} (h : WfPath p) {x : Path} (hx : x ∈ writeSet (sibling p)) : x = sibling p := by
  simp only [writeSet, licSuffix_sibling h, List.mem_cons, List.not_mem_nil, or_false] at hx
  rcases hx with hx | hx | hx <;> exact hx

/-! ### agreement of two file systems on a set of paths, locality of an action -/

def Agree (S : Path → Prop) (fs fs' : Fs) : Prop := ∀ x, S x → fs x = fs' x

/-- what `k` does on `S` (and whether it fails) depends only on what is at the paths of `S` -/
def LocalOn (S : Path → Prop) (k : Fs → Fs × Bool) : Prop :=
  ∀ g g', Agree S g g' → (k g).2 = (k g').2 ∧ Agree S (k g).1 (k g').1

theorem Agree.set {S : Path → Prop} {fs fs' : Fs} (h : Agree S fs fs') (t : Path) (n : Option Node) :
    Agree S (Fs.set fs t n) (Fs.set fs' t n) := by
  intro x hx
  simp only [Fs.set]
  split
  · rfl
  · exact h x hx

/-! ### the `guarded` combinator -/

theorem guarded_frame (fs : Fs) (t x : Path) (k : Fs → Fs × Bool) (hx : x ≠ t)
    (hk : ∀ g, (k g).1 x = g x) : (guarded fs t k).1 x = fs x := by
  unfold guarded
  simp only
  generalize (fs t).isNone = c
  have h1 : (if c = true then Fs.create fs t else fs) x = fs x := by
    cases c <;> simp [Fs.create, Fs.set_other _ _ hx]
  generalize (if c = true then Fs.create fs t else fs) = g0 at h1 ⊢
  split
  · rw [Fs.unlink, Fs.set_other _ _ hx, hk, h1]
  · rw [hk, h1]

theorem guarded_fail (fs : Fs) (t : Path) (k : Fs → Fs × Bool)
    (hk : ∀ g, (k g).2 = true → (k g).1 = g) (h : (guarded fs t k).2 = true) :
    (guarded fs t k).1 = fs := by
  unfold guarded at h ⊢
  simp only at h ⊢
  rw [hk _ h]
  simp only [h, Bool.true_and]
  by_cases hc : (fs t).isNone = true
  · simp only [hc, if_true]
    exact Fs.unlink_create _ _ (by simpa using hc)
  · simp [hc]

theorem guarded_local (S : Path → Prop) (t : Path) (k : Fs → Fs × Bool) (ht : S t) (hk : LocalOn S k) :
    LocalOn S (fun g => guarded g t k) := by
  intro g g' hag
  simp only [guarded]
  rw [← hag t ht]
  generalize (g t).isNone = c
  have hin : Agree S (if c = true then Fs.create g t else g) (if c = true then Fs.create g' t else g') := by
    cases c
    · simpa using hag
    · simpa [Fs.create] using hag.set t _
  obtain ⟨l1, l2⟩ := hk _ _ hin
  generalize (if c = true then Fs.create g t else g) = g0 at l1 l2 ⊢
  generalize (if c = true then Fs.create g' t else g') = g0' at l1 l2 ⊢
  refine ⟨l1, ?_⟩
  rw [← l1]
  split
  · exact l2.set t _
  · exact l2

theorem guardedNoLink_frame (fs : Fs) (t x : Path) (k : Fs → Fs × Bool) (hx : x ≠ t)
    (hk : ∀ g, (k g).1 x = g x) : (guardedNoLink fs t k).1 x = fs x := by
  unfold guardedNoLink
  split
  · rfl
  · exact guarded_frame fs t x k hx hk

theorem guardedNoLink_fail (fs : Fs) (t : Path) (k : Fs → Fs × Bool)
    (hk : ∀ g, (k g).2 = true → (k g).1 = g) (h : (guardedNoLink fs t k).2 = true) :
    (guardedNoLink fs t k).1 = fs := by
  unfold guardedNoLink at h ⊢
  split
  · rfl
  · rename_i hl
    simp only [hl] at h
    exact guarded_fail fs t k hk h

theorem guardedNoLink_local (S : Path → Prop) (t : Path) (k : Fs → Fs × Bool) (ht : S t) (hk : LocalOn S k) :
    LocalOn S (fun g => guardedNoLink g t k) := by
  intro g g' hag
  have hl : Fs.isLink g t = Fs.isLink g' t := by simp [Fs.isLink, hag t ht]
  simp only [guardedNoLink, hl]
  split
  · exact ⟨rfl, hag⟩
  · exact guarded_local S t k ht hk g g' hag

/-! ### `add_header_to_file` -/

theorem writeHeader_frame (env : Env) (a : Args) (t x : Path) (hx : x ≠ t) (g : Fs) :
    (writeHeader env a t g).1 x = g x := by
  unfold writeHeader
  simp only
  split
  · rfl
  · split
    · simp [Fs.writeFile, Fs.set_other _ _ hx]
    · rfl

theorem writeHeader_fail (env : Env) (a : Args) (t : Path) (g : Fs)
    (h : (writeHeader env a t g).2 = true) : (writeHeader env a t g).1 = g := by
  unfold writeHeader at h ⊢
  simp only at h ⊢
  split
  · rfl
  · rename_i hs
    simp only [hs] at h
    split
    · rename_i out hb; simp [hb] at h
    · rfl

theorem writeHeader_local (env : Env) (a : Args) (S : Path → Prop) (t : Path) (ht : S t) :
    LocalOn S (writeHeader env a t) := by
  intro g g' hag
  unfold writeHeader
  simp only
  rw [Fs.readText_congr (hag t ht)]
  split
  · exact ⟨rfl, hag⟩
  · split
    · exact ⟨rfl, hag.set t _⟩
    · exact ⟨rfl, hag⟩

theorem addHeader_frame (env : Env) (a : Args) (t1 x : Path)
    (h1 : x ≠ t1) (h2 : x ≠ licSuffix t1) (fs : Fs) : (addHeader env a t1 fs).1 x = fs x := by
  unfold addHeader
  simp only
  split
  · rfl
  · split
    · exact guardedNoLink_frame fs _ x _ h2 (writeHeader_frame env a _ x h2)
    · exact writeHeader_frame env a t1 x h1 fs

theorem addHeader_fail (env : Env) (a : Args) (t1 : Path) (fs : Fs)
    (h : (addHeader env a t1 fs).2 = true) : (addHeader env a t1 fs).1 = fs := by
  unfold addHeader at h ⊢
  simp only at h ⊢
  split
  · rfl
  · rename_i h1
    simp only [h1] at h
    split
    · rename_i h2
      simp only [h2, if_true] at h
      exact guardedNoLink_fail fs _ _ (writeHeader_fail env a _) h
    · rename_i h2
      simp only [h2] at h
      exact writeHeader_fail env a t1 fs h

theorem addHeader_local (env : Env) (a : Args) (S : Path → Prop) (t1 : Path)
    (h1 : S t1) (h2 : S (licSuffix t1)) : LocalOn S (addHeader env a t1) := by
  intro g g' hag
  unfold addHeader
  simp only
  split
  · exact ⟨rfl, hag⟩
  · split
    · exact guardedNoLink_local S _ _ h2 (writeHeader_local env a S _ h2) g g' hag
    · exact writeHeader_local env a S t1 h1 g g' hag

/-! ### one loop iteration -/

theorem step_frame (env : Env) (a : Args) (fs : Fs) (p x : Path) (hx : x ∉ writeSet p) :
    (step env a fs p).1 x = fs x := by
  simp only [writeSet, List.mem_cons, List.not_mem_nil, or_false, not_or] at hx
  obtain ⟨h0, h1, h2⟩ := hx
  unfold step
  split
  · exact guardedNoLink_frame fs _ x _ h1 (addHeader_frame env a _ x h1 h2)
  · exact addHeader_frame env a p x h0 h1 fs

theorem step_fail (env : Env) (a : Args) (fs : Fs) (p : Path)
    (h : (step env a fs p).2 = true) : (step env a fs p).1 = fs := by
  unfold step at h ⊢
  split
  · rename_i hs
    simp only [hs, if_true] at h
    exact guardedNoLink_fail fs _ _ (addHeader_fail env a _) h
  · rename_i hs
    simp only [hs] at h
    exact addHeader_fail env a p fs h

theorem step_local (env : Env) (a : Args) (fs fs' : Fs) (p : Path)
    (h : ∀ x ∈ writeSet p, fs x = fs' x) :
    (step env a fs p).2 = (step env a fs' p).2 ∧
    ∀ x ∈ writeSet p, (step env a fs p).1 x = (step env a fs' p).1 x := by
  have m0 : p ∈ writeSet p := by simp [writeSet]
  have m1 : licSuffix p ∈ writeSet p := by simp [writeSet]
  have m2 : licSuffix (licSuffix p) ∈ writeSet p := by simp [writeSet]
  unfold step
  split
  · exact guardedNoLink_local (· ∈ writeSet p) _ _ m1 (addHeader_local env a _ _ m1 m2) fs fs' h
  · exact addHeader_local env a (· ∈ writeSet p) p m0 m1 fs fs' h

/-! ### the loop -/

theorem runSteps_frame (env : Env) (a : Args) (ps : List Path) (x : Path) :
    ∀ fs, (∀ q ∈ ps, x ∉ writeSet q) → (runSteps env a fs ps).1 x = fs x := by
  induction ps with
  | nil => intro fs _; rfl
  | cons p rest ih =>
    intro fs h
    simp only [runSteps]
    rw [ih _ (fun q hq => h q (List.mem_cons_of_mem _ hq))]
    exact step_frame env a fs p x (h p (List.mem_cons_self ..))

theorem claim_disjoint {q r : Path} (h : sepRel q r) {x : Path} (hq : x ∈ claim q) : x ∉ claim r := by
  obtain ⟨h1, h2, h3⟩ := h
  simp only [claim, List.mem_cons, List.not_mem_nil, or_false] at hq ⊢
  rintro (hr | hr) <;> rcases hq with hq | hq
  · exact h1 (hq ▸ hr ▸ rfl)
  · exact h3 (hr ▸ hq ▸ rfl)
  · exact h2 (hq ▸ hr ▸ rfl)
  · exact h1 (sibling_inj (hq ▸ hr ▸ rfl))

theorem sepRel_symm {q r : Path} (h : sepRel q r) : sepRel r q :=
  ⟨fun e => h.1 e.symm, h.2.2, h.2.1⟩

/-- Under separation every path of the invocation ends exactly as if the loop body had been
    run for it alone on the initial tree, and the loop's result flag is the disjunction. -/
theorem runSteps_spec (env : Env) (a : Args) (ps : List Path) (hsep : Separate ps)
    (hwf : ∀ q ∈ ps, WfPath q) :
    ∀ fs, (runSteps env a fs ps).2 = ps.any (fun q => (step env a fs q).2) ∧
      ∀ q ∈ ps, ∀ x ∈ claim q, (runSteps env a fs ps).1 x = (step env a fs q).1 x := by
  induction ps with
  | nil => intro fs; simp [runSteps]
  | cons p rest ih =>
    intro fs
    have hsep' : Separate rest := (List.pairwise_cons.mp hsep).2
    have hp : ∀ r ∈ rest, sepRel p r := (List.pairwise_cons.mp hsep).1
    have hwf' : ∀ q ∈ rest, WfPath q := fun q hq => hwf q (List.mem_cons_of_mem _ hq)
    obtain ⟨ihf, ihx⟩ := ih hsep' hwf' (step env a fs p).1
    -- the first iteration does not disturb what the later paths look at
    have hloc : ∀ r ∈ rest, ∀ x ∈ writeSet r, (step env a fs p).1 x = fs x := by
      intro r hr x hx
      apply step_frame
      intro hxp
      exact claim_disjoint (sepRel_symm (hp r hr)) (writeSet_sub_claim (hwf' r hr) hx)
        (writeSet_sub_claim (hwf p (List.mem_cons_self ..)) hxp)
    constructor
    · simp only [runSteps, List.any_cons]
      rw [ihf]
      congr 1
      rw [Bool.eq_iff_iff]
      simp only [List.any_eq_true]
      constructor
      · rintro ⟨r, hr, h⟩
        exact ⟨r, hr, by rw [← (step_local env a _ _ r (hloc r hr)).1]; exact h⟩
      · rintro ⟨r, hr, h⟩
        exact ⟨r, hr, by rw [(step_local env a _ _ r (hloc r hr)).1]; exact h⟩
    · intro q hq x hx
      simp only [runSteps]
      rcases List.mem_cons.mp hq with rfl | hq'
      · apply runSteps_frame
        intro r hr hxr
        exact claim_disjoint (hp r hr) hx (writeSet_sub_claim (hwf' r hr) hxr)
      · rw [ihx q hq' x hx]
        by_cases hxw : x ∈ writeSet q
        · exact (step_local env a _ _ q (hloc q hq')).2 x hxw
        · rw [step_frame env a _ q x hxw, step_frame env a fs q x hxw]
          apply step_frame
          intro hxp
          exact claim_disjoint (sepRel_symm (hp q hq')) hx
            (writeSet_sub_claim (hwf p (List.mem_cons_self ..)) hxp)

end Model.Eff
