import ReuseVerif.Lemmas.GlobMain
import ReuseVerif.Spec.Dep5

namespace Model
open Py Py.Re Spec

theorem convert_nil : convertGlob [] = [] := by rw [convertGlob]
theorem convert_esc (c : Char) (r : Text) : convertGlob ('\\' :: c :: r) = '\\' :: c :: convertGlob r := by
  rw [convertGlob]
theorem convert_lit {c : Char} (r : Text) (h1 : c ≠ '*') (h2 : c ≠ '\\') :
    convertGlob (c :: r) = c :: convertGlob r := by
  rw [convertGlob]
  · intro h _; exact h2 h
  · intro c' r' h _; exact h2 h
  · intro h; exact h1 h

theorem convert_star (m : Nat) (r : Text) (hr : r.head? ≠ some '*') :
    convertGlob ('*' :: (List.replicate m '*' ++ r)) =
      List.replicate (if m = 0 then 2 else m + 1) '*' ++ convertGlob r := by
  have h1 := takeWhile_isStar_replicate m r hr
  have h2 := dropWhile_isStar_replicate m r hr
  rw [convertGlob]
  simp only [h1, h2, List.length_replicate]
  by_cases hm : m = 0
  · simp [hm]
  · simp [hm, List.replicate_succ]

theorem convert_head (r : Text) (hr : r.head? ≠ some '*') : (convertGlob r).head? = r.head? := by
  cases r with
  | nil => simp [convert_nil]
  | cons c cs =>
    have hc : c ≠ '*' := by simpa using hr
    by_cases hb : c = '\\'
    · subst hb
      cases cs with
      | nil => rw [convertGlob]
      | cons d ds => simp [convert_esc]
    · simp [convert_lit cs hc hb]

theorem dep5Blocks_lit {c : Char} (r : Text) (h1 : c ≠ '*') (h2 : c ≠ '\\') (h3 : c ≠ '?') :
    dep5Blocks (c :: r) = (dep5Blocks r).map (.chr c :: ·) := by
  rw [dep5Blocks]
  · intro h _; exact h2 h
  · intro c' r' h _; exact h2 h
  · intro h; exact h1 h
  · intro h; exact h3 h

theorem dep5Blocks_stars (m : Nat) (r : Text) :
    dep5Blocks (List.replicate m '*' ++ r) =
      (dep5Blocks r).map (List.replicate m (.star anyChar) ++ ·) := by
  induction m with
  | zero => simp
  | succ k ih =>
    simp only [List.replicate_succ, List.cons_append]
    rw [dep5Blocks, ih]
    cases dep5Blocks r <;> simp

theorem matches_anyruns {X : List Re} (m : Nat) (p : Text) :
    Matches (seq (List.replicate (m + 1) (.star anyChar) ++ X)) p ↔
      ∃ s t, p = s ++ t ∧ Matches (seq X) t := by
  induction m generalizing p with
  | zero =>
    simp only [List.replicate_succ, List.replicate_zero, List.cons_append, List.nil_append]
    rw [matches_seq_cons]
    constructor
    · rintro ⟨s, t, e, _, ht⟩; exact ⟨s, t, e, ht⟩
    · rintro ⟨s, t, e, ht⟩; exact ⟨s, t, e, matches_star_any s, ht⟩
  | succ k ih =>
    rw [List.replicate_succ, List.cons_append, matches_seq_cons]
    constructor
    · rintro ⟨s, t, rfl, _, ht⟩
      obtain ⟨s', t', rfl, ht'⟩ := (ih t).mp ht
      exact ⟨s ++ s', t', by simp, ht'⟩
    · rintro ⟨s, t, rfl, ht⟩
      exact ⟨s, t, rfl, matches_star_any s, (ih t).mpr ⟨[], t, rfl, ht⟩⟩

theorem dep5Plain_replicate (m : Nat) (r : Text) (hr : r.head? ≠ some '*') :
    dep5Plain ('*' :: (List.replicate m '*' ++ r)) = (r.head? != some '/' && dep5Plain r) := by
  rw [dep5Plain]
  simp only [dropWhile_isStar_replicate m r hr]

/-- For a plain dep5 glob the dep5 expression and the REUSE.toml expression of
    the converted glob have the same language. -/
theorem dep5_equiv (d : Text) : dep5Plain d = true →
    ∃ bs, dep5Blocks d = some bs ∧
      ∀ p, Matches (seq bs) p ↔ Matches (seq (translate (convertGlob d))) p := by
  induction hlen : d.length using Nat.strongRecOn generalizing d with
  | _ len ih =>
    intro hp
    cases d with
    | nil => exact ⟨[], by rw [dep5Blocks], fun p => by rw [convert_nil, translate_nil]⟩
    | cons c d' =>
      by_cases hbs : c = '\\'
      · subst hbs
        cases d' with
        | nil => simp [dep5Plain] at hp
        | cons e d'' =>
          rw [dep5Plain] at hp
          simp only [Bool.and_eq_true] at hp
          obtain ⟨he, hp'⟩ := hp
          obtain ⟨bs, hbs, hiff⟩ := ih d''.length (by subst hlen; simp; omega) d'' rfl hp'
          refine ⟨.chr e :: bs, ?_, ?_⟩
          · rw [dep5Blocks]; simp [he, hbs]
          · intro p
            rw [convert_esc, translate_esc, matches_seq_cons, matches_seq_cons]
            constructor <;> rintro ⟨s, t, e1, hs, ht⟩
            · exact ⟨s, t, e1, hs, (hiff t).mp ht⟩
            · exact ⟨s, t, e1, hs, (hiff t).mpr ht⟩
      · by_cases hst : c = '*'
        · subst hst
          obtain ⟨m, r, rfl, hr⟩ := stars_split d'
          rw [dep5Plain_replicate m r hr] at hp
          simp only [Bool.and_eq_true, bne_iff_ne, ne_eq] at hp
          obtain ⟨hsl, hp'⟩ := hp
          obtain ⟨bs, hbs, hiff⟩ := ih r.length (by subst hlen; simp; omega) r rfl hp'
          refine ⟨List.replicate (m + 1) (.star anyChar) ++ bs, ?_, ?_⟩
          · have := dep5Blocks_stars (m + 1) r
            rw [List.replicate_succ, List.cons_append] at this
            rw [this, hbs]; simp [List.replicate_succ]
          · intro p
            rw [convert_star m r hr, matches_anyruns]
            have hk : ∃ k, (if m = 0 then 2 else m + 1) = k + 2 := by
              by_cases hm : m = 0
              · exact ⟨0, by simp [hm]⟩
              · exact ⟨m - 1, by simp [hm]; omega⟩
            obtain ⟨k, hk⟩ := hk
            have hh := convert_head r hr
            rw [hk, List.replicate_succ, List.cons_append,
              translate_starN (k + 1) _ (by omega) (by rw [hh]; exact hr) (by rw [hh]; exact hsl),
              matches_seq_cons]
            constructor
            · rintro ⟨s, t, e1, ht⟩; exact ⟨s, t, e1, matches_star_any s, (hiff t).mp ht⟩
            · rintro ⟨s, t, e1, _, ht⟩; exact ⟨s, t, e1, (hiff t).mpr ht⟩
        · by_cases hq : c = '?'
          · subst hq; rw [dep5Plain] at hp; cases hp
          · have hp' : dep5Plain d' = true := by
              rw [dep5Plain] at hp
              · exact hp
              all_goals (intros; simp_all)
            obtain ⟨bs, hb, hiff⟩ := ih d'.length (by subst hlen; simp) d' rfl hp'
            refine ⟨.chr c :: bs, by rw [dep5Blocks_lit d' hst hbs hq, hb]; rfl, ?_⟩
            intro p
            rw [convert_lit d' hst hbs, translate_lit _ hst hbs, matches_seq_cons, matches_seq_cons]
            constructor <;> rintro ⟨s, t, e1, hs, ht⟩
            · exact ⟨s, t, e1, hs, (hiff t).mp ht⟩
            · exact ⟨s, t, e1, hs, (hiff t).mpr ht⟩

end Model
