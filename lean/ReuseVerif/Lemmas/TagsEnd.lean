/-
Lemmas about the END language for C02: literal terminators listed as alternatives are
accepted; a character END cannot consume at all protects the value that ends with it.
-/
import ReuseVerif.Lemmas.Tags

namespace Model
open Py Spec Py.Re

theorem litOf_sound : ∀ (r : Re) (t : Text), litOf r = some t → Matches r t
  | .eps, t, h => by
    simp only [litOf, Option.some.injEq] at h; subst h; exact .eps
  | .cat (.chr c) r, t, h => by
    simp only [litOf, Option.map_eq_some_iff] at h
    obtain ⟨u, hu, rfl⟩ := h
    exact Matches.cat (s := [c]) (.chr c) (litOf_sound r u hu)
  | .chr _, _, h => by simp [litOf] at h
  | .cls _ _, _, h => by simp [litOf] at h
  | .alt _ _, _, h => by simp [litOf] at h
  | .star _, _, h => by simp [litOf] at h
  | .cat .eps _, _, h => by simp [litOf] at h
  | .cat (.cls _ _) _, _, h => by simp [litOf] at h
  | .cat (.cat _ _) _, _, h => by simp [litOf] at h
  | .cat (.alt _ _) _, _, h => by simp [litOf] at h
  | .cat (.star _) _, _, h => by simp [litOf] at h

theorem altHasLit_sound (r : Re) (t : Text) (h : altHasLit r t = true) : Matches r t := by
  fun_induction altHasLit r t with
  | case1 a b t iha ihb =>
    simp only [Bool.or_eq_true] at h
    rcases h with h | h
    · exact .altL (iha h)
    · exact .altR (ihb h)
  | case2 r t _ =>
    exact litOf_sound r t (by simpa using h)

theorem altHasCls_sound (r : Re) (c : Char) (h : altHasCls r c = true) : Matches r [c] := by
  fun_induction altHasCls r c with
  | case1 a b c iha ihb =>
    simp only [Bool.or_eq_true] at h
    rcases h with h | h
    · exact .altL (iha h)
    · exact .altR (ihb h)
  | case2 neg rs c => exact .cls h
  | case3 => cases h

theorem pieceOk_sound (body : Re) (p : Text) (h : pieceOk body p = true) : Matches body p := by
  unfold pieceOk at h
  simp only [Bool.or_eq_true] at h
  rcases h with h | h
  · exact altHasLit_sound body p h
  · match p, h with
    | [c], h => exact altHasCls_sound body c h

/-- any sequence of listed terminators and blanks is in L(END) -/
theorem matches_pieces (body : Re) (pieces : List Text) (h : ∀ p ∈ pieces, pieceOk body p = true) :
    Matches (.star body) pieces.flatten := by
  induction pieces with
  | nil => exact .starNil
  | cons p ps ih =>
    simp only [List.flatten_cons]
    exact .starCons (pieceOk_sound body p (h p (by simp))) (ih fun q hq => h q (by simp [hq]))

theorem atLineEnd_of_isLineEnd {le : Text} (h : isLineEnd le = true) : atLineEnd le = true := by
  simp only [isLineEnd, Bool.or_eq_true, beq_iff_eq] at h
  rcases h with rfl | rfl <;> rfl

/-- … so END reaches the line end from the start of such a trail -/
theorem endOk_pieces (body : Re) (pieces : List Text) (le : Text)
    (h : ∀ p ∈ pieces, pieceOk body p = true) (hle : isLineEnd le = true) :
    endOk (.star body) (pieces.flatten ++ le) = true :=
  matchEnd_complete (matches_pieces body pieces h) (atLineEnd_of_isLineEnd hle)

/-- every character of a matched text is one the expression can consume -/
theorem matches_mayUse {r : Re} {s : Text} (h : Matches r s) : ∀ c ∈ s, mayUse r c = true := by
  induction h with
  | eps => intro c hc; simp at hc
  | chr d => intro c hc; simp only [List.mem_singleton] at hc; subst hc; simp [mayUse]
  | cls hm => intro c hc; simp only [List.mem_singleton] at hc; subst hc; simpa [mayUse] using hm
  | cat _ _ iha ihb =>
    intro c hc
    simp only [List.mem_append] at hc
    rcases hc with hc | hc
    · simp [mayUse, iha c hc]
    · simp [mayUse, ihb c hc]
  | altL _ ih => intro c hc; simp [mayUse, ih c hc]
  | altR _ ih => intro c hc; simp [mayUse, ih c hc]
  | starNil => intro c hc; simp at hc
  | starCons _ _ iha ihb =>
    intro c hc
    simp only [List.mem_append] at hc
    rcases hc with hc | hc
    · simpa [mayUse] using iha c hc
    · exact ihb c hc

/-- A value on one line whose last character END cannot consume has no tail that could be taken
    for terminators, whatever follows it. -/
theorem noEndSuffix_of_last (endRe : Re) (w tail : Text) (hnl : noNewline w = true)
    (hlast : ∀ c, w.getLast? = some c → mayUse endRe c = false) :
    noEndSuffixBefore endRe w tail = true := by
  induction w with
  | nil => rfl
  | cons c cs ih =>
    obtain ⟨_, hcs⟩ := noNewline_cons hnl
    have hnm := noNewline_mem hnl
    simp only [noEndSuffixBefore, Bool.and_eq_true, Bool.not_eq_true']
    refine ⟨?_, ?_⟩
    · unfold endOk
      cases hm : matchEndWith endRe (c :: cs ++ tail) with
      | none => rfl
      | some r =>
        exfalso
        obtain ⟨a, hs, ha, hb⟩ := matchEnd_sound hm
        obtain ⟨l, hl⟩ : ∃ l, (c :: cs).getLast? = some l := by
          cases h : (c :: cs).getLast? with
          | none => simp at h
          | some l => exact ⟨l, rfl⟩
        have hlmem : l ∈ c :: cs := List.mem_of_getLast? hl
        have huse := hlast l hl
        rcases List.append_eq_append_iff.mp hs with ⟨a', h1, h2⟩ | ⟨c', h1, h2⟩
        · -- a = (c :: cs) ++ a'
          have : mayUse endRe l = true := matches_mayUse ha l (by rw [h1]; exact List.mem_append_left _ hlmem)
          rw [huse] at this; cases this
        · -- c :: cs = a ++ c', r = c' ++ tail
          cases c' with
          | nil =>
            simp only [List.append_nil] at h1
            have : mayUse endRe l = true := matches_mayUse ha l (by rw [← h1]; exact hlmem)
            rw [huse] at this; cases this
          | cons x xs =>
            have hx : x ∈ c :: cs := by rw [h1]; simp
            rw [h2] at hb
            have : x = '\n' := by simpa [atLineEnd] using hb
            subst this
            exact hnm hx
    · apply ih hcs
      intro l hl
      apply hlast l
      cases cs with
      | nil => simp at hl
      | cons y ys => simpa [List.getLast?_cons_cons] using hl

theorem starBody_eq {r body : Re} (h : starBody r = some body) : r = .star body := by
  cases r <;> simp [starBody] at h
  subst h; rfl

/-- purely syntactic sufficient conditions for `WFRaw`: the trail is a sequence of listed pieces and
    the last character of `w` is one END cannot consume -/
theorem wfRaw_of_safe_last (endRe body : Re) (hstar : starBody endRe = some body)
    (tag pre blanks w le : Text) (pieces : List Text)
    (hp : ∀ p ∈ pieces, pieceOk body p = true)
    (hshape : WFShape tag pre blanks w pieces.flatten le = true)
    (hlast : ∀ c, w.getLast? = some c → mayUse endRe c = false) :
    WFRaw endRe tag pre blanks w pieces.flatten le = true := by
  have hsh := hshape
  unfold WFShape at hsh; simp only [Bool.and_eq_true] at hsh
  have hle : isLineEnd le = true := hsh.2
  have hnl : noNewline w = true := hsh.1.1.2
  have hend : endOk endRe (pieces.flatten ++ le) = true := by
    rw [starBody_eq hstar]; exact endOk_pieces body pieces le hp hle
  simp [WFRaw, hshape, hend, noEndSuffix_of_last endRe w _ hnl hlast]

theorem wfValue_of_safe_last (endRe body : Re) (hstar : starBody endRe = some body)
    (tag pre blanks v le : Text) (pieces : List Text)
    (hp : ∀ p ∈ pieces, pieceOk body p = true)
    (hshape : WFShape tag pre blanks v pieces.flatten le = true)
    (hlast : ∀ c, v.getLast? = some c → mayUse endRe c = false)
    (hs : isStripped v = true) (hf : frameFree pre v = true) :
    WFValue endRe tag pre blanks v pieces.flatten le = true := by
  simp [WFValue, wfRaw_of_safe_last endRe body hstar tag pre blanks v le pieces hp hshape hlast, hs, hf]


theorem bytesContain_take (pat : Bytes) (n : Nat) (bs : Bytes) (h : bytesContain pat (bs.take n) = true) :
    bytesContain pat bs = true := by
  induction bs generalizing n with
  | nil => simpa using h
  | cons b bs ih =>
    cases n with
    | zero =>
      simp only [List.take_zero, bytesContain, List.isEmpty_iff] at h
      subst h
      simp [bytesContain]
    | succ n =>
      simp only [List.take_succ_cons, bytesContain, Bool.or_eq_true] at h ⊢
      rcases h with h | h
      · left
        have hp := List.isPrefixOf_iff_prefix.mp h
        exact List.isPrefixOf_iff_prefix.mpr (hp.trans ((List.prefix_cons_inj b).mpr (List.take_prefix n bs)))
      · right; exact ih n h


end Model
