/-
C02 (general form) — ignore blocks: where the first marker of a text `a ++ marker ++ X` is, when `a` holds none
(a marker cannot overlap itself: its first character occurs nowhere else in it).
-/
import ReuseVerif.Spec.TagsGeneral
import ReuseVerif.Lemmas.Str
import ReuseVerif.Lemmas.C02Extract

namespace C02L
open Py Model Spec

/-- the first occurrence of a marker that cannot overlap itself, after a text that holds none -/
theorem findSub_at (pat a X : Text) (c0 : Char) (t : Text) (hpat : pat = c0 :: t) (hc0 : c0 ∉ t)
    (ha : findSub pat a = none) : findSub pat (a ++ pat ++ X) = some a.length := by
  induction a with
  | nil =>
    simp only [List.nil_append, List.length_nil]
    exact findSub_prefix_zero (List.isPrefixOf_iff_prefix.mpr (List.prefix_append _ _))
  | cons d ds ih =>
    obtain ⟨h1, h2⟩ := findSub_none_cons ha
    have hno : pat.isPrefixOf (d :: ds ++ pat ++ X) = false := by
      cases hp : pat.isPrefixOf (d :: ds ++ pat ++ X) with
      | false => rfl
      | true =>
        exfalso
        have hpre : pat <+: (d :: ds) ++ (pat ++ X) := by
          simpa [List.append_assoc] using List.isPrefixOf_iff_prefix.mp hp
        have hpre2 : (d :: ds) <+: (d :: ds) ++ (pat ++ X) := List.prefix_append _ _
        by_cases hlen : pat.length ≤ (d :: ds).length
        · have := List.prefix_of_prefix_length_le hpre hpre2 hlen
          rw [List.isPrefixOf_iff_prefix.mpr this] at h1
          cases h1
        · obtain ⟨u, hu⟩ := List.prefix_of_prefix_length_le hpre2 hpre (by omega)
          have hpre' : (d :: ds) ++ u <+: (d :: ds) ++ (pat ++ X) := by rw [hu]; exact hpre
          have hu2 : u <+: pat ++ X := (List.prefix_append_right_inj _).mp hpre'
          cases u with
          | nil =>
            simp only [List.append_nil] at hu
            rw [← hu] at hlen; exact hlen (Nat.le_refl _)
          | cons y us =>
            obtain ⟨w, hw⟩ := hu2
            rw [hpat] at hw hu
            simp only [List.cons_append, List.cons.injEq] at hw hu
            apply hc0
            rw [← hu.2, hw.1]
            simp
    have e : d :: ds ++ pat ++ X = d :: (ds ++ pat ++ X) := rfl
    rw [e] at hno ⊢
    rw [findSub]
    simp only [hno, Bool.false_eq_true, if_false, ih h2, Option.map_some, List.length_cons]

theorem findStart_at (a X : Text) (ha : findSub Generated.ignoreStart a = none) :
    findSub Generated.ignoreStart (a ++ Generated.ignoreStart ++ X) = some a.length :=
  findSub_at Generated.ignoreStart a X 'R' "EUSE-IgnoreStart".toList (by decide) (by decide) ha

theorem findEnd_at (b X : Text) (hb : findSub Generated.ignoreEnd b = none) :
    findSub Generated.ignoreEnd (b ++ Generated.ignoreEnd ++ X) = some b.length :=
  findSub_at Generated.ignoreEnd b X 'R' "EUSE-IgnoreEnd".toList (by decide) (by decide) hb

/-- the result of `extract_reuse_info` depends on the text only through what `filter_ignore_block` leaves of it -/
theorem extractRawWith_congr (endRe : Re) {t t' : Text} (h : filterIgnore t = filterIgnore t') :
    extractRawWith endRe t = extractRawWith endRe t' := by
  unfold extractRawWith
  simp only [h]

end C02L
