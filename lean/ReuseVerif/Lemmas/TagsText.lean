/-
C02 — the tag reader on a text of several tag lines: `findall` resumes after each match.
-/
import ReuseVerif.Lemmas.TagsClean

namespace Model
open Py Spec

/-- one step of `findall`: a well-formed tag line followed by more text -/
theorem findAll_step_line (endRe : Re) (tag pre blanks w trail rest : Text) (fuel : Nat)
    (hshape : WFShape tag pre blanks w trail ['\n'] = true)
    (hearlier : noEarlierTag tag pre (tag ++ blanks ++ w ++ trail ++ '\n' :: rest) = true)
    (hstop : endStopsAt endRe trail rest = true)
    (hsuf : noEndSuffixBefore endRe w (trail ++ '\n' :: rest) = true) :
    findAllWith endRe tag (fuel + 1) (pre ++ tag ++ blanks ++ w ++ trail ++ '\n' :: rest) =
      (pre, w) :: findAllWith endRe tag fuel rest := by
  unfold WFShape at hshape
  simp only [Bool.and_eq_true, Bool.not_eq_true'] at hshape
  obtain ⟨⟨⟨⟨⟨⟨⟨hpre, _⟩, hbne⟩, hball⟩, hwhead⟩, hwnl⟩, _⟩, _⟩ := hshape
  have hline : pre ++ tag ++ blanks ++ w ++ trail ++ '\n' :: rest =
      pre ++ (tag ++ (blanks ++ (w ++ (trail ++ '\n' :: rest)))) := by simp [List.append_assoc]
  have hrest : tag ++ blanks ++ w ++ trail ++ '\n' :: rest = tag ++ (blanks ++ (w ++ (trail ++ '\n' :: rest))) := by
    simp [List.append_assoc]
  rw [hrest] at hearlier
  have hne : pre ++ (tag ++ (blanks ++ (w ++ (trail ++ '\n' :: rest)))) ≠ [] := by
    cases blanks with
    | nil => simp at hbne
    | cons b bs => simp
  rw [hline, findAllWith_step _ _ _ _ hne]
  rw [findTagInLine_hit tag pre _ hpre hearlier (tagHere_intro tag blanks _ hbne hball)]
  simp only [List.drop_left]
  have hwh : ((w ++ (trail ++ '\n' :: rest)).head?.map (fun c => !isBlank c)).getD true = true := by
    cases w with
    | nil => simp at hwhead
    | cons c cs => simpa using hwhead
  rw [dropWhile_blanks blanks _ hball hwh]
  have hm : matchEndWith endRe (trail ++ '\n' :: rest) = some ('\n' :: rest) := by
    simpa [endStopsAt] using hstop
  rw [valueAndRest_exact endRe w _ _ hwnl hsuf hm]
  simp

/-- **Several tag lines.** -/
theorem findAll_lines (endRe : Re) (tag : Text) (ls : List TagLineSpec) (fuel : Nat)
    (h : WFLines endRe tag ls = true) (hfuel : ls.length ≤ fuel) :
    findAllWith endRe tag fuel (linesText tag ls) = ls.map fun l => (l.pre, l.v) := by
  induction ls generalizing fuel with
  | nil => simp [linesText, findAllWith_nil]
  | cons l ls ih =>
    cases fuel with
    | zero => simp at hfuel
    | succ f =>
      simp only [WFLines, Bool.and_eq_true] at h
      obtain ⟨⟨⟨⟨⟨⟨hshape, hearlier⟩, hstop⟩, hsuf⟩, _⟩, _⟩, hrest⟩ := h
      have : linesText tag (l :: ls) = l.pre ++ tag ++ l.blanks ++ l.v ++ l.trail ++ '\n' :: linesText tag ls := by
        simp [linesText, TagLineSpec.text, List.append_assoc]
      rw [this, findAll_step_line endRe tag l.pre l.blanks l.v l.trail _ f hshape hearlier hstop hsuf]
      simp only [List.map_cons, List.cons.injEq, true_and]
      exact ih f hrest (by simpa using hfuel)

theorem linesText_length (tag : Text) (ls : List TagLineSpec) : ls.length ≤ (linesText tag ls).length := by
  induction ls with
  | nil => simp [linesText]
  | cons l ls ih =>
    simp only [linesText, TagLineSpec.text, List.length_cons, List.length_append]
    omega

theorem wfLines_clean (endRe : Re) (tag : Text) (ls : List TagLineSpec) (h : WFLines endRe tag ls = true) :
    (ls.map fun l => cleanTag (l.pre, l.v)) = ls.map (·.v) := by
  induction ls with
  | nil => rfl
  | cons l ls ih =>
    simp only [WFLines, Bool.and_eq_true] at h
    obtain ⟨⟨⟨_, hs⟩, hf⟩, hrest⟩ := h
    simp only [List.map_cons, cleanTag_plain l.pre l.v hs hf, ih hrest]

end Model

namespace Model
open Py Spec Py.Re

theorem matches_nil_nullable {r : Re} {s : Text} (h : Matches r s) (hs : s = []) : nullable r = true := by
  induction h with
  | eps => rfl
  | chr d => cases hs
  | cls _ => cases hs
  | cat _ _ iha ihb =>
    simp only [List.append_eq_nil_iff] at hs
    simp [nullable, iha hs.1, ihb hs.2]
  | altL _ ih => simp [nullable, ih hs]
  | altR _ ih => simp [nullable, ih hs]
  | starNil => rfl
  | starCons _ _ _ _ => rfl

theorem matches_canStart {r : Re} {s : Text} (h : Matches r s) (c : Char) (u : Text) (hs : s = c :: u) :
    canStart r c = true := by
  induction h generalizing u with
  | eps => cases hs
  | chr d => cases hs; simp [canStart]
  | cls hm => cases hs; simpa [canStart] using hm
  | @cat a b s t ha hb iha ihb =>
    cases s with
    | nil =>
      simp only [List.nil_append] at hs
      simp [canStart, matches_nil_nullable ha rfl, ihb u hs]
    | cons x xs =>
      simp only [List.cons_append, List.cons.injEq] at hs
      obtain ⟨rfl, _⟩ := hs
      simp [canStart, iha xs rfl]
  | altL _ ih => simp [canStart, ih u hs]
  | altR _ ih => simp [canStart, ih u hs]
  | starNil => cases hs
  | @starCons a s t _ _ iha ihb =>
    cases s with
    | nil => simp only [List.nil_append] at hs; exact ihb u hs
    | cons x xs =>
      simp only [List.cons_append, List.cons.injEq] at hs
      obtain ⟨rfl, _⟩ := hs
      simpa [canStart] using iha xs rfl

/-- without terminators after the value, END stops at the line end as soon as none of its
    alternatives can begin with a line feed -/
theorem endStopsAt_nil (endRe : Re) (rest : Text) (hnl : canStart endRe '\n' = false) (hnil : nullable endRe = true)
    (hm : Matches endRe []) : endStopsAt endRe [] rest = true := by
  have hsome := matchEnd_complete (b := '\n' :: rest) hm rfl
  simp only [List.nil_append] at hsome
  unfold endStopsAt
  simp only [List.nil_append, beq_iff_eq]
  cases hr : matchEndWith endRe ('\n' :: rest) with
  | none => rw [hr] at hsome; cases hsome
  | some r =>
    obtain ⟨a, hs, ha, _⟩ := matchEnd_sound hr
    cases a with
    | nil => simp only [List.nil_append] at hs; rw [← hs]
    | cons x xs =>
      simp only [List.cons_append, List.cons.injEq] at hs
      have := matches_canStart ha x xs rfl
      rw [← hs.1, hnl] at this
      cases this

end Model

namespace Model
open Py Spec

/-- what follows the line feed cannot matter for `TAG[ \t]` starting before it -/
theorem tagHere_newline_indep (tag suf X Y : Text) (hnl : '\n' ∉ tag) :
    tagHere tag (suf ++ '\n' :: X) = tagHere tag (suf ++ '\n' :: Y) := by
  unfold tagHere
  induction tag generalizing suf with
  | nil =>
    cases suf with
    | nil => simp [isBlank]
    | cons c cs => simp
  | cons t ts ih =>
    have ht : t ≠ '\n' := fun e => hnl (by simp [e])
    have hts : '\n' ∉ ts := fun hm => hnl (by simp [hm])
    have htb : (t == '\n') = false := by simpa using ht
    cases suf with
    | nil => simp [List.isPrefixOf, htb]
    | cons c cs =>
      simp only [List.cons_append, List.isPrefixOf, List.length_cons, List.drop_succ_cons]
      rw [Bool.and_assoc, Bool.and_assoc, ih cs hts]

theorem noEarlierTag_indep (tag l M X Y : Text) (hnl : '\n' ∉ tag) :
    noEarlierTag tag l (M ++ '\n' :: X) = noEarlierTag tag l (M ++ '\n' :: Y) := by
  induction l with
  | nil => rfl
  | cons c cs ih =>
    simp only [noEarlierTag, ih]
    have := tagHere_newline_indep tag (c :: cs ++ M) X Y hnl
    simp only [List.append_assoc] at this
    rw [this]

theorem tagHere_at_newline (tag X : Text) (hnl : '\n' ∉ tag) : tagHere tag ('\n' :: X) = false := by
  unfold tagHere
  cases tag with
  | nil => simp [isBlank]
  | cons t ts =>
    have ht : t ≠ '\n' := fun e => hnl (by simp [e])
    have htb : (t == '\n') = false := by simpa using ht
    simp [List.isPrefixOf, htb]

theorem findTagInLine_none (tag l X : Text) (hnl : '\n' ∉ tag) (hl : noNewline l = true)
    (hno : noEarlierTag tag l ('\n' :: X) = true) : findTagInLine tag (l ++ '\n' :: X) = none := by
  induction l with
  | nil =>
    have h := tagHere_at_newline tag X hnl
    unfold tagHere at h
    simp only [List.nil_append, findTagInLine]
    rw [if_neg (by rw [h]; exact Bool.false_ne_true)]
    simp
  | cons c cs ih =>
    simp only [noEarlierTag, Bool.and_eq_true, Bool.not_eq_true'] at hno
    obtain ⟨hc, hcs⟩ := noNewline_cons hl
    have h1 := hno.1
    unfold tagHere at h1
    simp only [List.cons_append] at h1
    show findTagInLine tag (c :: (cs ++ '\n' :: X)) = none
    rw [findTagInLine, if_neg (by rw [h1]; exact Bool.false_ne_true), if_neg (by rw [hc]; exact Bool.false_ne_true),
      ih hcs hno.2]
    rfl

theorem nextLine_line (l X : Text) (hl : noNewline l = true) : nextLine (l ++ '\n' :: X) = X := by
  unfold nextLine
  induction l with
  | nil => simp
  | cons c cs ih =>
    obtain ⟨hc, hcs⟩ := noNewline_cons hl
    have : (c != '\n') = true := by simp [bne, hc]
    simp only [List.cons_append, List.dropWhile_cons, this, if_true]
    exact ih hcs

/-- lines without the tag are skipped, one unit of fuel each -/
theorem findAll_skip (endRe : Re) (tag : Text) (hnl : '\n' ∉ tag) (ls : List Text) (s : Text) (F : Nat)
    (hfree : ∀ l ∈ ls, tagFreeLine tag l = true) :
    findAllWith endRe tag (F + ls.length) (joinLines ls ++ s) = findAllWith endRe tag F s := by
  induction ls with
  | nil => rfl
  | cons l ls ih =>
    have hl := hfree l (by simp)
    unfold tagFreeLine at hl
    simp only [Bool.and_eq_true] at hl
    have hno : noEarlierTag tag l ('\n' :: (joinLines ls ++ s)) = true := by
      have := noEarlierTag_indep tag l [] [] (joinLines ls ++ s) hnl
      simp only [List.nil_append] at this
      rw [← this]; exact hl.2
    have htext : joinLines (l :: ls) ++ s = l ++ '\n' :: (joinLines ls ++ s) := by
      simp [joinLines, List.append_assoc]
    rw [htext, List.length_cons, ← Nat.add_assoc, findAllWith_step _ _ _ _ (by simp),
      findTagInLine_none tag l _ hnl hl.1 hno, nextLine_line l _ hl.1]
    exact ih (fun l' hl' => hfree l' (by simp [hl']))

/-- one step of `findall` at a well-formed tag line, whatever follows it: the first match is
    `(pre, w)` -/
theorem findAll_step_any (endRe : Re) (tag pre blanks w trail after : Text) (fuel : Nat) (hnl : '\n' ∉ tag)
    (hshape : WFShape tag pre blanks w trail ['\n'] = true)
    (hend : endOk endRe (trail ++ '\n' :: after) = true)
    (hsuf : noEndSuffixBefore endRe w (trail ++ '\n' :: after) = true) :
    ∃ more, findAllWith endRe tag (fuel + 1) (pre ++ tag ++ blanks ++ w ++ trail ++ '\n' :: after) = (pre, w) :: more := by
  unfold WFShape at hshape
  simp only [Bool.and_eq_true, Bool.not_eq_true'] at hshape
  obtain ⟨⟨⟨⟨⟨⟨⟨hpre, hearlier⟩, hbne⟩, hball⟩, hwhead⟩, hwnl⟩, _⟩, _⟩ := hshape
  have hline : pre ++ tag ++ blanks ++ w ++ trail ++ '\n' :: after =
      pre ++ (tag ++ (blanks ++ (w ++ (trail ++ '\n' :: after)))) := by simp [List.append_assoc]
  have hearlier' : noEarlierTag tag pre (tag ++ (blanks ++ (w ++ (trail ++ '\n' :: after)))) = true := by
    have := noEarlierTag_indep tag pre (tag ++ blanks ++ w ++ trail) [] after hnl
    simp only [List.append_assoc] at this hearlier
    rw [← this]; exact hearlier
  have hne : pre ++ (tag ++ (blanks ++ (w ++ (trail ++ '\n' :: after)))) ≠ [] := by
    cases blanks with
    | nil => simp at hbne
    | cons b bs => simp
  rw [hline, findAllWith_step _ _ _ _ hne]
  rw [findTagInLine_hit tag pre _ hpre hearlier' (tagHere_intro tag blanks _ hbne hball)]
  simp only [List.drop_left]
  have hwh : ((w ++ (trail ++ '\n' :: after)).head?.map (fun c => !isBlank c)).getD true = true := by
    cases w with
    | nil => simp at hwhead
    | cons c cs => simpa using hwhead
  rw [dropWhile_blanks blanks _ hball hwh]
  unfold endOk at hend
  cases hm : matchEndWith endRe (trail ++ '\n' :: after) with
  | none => simp [hm] at hend
  | some r =>
    rw [valueAndRest_exact endRe w _ r hwnl hsuf hm]
    exact ⟨_, rfl⟩

theorem joinLines_length (ls : List Text) : ls.length ≤ (joinLines ls).length := by
  induction ls with
  | nil => simp [joinLines]
  | cons l ls ih => simp only [joinLines, List.length_cons, List.length_append]; omega

/-- a well-formed tag line after any number of tag-free lines and before anything is found -/
theorem findAll_found (endRe : Re) (tag : Text) (hnl : '\n' ∉ tag) (ls : List Text) (pre blanks w trail after : Text)
    (hfree : ∀ l ∈ ls, tagFreeLine tag l = true)
    (hshape : WFShape tag pre blanks w trail ['\n'] = true)
    (hend : endOk endRe (trail ++ '\n' :: after) = true)
    (hsuf : noEndSuffixBefore endRe w (trail ++ '\n' :: after) = true) :
    (pre, w) ∈ findAllWith endRe tag ((joinLines ls ++ (pre ++ tag ++ blanks ++ w ++ trail ++ '\n' :: after)).length + 1)
      (joinLines ls ++ (pre ++ tag ++ blanks ++ w ++ trail ++ '\n' :: after)) := by
  have hlen := joinLines_length ls
  obtain ⟨k, hk⟩ : ∃ k, (joinLines ls ++ (pre ++ tag ++ blanks ++ w ++ trail ++ '\n' :: after)).length + 1 = (k + 1) + ls.length := by
    refine ⟨(joinLines ls ++ (pre ++ tag ++ blanks ++ w ++ trail ++ '\n' :: after)).length - ls.length, ?_⟩
    simp only [List.length_append]; omega
  rw [hk, findAll_skip endRe tag hnl ls _ _ hfree]
  obtain ⟨more, hm⟩ := findAll_step_any endRe tag pre blanks w trail after k hnl hshape hend hsuf
  rw [hm]; simp

end Model

namespace Model
open Py Spec

theorem filterIgnore_none {t : Text} (h : findSub Generated.ignoreStart t = none) : filterIgnore t = t := by
  unfold filterIgnore
  rw [filterIgnoreWith]
  split
  · rfl
  · rename_i i hi
    rw [h] at hi; cases hi

end Model
