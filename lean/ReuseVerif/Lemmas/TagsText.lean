/-
C02 — the tag reader on a text of several tag lines: `findall` resumes after each match.
-/
import ReuseVerif.Lemmas.TagsClean

namespace Model
open Py Spec

/-- one step of `findall`: a well-formed tag line followed by more text -/
theorem findAll_step_line (endRe : Re) (tag pre blanks w trail rest : Text) (fuel : Nat)
    (hshape : WFShape tag pre blanks w trail ['\n'] = true)
    (hearlier : noEarlierTag tag pre (tag ++ blanks ++ w ++ trail ++ '\n' :: rest) = true)
    (hstop : endStopsAt endRe trail rest = true)
    (hsuf : noEndSuffixBefore endRe w (trail ++ '\n' :: rest) = true) :
    findAllWith endRe tag (fuel + 1) (pre ++ tag ++ blanks ++ w ++ trail ++ '\n' :: rest) =
      (pre, w) :: findAllWith endRe tag fuel rest := by
  unfold WFShape at hshape
  simp only [Bool.and_eq_true, Bool.not_eq_true'] at hshape
  obtain ⟨⟨⟨⟨⟨⟨⟨hpre, _⟩, hbne⟩, hball⟩, hwhead⟩, hwnl⟩, _⟩, _⟩ := hshape
  have hline : pre ++ tag ++ blanks ++ w ++ trail ++ '\n' :: rest =
      pre ++ (tag ++ (blanks ++ (w ++ (trail ++ '\n' :: rest)))) := by simp [List.append_assoc]
  have hrest : tag ++ blanks ++ w ++ trail ++ '\n' :: rest = tag ++ (blanks ++ (w ++ (trail ++ '\n' :: rest))) := by
    simp [List.append_assoc]
  rw [hrest] at hearlier
  have hne : pre ++ (tag ++ (blanks ++ (w ++ (trail ++ '\n' :: rest)))) ≠ [] := by
    cases blanks with
    | nil => simp at hbne
    | cons b bs => simp
  rw [hline, findAllWith_step _ _ _ _ hne]
  rw [findTagInLine_hit tag pre _ hpre hearlier (tagHere_intro tag blanks _ hbne hball)]
  simp only [List.drop_left]
  have hwh : ((w ++ (trail ++ '\n' :: rest)).head?.map (fun c => !isBlank c)).getD true = true := by
    cases w with
    | nil => simp at hwhead
    | cons c cs => simpa using hwhead
  rw [dropWhile_blanks blanks _ hball hwh]
  have hm : matchEndWith endRe (trail ++ '\n' :: rest) = some ('\n' :: rest) := by
    simpa [endStopsAt] using hstop
  rw [valueAndRest_exact endRe w _ _ hwnl hsuf hm]
  simp

/-- **Several tag lines.** -/
theorem findAll_lines (endRe : Re) (tag : Text) (ls : List TagLineSpec) (fuel : Nat)
    (h : WFLines endRe tag ls = true) (hfuel : ls.length ≤ fuel) :
    findAllWith endRe tag fuel (linesText tag ls) = ls.map fun l => (l.pre, l.v) := by
  induction ls generalizing fuel with
  | nil => simp [linesText, findAllWith_nil]
  | cons l ls ih =>
    cases fuel with
    | zero => simp at hfuel
    | succ f =>
      simp only [WFLines, Bool.and_eq_true] at h
      obtain ⟨⟨⟨⟨⟨⟨hshape, hearlier⟩, hstop⟩, hsuf⟩, _⟩, _⟩, hrest⟩ := h
      have : linesText tag (l :: ls) = l.pre ++ tag ++ l.blanks ++ l.v ++ l.trail ++ '\n' :: linesText tag ls := by
        simp [linesText, TagLineSpec.text, List.append_assoc]
      rw [this, findAll_step_line endRe tag l.pre l.blanks l.v l.trail _ f hshape hearlier hstop hsuf]
      simp only [List.map_cons, List.cons.injEq, true_and]
      exact ih f hrest (by simpa using hfuel)

theorem linesText_length (tag : Text) (ls : List TagLineSpec) : ls.length ≤ (linesText tag ls).length := by
  induction ls with
  | nil => simp [linesText]
  | cons l ls ih =>
    simp only [linesText, TagLineSpec.text, List.length_cons, List.length_append]
    omega

theorem wfLines_clean (endRe : Re) (tag : Text) (ls : List TagLineSpec) (h : WFLines endRe tag ls = true) :
    (ls.map fun l => cleanTag (l.pre, l.v)) = ls.map (·.v) := by
  induction ls with
  | nil => rfl
  | cons l ls ih =>
    simp only [WFLines, Bool.and_eq_true] at h
    obtain ⟨⟨⟨_, hs⟩, hf⟩, hrest⟩ := h
    simp only [List.map_cons, cleanTag_plain l.pre l.v hs hf, ih hrest]

end Model

namespace Model
open Py Spec Py.Re

theorem matches_nil_nullable {r : Re} {s : Text} (h : Matches r s) (hs : s = []) : nullable r = true := by
  induction h with
  | eps => rfl
  | chr d => cases hs
  | cls _ => cases hs
  | cat _ _ iha ihb =>
    simp only [List.append_eq_nil_iff] at hs
    simp [nullable, iha hs.1, ihb hs.2]
  | altL _ ih => simp [nullable, ih hs]
  | altR _ ih => simp [nullable, ih hs]
  | starNil => rfl
  | starCons _ _ _ _ => rfl

theorem matches_canStart {r : Re} {s : Text} (h : Matches r s) (c : Char) (u : Text) (hs : s = c :: u) :
    canStart r c = true := by
  induction h generalizing u with
  | eps => cases hs
  | chr d => cases hs; simp [canStart]
  | cls hm => cases hs; simpa [canStart] using hm
  | @cat a b s t ha hb iha ihb =>
    cases s with
    | nil =>
      simp only [List.nil_append] at hs
      simp [canStart, matches_nil_nullable ha rfl, ihb u hs]
    | cons x xs =>
      simp only [List.cons_append, List.cons.injEq] at hs
      obtain ⟨rfl, _⟩ := hs
      simp [canStart, iha xs rfl]
  | altL _ ih => simp [canStart, ih u hs]
  | altR _ ih => simp [canStart, ih u hs]
  | starNil => cases hs
  | @starCons a s t _ _ iha ihb =>
    cases s with
    | nil => simp only [List.nil_append] at hs; exact ihb u hs
    | cons x xs =>
      simp only [List.cons_append, List.cons.injEq] at hs
      obtain ⟨rfl, _⟩ := hs
      simpa [canStart] using iha xs rfl

/-- without terminators after the value, END stops at the line end as soon as none of its
    alternatives can begin with a line feed -/
theorem endStopsAt_nil (endRe : Re) (rest : Text) (hnl : canStart endRe '\n' = false) (hnil : nullable endRe = true)
    (hm : Matches endRe []) : endStopsAt endRe [] rest = true := by
  have hsome := matchEnd_complete (b := '\n' :: rest) hm rfl
  simp only [List.nil_append] at hsome
  unfold endStopsAt
  simp only [List.nil_append, beq_iff_eq]
  cases hr : matchEndWith endRe ('\n' :: rest) with
  | none => rw [hr] at hsome; cases hsome
  | some r =>
    obtain ⟨a, hs, ha, _⟩ := matchEnd_sound hr
    cases a with
    | nil => simp only [List.nil_append] at hs; rw [← hs]
    | cons x xs =>
      simp only [List.cons_append, List.cons.injEq] at hs
      have := matches_canStart ha x xs rfl
      rw [← hs.1, hnl] at this
      cases this

end Model
