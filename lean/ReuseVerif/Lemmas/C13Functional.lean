/-
C13: what each output format says depends on the report only through the *sets* of its eight
collections (and, for `--lines`, on where each licence lies): order and repetitions inside the
report's lists cannot change the story a format tells.
-/
import ReuseVerif.Lemmas.ReportMain
import ReuseVerif.Spec.Lint

namespace Spec
open Py Model

/-- two reports tell the same story: the same eight collections as sets, and every licence
    identifier is attached to the same path -/
def SameStory (r r' : Report) : Prop :=
  (∀ c a b, Reported r c a b ↔ Reported r' c a b) ∧ ∀ l, licPath r l = licPath r' l

end Spec

namespace Model
open Py Spec

structure SameSets (r r' : Report) : Prop where
  missing : ∀ k p, (k, p) ∈ r.missing ↔ (k, p) ∈ r'.missing
  bad : ∀ k p, (k, p) ∈ r.bad ↔ (k, p) ∈ r'.bad
  noExt : ∀ k p, (k, p) ∈ r.noExt ↔ (k, p) ∈ r'.noExt
  unused : ∀ l, l ∈ r.unused ↔ l ∈ r'.unused
  deprecated : ∀ l, l ∈ r.deprecated ↔ l ∈ r'.deprecated
  readErrors : ∀ p, p ∈ r.readErrors ↔ p ∈ r'.readErrors
  noCopyright : ∀ p, p ∈ r.noCopyright ↔ p ∈ r'.noCopyright
  noLicence : ∀ p, p ∈ r.noLicence ↔ p ∈ r'.noLicence

theorem sameSets_of_story {r r' : Report} (h : SameStory r r') : SameSets r r' := by
  obtain ⟨h, _⟩ := h
  refine ⟨fun k p => h .missing k p, fun k p => h .bad k p, fun k p => h .noExt k p, ?_, ?_, ?_, ?_, ?_⟩
  · intro l; have := h .unused l []; simpa [Reported] using this
  · intro l; have := h .deprecated l []; simpa [Reported] using this
  · intro l; have := h .readError l []; simpa [Reported] using this
  · intro l; have := h .noCopyright l []; simpa [Reported] using this
  · intro l; have := h .noLicence l []; simpa [Reported] using this

theorem nil_iff_of_mem {α} {l l' : List α} (h : ∀ x, x ∈ l ↔ x ∈ l') : l = [] ↔ l' = [] := by
  simp only [List.eq_nil_iff_forall_not_mem]
  exact ⟨fun hl x hx => hl x ((h x).mpr hx), fun hl x hx => hl x ((h x).mp hx)⟩

theorem compliant_of_sameSets {r r' : Report} (s : SameSets r r') : r.isCompliant = r'.isCompliant := by
  rw [Bool.eq_iff_iff, isCompliant_iff, isCompliant_iff]
  rw [nil_iff_of_mem (l := r.missing) (l' := r'.missing) (fun x => s.missing x.1 x.2),
    nil_iff_of_mem s.unused, nil_iff_of_mem (l := r.bad) (l' := r'.bad) (fun x => s.bad x.1 x.2),
    nil_iff_of_mem s.deprecated, nil_iff_of_mem (l := r.noExt) (l' := r'.noExt) (fun x => s.noExt x.1 x.2),
    nil_iff_of_mem s.noCopyright, nil_iff_of_mem s.noLicence, nil_iff_of_mem s.readErrors]

end Model
