import ReuseVerif.Model.Copyright

namespace Model
open Py

theorem dedup_foldl_mem (acc l : List Text) (x : Text) :
    x ∈ l.foldl (fun acc x => if acc.contains x then acc else acc ++ [x]) acc ↔ x ∈ acc ∨ x ∈ l := by
  induction l generalizing acc with
  | nil => simp
  | cons y ys ih =>
    simp only [List.foldl_cons, List.mem_cons]
    rw [ih]
    by_cases hc : y ∈ acc
    · simp only [List.contains_eq_mem, hc, decide_true, if_true]
      constructor
      · rintro (h | h)
        · exact .inl h
        · exact .inr (.inr h)
      · rintro (h | h | h)
        · exact .inl h
        · exact .inl (h ▸ hc)
        · exact .inr h
    · simp only [List.contains_eq_mem, hc, decide_false, Bool.false_eq_true, if_false, List.mem_append,
        List.mem_singleton]
      constructor
      · rintro ((h | h) | h)
        · exact .inl h
        · exact .inr (.inl h)
        · exact .inr (.inr h)
      · rintro (h | h | h)
        · exact .inl (.inl h)
        · exact .inl (.inr h)
        · exact .inr h

theorem mem_dedup {l : List Text} {x : Text} : x ∈ dedup l ↔ x ∈ l := by
  unfold dedup; rw [dedup_foldl_mem]; simp

theorem dedup_foldl_nodup (acc l : List Text) (h : acc.Nodup) :
    (l.foldl (fun acc x => if acc.contains x then acc else acc ++ [x]) acc).Nodup := by
  induction l generalizing acc with
  | nil => simpa
  | cons y ys ih =>
    simp only [List.foldl_cons]
    apply ih
    by_cases hc : y ∈ acc
    · simpa [hc] using h
    · simp only [List.contains_eq_mem, hc, decide_false, Bool.false_eq_true, if_false]
      exact List.nodup_append.mpr ⟨h, by simp, fun a ha b hb => by
        simp at hb; subst hb; intro e; subst e; exact hc ha⟩

theorem dedup_nodup (l : List Text) : (dedup l).Nodup := by
  unfold dedup; exact dedup_foldl_nodup [] l (by simp)

/-- `yearMin` / `yearMax` return elements of the list, and bound every element numerically -/
theorem yearMin_aux (l : List Text) (acc : Option Text) (m : Text)
    (h : l.foldl (fun acc x => match acc with
      | none => some x
      | some m => if yearVal x < yearVal m then some x else some m) acc = some m) :
    (m ∈ l ∨ acc = some m) ∧ (∀ x ∈ l, yearVal m ≤ yearVal x) ∧ (∀ a, acc = some a → yearVal m ≤ yearVal a) := by
  induction l generalizing acc with
  | nil =>
    simp only [List.foldl_nil] at h
    exact ⟨.inr h, by simp, fun a ha => by rw [h] at ha; cases ha; exact Nat.le_refl _⟩
  | cons x xs ih =>
    simp only [List.foldl_cons] at h
    obtain ⟨h1, h2, h3⟩ := ih _ h
    cases acc with
    | none =>
      simp only at h1 h3
      have hx : yearVal m ≤ yearVal x := h3 x rfl
      refine ⟨.inl ?_, ?_, by simp⟩
      · rcases h1 with h1 | h1
        · exact List.mem_cons_of_mem _ h1
        · cases h1; exact List.mem_cons_self
      · intro y hy
        rcases List.mem_cons.mp hy with rfl | hy
        · exact hx
        · exact h2 y hy
    | some a =>
      simp only at h1 h3
      by_cases hlt : yearVal x < yearVal a
      · simp only [hlt, if_true] at h1 h3
        have hx : yearVal m ≤ yearVal x := h3 x rfl
        refine ⟨?_, ?_, ?_⟩
        · rcases h1 with h1 | h1
          · exact .inl (List.mem_cons_of_mem _ h1)
          · cases h1; exact .inl List.mem_cons_self
        · intro y hy
          rcases List.mem_cons.mp hy with rfl | hy
          · exact hx
          · exact h2 y hy
        · intro b hb; cases hb; omega
      · simp only [hlt, if_false] at h1 h3
        have ha : yearVal m ≤ yearVal a := h3 a rfl
        refine ⟨?_, ?_, ?_⟩
        · rcases h1 with h1 | h1
          · exact .inl (List.mem_cons_of_mem _ h1)
          · exact .inr h1
        · intro y hy
          rcases List.mem_cons.mp hy with rfl | hy
          · omega
          · exact h2 y hy
        · intro b hb; cases hb; exact ha

theorem yearMin_mem {l : List Text} {m : Text} (h : yearMin l = some m) : m ∈ l := by
  rcases (yearMin_aux l none m h).1 with h' | h'
  · exact h'
  · cases h'

theorem yearMin_le {l : List Text} {m : Text} (h : yearMin l = some m) : ∀ x ∈ l, yearVal m ≤ yearVal x :=
  (yearMin_aux l none m h).2.1

theorem yearMax_aux (l : List Text) (acc : Option Text) (m : Text)
    (h : l.foldl (fun acc x => match acc with
      | none => some x
      | some m => if yearVal m < yearVal x then some x else some m) acc = some m) :
    (m ∈ l ∨ acc = some m) ∧ (∀ x ∈ l, yearVal x ≤ yearVal m) ∧ (∀ a, acc = some a → yearVal a ≤ yearVal m) := by
  induction l generalizing acc with
  | nil =>
    simp only [List.foldl_nil] at h
    exact ⟨.inr h, by simp, fun a ha => by rw [h] at ha; cases ha; exact Nat.le_refl _⟩
  | cons x xs ih =>
    simp only [List.foldl_cons] at h
    obtain ⟨h1, h2, h3⟩ := ih _ h
    cases acc with
    | none =>
      simp only at h1 h3
      have hx : yearVal x ≤ yearVal m := h3 x rfl
      refine ⟨.inl ?_, ?_, by simp⟩
      · rcases h1 with h1 | h1
        · exact List.mem_cons_of_mem _ h1
        · cases h1; exact List.mem_cons_self
      · intro y hy
        rcases List.mem_cons.mp hy with rfl | hy
        · exact hx
        · exact h2 y hy
    | some a =>
      simp only at h1 h3
      by_cases hlt : yearVal a < yearVal x
      · simp only [hlt, if_true] at h1 h3
        have hx : yearVal x ≤ yearVal m := h3 x rfl
        refine ⟨?_, ?_, ?_⟩
        · rcases h1 with h1 | h1
          · exact .inl (List.mem_cons_of_mem _ h1)
          · cases h1; exact .inl List.mem_cons_self
        · intro y hy
          rcases List.mem_cons.mp hy with rfl | hy
          · exact hx
          · exact h2 y hy
        · intro b hb; cases hb; omega
      · simp only [hlt, if_false] at h1 h3
        have ha : yearVal a ≤ yearVal m := h3 a rfl
        refine ⟨?_, ?_, ?_⟩
        · rcases h1 with h1 | h1
          · exact .inl (List.mem_cons_of_mem _ h1)
          · exact .inr h1
        · intro y hy
          rcases List.mem_cons.mp hy with rfl | hy
          · omega
          · exact h2 y hy
        · intro b hb; cases hb; exact ha

theorem yearMax_mem {l : List Text} {m : Text} (h : yearMax l = some m) : m ∈ l := by
  rcases (yearMax_aux l none m h).1 with h' | h'
  · exact h'
  · cases h'

theorem yearMax_ge {l : List Text} {m : Text} (h : yearMax l = some m) : ∀ x ∈ l, yearVal x ≤ yearVal m :=
  (yearMax_aux l none m h).2.1

theorem yearMin_isSome {l : List Text} (h : l ≠ []) : (yearMin l).isSome = true := by
  obtain ⟨x, xs, rfl⟩ := List.exists_cons_of_ne_nil h
  unfold yearMin
  simp only [List.foldl_cons]
  have : ∀ (ys : List Text) (a : Text), ((ys.foldl (fun acc x => match acc with
      | none => some x
      | some m => if yearVal x < yearVal m then some x else some m) (some a))).isSome = true := by
    intro ys
    induction ys with
    | nil => intro a; rfl
    | cons y ys ih => intro a; simp only [List.foldl_cons]; split <;> exact ih _
  exact this xs x

theorem yearMax_isSome {l : List Text} (h : l ≠ []) : (yearMax l).isSome = true := by
  obtain ⟨x, xs, rfl⟩ := List.exists_cons_of_ne_nil h
  unfold yearMax
  simp only [List.foldl_cons]
  have : ∀ (ys : List Text) (a : Text), ((ys.foldl (fun acc x => match acc with
      | none => some x
      | some m => if yearVal m < yearVal x then some x else some m) (some a))).isSome = true := by
    intro ys
    induction ys with
    | nil => intro a; rfl
    | cons y ys ih => intro a; simp only [List.foldl_cons]; split <;> exact ih _
  exact this xs x

end Model
