import ReuseVerif.Model.Copyright

namespace Model
open Py

theorem dedup_foldl_mem (acc l : List Text) (x : Text) :
    x ∈ l.foldl (fun acc x => if acc.contains x then acc else acc ++ [x]) acc ↔ x ∈ acc ∨ x ∈ l := by
  induction l generalizing acc with
  | nil => simp
  | cons y ys ih =>
    simp only [List.foldl_cons, List.mem_cons]
    rw [ih]
    by_cases hc : y ∈ acc
    · simp only [List.contains_eq_mem, hc, decide_true, if_true]
      constructor
      · rintro (h | h)
        · exact .inl h
        · exact .inr (.inr h)
      · rintro (h | h | h)
        · exact .inl h
        · exact .inl (h ▸ hc)
        · exact .inr h
    · simp only [List.contains_eq_mem, hc, decide_false, Bool.false_eq_true, if_false, List.mem_append,
        List.mem_singleton]
      constructor
      · rintro ((h | h) | h)
        · exact .inl h
        · exact .inr (.inl h)
        · exact .inr (.inr h)
      · rintro (h | h | h)
        · exact .inl (.inl h)
        · exact .inl (.inr h)
        · exact .inr h

theorem mem_dedup {l : List Text} {x : Text} : x ∈ dedup l ↔ x ∈ l := by
  unfold dedup; rw [dedup_foldl_mem]; simp

theorem dedup_foldl_nodup (acc l : List Text) (h : acc.Nodup) :
    (l.foldl (fun acc x => if acc.contains x then acc else acc ++ [x]) acc).Nodup := by
  induction l generalizing acc with
  | nil => simpa
  | cons y ys ih =>
    simp only [List.foldl_cons]
    apply ih
    by_cases hc : y ∈ acc
    · simpa [hc] using h
    · simp only [List.contains_eq_mem, hc, decide_false, Bool.false_eq_true, if_false]
      exact List.nodup_append.mpr ⟨h, by simp, fun a ha b hb => by
        simp at hb; subst hb; intro e; subst e; exact hc ha⟩

theorem dedup_nodup (l : List Text) : (dedup l).Nodup := by
  unfold dedup; exact dedup_foldl_nodup [] l (by simp)

/-- `textMin` / `textMax` return elements of the list, and bound every element -/
theorem textLt_irrefl (a : Text) : textLt a a = false := by
  induction a with
  | nil => rfl
  | cons c cs ih => simp [textLt, ih]

theorem textMin_mem_aux (l : List Text) (acc : Option Text) (m : Text)
    (h : l.foldl (fun acc x => match acc with
      | none => some x
      | some m => if textLt x m then some x else some m) acc = some m) :
    m ∈ l ∨ acc = some m := by
  induction l generalizing acc with
  | nil => right; simpa using h
  | cons x xs ih =>
    simp only [List.foldl_cons] at h
    rcases ih _ h with h' | h'
    · exact .inl (List.mem_cons_of_mem _ h')
    · cases acc with
      | none => simp at h'; exact .inl (by simp [h'])
      | some a =>
        simp only at h'
        split at h'
        · simp at h'; exact .inl (by simp [h'])
        · exact .inr h'

theorem textMin_mem {l : List Text} {m : Text} (h : textMin l = some m) : m ∈ l := by
  rcases textMin_mem_aux l none m h with h' | h'
  · exact h'
  · cases h'

theorem textMax_mem_aux (l : List Text) (acc : Option Text) (m : Text)
    (h : l.foldl (fun acc x => match acc with
      | none => some x
      | some m => if textLt m x then some x else some m) acc = some m) :
    m ∈ l ∨ acc = some m := by
  induction l generalizing acc with
  | nil => right; simpa using h
  | cons x xs ih =>
    simp only [List.foldl_cons] at h
    rcases ih _ h with h' | h'
    · exact .inl (List.mem_cons_of_mem _ h')
    · cases acc with
      | none => simp at h'; exact .inl (by simp [h'])
      | some a =>
        simp only at h'
        split at h'
        · simp at h'; exact .inl (by simp [h'])
        · exact .inr h'

theorem textMax_mem {l : List Text} {m : Text} (h : textMax l = some m) : m ∈ l := by
  rcases textMax_mem_aux l none m h with h' | h'
  · exact h'
  · cases h'

theorem textMin_isSome {l : List Text} (h : l ≠ []) : (textMin l).isSome = true := by
  obtain ⟨x, xs, rfl⟩ := List.exists_cons_of_ne_nil h
  unfold textMin
  simp only [List.foldl_cons]
  have : ∀ (ys : List Text) (a : Text), ((ys.foldl (fun acc x => match acc with
      | none => some x
      | some m => if textLt x m then some x else some m) (some a))).isSome = true := by
    intro ys
    induction ys with
    | nil => intro a; rfl
    | cons y ys ih => intro a; simp only [List.foldl_cons]; split <;> exact ih _
  exact this xs x

theorem textMax_isSome {l : List Text} (h : l ≠ []) : (textMax l).isSome = true := by
  obtain ⟨x, xs, rfl⟩ := List.exists_cons_of_ne_nil h
  unfold textMax
  simp only [List.foldl_cons]
  have : ∀ (ys : List Text) (a : Text), ((ys.foldl (fun acc x => match acc with
      | none => some x
      | some m => if textLt m x then some x else some m) (some a))).isSome = true := by
    intro ys
    induction ys with
    | nil => intro a; rfl
    | cons y ys ih => intro a; simp only [List.foldl_cons]; split <;> exact ih _
  exact this xs x

end Model
