import ReuseVerif.Spec.Copyright

namespace Model
open Py Spec

theorem eat_append (lit s : Text) : eat lit (lit ++ s) = some s := by
  unfold eat
  have : lit.isPrefixOf (lit ++ s) = true := List.isPrefixOf_iff_prefix.mpr (List.prefix_append _ _)
  simp [this]

theorem eat_head_ne {a : Char} {as : Text} {c : Char} {cs : Text} (h : c ≠ a) :
    eat (a :: as) (c :: cs) = none := by
  unfold eat
  have : (a :: as).isPrefixOf (c :: cs) = false := by
    simp [List.isPrefixOf, h.symm]
  simp [this]

theorem eat_nil_target {a : Char} {as : Text} : eat (a :: as) [] = none := by
  simp [eat, List.isPrefixOf]

theorem isReSpace_space : isReSpace ' ' = true := by decide

theorem eatSpace_space (s : Text) : eatSpace (' ' :: s) = some s := by
  simp [eatSpace, isReSpace_space]

theorem eatSpace_not {c : Char} {cs : Text} (h : isReSpace c = false) : eatSpace (c :: cs) = none := by
  simp [eatSpace, h]

def parenC : Text := "(C)".toList
def wordC : Text := "Copyright".toList

theorem eatParenC_C (s : Text) : eatParenC (parenC ++ s) = some s := by
  unfold eatParenC
  have := eat_append "(C)".toList s
  simp only [parenC]
  rw [this]; rfl

theorem eatParenC_ne {c : Char} {cs : Text} (h : c ≠ '(') : eatParenC (c :: cs) = none := by
  unfold eatParenC
  have h1 : eat "(C)".toList (c :: cs) = none := eat_head_ne (a := '(') (as := ['C', ')']) h
  have h2 : eat "(c)".toList (c :: cs) = none := eat_head_ne (a := '(') (as := ['c', ')']) h
  rw [h1, h2]; rfl

theorem eatSign_ne {c : Char} {cs : Text} (h : c ≠ Char.ofNat 0xa9) : eat copySign (c :: cs) = none :=
  eat_head_ne (a := Char.ofNat 0xa9) (as := []) h

/-- what follows the prefix does not look like a continuation of the prefix -/
structure Blocks (rest : Text) : Prop where
  ne : rest ≠ []
  notSpace : ∀ c cs, rest = c :: cs → isReSpace c = false
  notParen : ∀ c cs, rest = c :: cs → c ≠ '('
  notSign : ∀ c cs, rest = c :: cs → c ≠ Char.ofNat 0xa9
  notWord : eat wordC rest = none

theorem Blocks.symbolExt {rest : Text} (hb : Blocks rest) : eatSymbolExt rest = none := by
  obtain ⟨c, cs, rfl⟩ := List.exists_cons_of_ne_nil hb.ne
  simp [eatSymbolExt, eatSpace_not (hb.notSpace c cs rfl)]

theorem symbolExt_space {rest : Text} (hb : Blocks rest) : eatSymbolExt (' ' :: rest) = none := by
  obtain ⟨c, cs, rfl⟩ := List.exists_cons_of_ne_nil hb.ne
  simp [eatSymbolExt, eatSpace_space, eatParenC_ne (hb.notParen c cs rfl), eatSign_ne (hb.notSign c cs rfl)]

theorem headSpace (s : Text) : ((' ' :: s).head?.map isReSpace).getD false = true := by
  simp [isReSpace_space]

/-! ### the extension candidates, option by option -/

theorem pick_spdx_none {rest : Text} (hb : Blocks rest) :
    pickExt (extCandidates .spdx (' ' :: rest)) = some (' ' :: rest) := by
  obtain ⟨c, cs, rfl⟩ := List.exists_cons_of_ne_nil hb.ne
  have h1 := symbolExt_space hb
  have h2 : (eatSpace (' ' :: c :: cs)).bind (eat "Copyright".toList) = none := by
    rw [eatSpace_space]; exact hb.notWord
  simp only [extCandidates, h1, h2, Option.toList, List.nil_append, pickExt, List.find?_cons, headSpace]

theorem pick_first (x : Text) (l : List Text) : pickExt ((' ' :: x) :: l) = some (' ' :: x) := by
  simp [pickExt, List.find?_cons, isReSpace_space]

theorem symbolExt_paren (s : Text) : eatSymbolExt (' ' :: (parenC ++ s)) = some s := by
  simp only [eatSymbolExt, eatSpace_space, Option.bind_eq_bind, Option.bind_some, eatParenC_C]; rfl

theorem symbolExt_sign (s : Text) : eatSymbolExt (' ' :: (copySign ++ s)) = some s := by
  simp only [eatSymbolExt, eatSpace_space, Option.bind_eq_bind, Option.bind_some]
  have : eatParenC (copySign ++ s) = none := eatParenC_ne (c := Char.ofNat 0xa9) (cs := s) (by decide)
  rw [this, eat_append]; rfl

theorem pick_spdx_paren (rest : Text) :
    pickExt (extCandidates .spdx (' ' :: (parenC ++ ' ' :: rest))) = some (' ' :: rest) := by
  simp only [extCandidates, symbolExt_paren, Option.toList, List.cons_append, List.nil_append, pick_first]

theorem pick_spdx_sign (rest : Text) :
    pickExt (extCandidates .spdx (' ' :: (copySign ++ ' ' :: rest))) = some (' ' :: rest) := by
  simp only [extCandidates, symbolExt_sign, Option.toList, List.cons_append, List.nil_append, pick_first]

theorem symbolExt_word (s : Text) : eatSymbolExt (' ' :: (wordC ++ s)) = none := by
  simp only [eatSymbolExt, eatSpace_space, Option.bind_eq_bind, Option.bind_some]
  have h1 : eatParenC (wordC ++ s) = none := eatParenC_ne (c := 'C') (cs := "opyright".toList ++ s) (by decide)
  have h2 : eat copySign (wordC ++ s) = none := eatSign_ne (c := 'C') (cs := "opyright".toList ++ s) (by decide)
  rw [h1, h2]; rfl

theorem word_after_space (s : Text) : (eatSpace (' ' :: (wordC ++ s))).bind (eat "Copyright".toList) = some s := by
  rw [eatSpace_space]; exact eat_append wordC s

/-- ` Copyright` followed by the blocked rest: the inner option fails, the word alone is kept -/
theorem pick_spdx_word {rest : Text} (hb : Blocks rest) :
    pickExt (extCandidates .spdx (' ' :: (wordC ++ ' ' :: rest))) = some (' ' :: rest) := by
  obtain ⟨c, cs, rfl⟩ := List.exists_cons_of_ne_nil hb.ne
  have hin : (do let r' ← eatSpace (' ' :: c :: cs); (eat copySign r').orElse fun _ => eatParenC r') = none := by
    simp [eatSpace_space, eatSign_ne (hb.notSign c cs rfl), eatParenC_ne (hb.notParen c cs rfl)]
  simp only [extCandidates, symbolExt_word, word_after_space, hin, Option.toList, List.nil_append,
    List.cons_append, pick_first]

theorem pick_spdx_word_sign (rest : Text) :
    pickExt (extCandidates .spdx (' ' :: (wordC ++ ' ' :: (copySign ++ ' ' :: rest)))) = some (' ' :: rest) := by
  have hin : (do let r' ← eatSpace (' ' :: (copySign ++ ' ' :: rest)); (eat copySign r').orElse fun _ => eatParenC r')
      = some (' ' :: rest) := by
    simp [eatSpace_space, eat_append]
  simp only [extCandidates, symbolExt_word, word_after_space, hin, Option.toList, List.nil_append,
    List.cons_append, pick_first]

theorem pick_spdx_word_paren (rest : Text) :
    pickExt (extCandidates .spdx (' ' :: (wordC ++ ' ' :: (parenC ++ ' ' :: rest)))) = some (' ' :: rest) := by
  have hs : eat copySign (parenC ++ ' ' :: rest) = none := eatSign_ne (c := '(') (cs := "C)".toList ++ ' ' :: rest) (by decide)
  have hin : (do let r' ← eatSpace (' ' :: (parenC ++ ' ' :: rest)); (eat copySign r').orElse fun _ => eatParenC r')
      = some (' ' :: rest) := by
    simp [eatSpace_space, hs, eatParenC_C]
  simp only [extCandidates, symbolExt_word, word_after_space, hin, Option.toList, List.nil_append,
    List.cons_append, pick_first]

theorem pick_word_none {rest : Text} (hb : Blocks rest) :
    pickExt (extCandidates .word (' ' :: rest)) = some (' ' :: rest) := by
  simp only [extCandidates, symbolExt_space hb, Option.toList, List.nil_append, pick_first]

theorem pick_word_paren (rest : Text) :
    pickExt (extCandidates .word (' ' :: (parenC ++ ' ' :: rest))) = some (' ' :: rest) := by
  simp only [extCandidates, symbolExt_paren, Option.toList, List.cons_append, List.nil_append, pick_first]

theorem pick_word_sign (rest : Text) :
    pickExt (extCandidates .word (' ' :: (copySign ++ ' ' :: rest))) = some (' ' :: rest) := by
  simp only [extCandidates, symbolExt_sign, Option.toList, List.cons_append, List.nil_append, pick_first]

theorem pick_sign (rest : Text) : pickExt (extCandidates .sign (' ' :: rest)) = some (' ' :: rest) := by
  simp only [extCandidates, pick_first]

end Model
