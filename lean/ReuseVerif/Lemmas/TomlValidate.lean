/-
Helper lemmas for C16: every step of the repaired validation ends in a value or
in a parse error, never in one of Python's own exceptions.
-/
import ReuseVerif.Model.TomlValidate
import ReuseVerif.Spec.TomlValidate

namespace Model.Toml
open Py TomlVal Spec.Toml

/-- A value, or a parse error that does not yet carry its source. -/
def softErr : Err → Prop
  | .parse _ none => True
  | _ => False

def Soft {α} : Except Err α → Prop
  | .ok _ => True
  | .error e => softErr e

/-- A value, or a parse error naming `src`. -/
def sourcedErr (src : Text) : Err → Prop
  | .parse _ (some s) => s = src
  | _ => False

def Sourced {α} (src : Text) : Except Err α → Prop
  | .ok _ => True
  | .error e => sourcedErr src e

theorem Soft.bind {α β} {r : Except Err α} {f : α → Except Err β}
    (hr : Soft r) (hf : ∀ a, r = .ok a → Soft (f a)) : Soft (r >>= f) := by
  cases r with
  | ok a => exact hf a rfl
  | error e => exact hr

theorem Sourced.bind {α β} {src : Text} {r : Except Err α} {f : α → Except Err β}
    (hr : Sourced src r) (hf : ∀ a, r = .ok a → Sourced src (f a)) : Sourced src (r >>= f) := by
  cases r with
  | ok a => exact hf a rfl
  | error e => exact hr

theorem withSource_sourced {α} (src : Text) {r : Except Err α} (h : Soft r) :
    Sourced src (withSource src r) := by
  cases r with
  | ok a => trivial
  | error e =>
    cases e with
    | parse k s => cases s <;> simp [withSource, Sourced, sourcedErr]
    | conflict t d => exact h
    | os => exact h
    | crash c => exact h

theorem setOf_soft (xs : List TomlVal) : Soft (setOf true xs) := by
  unfold setOf pySet
  split <;> simp_all [Soft, softErr] <;> split <;> simp_all [Soft, softErr]

theorem strToSet_soft (v : Option TomlVal) : Soft (strToSet true v) := by
  unfold strToSet
  split <;> first | trivial | exact setOf_soft _

theorem toPrecedence_soft (v : Option TomlVal) : Soft (toPrecedence v) := by
  unfold toPrecedence
  split
  · trivial
  · repeat' split
    all_goals trivial
  · trivial

theorem toExprSet_soft (parses : Text → ExprRes) (v : Option TomlVal) :
    Soft (toExprSet true parses v) := by
  unfold toExprSet
  have h := strToSet_soft v
  split
  · rename_i e he; rw [he] at h; exact h
  · dsimp only
    split <;> trivial

theorem validateStrSet_soft (o : Bool) (xs : List TomlVal) : Soft (validateStrSet o xs) := by
  unfold validateStrSet
  repeat' split
  all_goals trivial

theorem validateExprSet_soft (rs : List ExprRes) : Soft (validateExprSet rs) := by
  unfold validateExprSet
  split <;> trivial

theorem itemFromDict_soft (parses : Text → ExprRes) (kvs : List (Text × TomlVal)) :
    Soft (itemFromDict true parses (.table kvs)) := by
  unfold itemFromDict
  simp only [pyGet]
  refine Soft.bind trivial fun _ _ => ?_
  refine Soft.bind trivial fun _ _ => ?_
  refine Soft.bind trivial fun _ _ => ?_
  refine Soft.bind trivial fun _ _ => ?_
  refine Soft.bind (strToSet_soft _) fun _ _ => ?_
  refine Soft.bind (toPrecedence_soft _) fun _ _ => ?_
  refine Soft.bind (strToSet_soft _) fun _ _ => ?_
  refine Soft.bind (toExprSet_soft _ _) fun _ _ => ?_
  refine Soft.bind (validateStrSet_soft _ _) fun _ _ => ?_
  refine Soft.bind (validateStrSet_soft _ _) fun _ _ => ?_
  refine Soft.bind (validateExprSet_soft _) fun _ _ => ?_
  trivial

theorem mapM_soft {α β} (f : α → Except Err β) (xs : List α) (h : ∀ x ∈ xs, Soft (f x)) :
    Soft (xs.mapM f) := by
  induction xs with
  | nil => trivial
  | cons x xs ih =>
    rw [List.mapM_cons]
    refine Soft.bind (h x (by simp)) fun _ _ => ?_
    refine Soft.bind (ih fun y hy => h y (by simp [hy])) fun _ _ => ?_
    trivial

theorem annotationsOf_soft (parses : Text → ExprRes) (ann : TomlVal) :
    Soft (annotationsOf true parses ann) := by
  unfold annotationsOf
  simp only [if_true]
  cases ann with
  | array xs =>
    by_cases hall : xs.all isDict = true
    · simp only [checkContainer, hall, if_true, pyIter]
      refine Soft.bind trivial fun _ _ => ?_
      refine Soft.bind trivial fun ys hys => ?_
      cases hys
      refine mapM_soft _ _ fun x hx => ?_
      have hd : isDict x = true := (List.all_eq_true.mp hall) x hx
      cases x <;> simp [isDict] at hd
      exact itemFromDict_soft parses _
    · simp only [checkContainer, hall]
      trivial
  | str s => trivial
  | int n => trivial
  | float => trivial
  | bool b => trivial
  | datetime => trivial
  | table kvs => trivial

theorem validateVersion_sourced (src : Text) (v : Option TomlVal) :
    Sourced src (validateVersion src v) := by
  unfold validateVersion
  split <;> simp [Sourced, sourcedErr]

theorem fromDict_sourced (parses : Text → ExprRes) (src : Text) (doc : List (Text × TomlVal)) :
    Sourced src (fromDict true parses src doc) := by
  unfold fromDict
  refine Sourced.bind (withSource_sourced src (annotationsOf_soft _ _)) fun _ _ => ?_
  refine Sourced.bind (validateVersion_sourced _ _) fun _ _ => ?_
  trivial

theorem tomlFromFile_cases (parses : Text → ExprRes) (src : Text) (f : TomlFile) :
    tomlFromFile true parses src f = .error .os ∨ Sourced src (tomlFromFile true parses src f) := by
  cases f with
  | osError => left; rfl
  | undecodable => right; simp [tomlFromFile, Sourced, sourcedErr]
  | syntaxError => right; simp [tomlFromFile, Sourced, sourcedErr]
  | doc kvs => right; exact fromDict_sourced parses src kvs

theorem mapM_files (parses : Text → ExprRes) (ts : List (Text × TomlFile)) :
    (∃ rs, ts.mapM (fun sf => tomlFromFile true parses sf.1 sf.2) = .ok rs ∧
        ∀ sf ∈ ts, ∃ t, tomlFromFile true parses sf.1 sf.2 = .ok t) ∨
    (∃ sf ∈ ts, ∃ e, tomlFromFile true parses sf.1 sf.2 = .error e ∧
        ts.mapM (fun sf => tomlFromFile true parses sf.1 sf.2) = .error e) := by
  induction ts with
  | nil => left; exact ⟨[], rfl, by simp⟩
  | cons sf ts ih =>
    rw [List.mapM_cons]
    cases hsf : tomlFromFile true parses sf.1 sf.2 with
    | error e => right; exact ⟨sf, by simp, e, hsf, rfl⟩
    | ok t =>
      rcases ih with ⟨rs, hrs, hall⟩ | ⟨sf', hmem, e, he, hm⟩
      · left
        refine ⟨t :: rs, by rw [hrs]; rfl, ?_⟩
        intro x hx
        rcases List.mem_cons.mp hx with rfl | hx
        · exact ⟨t, hsf⟩
        · exact hall x hx
      · right
        exact ⟨sf', by simp [hmem], e, he, by rw [hm]; rfl⟩

theorem foldl_reportStep (fs : List (Text × FileRes)) (acc : Report) :
    fs.foldl reportStep acc =
      ⟨acc.reports ++ fs.filterMap reportOf, acc.readErrors ++ fs.filterMap readErrorOf⟩ := by
  induction fs generalizing acc with
  | nil => simp
  | cons p fs ih =>
    rw [List.foldl_cons, ih]
    obtain ⟨path, res⟩ := p
    cases res <;> simp [reportStep, reportOf, readErrorOf, List.filterMap_cons]

end Model.Toml
