/-
`str.splitlines` of the model (`Py.splitLinesAux`): unfolding equations, and the fact that the
lines of a block are lines of any text that contains the block between line boundaries.
-/
import ReuseVerif.Py.Str

namespace Py

theorem sla_crlf (acc cs : Text) :
    splitLinesAux false acc ('\r' :: '\n' :: cs) = acc.reverse :: splitLinesAux false [] cs := by
  simp [splitLinesAux]

theorem sla_break (acc rest : Text) (c : Char) (hb : isLineBreak c = true)
    (hn : ¬ (c = '\r' ∧ ∃ cs, rest = '\n' :: cs)) :
    splitLinesAux false acc (c :: rest) = acc.reverse :: splitLinesAux false [] rest := by
  conv => lhs; unfold splitLinesAux
  split
  · simp_all
  · simp_all
  · rename_i h1; simp_all
  · rename_i h1 h2 h3; simp_all

theorem sla_nobreak (acc rest : Text) (c : Char) (hb : isLineBreak c = false) :
    splitLinesAux false acc (c :: rest) = splitLinesAux false (c :: acc) rest := by
  have hc : c ≠ '\r' := by intro e; subst e; simp [isLineBreak] at hb
  conv => lhs; unfold splitLinesAux
  split
  · simp_all
  · simp_all
  · simp_all
  · simp_all

theorem sla_nil (acc : Text) : splitLinesAux false acc [] = if acc = [] then [] else [acc.reverse] := by
  cases acc <;> simp [splitLinesAux]

theorem splitLinesAux_mem_append (acc s post : Text) (l : Text)
    (h : l ∈ splitLinesAux false acc s) : l ∈ splitLinesAux false acc (s ++ '\n' :: post) := by
  fun_induction splitLinesAux false acc s
  · cases h
  · rename_i acc hacc
    simp only [List.nil_append]
    rw [sla_break acc post '\n' (by decide) (by simp)]
    simp only [List.mem_singleton] at h
    simp [h]
  · rename_i acc cs ih
    simp only [Bool.false_eq_true, if_false, List.mem_cons] at h
    rw [show ('\r' :: '\n' :: cs ++ '\n' :: post) = '\r' :: '\n' :: (cs ++ '\n' :: post) from rfl, sla_crlf]
    rcases h with h | h
    · simp [h]
    · exact List.mem_cons_of_mem _ (ih h)
  · rename_i acc c cs hx hb ih
    simp only [Bool.false_eq_true, if_false, List.mem_cons] at h
    rw [show (c :: cs ++ '\n' :: post) = c :: (cs ++ '\n' :: post) from rfl]
    by_cases hcr : c = '\r' ∧ cs = []
    · obtain ⟨rfl, rfl⟩ := hcr
      simp only [List.nil_append]
      rw [sla_crlf]
      rcases h with h | h
      · simp [h]
      · simp [splitLinesAux] at h
    · rw [sla_break acc _ c hb (by
        rintro ⟨rfl, cs', hcs'⟩
        cases cs with
        | nil => exact hcr ⟨rfl, rfl⟩
        | cons d ds =>
          simp only [List.cons_append, List.cons.injEq] at hcs'
          exact hx ds rfl (by rw [hcs'.1]))]
      rcases h with h | h
      · simp [h]
      · exact List.mem_cons_of_mem _ (ih h)
  · rename_i acc c cs hx hb ih
    rw [show (c :: cs ++ '\n' :: post) = c :: (cs ++ '\n' :: post) from rfl, sla_nobreak _ _ _ (by simpa using hb)]
    exact ih h

theorem splitLinesAux_mem_prepend (acc p rest : Text) (l : Text)
    (h : l ∈ splitLinesAux false [] rest) : l ∈ splitLinesAux false acc (p ++ '\n' :: rest) := by
  fun_induction splitLinesAux false acc p
  · simp only [List.nil_append]
    rw [sla_break [] rest '\n' (by decide) (by simp)]
    exact List.mem_cons_of_mem _ h
  · rename_i acc hacc
    simp only [List.nil_append]
    rw [sla_break acc rest '\n' (by decide) (by simp)]
    exact List.mem_cons_of_mem _ h
  · rename_i acc cs ih
    rw [show ('\r' :: '\n' :: cs ++ '\n' :: rest) = '\r' :: '\n' :: (cs ++ '\n' :: rest) from rfl, sla_crlf]
    exact List.mem_cons_of_mem _ ih
  · rename_i acc c cs hx hb ih
    rw [show (c :: cs ++ '\n' :: rest) = c :: (cs ++ '\n' :: rest) from rfl]
    by_cases hcr : c = '\r' ∧ cs = []
    · obtain ⟨rfl, rfl⟩ := hcr
      simp only [List.nil_append]
      rw [sla_crlf]
      exact List.mem_cons_of_mem _ h
    · rw [sla_break acc _ c hb (by
        rintro ⟨rfl, cs', hcs'⟩
        cases cs with
        | nil => exact hcr ⟨rfl, rfl⟩
        | cons d ds =>
          simp only [List.cons_append, List.cons.injEq] at hcs'
          exact hx ds rfl (by rw [hcs'.1]))]
      exact List.mem_cons_of_mem _ ih
  · rename_i acc c cs hx hb ih
    rw [show (c :: cs ++ '\n' :: rest) = c :: (cs ++ '\n' :: rest) from rfl, sla_nobreak _ _ _ (by simpa using hb)]
    exact ih

/-- a line of `h` is a line of `pre ++ h ++ "\n" ++ post` when `pre` is empty or ends a line -/
theorem splitLines_mem_embed (pre h post l : Text) (hpre : pre = [] ∨ ∃ p, pre = p ++ ['\n'])
    (hl : l ∈ splitLines h) : l ∈ splitLines (pre ++ h ++ ['\n'] ++ post) := by
  unfold splitLines at *
  have h1 : l ∈ splitLinesAux false [] (h ++ '\n' :: post) := splitLinesAux_mem_append [] h post l hl
  rcases hpre with rfl | ⟨p, rfl⟩
  · simpa using h1
  · have := splitLinesAux_mem_prepend [] p (h ++ '\n' :: post) l h1
    simpa [List.append_assoc] using this

end Py
