/-
Frame lemmas for the commands of `Model/Effects.lean`.
-/
import ReuseVerif.Lemmas.Effects

namespace Model.Eff
open Spec.Eff

theorem preflight_ok (env : Env) (a : Args) (fs : Fs) (ps : List Path)
    (h : preflight env a fs = .ok ps) : ps = allPaths env a fs := by
  unfold preflight at h
  simp only at h
  repeat' split at h
  all_goals first
    | (simp only [Except.ok.injEq] at h; exact h.symm)
    | (simp at h)

/-- every path the loop works on is a named (or expanded) path or the sibling of one -/
theorem mem_allPaths (env : Env) (a : Args) (fs : Fs) (q : Path) (h : q ∈ allPaths env a fs) :
    ∃ p ∈ expand env a fs, q = p ∨ q = sibling p := by
  unfold allPaths at h
  simp only [List.mem_filter, List.mem_map, List.mem_eraseDups] at h
  obtain ⟨⟨p, ⟨hp, _⟩, rfl⟩, _⟩ := h
  refine ⟨p, hp, ?_⟩
  unfold licPath
  split <;> simp

theorem annotate_frame (env : Env) (a : Args) (fs : Fs) (x : Path)
    (hwf : ∀ p ∈ expand env a fs, WfPath p)
    (hx : x ∉ (expand env a fs).flatMap (fun p => [p, sibling p])) :
    (annotate env a fs).1 x = fs x := by
  unfold annotate
  split
  · rfl
  · rename_i ps hps
    simp only
    apply runSteps_frame
    intro q hq hxq
    rw [preflight_ok env a fs ps hps] at hq
    obtain ⟨p, hp, hqp⟩ := mem_allPaths env a fs q hq
    apply hx
    simp only [List.mem_flatMap, List.mem_cons, List.not_mem_nil, or_false]
    refine ⟨p, hp, ?_⟩
    rcases hqp with rfl | rfl
    · simpa [claim] using writeSet_sub_claim (hwf q hp) hxq
    · exact .inr (writeSet_sibling (hwf p hp) hxq)

theorem convertDep5_cases (w : World) (fs : Fs) :
    convertDep5 w fs = (fs, 2) ∨
    ∃ d, fs dep5Path = some (.file d) ∧ fs tomlPath = none ∧
      convertDep5 w fs = (Fs.unlink (Fs.writeFile fs tomlPath (w.render d)) dep5Path, 0) := by
  unfold convertDep5
  split
  · rename_i d h1 h2; exact .inr ⟨d, h1, h2, rfl⟩
  · exact .inl rfl

theorem mkdir_other (fs : Fs) {p x : Path} (h : x ≠ p) : Fs.mkdir fs p x = fs x := by
  unfold Fs.mkdir
  cases fs p with
  | none => exact Fs.set_other _ _ h
  | some n => rfl

theorem mkdir_old (fs : Fs) (p : Path) {x : Path} {n : Node} (h : fs x = some n) :
    Fs.mkdir fs p x = some n := by
  by_cases hx : x = p
  · subst hx; unfold Fs.mkdir; rw [h]; exact h
  · rw [mkdir_other fs hx]; exact h

theorem mkdir_self (fs : Fs) {p : Path} (h : fs p = none) : Fs.mkdir fs p p = some .dir := by
  unfold Fs.mkdir; rw [h]; simp

theorem putLicense_eq (w : World) (fs : Fs) (dest : Path) (id : Text) :
    (putLicense w fs dest id).1 =
      match Fs.mkdir fs (w.parent dest) dest, w.fetch id with
      | none, some t => Fs.writeFile (Fs.mkdir fs (w.parent dest)) dest t
      | _, _ => Fs.mkdir fs (w.parent dest) := by
  unfold putLicense
  simp only
  cases Fs.mkdir fs (w.parent dest) dest with
  | some n => rfl
  | none => cases w.fetch id <;> rfl

theorem putLicense_old (w : World) (fs : Fs) (dest : Path) (id : Text) (x : Path) (n : Node)
    (h : fs x = some n) : (putLicense w fs dest id).1 x = some n := by
  have hm : Fs.mkdir fs (w.parent dest) x = some n := mkdir_old fs _ h
  rw [putLicense_eq]
  split
  · rename_i t hd _
    by_cases hx : x = dest
    · subst hx; rw [hd] at hm; exact absurd hm (by simp)
    · simp only [Fs.writeFile]; rw [Fs.set_other _ _ hx]; exact hm
  · exact hm

theorem putLicense_frame (w : World) (fs : Fs) (dest : Path) (id : Text) (x : Path)
    (h1 : x ≠ dest) (h2 : x ≠ w.parent dest) : (putLicense w fs dest id).1 x = fs x := by
  have hm : Fs.mkdir fs (w.parent dest) x = fs x := mkdir_other fs h2
  rw [putLicense_eq]
  split
  · simp only [Fs.writeFile]; rw [Fs.set_other _ _ h1]; exact hm
  · exact hm

/-- what `put_license_in_file` leaves at a path that was free: a directory at the parent, the
    fetched text at the destination, or still nothing -/
theorem putLicense_new (w : World) (fs : Fs) (dest : Path) (id : Text) (x : Path)
    (h : fs x = none) :
    (putLicense w fs dest id).1 x = none ∨
    (x = w.parent dest ∧ (putLicense w fs dest id).1 x = some .dir) ∨
    (x = dest ∧ ∃ t, w.fetch id = some t ∧ (putLicense w fs dest id).1 x = some (.file t)) := by
  by_cases hp : x = w.parent dest
  · -- the parent: `mkdir` puts a directory there; nothing is written over it
    have hm : Fs.mkdir fs (w.parent dest) x = some .dir := by
      rw [hp]; exact mkdir_self fs (hp ▸ h)
    right; left
    refine ⟨hp, ?_⟩
    rw [putLicense_eq]
    split
    · rename_i t hd _
      by_cases hx : x = dest
      · subst hx; rw [hd] at hm; exact absurd hm (by simp)
      · simp only [Fs.writeFile]; rw [Fs.set_other _ _ hx]; exact hm
    · exact hm
  · have hm : Fs.mkdir fs (w.parent dest) x = none := by rw [mkdir_other fs hp]; exact h
    by_cases hd : x = dest
    · subst hd
      rw [putLicense_eq, hm]
      cases hf : w.fetch id with
      | none => left; simpa using hm
      | some t => right; right; exact ⟨rfl, t, rfl, by simp [Fs.writeFile]⟩
    · left
      rw [putLicense_frame w fs dest id x hd hp]; exact h

theorem downloadLoop_old (w : World) (out : Option Path) (ids : List Text) (x : Path) (n : Node) :
    ∀ fs, fs x = some n → (downloadLoop w out fs ids).1 x = some n := by
  induction ids with
  | nil => intro fs h; exact h
  | cons id rest ih =>
    intro fs h
    simp only [downloadLoop]
    exact ih _ (putLicense_old w fs _ id x n h)

theorem downloadLoop_frame (w : World) (out : Option Path) (ids : List Text) (x : Path)
    (hx : ∀ id ∈ ids, x ≠ destOf w out id ∧ x ≠ w.parent (destOf w out id)) :
    ∀ fs, (downloadLoop w out fs ids).1 x = fs x := by
  induction ids with
  | nil => intro fs; rfl
  | cons id rest ih =>
    intro fs
    simp only [downloadLoop]
    rw [ih (fun i hi => hx i (List.mem_cons_of_mem _ hi))]
    exact putLicense_frame w fs _ id x (hx id (List.mem_cons_self ..)).1 (hx id (List.mem_cons_self ..)).2

/-- whatever the loop leaves at a path that was free is a fresh directory (a parent) or a fetched
    licence text (a destination) -/
theorem downloadLoop_new (w : World) (out : Option Path) (ids : List Text) (x : Path) :
    ∀ fs, fs x = none →
      (downloadLoop w out fs ids).1 x = none ∨
      (∃ id ∈ ids, x = w.parent (destOf w out id) ∧ (downloadLoop w out fs ids).1 x = some .dir) ∨
      (∃ id ∈ ids, x = destOf w out id ∧ ∃ t, w.fetch id = some t ∧
        (downloadLoop w out fs ids).1 x = some (.file t)) := by
  induction ids with
  | nil => intro fs h; exact .inl h
  | cons id rest ih =>
    intro fs h
    simp only [downloadLoop]
    rcases putLicense_new w fs (destOf w out id) id x h with h1 | ⟨hp, h1⟩ | ⟨hd, t, ht, h1⟩
    · rcases ih _ h1 with h2 | ⟨i, hi, h2⟩ | ⟨i, hi, h2⟩
      · exact .inl h2
      · exact .inr (.inl ⟨i, List.mem_cons_of_mem _ hi, h2⟩)
      · exact .inr (.inr ⟨i, List.mem_cons_of_mem _ hi, h2⟩)
    · exact .inr (.inl ⟨id, List.mem_cons_self .., hp, downloadLoop_old w out rest x _ _ h1⟩)
    · exact .inr (.inr ⟨id, List.mem_cons_self .., hd, t, ht, downloadLoop_old w out rest x _ _ h1⟩)

end Model.Eff
