/-
C09 (full-file step) for CRLF and CR files: annotating the CRLF / CR form of an LF text gives the CRLF / CR form of
the LF result (C08), and the decoder lint reads files with folds both back to the LF texts (`foldLineEndings`).
-/
import ReuseVerif.Lemmas.C09Step
import ReuseVerif.Theorems.C08
import ReuseVerif.Model.Window
import ReuseVerif.Lemmas.History

namespace C09L
open Py Model Spec C08L C10L

theorem replaceFuel_none (old new : Text) : ∀ (f : Nat) (s : Text), findSub old s = none → replaceFuel old new f s = s := by
  intro f
  induction f with
  | zero => intro s _; rfl
  | succ f ih =>
    intro s h
    cases s with
    | nil => rfl
    | cons c cs =>
      have ⟨h1, h2⟩ := findSub_none_cons h
      rw [replaceFuel]
      simp only [h1, Bool.false_eq_true, false_and, if_false, ih cs h2]

/-- `s.replace(old, new)` when `old` does not occur -/
theorem replace_none {old new s : Text} (h : findSub old s = none) : Py.replace s old new = s :=
  replaceFuel_none old new _ s h

theorem fold_lf {u : Text} (hcr : NoCR u) : foldLineEndings u = u := by
  unfold foldLineEndings
  rw [replace_none (findSub_cr_none hcr _), replace_none (findSub_cr_none hcr _)]

/-- the decoder reads a CRLF file as the LF text it is the CRLF form of -/
theorem fold_crlf {u : Text} (hcr : NoCR u) : foldLineEndings (toCRLF u) = u := by
  unfold foldLineEndings
  rw [replace_crlf_back u hcr, replace_none (findSub_cr_none hcr _)]

/-- the decoder reads a CR file as the LF text it is the CR form of -/
theorem fold_cr {u : Text} (hcr : NoCR u) : foldLineEndings (toCR u) = u := by
  unfold foldLineEndings
  rw [replace_none (findSub_no_lf (toCR_no_lf u)), replace_cr_back u hcr]

/-- an invocation that wrote did not take the `--skip-existing` short-circuit -/
theorem written_noskip {c : HdrCfg} {replace skip : Bool} {info : Extracted} {t t' : Text}
    (h : annotateText c replace skip info t = .written t') : annotateText c replace false info t = .written t' := by
  unfold annotateText at h ⊢
  split at h
  · cases h
  · simpa using h

theorem mapWritten_written {f : Text → Text} {a : AnnotateOut} {T : Text} (h : a.mapWritten f = .written T) :
    ∃ t', a = .written t' ∧ T = f t' := by
  cases a with
  | written t' => simp only [AnnotateOut.mapWritten, AnnotateOut.written.injEq] at h; exact ⟨t', rfl, h.symm⟩
  | skipped => cases h
  | failed e => cases h

/-! ### histories on files kept in a line-ending form -/

/-- a line-ending form `f` of LF texts (`toCRLF`, `toCR`): annotating the form gives the form of the result, and the decoder
    folds the form back -/
structure LEForm (f : Text → Text) : Prop where
  annot : ∀ (c : HdrCfg) (replace : Bool) (info : Extracted) (u : Text), NoCR u → '\n' ∈ u →
    annotateText c replace false info (f u) = (annotateText c replace false info u).mapWritten f
  fold : ∀ u, NoCR u → foldLineEndings (f u) = u

theorem leForm_crlf : LEForm toCRLF :=
  ⟨fun c r i u h1 h2 => C08.C08_line_endings_crlf c r i u h1 h2, fun _ h => fold_crlf h⟩

theorem leForm_cr : LEForm toCR :=
  ⟨fun c r i u h1 h2 => C08.C08_line_endings_cr c r i u h1 h2, fun _ h => fold_cr h⟩

/-- whatever is written holds a line feed -/
theorem written_has_lf {c : HdrCfg} {replace skip : Bool} {info : Extracted} {u t' : Text} (hcr : NoCR u)
    (hw : annotateText c replace skip info u = .written t') : '\n' ∈ t' := by
  obtain ⟨p, _, ht⟩ := annotateText_parts hw
  rw [detect_lf hcr] at ht
  rw [ht, placeHeader_parts]
  simp [retranslate]

/-- one step on the form against the step on the LF text -/
theorem step_form {f : Text → Text} (hf : LEForm f) {o : Op} {u : Text} (hcr : NoCR u) (hlf : '\n' ∈ u) :
    stepText (f u) o = f (nextLF f u o) ∧
    (∀ T, annotateText o.c o.replace o.skipExisting o.info (f u) = .written T →
      annotateText o.c o.replace false o.info u = .written (stepText u o.noSkip)) := by
  unfold nextLF
  cases hw : annotateText o.c o.replace o.skipExisting o.info (f u) with
  | written T =>
    have hw' := written_noskip hw
    rw [hf.annot o.c o.replace o.info u hcr hlf] at hw'
    obtain ⟨t', ha, hT⟩ := mapWritten_written hw'
    have hst : stepText u o.noSkip = t' := by unfold stepText Op.noSkip; simp only [ha]
    refine ⟨?_, fun T' hT' => by rw [hst]; exact ha⟩
    rw [hst]
    unfold stepText
    simp only [hw, hT]
  | skipped => exact ⟨by unfold stepText; simp only [hw], fun T h => by cases h⟩
  | failed e => exact ⟨by unfold stepText; simp only [hw], fun T h => by cases h⟩

/-- **A history on a CRLF / CR file.** -/
theorem history_form {norm : Text → Text} {f : Text → Text} (hf : LEForm f) (u : Text) (ops : List Op)
    (hg : GoodRunForm norm f u ops) (hcr : NoCR u) (hlf : '\n' ∈ u) :
    run (f u) ops = f (runLF f u ops) ∧ foldLineEndings (run (f u) ops) = runLF f u ops ∧
    Declares norm (extractRaw (runLF f u ops))
      ((extractRaw u).cpr ++ (accumulated (f u) ops).1) ((extractRaw u).lic ++ (accumulated (f u) ops).2) := by
  induction hg with
  | nil u =>
    refine ⟨rfl, hf.fold u hcr, ?_⟩
    simpa [runLF, accumulated] using declares_self norm (extractRaw u)
  | cons u o os hstep _ ih =>
    obtain ⟨hst, hann⟩ := step_form hf (o := o) hcr hlf
    rw [run_cons, hst]
    unfold accumulated
    simp only [runLF]
    cases hw : annotateText o.c o.replace o.skipExisting o.info (f u) with
    | written T =>
      obtain ⟨hgood, hcr'⟩ := hstep ⟨T, hw⟩
      have ha := hann T hw
      have hnext : nextLF f u o = stepText u o.noSkip := by unfold nextLF; simp only [hw]
      have hT : T = f (stepText u o.noSkip) := by
        have := hst; unfold stepText at this; simp only [hw] at this; rw [this, hnext]
      rw [hnext] at ih ⊢
      obtain ⟨i1, i2, i3⟩ := ih hcr' (written_has_lf hcr ha)
      refine ⟨i1, i2, ?_⟩
      simp only
      rw [hT]
      have hs : Declares norm (extractRaw (stepText u o.noSkip)) ((extractRaw u).cpr ++ o.info.cpr) ((extractRaw u).lic ++ o.info.lic) :=
        step_declares (o := o.noSkip) ha hgood
      have ih1 : Declares norm (extractRaw (runLF f (stepText u o.noSkip) os)) (extractRaw (stepText u o.noSkip)).cpr
          (extractRaw (stepText u o.noSkip)).lic :=
        ⟨fun x hx => i3.1 x (List.mem_append_left _ hx), fun x hx => i3.2 x (List.mem_append_left _ hx)⟩
      have h3 := declares_trans ih1 hs
      refine ⟨fun x hx => ?_, fun x hx => ?_⟩
      · rcases List.mem_append.mp hx with h | h
        · exact h3.1 x (List.mem_append_left _ h)
        · rcases List.mem_append.mp h with h | h
          · exact h3.1 x (List.mem_append_right _ h)
          · exact i3.1 x (List.mem_append_right _ h)
      · rcases List.mem_append.mp hx with h | h
        · exact h3.2 x (List.mem_append_left _ h)
        · rcases List.mem_append.mp h with h | h
          · exact h3.2 x (List.mem_append_right _ h)
          · exact i3.2 x (List.mem_append_right _ h)
    | skipped =>
      have hnext : nextLF f u o = u := by unfold nextLF; simp only [hw]
      rw [hnext] at ih ⊢
      exact ih hcr hlf
    | failed e =>
      have hnext : nextLF f u o = u := by unfold nextLF; simp only [hw]
      rw [hnext] at ih ⊢
      exact ih hcr hlf

end C09L
