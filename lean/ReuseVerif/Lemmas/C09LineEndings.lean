/-
C09 (full-file step) for CRLF and CR files: annotating the CRLF / CR form of an LF text gives the CRLF / CR form of
the LF result (C08), and the decoder lint reads files with folds both back to the LF texts (`foldLineEndings`).
-/
import ReuseVerif.Lemmas.C09Step
import ReuseVerif.Theorems.C08
import ReuseVerif.Model.Window

namespace C09L
open Py Model Spec C08L C10L

theorem replaceFuel_none (old new : Text) : ∀ (f : Nat) (s : Text), findSub old s = none → replaceFuel old new f s = s := by
  intro f
  induction f with
  | zero => intro s _; rfl
  | succ f ih =>
    intro s h
    cases s with
    | nil => rfl
    | cons c cs =>
      have ⟨h1, h2⟩ := findSub_none_cons h
      rw [replaceFuel]
      simp only [h1, Bool.false_eq_true, false_and, if_false, ih cs h2]

/-- `s.replace(old, new)` when `old` does not occur -/
theorem replace_none {old new s : Text} (h : findSub old s = none) : Py.replace s old new = s :=
  replaceFuel_none old new _ s h

theorem fold_lf {u : Text} (hcr : NoCR u) : foldLineEndings u = u := by
  unfold foldLineEndings
  rw [replace_none (findSub_cr_none hcr _), replace_none (findSub_cr_none hcr _)]

/-- the decoder reads a CRLF file as the LF text it is the CRLF form of -/
theorem fold_crlf {u : Text} (hcr : NoCR u) : foldLineEndings (toCRLF u) = u := by
  unfold foldLineEndings
  rw [replace_crlf_back u hcr, replace_none (findSub_cr_none hcr _)]

/-- the decoder reads a CR file as the LF text it is the CR form of -/
theorem fold_cr {u : Text} (hcr : NoCR u) : foldLineEndings (toCR u) = u := by
  unfold foldLineEndings
  rw [replace_none (findSub_no_lf (toCR_no_lf u)), replace_cr_back u hcr]

/-- an invocation that wrote did not take the `--skip-existing` short-circuit -/
theorem written_noskip {c : HdrCfg} {replace skip : Bool} {info : Extracted} {t t' : Text}
    (h : annotateText c replace skip info t = .written t') : annotateText c replace false info t = .written t' := by
  unfold annotateText at h ⊢
  split at h
  · cases h
  · simpa using h

theorem mapWritten_written {f : Text → Text} {a : AnnotateOut} {T : Text} (h : a.mapWritten f = .written T) :
    ∃ t', a = .written t' ∧ T = f t' := by
  cases a with
  | written t' => simp only [AnnotateOut.mapWritten, AnnotateOut.written.injEq] at h; exact ⟨t', rfl, h.symm⟩
  | skipped => cases h
  | failed e => cases h

end C09L
