/-
C09 (full-file step) for CRLF and CR files: annotating the CRLF / CR form of an LF text gives the CRLF / CR form of
the LF result (C08), and the decoder lint reads files with folds both back to the LF texts (`foldLineEndings`).
-/
import ReuseVerif.Lemmas.C09Step
import ReuseVerif.Theorems.C08
import ReuseVerif.Model.Window
import ReuseVerif.Lemmas.History

namespace C09L
open Py Model Spec C08L C10L

theorem replaceFuel_none (old new : Text) : ∀ (f : Nat) (s : Text), findSub old s = none → replaceFuel old new f s = s := by
  intro f
  induction f with
  | zero => intro s _; rfl
  | succ f ih =>
    intro s h
    cases s with
    | nil => rfl
    | cons c cs =>
      have ⟨h1, h2⟩ := findSub_none_cons h
      rw [replaceFuel]
      simp only [h1, Bool.false_eq_true, false_and, if_false, ih cs h2]

/-- `s.replace(old, new)` when `old` does not occur -/
theorem replace_none {old new s : Text} (h : findSub old s = none) : Py.replace s old new = s :=
  replaceFuel_none old new _ s h

theorem fold_lf {u : Text} (hcr : NoCR u) : foldLineEndings u = u := by
  unfold foldLineEndings
  rw [replace_none (findSub_cr_none hcr _), replace_none (findSub_cr_none hcr _)]

/-- the decoder reads a CRLF file as the LF text it is the CRLF form of -/
theorem fold_crlf {u : Text} (hcr : NoCR u) : foldLineEndings (toCRLF u) = u := by
  unfold foldLineEndings
  rw [replace_crlf_back u hcr, replace_none (findSub_cr_none hcr _)]

/-- the decoder reads a CR file as the LF text it is the CR form of -/
theorem fold_cr {u : Text} (hcr : NoCR u) : foldLineEndings (toCR u) = u := by
  unfold foldLineEndings
  rw [replace_none (findSub_no_lf (toCR_no_lf u)), replace_cr_back u hcr]

/-- an invocation that wrote did not take the `--skip-existing` short-circuit -/
theorem written_noskip {c : HdrCfg} {replace skip : Bool} {info : Extracted} {t t' : Text}
    (h : annotateText c replace skip info t = .written t') : annotateText c replace false info t = .written t' := by
  unfold annotateText at h ⊢
  split at h
  · cases h
  · simpa using h

theorem mapWritten_written {f : Text → Text} {a : AnnotateOut} {T : Text} (h : a.mapWritten f = .written T) :
    ∃ t', a = .written t' ∧ T = f t' := by
  cases a with
  | written t' => simp only [AnnotateOut.mapWritten, AnnotateOut.written.injEq] at h; exact ⟨t', rfl, h.symm⟩
  | skipped => cases h
  | failed e => cases h

/-! ### histories on files kept in a line-ending form -/

/-- a line-ending form `f` of LF texts (`toCRLF`, `toCR`): annotating the form gives the form of the result, and the decoder
    folds the form back -/
structure LEForm (f : Text → Text) : Prop where
  annot : ∀ (c : HdrCfg) (replace : Bool) (info : Extracted) (u : Text), NoCR u → '\n' ∈ u →
    annotateText c replace false info (f u) = (annotateText c replace false info u).mapWritten f
  fold : ∀ u, NoCR u → foldLineEndings (f u) = u

theorem leForm_crlf : LEForm toCRLF :=
  ⟨fun c r i u h1 h2 => C08.C08_line_endings_crlf c r i u h1 h2, fun _ h => fold_crlf h⟩

theorem leForm_cr : LEForm toCR :=
  ⟨fun c r i u h1 h2 => C08.C08_line_endings_cr c r i u h1 h2, fun _ h => fold_cr h⟩

/-- whatever is written holds a line feed -/
theorem written_has_lf {c : HdrCfg} {replace skip : Bool} {info : Extracted} {u t' : Text} (hcr : NoCR u)
    (hw : annotateText c replace skip info u = .written t') : '\n' ∈ t' := by
  obtain ⟨p, _, ht⟩ := annotateText_parts hw
  rw [detect_lf hcr] at ht
  rw [ht, placeHeader_parts]
  simp [retranslate]

/-- one writing step on the form against the step on the LF text -/
theorem step_form {f : Text → Text} (hf : LEForm f) {o : Op} {u T : Text} (hcr : NoCR u) (hlf : '\n' ∈ u)
    (hw : annotateText o.c o.replace o.skipExisting o.info (f u) = .written T) :
    annotateText o.noSkip.c o.noSkip.replace o.noSkip.skipExisting o.noSkip.info u = .written (stepText u o.noSkip) ∧
      T = f (stepText u o.noSkip) ∧ stepText (f u) o = f (stepText u o.noSkip) := by
  have hw' := written_noskip hw
  rw [hf.annot o.c o.replace o.info u hcr hlf] at hw'
  obtain ⟨t', ha, hT⟩ := mapWritten_written hw'
  have ha' : annotateText o.noSkip.c o.noSkip.replace o.noSkip.skipExisting o.noSkip.info u = .written t' := ha
  have hst : stepText u o.noSkip = t' := by unfold stepText; simp only [ha']
  rw [hst]
  refine ⟨ha', hT, ?_⟩
  unfold stepText
  simp only [hw, hT]

theorem accumulated_written {t t' : Text} {o : Op} {os : List Op}
    (h : annotateText o.c o.replace o.skipExisting o.info t = .written t') :
    accumulated t (o :: os) = (o.info.cpr ++ (accumulated t' os).1, o.info.lic ++ (accumulated t' os).2) := by
  conv => lhs; unfold accumulated
  simp only [h]

theorem accumulatedCon_written {t t' : Text} {o : Op} {os : List Op}
    (h : annotateText o.c o.replace o.skipExisting o.info t = .written t') :
    accumulatedCon t (o :: os) = o.info.con ++ accumulatedCon t' os := by
  conv => lhs; unfold accumulatedCon
  simp only [h]

/-- **A history on a CRLF / CR file is the history of the LF text behind it**: the file stays the form of an LF text, the
    decoder reads that text, and the requests that count are the same. -/
theorem history_form {f : Text → Text} (hf : LEForm f) (u : Text) (ops : List Op)
    (hg : CleanRun f u ops) (hcr : NoCR u) (hlf : '\n' ∈ u) :
    run (f u) ops = f (run u (lfOps f u ops)) ∧ foldLineEndings (run (f u) ops) = run u (lfOps f u ops) ∧
    accumulated (f u) ops = accumulated u (lfOps f u ops) ∧ accumulatedCon (f u) ops = accumulatedCon u (lfOps f u ops) := by
  induction hg with
  | nil u => exact ⟨rfl, hf.fold u hcr, rfl, rfl⟩
  | wrote u o os T hw hcr' _ ih =>
    obtain ⟨ha, hT, hst⟩ := step_form hf hcr hlf hw
    obtain ⟨i1, i2, i3, i4⟩ := ih hcr' (written_has_lf hcr ha)
    have hl : lfOps f u (o :: os) = o.noSkip :: lfOps f (stepText u o.noSkip) os := by
      conv => lhs; unfold lfOps
      simp only [hw]
    have hw2 : annotateText o.c o.replace o.skipExisting o.info (f u) = .written (f (stepText u o.noSkip)) := by rw [hw, hT]
    rw [hl, run_cons, run_cons, hst]
    refine ⟨i1, i2, ?_, ?_⟩
    · rw [accumulated_written hw2, accumulated_written ha, i3]; rfl
    · rw [accumulatedCon_written hw2, accumulatedCon_written ha, i4]; rfl
  | kept u o os hnw _ ih =>
    obtain ⟨i1, i2, i3, i4⟩ := ih hcr hlf
    have hst : stepText (f u) o = f u := by
      unfold stepText
      cases hw : annotateText o.c o.replace o.skipExisting o.info (f u) with
      | written T => exact absurd hw (hnw T)
      | skipped => rfl
      | failed e => rfl
    have hl : lfOps f u (o :: os) = lfOps f u os := by
      conv => lhs; unfold lfOps
      cases hw : annotateText o.c o.replace o.skipExisting o.info (f u) with
      | written T => exact absurd hw (hnw T)
      | skipped => rfl
      | failed e => rfl
    have ha : accumulated (f u) (o :: os) = accumulated (f u) os := by
      conv => lhs; unfold accumulated
      cases hw : annotateText o.c o.replace o.skipExisting o.info (f u) with
      | written T => exact absurd hw (hnw T)
      | skipped => rfl
      | failed e => rfl
    have hc : accumulatedCon (f u) (o :: os) = accumulatedCon (f u) os := by
      conv => lhs; unfold accumulatedCon
      cases hw : annotateText o.c o.replace o.skipExisting o.info (f u) with
      | written T => exact absurd hw (hnw T)
      | skipped => rfl
      | failed e => rfl
    rw [run_cons, hst, hl, ha, hc]
    exact ⟨i1, i2, i3, i4⟩

end C09L
