/-
C07 (achievability of the default template) — what `_create_new_header` writes for the bundled
default template: the rendered lines, the physical lines `create_comment` makes of them, and the
fact that `strip("\n")` leaves the commented header alone.
-/
import ReuseVerif.Lemmas.C07Lines
import ReuseVerif.Lemmas.Header

namespace C07A
open Py Model Spec
open Generated (Style)

/-! ### the lines of the default template -/

theorem flatMap_joinLines (L : List Text) : (L.flatMap fun l => l ++ ['\n']) = joinLines L := by
  induction L with
  | nil => rfl
  | cons l ls ih => simp [List.flatMap_cons, joinLines, ih]

theorem conTag_space : "SPDX-FileContributor: ".toList = Generated.contributorTag ++ [' '] := by decide
theorem licTag_space : "SPDX-License-Identifier: ".toList = Generated.licenseTag ++ [' '] := by decide

theorem flatMap_con (L : List Text) :
    (L.flatMap fun l => "SPDX-FileContributor: ".toList ++ l ++ ['\n']) = joinLines (L.map conLine) := by
  have hfun : (fun l : Text => "SPDX-FileContributor: ".toList ++ l ++ ['\n']) = fun l => conLine l ++ ['\n'] := by
    funext l; simp [conTag_space, conLine]
  rw [hfun]
  induction L with
  | nil => rfl
  | cons l ls ih => simp [List.flatMap_cons, joinLines, ih]

theorem flatMap_lic (L : List Text) :
    (L.flatMap fun l => "SPDX-License-Identifier: ".toList ++ l ++ ['\n']) = joinLines (L.map licLine) := by
  have hfun : (fun l : Text => "SPDX-License-Identifier: ".toList ++ l ++ ['\n']) = fun l => licLine l ++ ['\n'] := by
    funext l; simp [licTag_space, licLine]
  rw [hfun]
  induction L with
  | nil => rfl
  | cons l ls ih => simp [List.flatMap_cons, joinLines, ih]

/-- the bundled template: the copyright lines, the contributor lines, an empty line, the licence lines -/
theorem defaultRender_eq (i : RInfo) :
    defaultRender i = joinLines (i.cpr ++ i.con.map conLine) ++ '\n' :: joinLines (i.lic.map licLine) := by
  unfold defaultRender
  rw [flatMap_joinLines, flatMap_con, flatMap_lic, joinLines_append]
  simp

/-- the empty line between the two groups (also the single empty line of an empty request) -/
def gap (X Y : List Text) : List Text := if X.isEmpty == Y.isEmpty then [[]] else []

/-- a list of lines that `"\n".join` turns into a text neither beginning nor ending with a line feed -/
def Ends (L : List Text) : Prop :=
  L = [[]] ∨ ((∃ a, L.head? = some a ∧ a ≠ []) ∧ (∃ q, L.getLast? = some q ∧ q ≠ []))

theorem stripLF_join_ends (P : List Text) (hE : Ends P) (hnl : ∀ l ∈ P, NoNL l) :
    stripChars ['\n'] (join ['\n'] P) = join ['\n'] P := by
  rcases hE with rfl | ⟨⟨a, ha, hane⟩, ⟨q, hq, hqne⟩⟩
  · rfl
  · have hP : P ≠ [] := by intro h; rw [h] at ha; cases ha
    apply stripLF_id
    · intro c cs hc
      obtain ⟨l, ls, rfl⟩ := List.exists_cons_of_ne_nil hP
      simp only [List.head?_cons, Option.some.injEq] at ha
      subst ha
      obtain ⟨t, ht⟩ := join_head _ l ls rfl c cs hane hc
      intro e
      exact hnl l (by simp) (by rw [ht, e]; simp)
    · intro c hc
      rw [join_getLast P hP q hq hqne] at hc
      intro e
      have hqm : q ∈ P := List.mem_of_getLast? hq
      exact hnl q hqm (by rw [← e]; exact List.mem_of_getLast? hc)

theorem ends_gap (X Y : List Text) (hX : ∀ l ∈ X, l ≠ []) (hY : ∀ l ∈ Y, l ≠ []) : Ends (X ++ gap X Y ++ Y) := by
  cases X with
  | nil =>
    cases Y with
    | nil => left; rfl
    | cons y ys =>
      right
      refine ⟨⟨y, by simp [gap], hY y (by simp)⟩, ?_⟩
      obtain ⟨q, hq⟩ : ∃ q, (y :: ys).getLast? = some q := ⟨_, List.getLast?_eq_some_getLast (by simp)⟩
      exact ⟨q, by simpa [gap] using hq, hY q (List.mem_of_getLast? hq)⟩
  | cons x xs =>
    right
    refine ⟨⟨x, by simp, hX x (by simp)⟩, ?_⟩
    cases Y with
    | nil =>
      obtain ⟨q, hq⟩ : ∃ q, (x :: xs).getLast? = some q := ⟨_, List.getLast?_eq_some_getLast (by simp)⟩
      exact ⟨q, by simpa [gap] using hq, hX q (List.mem_of_getLast? hq)⟩
    | cons y ys =>
      obtain ⟨q, hq⟩ : ∃ q, (y :: ys).getLast? = some q := ⟨_, List.getLast?_eq_some_getLast (by simp)⟩
      refine ⟨q, ?_, hY q (List.mem_of_getLast? hq)⟩
      rw [List.getLast?_append, hq]; rfl

theorem gap_mem {X Y : List Text} {l : Text} (h : l ∈ gap X Y) : l = [] := by
  unfold gap at h
  split at h
  · simpa using h
  · cases h

theorem lines_ne_nil (X Y : List Text) : X ++ gap X Y ++ Y ≠ [] := by
  cases X <;> cases Y <;> simp [gap]

theorem rstripLF_joinLines (L : List Text) (hL : L ≠ []) (q : Text) (hq : L.getLast? = some q) (hqne : q ≠ [])
    (hnl : NoNL q) : rstripChars ['\n'] (joinLines L) = join ['\n'] L := by
  rw [joinLines_eq_join L hL, rstripLF_snoc]
  apply rstripLF_id
  intro c hc
  rw [join_getLast L hL q hq hqne] at hc
  intro e
  exact hnl (by rw [← e]; exact List.mem_of_getLast? hc)

theorem lstripLF_joinLines (l : Text) (ls : List Text) (hl : l ≠ []) (hnl : NoNL l) (tail : Text) :
    lstripChars ['\n'] (joinLines (l :: ls) ++ tail) = joinLines (l :: ls) ++ tail := by
  apply lstripLF_id
  intro c cs hc
  obtain ⟨a, as, rfl⟩ := List.exists_cons_of_ne_nil hl
  simp only [joinLines, List.cons_append, List.cons.injEq] at hc
  intro e
  exact hnl (by rw [hc.1, e]; simp)

/-- **What the default template renders**, after `strip("\n")`: the lines joined by line feeds. -/
theorem strip_render (X Y : List Text) (hX : ∀ l ∈ X, l ≠ [] ∧ NoNL l) (hY : ∀ l ∈ Y, l ≠ [] ∧ NoNL l) :
    stripChars ['\n'] (joinLines X ++ '\n' :: joinLines Y) = join ['\n'] (X ++ gap X Y ++ Y) := by
  unfold stripChars
  cases X with
  | nil =>
    cases Y with
    | nil => decide
    | cons y ys =>
      obtain ⟨q, hq⟩ : ∃ q, (y :: ys).getLast? = some q := ⟨_, List.getLast?_eq_some_getLast (by simp)⟩
      have hqm := List.mem_of_getLast? hq
      simp only [joinLines, List.nil_append, lstripLF_cons]
      have h1 := lstripLF_joinLines y ys (hY y (by simp)).1 (hY y (by simp)).2 []
      simp only [List.append_nil, joinLines] at h1
      rw [h1]
      have h2 := rstripLF_joinLines (y :: ys) (by simp) q hq (hY q hqm).1 (hY q hqm).2
      simp only [joinLines] at h2
      rw [h2]
      simp [gap]
  | cons x xs =>
    rw [lstripLF_joinLines x xs (hX x (by simp)).1 (hX x (by simp)).2]
    cases Y with
    | nil =>
      obtain ⟨q, hq⟩ : ∃ q, (x :: xs).getLast? = some q := ⟨_, List.getLast?_eq_some_getLast (by simp)⟩
      have hqm := List.mem_of_getLast? hq
      have e : joinLines (x :: xs) ++ '\n' :: joinLines [] = joinLines (x :: xs) ++ ['\n'] := rfl
      rw [e, rstripLF_snoc, rstripLF_joinLines (x :: xs) (by simp) q hq (hX q hqm).1 (hX q hqm).2]
      simp [gap]
    | cons y ys =>
      obtain ⟨q, hq⟩ : ∃ q, (y :: ys).getLast? = some q := ⟨_, List.getLast?_eq_some_getLast (by simp)⟩
      have hqm := List.mem_of_getLast? hq
      have e : joinLines (x :: xs) ++ '\n' :: joinLines (y :: ys) = joinLines ((x :: xs) ++ [[]] ++ (y :: ys)) := by
        rw [joinLines_append, joinLines_append]; simp [joinLines]
      rw [e, rstripLF_joinLines _ (by simp) q (by rw [List.getLast?_append, hq]; rfl) (hY q hqm).1 (hY q hqm).2]
      simp [gap]

/-! ### the physical lines -/

theorem physLine_ne {s : Style} {m : LineMode} {l : Text} (hl : l ≠ []) : physLine s m l = linePrefix s m ++ l := by
  unfold physLine
  cases l with
  | nil => exact absurd rfl hl
  | cons c cs => rfl

theorem physLine_nil (s : Style) (m : LineMode) : physLine s m [] = emptyLine s m := rfl

theorem physLine_plain (s : Style) (l : Text) : physLine s .plain l = l := by
  cases l <;> rfl

/-- the physical lines of the commented header -/
def headerLines (s : Style) (m : LineMode) (M : List Text) : List Text :=
  openLines s m ++ M.map (physLine s m) ++ closeLines s m

theorem lineMode_plain {s : Style} {fm : Bool} (h : lineMode s fm = some .plain) : s.isEmptyStyle = true := by
  unfold lineMode at h
  split at h
  · assumption
  · split at h
    · split at h <;> cases h
    · cases h

theorem lineMode_single {s : Style} {fm : Bool} (h : lineMode s fm = some .single) :
    s.isEmptyStyle = false ∧ fm = false ∧ s.canSingle = true := by
  unfold lineMode at h
  split at h
  · cases h
  · rename_i he
    split at h
    · split at h <;> cases h
    · rename_i hf
      simp only [Bool.or_eq_true, Bool.not_eq_true', not_or, Bool.not_eq_true, Bool.not_eq_false] at hf
      exact ⟨by simpa using he, hf.1, hf.2⟩

theorem lineMode_multi {s : Style} {fm : Bool} (h : lineMode s fm = some .multi) :
    s.isEmptyStyle = false ∧ (fm || !s.canSingle) = true ∧ s.canMulti = true := by
  unfold lineMode at h
  split at h
  · cases h
  · rename_i he
    split at h
    · rename_i hf
      split at h
      · rename_i hm; exact ⟨by simpa using he, hf, hm⟩
      · cases h
    · cases h

/-- **`create_comment` on joined lines**: line by line. -/
theorem createComment_lines (s : Style) (fm : Bool) (m : LineMode) (hm : lineMode s fm = some m)
    (M : List Text) (hM : M ≠ []) (hnl : ∀ l ∈ M, NoNL l)
    (hEndNL : m = .multi → NoNL s.mEnd)
    (hterm : m = .multi → ∀ l ∈ M, contains l s.mEnd = false) :
    createComment s (join ['\n'] M) fm = .ok (join ['\n'] (headerLines s m M)) := by
  cases m with
  | plain =>
    have he := lineMode_plain hm
    simp only [createComment, he, if_true, headerLines, openLines, closeLines, List.nil_append, List.append_nil]
    have : M.map (physLine s .plain) = M := by
      rw [List.map_congr_left (fun l _ => physLine_plain s l)]; simp
    rw [this]
  | single =>
    obtain ⟨he, hf, hc⟩ := lineMode_single hm
    simp only [createComment, he, hf, hc, Bool.false_eq_true, if_false, Bool.not_true, Bool.or_self]
    rw [C10L.createSingle_eq hc, splitOn_join M hM hnl]
    simp only [headerLines, openLines, closeLines, List.nil_append, List.append_nil]
    have : M.map (C10L.singleLine s) = M.map (physLine s .single) := by
      apply List.map_congr_left
      intro l _
      cases l with
      | nil => simp [C10L.singleLine, physLine, emptyLine]
      | cons c cs => simp [C10L.singleLine, physLine, linePrefix]
    rw [this]
  | multi =>
    obtain ⟨he, hf, hc⟩ := lineMode_multi hm
    simp only [createComment, he, Bool.false_eq_true, if_false, hf, if_true]
    have hne : s.mEnd ≠ [] := by
      intro h0
      simp [Generated.Style.canMulti, h0] at hc
    have hcont : contains (join ['\n'] M) s.mEnd = false := by
      unfold contains
      rw [findSub_join_none s.mEnd hne (hEndNL rfl) M (fun l hl => by
        have := hterm rfl l hl
        unfold contains at this
        cases hf : findSub s.mEnd l with
        | none => rfl
        | some k => rw [hf] at this; cases this)]
      rfl
    simp only [createMulti, hc, Bool.not_true, Bool.false_eq_true, if_false, hcont, splitOn_join M hM hnl]
    have : M.map (fun line => (if s.mMiddle.isEmpty then [] else s.indentBeforeMiddle ++ s.mMiddle) ++
        (if line.isEmpty then [] else s.indentAfterMiddle ++ line)) = M.map (physLine s .multi) := by
      apply List.map_congr_left
      intro l _
      cases l with
      | nil => simp [physLine, emptyLine]
      | cons c cs => simp [physLine, linePrefix]
    rw [this]
    rfl

end C07A
