/-
C10 / C14 — part 3: `merge_copyright_lines` and the order of the set it iterates over.

The loop of `merge_copyright_lines` (`mergeLinesWith`: the lines in the order in which they are met) is *not* a
function of the set: for one holder it takes the most frequent prefix of the holder's lines, and the first of the
numerically smallest / largest years — ties go to the line met first (`Counter.most_common`, `min(..., key=int)`).
Until fixes/c10-merge-order.diff the loop ran over the iteration order of the Python `set`; now it runs over
`sorted(...)` (`mergeLines = mergeLinesWith ∘ sortTexts`, a function of the set: `mergeLines_perm_eq`).  This file
documents why the sort is needed: it gives the exact condition under which the order of the loop does not matter
(`MergeStable`: per holder, all most frequent prefixes lead to the same prefix text, and no two different year
texts have the same numeric value), proves that under it two orders give the same merged lines up to order, and
states the two kinds of tie as witnesses.
-/
import ReuseVerif.Lemmas.C10OrderHeader
import ReuseVerif.Lemmas.C20MergeLines
import ReuseVerif.Lemmas.C20GetYear

namespace C10Order
open Py Model Spec

/-- `merge_copyright_lines` after the lines have been parsed -/
def mergeParsed (parsed : List Parsed) : List Text := dedup (parsed.map fun x => lineFor parsed x.1)

theorem mergeLinesWith_eq (endRe : Re) (lines : List Text) :
    mergeLinesWith endRe lines = mergeParsed (parseLines endRe lines) := rfl

/-- the prefixes of the lines of holder `stmt` -/
def prefixesOf (parsed : List Parsed) (stmt : Text) : List Text := (parsed.filter (·.1 == stmt)).map (·.2.2)

/-- the prefix text written for a most common prefix: itself when it is a text of the table, else the
    `spdx` text -/
def prefixTextOf (common : Text) : Text :=
  match Generated.copyrightPrefixes.find? (·.2 == common) with
  | some kv => kv.2
  | none => ((Generated.copyrightPrefixes.find? (·.1 == "spdx")).map (·.2)).getD []

theorem prefixFor_eq (parsed : List Parsed) (stmt : Text) :
    prefixFor parsed stmt = prefixTextOf ((mostCommon (prefixesOf parsed stmt)).getD []) := rfl

/-- `a` is (one of) the most frequent -/
def IsMax (items : List Text) (a : Text) : Prop := a ∈ items ∧ ∀ x ∈ items, items.count x ≤ items.count a

/-- no tie between prefixes that matters: all most frequent prefixes lead to the same prefix text -/
def TieFree (items : List Text) : Prop :=
  ∀ a ∈ items, ∀ b ∈ items, (∀ x ∈ items, items.count x ≤ items.count a) →
    (∀ x ∈ items, items.count x ≤ items.count b) → prefixTextOf a = prefixTextOf b

/-- no two different year texts with the same numeric value (`2019` and `２０１９`) -/
def YearsInj (ys : List Text) : Prop := ∀ a ∈ ys, ∀ b ∈ ys, yearVal a = yearVal b → a = b

/-- the condition under which `merge_copyright_lines` does not depend on the order of its input: for every
    holder of the input, no prefix tie that matters and no year tie -/
def MergeStable (parsed : List Parsed) : Prop :=
  ∀ x ∈ parsed, TieFree (prefixesOf parsed x.1) ∧ YearsInj (yearsOf parsed x.1)

instance (items : List Text) : Decidable (TieFree items) := by unfold TieFree; infer_instance
instance (ys : List Text) : Decidable (YearsInj ys) := by unfold YearsInj; infer_instance
instance (parsed : List Parsed) : Decidable (MergeStable parsed) := by unfold MergeStable; infer_instance

/-! ### sufficient conditions -/

/-- every line of the holder carries the same prefix: no tie -/
theorem tieFree_of_one_prefix {items : List Text} (h : ∀ a ∈ items, ∀ b ∈ items, a = b) : TieFree items :=
  fun a ha b hb _ _ => by rw [h a ha b hb]

/-- one strictly most frequent prefix: no tie -/
theorem tieFree_of_strict_max {items : List Text} (m : Text)
    (h : ∀ x ∈ items, x ≠ m → items.count x < items.count m) : TieFree items := by
  intro a ha b hb hma hmb
  have e1 : a = m := by
    apply Classical.byContradiction; intro hne
    have h1 := h a ha hne
    have hm : m ∈ items := List.count_pos_iff.mp (by omega)
    have := hma m hm
    omega
  have e2 : b = m := by
    apply Classical.byContradiction; intro hne
    have h1 := h b hb hne
    have hm : m ∈ items := List.count_pos_iff.mp (by omega)
    have := hmb m hm
    omega
  rw [e1, e2]

/-- years of four ASCII digits (what people type): equal value, equal text -/
theorem yearsInj_of_ascii {ys : List Text} (h : ∀ y ∈ ys, asciiYear y = true) : YearsInj ys := by
  intro a ha b hb hv
  apply textLt_trichotomy
  · rw [textLt_ascii (h a ha) (h b hb)]; simp [hv]
  · rw [textLt_ascii (h b hb) (h a ha)]; simp [hv]

/-! ### the condition is a property of the set -/

theorem prefixesOf_perm {p q : List Parsed} (h : p.Perm q) (s : Text) : (prefixesOf p s).Perm (prefixesOf q s) :=
  (h.filter _).map _

theorem yearsOf_perm {p q : List Parsed} (h : p.Perm q) (s : Text) : (yearsOf p s).Perm (yearsOf q s) :=
  (h.filter _).flatMap_right _

theorem tieFree_perm {a b : List Text} (h : a.Perm b) (ht : TieFree a) : TieFree b := by
  intro x hx y hy mx my
  refine ht x (h.mem_iff.mpr hx) y (h.mem_iff.mpr hy) ?_ ?_
  · intro z hz; rw [h.count_eq, h.count_eq]; exact mx z (h.mem_iff.mp hz)
  · intro z hz; rw [h.count_eq, h.count_eq]; exact my z (h.mem_iff.mp hz)

theorem yearsInj_perm {a b : List Text} (h : a.Perm b) (ht : YearsInj a) : YearsInj b :=
  fun x hx y hy e => ht x (h.mem_iff.mpr hx) y (h.mem_iff.mpr hy) e

theorem mergeStable_perm {p q : List Parsed} (h : p.Perm q) (hs : MergeStable p) : MergeStable q := by
  intro x hx
  obtain ⟨h1, h2⟩ := hs x (h.mem_iff.mpr hx)
  exact ⟨tieFree_perm (prefixesOf_perm h _) h1, yearsInj_perm (yearsOf_perm h _) h2⟩

/-! ### the pieces of a merged line under a permutation -/

theorem mostCommon_nil : mostCommon [] = none := rfl

theorem prefixText_perm {a b : List Text} (h : a.Perm b) (ht : TieFree a) :
    prefixTextOf ((mostCommon a).getD []) = prefixTextOf ((mostCommon b).getD []) := by
  by_cases hne : a = []
  · subst hne
    rw [List.nil_perm.mp h]
  · have hne' : b ≠ [] := fun e => hne (by subst e; exact List.perm_nil.mp h)
    obtain ⟨m, hm, hmm, hmax⟩ := mostCommon_spec hne
    obtain ⟨m', hm', hmm', hmax'⟩ := mostCommon_spec hne'
    rw [hm, hm']
    simp only [Option.getD_some]
    refine ht m hmm m' (h.mem_iff.mpr hmm') hmax ?_
    intro x hx
    rw [h.count_eq, h.count_eq]
    exact hmax' x (h.mem_iff.mp hx)

theorem yearMin_perm {a b : List Text} (h : a.Perm b) (hi : YearsInj a) : yearMin a = yearMin b := by
  by_cases hne : a = []
  · subst hne
    rw [List.nil_perm.mp h]
  · have hne' : b ≠ [] := fun e => hne (by subst e; exact List.perm_nil.mp h)
    obtain ⟨m, hm⟩ := Option.isSome_iff_exists.mp (yearMin_isSome hne)
    obtain ⟨m', hm'⟩ := Option.isSome_iff_exists.mp (yearMin_isSome hne')
    rw [hm, hm']
    have h1 := yearMin_le hm m' (h.mem_iff.mpr (yearMin_mem hm'))
    have h2 := yearMin_le hm' m (h.mem_iff.mp (yearMin_mem hm))
    rw [hi m (yearMin_mem hm) m' (h.mem_iff.mpr (yearMin_mem hm')) (by omega)]

theorem yearMax_perm {a b : List Text} (h : a.Perm b) (hi : YearsInj a) : yearMax a = yearMax b := by
  by_cases hne : a = []
  · subst hne
    rw [List.nil_perm.mp h]
  · have hne' : b ≠ [] := fun e => hne (by subst e; exact List.perm_nil.mp h)
    obtain ⟨m, hm⟩ := Option.isSome_iff_exists.mp (yearMax_isSome hne)
    obtain ⟨m', hm'⟩ := Option.isSome_iff_exists.mp (yearMax_isSome hne')
    rw [hm, hm']
    have h1 := yearMax_ge hm m' (h.mem_iff.mpr (yearMax_mem hm'))
    have h2 := yearMax_ge hm' m (h.mem_iff.mp (yearMax_mem hm))
    rw [hi m (yearMax_mem hm) m' (h.mem_iff.mpr (yearMax_mem hm')) (by omega)]

theorem mergedYear_perm {a b : List Text} (h : a.Perm b) (hi : YearsInj a) : mergedYear a = mergedYear b := by
  unfold mergedYear
  rw [yearMin_perm h hi, yearMax_perm h hi]

/-- the merged line of a holder of the input does not depend on the order of the input -/
theorem lineFor_perm {p q : List Parsed} (h : p.Perm q) (hs : MergeStable p) (x : Parsed) (hx : x ∈ p) :
    lineFor p x.1 = lineFor q x.1 := by
  obtain ⟨h1, h2⟩ := hs x hx
  unfold lineFor
  rw [prefixFor_eq, prefixFor_eq, prefixText_perm (prefixesOf_perm h x.1) h1,
    mergedYear_perm (yearsOf_perm h x.1) h2]

/-- **`merge_copyright_lines` on two orders of one tie-free set: the same lines, up to order.** -/
theorem mergeParsed_perm {p q : List Parsed} (h : p.Perm q) (hs : MergeStable p) :
    (mergeParsed p).Perm (mergeParsed q) := by
  unfold mergeParsed
  apply dedup_perm
  apply SameMembers.of_perm
  have e : (p.map fun x => lineFor p x.1) = p.map fun x => lineFor q x.1 :=
    List.map_congr_left fun x hx => lineFor_perm h hs x hx
  rw [e]
  exact h.map _

theorem mergeLinesWith_perm (endRe : Re) {l₁ l₂ : List Text} (h : l₁.Perm l₂)
    (hs : MergeStable (parseLines endRe l₁)) : (mergeLinesWith endRe l₁).Perm (mergeLinesWith endRe l₂) :=
  mergeParsed_perm (h.filterMap _) hs

/-- … and on two lists with the same members, both duplicate-free (two iteration orders of one set) -/
theorem mergeLinesWith_sameMembers (endRe : Re) {l₁ l₂ : List Text} (h : SameMembers l₁ l₂) (h1 : l₁.Nodup)
    (h2 : l₂.Nodup) (hs : MergeStable (parseLines endRe l₁)) :
    (mergeLinesWith endRe l₁).Perm (mergeLinesWith endRe l₂) :=
  mergeLinesWith_perm endRe (h.perm h1 h2) hs

/-- with the sort: two iteration orders of one set merge to the same list -/
theorem mergeLines_sameMembers {l₁ l₂ : List Text} (h : SameMembers l₁ l₂) (h1 : l₁.Nodup) (h2 : l₂.Nodup) :
    mergeLines l₁ = mergeLines l₂ := mergeLines_perm_eq (h.perm h1 h2)

/-- what the sort fixes: `mergeLines` is the loop run over the ascending permutation of the input -/
theorem mergeLines_eq (lines : List Text) :
    mergeLines lines = mergeParsed (parseLines Generated.endRe (sortTexts lines)) := rfl

/-! ### witnesses: the two kinds of tie -/

/-- one holder, one year, two prefixes of the table, each once -/
def tieWord : Parsed := ("X".toList, ["2019".toList], "Copyright".toList)
def tieSign : Parsed := ("X".toList, ["2019".toList], "©".toList)

theorem prefix_tie_witness :
    [tieWord, tieSign].Perm [tieSign, tieWord] ∧
    mergeParsed [tieWord, tieSign] = ["Copyright 2019 X".toList] ∧
    mergeParsed [tieSign, tieWord] = ["© 2019 X".toList] ∧
    ¬ MergeStable [tieWord, tieSign] := by
  refine ⟨.swap _ _ _, by decide, by decide, by decide⟩

/-- one holder, one prefix, the same year in two scripts -/
def yearAscii : Parsed := ("X".toList, ["2019".toList], "©".toList)
def yearWide : Parsed := ("X".toList, ["２０１９".toList], "©".toList)

theorem year_tie_witness :
    mergeParsed [yearAscii, yearWide] = ["© 2019 X".toList] ∧
    mergeParsed [yearWide, yearAscii] = ["© ２０１９ X".toList] ∧
    ¬ MergeStable [yearAscii, yearWide] := by
  refine ⟨by decide, by decide, by decide⟩

end C10Order
