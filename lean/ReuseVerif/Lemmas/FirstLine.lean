/-
C08: a text that starts with one of the style's first-line markers keeps its leading marker lines first.
-/
import ReuseVerif.Lemmas.Idem
import ReuseVerif.Lemmas.ReadBack

namespace C08L
open Py Model Spec C10L

/-- with something already read, the first piece of `splitlines(keepends=True)` starts with it -/
theorem splitKeep_first (acc s : Text) (hacc : acc ≠ []) :
    ∃ l ls, splitLinesAux true acc s = l :: ls ∧ acc.reverse <+: l := by
  fun_induction splitLinesAux true acc s with
  | case1 => exact absurd rfl hacc
  | case2 acc hne => exact ⟨acc.reverse, [], rfl, List.prefix_refl _⟩
  | case3 acc cs ih => exact ⟨_, _, rfl, by simp⟩
  | case4 acc c cs hnot hbr ih => exact ⟨_, _, rfl, by simp⟩
  | case5 acc c cs hnot hbr ih =>
    obtain ⟨l, ls, h1, h2⟩ := ih (by simp)
    refine ⟨l, ls, h1, ?_⟩
    have : acc.reverse <+: (c :: acc).reverse := by simp
    exact List.IsPrefix.trans this h2

theorem extractShebang_go_prefix (p : Text) (ls : List Text) (sb t : Text) :
    sb <+: (extractShebang.go p ls sb t).1 := by
  induction ls generalizing sb t with
  | nil => simp [extractShebang.go]
  | cons l ls ih =>
    rw [extractShebang.go]
    split
    · exact List.IsPrefix.trans (List.prefix_append sb l) (ih (sb ++ l) _)
    · exact List.prefix_refl _

/-- a text that starts with a break-free, non-empty marker: the extracted shebang lines start with the marker -/
theorem extractShebang_starts {sb t : Text} (hne : sb ≠ []) (hnb : NoBreak sb) (hst : startsWith t sb = true) :
    sb <+: (extractShebang sb t).1 := by
  obtain ⟨u, rfl⟩ := List.isPrefixOf_iff_prefix.mp hst
  unfold extractShebang
  have h1 : splitLines (sb ++ u) true = splitLinesAux true sb.reverse u := by
    have := splitLinesAux_piece true [] sb u hnb
    simpa [splitLines] using this
  obtain ⟨l, ls, h2, h3⟩ := splitKeep_first sb.reverse u (by simpa using hne)
  rw [h1, h2, extractShebang.go]
  have hl : startsWith l sb = true := List.isPrefixOf_iff_prefix.mpr (by simpa using h3)
  simp only [hl, if_true, List.nil_append]
  exact List.IsPrefix.trans (by simpa using h3) (extractShebang_go_prefix sb ls l _)

theorem not_blank_of_prefix {p x : Text} (hp : p <+: x) (hnb : ¬ Blank p) : ¬ Blank x := by
  obtain ⟨u, rfl⟩ := hp
  exact fun h => hnb (blank_append.mp h).1

/-- with no header found, the shebang loop of `find_and_replace_header` does what `add_new_header` does -/
theorem moveShebang_nil (shebangs : List Text) (t : Text) (hne : ∀ sb ∈ shebangs, sb ≠ []) :
    moveShebang shebangs [] [] t =
      match shebangs.find? (startsWith t ·) with
      | some sb => ((extractShebang sb t).1, [], (extractShebang sb t).2)
      | none => ([], [], t) := by
  induction shebangs with
  | nil => rfl
  | cons sb rest ih =>
    have hsb : sb ≠ [] := hne sb (by simp)
    have h1 : startsWith ([] : Text) sb = false := by
      cases sb with
      | nil => exact absurd rfl hsb
      | cons a as => rfl
    rw [moveShebang]
    simp only [h1, Bool.false_and, Bool.false_eq_true, if_false, List.isEmpty_nil, Bool.and_true, List.find?_cons]
    cases hst : startsWith t sb with
    | true => simp
    | false =>
      simp only [Bool.false_eq_true, if_false]
      exact ih (fun x hx => hne x (by simp [hx]))

end C08L
