import ReuseVerif.Lemmas.Names

namespace Model
open Py Py.Re Spec

theorem matches_spdx_ext {n : Text} (hn : '\n' ∉ n) :
    Matches (seq [.star dot, lit ".spdx.".toList,
      .alt (lit "rdf".toList) (.alt (lit "json".toList) (.alt (lit "xml".toList)
        (seq [lit "y".toList, opt (lit "a".toList), lit "ml".toList])))]) n ↔
    ∃ e ∈ spdxExts, (".spdx.".toList ++ e) <:+ n := by
  have hy : ∀ s : Text, Matches (seq [lit "y".toList, opt (lit "a".toList), lit "ml".toList]) s ↔
      (s = "yml".toList ∨ s = "yaml".toList) := by
    intro s
    simp only [matches_seq_cons, matches_lit, matches_seq_nil, matches_opt]
    constructor
    · rintro ⟨_, _, rfl, rfl, _, _, rfl, (rfl | rfl), _, _, rfl, rfl, rfl⟩
      · right; rfl
      · left; rfl
    · rintro (rfl | rfl)
      · exact ⟨_, "ml".toList, rfl, rfl, [], "ml".toList, rfl, .inr rfl, _, [], rfl, rfl, rfl⟩
      · exact ⟨_, "aml".toList, rfl, rfl, "a".toList, "ml".toList, rfl, .inl rfl, _, [], rfl, rfl, rfl⟩
  rw [matches_seq_cons]
  simp only [matches_seq_cons, matches_lit, matches_seq_nil, matches_alt, hy]
  constructor
  · rintro ⟨a, _, rfl, _, _, _, rfl, rfl, e, _, rfl, he, rfl⟩
    refine ⟨e, ?_, a, by simp⟩
    simp only [spdxExts, List.mem_cons, List.not_mem_nil, or_false]
    rcases he with h | h | h | h | h <;> simp [h]
  · rintro ⟨e, he, a, rfl⟩
    refine ⟨a, _, rfl, matches_star_dot.mpr (fun h => hn (by simp [h])), _, e, rfl, rfl, e, [], by simp, ?_, rfl⟩
    simp only [spdxExts, List.mem_cons, List.not_mem_nil, or_false] at he
    rcases he with h | h | h | h | h <;> simp [h]

/-- The generated file-name patterns, as they are in the source today.  When a pattern is
    edited in `src/reuse/covered_files.py`, the regenerated table no longer equals this list
    and the obligation re-opens. -/
theorem generated_file_patterns :
    Generated.ignoreFilePatterns =
      [ seq [lit "LICEN".toList, .cls false [('C', 'C'), ('S', 'S')], lit "E".toList,
          opt (seq [.cls false [('-', '-'), ('.', '.')], .star dot])],
        seq [lit "COPYING".toList, opt (seq [.cls false [('-', '-'), ('.', '.')], .star dot])],
        lit ".git".toList, lit ".hgtags".toList,
        seq [.star dot, lit ".license".toList],
        lit "REUSE.toml".toList,
        calPattern, shlPattern,
        seq [.star dot, lit ".spdx".toList],
        seq [.star dot, lit ".spdx.".toList,
          .alt (lit "rdf".toList) (.alt (lit "json".toList) (.alt (lit "xml".toList)
            (seq [lit "y".toList, opt (lit "a".toList), lit "ml".toList])))] ] := rfl

theorem generated_dir_patterns :
    Generated.ignoreDirPatterns =
      [lit ".git".toList, lit ".hg".toList, lit ".sl".toList, lit "LICENSES".toList, lit ".reuse".toList] := rfl

theorem generated_meson_patterns :
    Generated.ignoreMesonParentPatterns = [lit "subprojects".toList] := rfl

/-- For every file name without a newline: it matches one of the generated ignore patterns
    exactly when the property's name clauses (or the upstream workaround patterns) say so. -/
theorem file_name_rule (n : Text) (hn : '\n' ∉ n) :
    Generated.ignoreFilePatterns.any (nameMatch · n) = true ↔ SpecFileName n ∨ WorkaroundName n := by
  rw [generated_file_patterns]
  simp only [List.any_cons, List.any_nil, Bool.or_false, Bool.or_eq_true, WorkaroundName]
  simp only [nameMatch_iff hn, matches_licence hn, matches_copying hn, matches_lit, matches_suffix hn,
    matches_spdx_ext hn]
  unfold SpecFileName licenceBases
  simp only [List.mem_cons, List.not_mem_nil, or_false]
  constructor
  · rintro (⟨b, hb | hb, h⟩ | h | h | h | h | h | h | h | h | h)
    · exact .inl (.inl ⟨b, .inl hb, h⟩)
    · exact .inl (.inl ⟨b, .inr (.inl hb), h⟩)
    · exact .inl (.inl ⟨_, .inr (.inr rfl), h⟩)
    · exact .inl (.inr (.inl h))
    · exact .inl (.inr (.inr (.inl h)))
    · exact .inl (.inr (.inr (.inr (.inr (.inl h)))))
    · exact .inl (.inr (.inr (.inr (.inl h))))
    · exact .inr (.inl h)
    · exact .inr (.inr h)
    · exact .inl (.inr (.inr (.inr (.inr (.inr (.inl h))))))
    · exact .inl (.inr (.inr (.inr (.inr (.inr (.inr h))))))
  · rintro ((⟨b, hb | hb | hb, h⟩ | h | h | h | h | h | h) | h | h)
    · exact .inl ⟨b, .inl hb, h⟩
    · exact .inl ⟨b, .inr hb, h⟩
    · subst hb; exact .inr (.inl h)
    · exact .inr (.inr (.inl h))
    · exact .inr (.inr (.inr (.inl h)))
    · exact .inr (.inr (.inr (.inr (.inr (.inl h)))))
    · exact .inr (.inr (.inr (.inr (.inl h))))
    · exact .inr (.inr (.inr (.inr (.inr (.inr (.inr (.inr (.inl h))))))))
    · exact .inr (.inr (.inr (.inr (.inr (.inr (.inr (.inr (.inr h))))))))
    · exact .inr (.inr (.inr (.inr (.inr (.inr (.inl h))))))
    · exact .inr (.inr (.inr (.inr (.inr (.inr (.inr (.inl h)))))))

/-- Directory names: exactly `.git`, `.hg`, `.sl`, `LICENSES`, `.reuse`. -/
theorem dir_name_rule (n : Text) (hn : '\n' ∉ n) :
    Generated.ignoreDirPatterns.any (nameMatch · n) = true ↔
      n ∈ [".git".toList, ".hg".toList, ".sl".toList, "LICENSES".toList, ".reuse".toList] := by
  rw [generated_dir_patterns]
  simp only [List.any_cons, List.any_nil, Bool.or_false, Bool.or_eq_true, nameMatch_iff hn, matches_lit,
    List.mem_cons, List.not_mem_nil, or_false]

theorem meson_name_rule (n : Text) (hn : '\n' ∉ n) :
    Generated.ignoreMesonParentPatterns.any (nameMatch · n) = true ↔ n = "subprojects".toList := by
  rw [generated_meson_patterns]
  simp only [List.any_cons, List.any_nil, Bool.or_false, nameMatch_iff hn, matches_lit]

end Model
