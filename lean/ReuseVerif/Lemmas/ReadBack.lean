/-
C10: the block `create_comment` produces in single-line mode is read back exactly by
`comment_at_first_character`, for every header text (general lemma; the multi-line mode is decided on
representative texts by `C10_table`).
-/
import ReuseVerif.Spec.Idem
import ReuseVerif.Lemmas.Re

namespace C10L
open Py Model Spec
open Generated (Style)

/-! ### a regular expression that cannot match the empty string does not match at the start of an empty line -/

def nullable : Re → Bool
  | .eps => true
  | .chr _ => false
  | .cls _ _ => false
  | .cat a b => nullable a && nullable b
  | .alt a b => nullable a || nullable b
  | .star _ => true

theorem matches_nil_nullable {r : Re} {s : Text} (h : Re.Matches r s) (hs : s = []) : nullable r = true := by
  induction h with
  | eps => rfl
  | chr c => cases hs
  | cls _ => cases hs
  | cat _ _ iha ihb =>
    have := List.append_eq_nil_iff.mp hs
    simp [nullable, iha this.1, ihb this.2]
  | altL _ ih => simp [nullable, ih hs]
  | altR _ ih => simp [nullable, ih hs]
  | starNil => rfl
  | starCons _ _ _ _ => rfl

theorem prefixMatch_nil {r : Re} (h : nullable r = false) : Re.prefixMatch r [] = false := by
  cases hm : Re.prefixMatch r [] with
  | false => rfl
  | true =>
    obtain ⟨a, b, hab, hmatch⟩ := (Re.prefixMatch_iff r []).mp hm
    have ha : a = [] := (List.append_eq_nil_iff.mp hab.symm).1
    rw [matches_nil_nullable hmatch ha] at h
    cases h

/-! ### lines -/

def NoBreak (t : Text) : Prop := ∀ ch ∈ t, isLineBreak ch = false

instance (t : Text) : Decidable (NoBreak t) := inferInstanceAs (Decidable (∀ ch ∈ t, _))

/-- reading a break-free piece extends the current line -/
theorem splitLinesAux_piece (keep : Bool) (acc m rest : Text) (hm : NoBreak m) :
    splitLinesAux keep acc (m ++ rest) = splitLinesAux keep (m.reverse ++ acc) rest := by
  induction m generalizing acc with
  | nil => rfl
  | cons ch cs ih =>
    have hch : isLineBreak ch = false := hm ch (by simp)
    have hcs : NoBreak cs := fun x hx => hm x (by simp [hx])
    have hne : ch ≠ '\r' := by intro h; subst h; exact absurd hch (by decide)
    show splitLinesAux keep acc (ch :: (cs ++ rest)) = _
    rw [splitLinesAux]
    · simp only [hch, Bool.false_eq_true, if_false]
      rw [ih _ hcs]; simp
    · intro cs' h _
      exact hne h

theorem splitLinesAux_lf (acc rest : Text) :
    splitLinesAux false acc ('\n' :: rest) = acc.reverse :: splitLinesAux false [] rest := by
  rw [splitLinesAux]
  · have : isLineBreak '\n' = true := by decide
    simp [this]
  · intro cs' h _
    exact absurd h (by decide)

/-- `(join "\n" M ++ "\n" ++ rest).splitlines() = M ++ rest.splitlines()` for break-free lines `M ≠ []` -/
theorem splitLines_join (M : List Text) (hM : M ≠ []) (hnb : ∀ m ∈ M, NoBreak m) (rest : Text) :
    splitLinesAux false [] (join ['\n'] M ++ '\n' :: rest) = M ++ splitLinesAux false [] rest := by
  induction M with
  | nil => exact absurd rfl hM
  | cons m ms ih =>
    cases ms with
    | nil =>
      simp only [join, List.singleton_append]
      rw [splitLinesAux_piece false [] m _ (hnb m (by simp)), splitLinesAux_lf]
      simp
    | cons m2 ms2 =>
      have hj : join ['\n'] (m :: m2 :: ms2) = m ++ ['\n'] ++ join ['\n'] (m2 :: ms2) := by rw [join]; intro h; cases h
      rw [hj]
      have : m ++ ['\n'] ++ join ['\n'] (m2 :: ms2) ++ '\n' :: rest = m ++ ('\n' :: (join ['\n'] (m2 :: ms2) ++ '\n' :: rest)) := by simp
      rw [this, splitLinesAux_piece false [] m _ (hnb m (by simp)), splitLinesAux_lf]
      rw [ih (by simp) (fun x hx => hnb x (by simp [hx]))]
      simp

/-- the block alone, without a line end after it -/
theorem splitLines_join_end (M : List Text) (hnb : ∀ m ∈ M, NoBreak m) (hlast : M.getLast? ≠ some []) (hM : M ≠ []) :
    splitLinesAux false [] (join ['\n'] M) = M := by
  induction M with
  | nil => exact absurd rfl hM
  | cons m ms ih =>
    cases ms with
    | nil =>
      simp only [join]
      have hm : m ≠ [] := by intro h; apply hlast; simp [h]
      have := splitLinesAux_piece false [] m [] (hnb m (by simp))
      simp only [List.append_nil] at this
      rw [this]
      cases hr : m.reverse with
      | nil => exact absurd (List.reverse_eq_nil_iff.mp hr) hm
      | cons x xs =>
        simp only [splitLinesAux]
        rw [← hr]; simp
    | cons m2 ms2 =>
      have hj : join ['\n'] (m :: m2 :: ms2) = m ++ ('\n' :: join ['\n'] (m2 :: ms2)) := by
        rw [join]; simp; intro h; cases h
      rw [hj, splitLinesAux_piece false [] m _ (hnb m (by simp)), splitLinesAux_lf]
      rw [ih (fun x hx => hnb x (by simp [hx])) (by simpa [List.getLast?_cons_cons] using hlast) (by simp)]
      simp

/-! ### `text.split("\n")` -/

theorem splitOnFuel_lf_spec (Q : Char → Prop) (f : Nat) (acc s : Text) (hf : s.length < f)
    (hacc : ∀ ch ∈ acc, Q ch) (hs : ∀ ch ∈ s, ch ≠ '\n' → Q ch) :
    splitOnFuel ['\n'] f acc s ≠ [] ∧ ∀ p ∈ splitOnFuel ['\n'] f acc s, ∀ ch ∈ p, Q ch := by
  induction f generalizing acc s with
  | zero => omega
  | succ f ih =>
    cases s with
    | nil =>
      simp only [splitOnFuel]
      refine ⟨by simp, ?_⟩
      intro p hp ch hch
      simp only [List.mem_singleton] at hp
      subst hp
      exact hacc ch (by simpa using hch)
    | cons c cs =>
      rw [splitOnFuel]
      by_cases hc : c = '\n'
      · subst hc
        have hp : (['\n'] : Text).isPrefixOf ('\n' :: cs) = true := by simp [List.isPrefixOf]
        simp only [hp, List.isEmpty_cons, Bool.false_eq_true, not_false_eq_true, and_self, if_true]
        have := ih [] cs (by simp at hf; simpa using hf) (by simp) (fun ch hch => hs ch (by simp [hch]))
        simp only [List.length_cons, List.length_nil, List.drop_succ_cons, List.drop_zero]
        refine ⟨by simp, ?_⟩
        intro p hp ch hch
        simp only [List.mem_cons] at hp
        rcases hp with rfl | hp
        · exact hacc ch (by simpa using hch)
        · exact this.2 p hp ch hch
      · have hp : (['\n'] : Text).isPrefixOf (c :: cs) = false := by
          simp [List.isPrefixOf]; exact fun h => hc h.symm
        simp only [hp, Bool.false_eq_true, false_and, if_false]
        apply ih (c :: acc) cs (by simp at hf; omega)
        · intro ch hch
          simp only [List.mem_cons] at hch
          rcases hch with rfl | hch
          · exact hs _ (by simp) hc
          · exact hacc ch hch
        · exact fun ch hch => hs ch (by simp [hch])

/-- the pieces of `text.split("\n")` of a text whose only line boundary is `\n` contain no line boundary -/
theorem splitOn_lf_noBreak (text : Text) (hno : NoExoticBreaks text) :
    splitOn ['\n'] text ≠ [] ∧ ∀ p ∈ splitOn ['\n'] text, NoBreak p := by
  have := splitOnFuel_lf_spec (fun ch => isLineBreak ch = false) (text.length + 1) [] text (by omega) (by simp)
    (fun ch hch hne => by
      cases hb : isLineBreak ch with
      | false => rfl
      | true => exact absurd (hno ch hch hb) hne)
  exact this

/-! ### the run of single-line comments -/

/-- the marker, followed by nothing or by text that does not continue the marker's word, is a comment line -/
theorem isSingle_of_prefix (s : Style) (rest : Text)
    (h : wordMarker s.single = false ∨ ((rest.head?).map isWordChar).getD false = false) :
    isSingleComment s (s.single ++ rest) = true := by
  have h1 : startsWith (s.single ++ rest) s.single = true := List.isPrefixOf_iff_prefix.mpr ⟨rest, rfl⟩
  have h2 : (s.single ++ rest).drop s.single.length = rest := List.drop_left' rfl
  have h3 : startsSingle s (s.single ++ rest) = true := by
    unfold startsSingle
    rw [h1, h2]
    rcases h with h | h <;> simp [h]
  simp [isSingleComment, h3]

theorem singleRun_all (s : Style) (M X : List Text) (i : Nat) (acc : Option Nat)
    (hM : ∀ m ∈ M, isSingleComment s m = true) :
    singleRun s (M ++ X) i acc = singleRun s X (i + M.length) (if M = [] then acc else some (i + M.length - 1)) := by
  induction M generalizing i acc with
  | nil => simp
  | cons m ms ih =>
    simp only [List.cons_append, singleRun, hM m (by simp), if_true]
    rw [ih (i + 1) (some i) (fun x hx => hM x (by simp [hx]))]
    have : i + 1 + ms.length = i + (m :: ms).length := by simp; omega
    rw [this]
    congr 1
    cases ms with
    | nil => simp
    | cons a as => simp

/-- the decidable style condition under which the single-line block is read back -/
def SingleOK (s : Style) : Prop :=
  s.canSingle = true ∧ s.isEmptyStyle = false ∧ NoBreak s.single ∧ NoBreak s.indentAfterSingle ∧
  (match s.singleRe with | some r => nullable r = false | none => True) ∧
  -- a marker that is a word is set off from the text by an indentation that does not continue the word
  (wordMarker s.single = false ∨ ((s.indentAfterSingle.head?).map isWordChar).getD true = false) ∧
  (s.canMulti = false ∨
    (NoBreak s.mStart ∧ startsWith s.single s.mStart = false ∧ startsWith (s.single ++ s.indentAfterSingle) s.mStart = false ∧
      startsWith s.mStart (s.single ++ s.indentAfterSingle) = false))

instance (s : Style) : Decidable (SingleOK s) := by
  unfold SingleOK
  cases s.singleRe <;> exact inferInstance

theorem isSingle_nil {s : Style} (h : SingleOK s) : isSingleComment s [] = false := by
  obtain ⟨hcs, _, _, _, hre, _, _⟩ := h
  have hne : s.single ≠ [] := by
    intro h0; simp [Generated.Style.canSingle, h0] at hcs
  have h1 : startsWith ([] : Text) s.single = false := by
    cases hs : s.single with
    | nil => exact absurd hs hne
    | cons a as => rfl
  unfold isSingleComment startsSingle
  cases hr : s.singleRe with
  | none => simp [h1]
  | some r =>
    rw [hr] at hre
    simp [h1, prefixMatch_nil hre]

/-! ### the single-line block is read back -/

/-- one line of `_create_comment_single` -/
def singleLine (s : Style) (line : Text) : Text :=
  s.single ++ (if line.isEmpty then [] else s.indentAfterSingle ++ line)

theorem createSingle_eq {s : Style} (h : s.canSingle = true) (text : Text) :
    createSingle s text = .ok (join ['\n'] ((splitOn ['\n'] text).map (singleLine s))) := by
  have : (fun line : Text => s.single ++ (if line.isEmpty then [] else s.indentAfterSingle ++ line)) = singleLine s := rfl
  simp only [createSingle, h, Bool.not_true, Bool.false_eq_true, if_false, this]

theorem noBreak_append {a b : Text} (ha : NoBreak a) (hb : NoBreak b) : NoBreak (a ++ b) := by
  intro ch hch
  rcases List.mem_append.mp hch with h | h
  · exact ha ch h
  · exact hb ch h

theorem prefix_break_free {p a rest : Text} {c : Char} (hp : p <+: a ++ c :: rest) (hc : c ∉ p) : p <+: a := by
  obtain ⟨u, hu⟩ := hp
  by_cases hlen : p.length ≤ a.length
  · exact List.prefix_of_prefix_length_le ⟨u, hu⟩ (List.prefix_append a _) hlen
  · exfalso
    have hlt : a.length < p.length := by omega
    have h1 : (p ++ u)[a.length]? = some c := by rw [hu]; simp
    rw [List.getElem?_append_left hlt] at h1
    exact hc (List.mem_of_getElem? h1)

/-- the created block does not start with the multi-line opener -/
theorem no_multi_open {s : Style} (h : SingleOK s) (l : Text) (tail : Text) :
    (s.canMulti && startsWith (singleLine s l ++ '\n' :: tail) s.mStart) = false := by
  obtain ⟨_, _, _, _, _, _, hm⟩ := h
  rcases hm with hm | ⟨hnb, h1, h2, h3⟩
  · simp [hm]
  · cases hsw : startsWith (singleLine s l ++ '\n' :: tail) s.mStart with
    | false => simp
    | true =>
      exfalso
      have hp : s.mStart <+: singleLine s l ++ '\n' :: tail := List.isPrefixOf_iff_prefix.mp hsw
      have hnl : '\n' ∉ s.mStart := fun hmem => absurd (hnb '\n' hmem) (by decide)
      have hp2 := prefix_break_free hp hnl
      unfold singleLine at hp2
      by_cases hl : l.isEmpty = true
      · simp only [hl, if_true, List.append_nil] at hp2
        have := List.isPrefixOf_iff_prefix.mpr hp2
        simp [startsWith] at h1
        rw [h1] at this; cases this
      · simp only [hl, Bool.false_eq_true, if_false] at hp2
        rw [← List.append_assoc] at hp2
        rcases Nat.le_total s.mStart.length (s.single ++ s.indentAfterSingle).length with hle | hle
        · have := List.prefix_of_prefix_length_le hp2 (List.prefix_append _ l) hle
          have := List.isPrefixOf_iff_prefix.mpr this
          simp [startsWith] at h2
          rw [h2] at this; cases this
        · have := List.prefix_of_prefix_length_le (List.prefix_append _ l) hp2 hle
          have := List.isPrefixOf_iff_prefix.mpr this
          simp [startsWith] at h3
          rw [h3] at this; cases this

/-- **Single-line read-back, for every header text.**  For a style with `SingleOK` and every text whose only
    line boundary is `\n`: the block `_create_comment_single` produces, followed by a line end and then the end of
    the text or an empty line and anything, is exactly what `comment_at_first_character` returns. -/
theorem single_readback {s : Style} (h : SingleOK s) (text : Text) (hno : NoExoticBreaks text) (blk : Text)
    (hblk : createSingle s text = .ok blk) (rest : Text) (hrest : rest = [] ∨ ∃ r, rest = '\n' :: r) :
    commentAtFirst s (blk ++ '\n' :: rest) = .ok blk := by
  have hS := h
  obtain ⟨hcs, hes, hnbs, hnbi, _, hword, _⟩ := h
  rw [createSingle_eq hcs] at hblk
  simp only [Except.ok.injEq] at hblk
  obtain ⟨hne, hpieces⟩ := splitOn_lf_noBreak text hno
  -- the lines of the block
  generalize hL : splitOn ['\n'] text = L at hblk hne hpieces
  have hMne : L.map (singleLine s) ≠ [] := by simpa using hne
  have hMnb : ∀ m ∈ L.map (singleLine s), NoBreak m := by
    intro m hm
    obtain ⟨l, hl, rfl⟩ := List.mem_map.mp hm
    unfold singleLine
    split
    · simpa using hnbs
    · exact noBreak_append hnbs (noBreak_append hnbi (hpieces l hl))
  have hMsingle : ∀ m ∈ L.map (singleLine s), isSingleComment s m = true := by
    intro m hm
    obtain ⟨l, _, rfl⟩ := List.mem_map.mp hm
    unfold singleLine
    apply isSingle_of_prefix
    rcases hword with hw | hw
    · exact .inl hw
    · right
      split
      · rfl
      · cases hi : s.indentAfterSingle with
        | nil => rw [hi] at hw; simp at hw
        | cons c cs => rw [hi] at hw; simpa using hw
  subst hblk
  have hlines : splitLines (join ['\n'] (L.map (singleLine s)) ++ '\n' :: rest) =
      L.map (singleLine s) ++ splitLinesAux false [] rest := splitLines_join _ hMne hMnb rest
  -- the multi-line opener does not fit
  have hmo : (s.canMulti && startsWith (join ['\n'] (L.map (singleLine s)) ++ '\n' :: rest) s.mStart) = false := by
    cases hLc : L with
    | nil => exact absurd hLc hne
    | cons l ls =>
      cases ls with
      | nil => simpa [join] using no_multi_open hS l rest
      | cons l2 ls2 =>
        have : join ['\n'] (List.map (singleLine s) (l :: l2 :: ls2)) ++ '\n' :: rest =
            singleLine s l ++ '\n' :: (join ['\n'] (List.map (singleLine s) (l2 :: ls2)) ++ '\n' :: rest) := by
          simp only [List.map_cons]
          rw [join]
          · simp
          · intro h; cases h
        rw [this]
        exact no_multi_open hS l _
  unfold commentAtFirst
  simp only [hes, Bool.false_eq_true, if_false, hcs, Bool.true_or, Bool.not_true, hmo, hlines]
  rw [singleRun_all s _ _ 0 none hMsingle]
  have hX : singleRun s (splitLinesAux false [] rest) (0 + (L.map (singleLine s)).length)
      (if L.map (singleLine s) = [] then none else some (0 + (L.map (singleLine s)).length - 1)) =
      some ((L.map (singleLine s)).length - 1) := by
    simp only [hMne, if_false, Nat.zero_add]
    rcases hrest with rfl | ⟨r, rfl⟩
    · simp [splitLinesAux, singleRun]
    · rw [splitLinesAux_lf]
      simp [singleRun, isSingle_nil hS]
  rw [hX]
  have hlen : (L.map (singleLine s)).length - 1 + 1 = (L.map (singleLine s)).length := by
    have : (L.map (singleLine s)).length ≠ 0 := by simpa using hMne
    omega
  simp only [if_true, hlen, List.take_left' rfl]

end C10L
