/-
C08: "a shebang or XML-declaration-like first line stays first" in replacing mode when the file already has a
REUSE header.  Two situations (`findFirst_spec` gives the locator's sections `b0`, `h0`, `a0`):
* text stands above the old block (`b0 ≠ ""`): the first line is the first line of `b0`, the shebang loop does
  nothing (`moveShebang_nonblank`), `place_header` keeps `b0` first;
* the old block is at the top (`b0 = ""`) and the first line is part of it: the loop takes the first marker the
  block starts with — the same marker the text starts with (`find_congr`) — and moves the leading marker lines out
  of the old block (`moveShebang_top`); they stay first.
-/
import ReuseVerif.Lemmas.FirstLine

namespace C08L
open Py Model Spec C10L

/-- text that is not white space only above the block found: the shebang loop changes nothing -/
theorem moveShebang_nonblank (shebangs : List Text) (b0 h0 a0 : Text) (hnb : ¬ Blank b0) :
    moveShebang shebangs b0 h0 a0 = (b0, h0, a0) := by
  have h1 : (strip b0).isEmpty = false := by
    cases h : (strip b0).isEmpty with
    | false => rfl
    | true => exact absurd ((strip_isEmpty_iff _).mp h) hnb
  have h2 : b0.isEmpty = false := by
    cases b0 with
    | nil => exact absurd (by decide : Blank []) hnb
    | cons x xs => rfl
  induction shebangs with
  | nil => rfl
  | cons sb rest ih =>
    rw [moveShebang]
    simp only [h1, h2, Bool.and_false, Bool.false_and, Bool.false_eq_true, if_false]
    exact ih

/-- the block found stands at the top: the loop takes the first marker the block starts with -/
theorem moveShebang_top (shebangs : List Text) (h0 a0 : Text) (hne : h0 ≠ []) :
    moveShebang shebangs [] h0 a0 =
      match shebangs.find? (startsWith h0 ·) with
      | some sb => ((extractShebang sb h0).1, (extractShebang sb h0).2, a0)
      | none => ([], h0, a0) := by
  have h2 : h0.isEmpty = false := by cases h0 <;> simp_all
  have h1 : (strip ([] : Text)).isEmpty = true := by decide
  induction shebangs with
  | nil => rfl
  | cons sb rest ih =>
    rw [moveShebang]
    simp only [h1, h2, Bool.and_true, Bool.and_false, Bool.false_eq_true, if_false, List.find?_cons]
    cases hst : startsWith h0 sb with
    | true => simp
    | false =>
      simp only [Bool.false_eq_true, if_false]
      exact ih

theorem find_congr {α} (p q : α → Bool) (l : List α) (h : ∀ x ∈ l, p x = q x) : l.find? p = l.find? q := by
  induction l with
  | nil => rfl
  | cons x xs ih =>
    simp only [List.find?_cons, h x (by simp)]
    rw [ih (fun y hy => h y (by simp [hy]))]

/-- a break-free pattern begins `x ++ "\n" ++ …` exactly when it begins `x ++ "\n"` -/
theorem startsWith_line_congr {x rest1 rest2 p : Text} (hnb : NoBreak p) :
    startsWith (x ++ '\n' :: rest1) p = startsWith (x ++ '\n' :: rest2) p := by
  have hnl : '\n' ∉ p := fun hm => absurd (hnb '\n' hm) (by decide)
  have key : ∀ r1 r2, startsWith (x ++ '\n' :: r1) p = true → startsWith (x ++ '\n' :: r2) p = true := by
    intro r1 r2 h
    obtain ⟨u, hu⟩ := prefix_break_free (List.isPrefixOf_iff_prefix.mp h) hnl
    exact List.isPrefixOf_iff_prefix.mpr ⟨u ++ '\n' :: r2, by rw [← hu]; simp⟩
  cases h1 : startsWith (x ++ '\n' :: rest1) p with
  | true => exact (key _ _ h1).symm
  | false =>
    cases h2 : startsWith (x ++ '\n' :: rest2) p with
    | false => rfl
    | true => rw [key _ _ h2] at h1; cases h1

theorem rstrip_append_blank' (x w : Text) (hw : Blank w) : rstrip (x ++ w) = rstrip x := by
  obtain ⟨w', hx, hw'⟩ := rstrip_spec x
  have : x ++ w = rstrip x ++ (w' ++ w) := by
    conv => lhs; rw [hx]
    simp
  rw [this]
  exact rstrip_append_blank (blank_append.mpr ⟨hw', hw⟩) (rstrip_idem x)

theorem blank_of_prefix {p x : Text} (hp : p <+: x) (hx : Blank x) : Blank p := by
  obtain ⟨u, rfl⟩ := hp
  exact (blank_append.mp hx).1

/-- what `place_header` puts first when shebang lines that are not white space only stand above -/
theorem placed_first' {hdr sbl rest out sb : Text} (ex : Bool) (hout : out = placeHeader hdr sbl rest ex)
    (hpre : sb <+: sbl) (hnb : ¬ Blank sb) : (rstrip sbl ++ ['\n', '\n']) <+: out := by
  have hnbl : ¬ Blank sbl := not_blank_of_prefix hpre hnb
  have : (strip sbl).isEmpty = false := by
    cases h : (strip sbl).isEmpty with
    | false => rfl
    | true => exact absurd ((strip_isEmpty_iff _).mp h) hnbl
  rw [hout, placeHeader_parts]
  simp only [aboveOf, this, Bool.false_eq_true, if_false]
  exact ⟨hdr ++ ['\n'] ++ belowOf rest ex, by simp⟩

/-- **First line stays first, a header already in the file.**  `sb` is a non-empty, break-free, not-blank marker the
    text starts with; among the style's markers it is the first that fits.  Then the text is `sbl ++ rest` with
    `sbl` starting with `sb`, and what `place_header` returns for the sections of the shebang loop starts with
    `rstrip sbl ++ "\n\n"`.  `sbl` is everything above the old block when the block is not at the top, and the
    leading marker lines of the old block when it is. -/
theorem first_line_old {c : HdrCfg} {t b0 h0 a0 sb : Text}
    (hno : b0 = [] → NoExoticBreaks t) (hf0 : findFirstSpdxComment c t = some (b0, h0, a0))
    (hmk : ∀ x ∈ c.style.shebangs, x ≠ [] ∧ NoBreak x ∧ ¬ Blank x)
    (hf : c.style.shebangs.find? (startsWith t ·) = some sb) (hdr : Text) :
    ∃ sbl rest, t = sbl ++ rest ∧ sb <+: sbl ∧
      (rstrip sbl ++ ['\n', '\n']) <+:
        placeHeader hdr (moveShebang c.style.shebangs b0 h0 a0).1 (moveShebang c.style.shebangs b0 h0 a0).2.2
          (!(moveShebang c.style.shebangs b0 h0 a0).2.1.isEmpty) := by
  obtain ⟨hne, hnbk, hnb⟩ := hmk sb (List.mem_of_find?_eq_some hf)
  have hst : startsWith t sb = true := by simpa using List.find?_some hf
  have hnl : '\n' ∉ sb := fun hm => absurd (hnbk '\n' hm) (by decide)
  obtain ⟨r, comment, hbr, hb0, hc, _, hh0, _⟩ := findFirst_spec hf0
  -- where does the block stand?
  have hb0' : b0 = [] ∨ ∃ b', b0 = b' ++ ['\n'] := by
    rcases hb0 with h | h
    · exact Or.inl h
    · right
      have hne0 : b0 ≠ [] := by intro h0'; rw [h0'] at h; cases h
      refine ⟨b0.dropLast, ?_⟩
      have h1 := List.dropLast_concat_getLast hne0
      have h2 : b0.getLast hne0 = '\n' := by
        have := List.getLast?_eq_some_getLast hne0
        rw [h] at this
        exact (Option.some.inj this).symm
      rw [h2] at h1
      exact h1.symm
  rcases hb0' with rfl | ⟨b', rfl⟩
  · -- the block is at the top
    simp only [List.nil_append] at hbr
    subst hbr
    have hno := hno rfl
    have hcases : r = comment ∨ ∃ rest, r = comment ++ '\n' :: rest := by
      cases hes : c.style.isEmptyStyle with
      | true => left; exact (commentAt_empty hes hc).symm
      | false => exact commentAt_prefix hes hno hc
    have hh0ne : h0 ≠ [] := by rw [hh0]; simp
    -- the block starts with the same markers as the text
    have hsame : ∀ x ∈ c.style.shebangs, startsWith h0 x = startsWith r x := by
      intro x hx
      obtain ⟨_, hxnb, _⟩ := hmk x hx
      rw [hh0]
      rcases hcases with h | ⟨rest, h⟩
      · have hxnl : '\n' ∉ x := fun hm => absurd (hxnb '\n' hm) (by decide)
        cases h1 : startsWith (comment ++ ['\n']) x with
        | true =>
          have := prefix_break_free (List.isPrefixOf_iff_prefix.mp h1) hxnl
          rw [h]; exact (List.isPrefixOf_iff_prefix.mpr this).symm
        | false =>
          cases h2 : startsWith r x with
          | false => rfl
          | true =>
            rw [h] at h2
            obtain ⟨u, hu⟩ := List.isPrefixOf_iff_prefix.mp h2
            have : startsWith (comment ++ ['\n']) x = true :=
              List.isPrefixOf_iff_prefix.mpr ⟨u ++ ['\n'], by rw [← hu]; simp⟩
            rw [this] at h1; cases h1
      · rw [h]
        exact startsWith_line_congr hxnb
    have hfind : c.style.shebangs.find? (startsWith h0 ·) = some sb := by
      rw [find_congr _ (startsWith r ·) _ hsame]; exact hf
    rw [moveShebang_top _ _ _ hh0ne, hfind]
    simp only []
    have hsth : startsWith h0 sb = true := by rw [hsame sb (List.mem_of_find?_eq_some hf)]; exact hst
    have hpre := extractShebang_starts hne hnbk hsth
    have happ := extractShebang_append sb h0
    have hplaced := placed_first' (hdr := hdr) (rest := a0) (!(extractShebang sb h0).2.isEmpty) rfl hpre hnb
    -- the marker lines as a part of the text
    rcases hcases with h | ⟨rest, h⟩
    · -- the block reaches the end of a text without final newline
      have hpc : (extractShebang sb h0).1 <+: r ++ ['\n'] := ⟨(extractShebang sb h0).2, by rw [happ, hh0, h]⟩
      rcases List.prefix_concat_iff.mp hpc with heq | hp
      · refine ⟨r, [], by simp, List.isPrefixOf_iff_prefix.mp hst, ?_⟩
        have : rstrip r = rstrip (extractShebang sb h0).1 := by
          rw [heq]; exact (rstrip_append_blank' r ['\n'] (by decide)).symm
        rw [this]; exact hplaced
      · obtain ⟨u, hu⟩ := hp
        exact ⟨_, u, hu.symm, hpre, hplaced⟩
    · refine ⟨(extractShebang sb h0).1, (extractShebang sb h0).2 ++ rest, ?_, hpre, hplaced⟩
      rw [← List.append_assoc, happ, hh0, h]; simp
  · -- text above the block: it starts with the marker, so it is not white space only
    have ht : t = b' ++ '\n' :: r := by rw [← hbr]; simp
    have hsb' : sb <+: b' := by
      rw [ht] at hst
      exact prefix_break_free (List.isPrefixOf_iff_prefix.mp hst) hnl
    have hsb0 : sb <+: b' ++ ['\n'] := List.IsPrefix.trans hsb' (List.prefix_append _ _)
    have hnb0 : ¬ Blank (b' ++ ['\n']) := not_blank_of_prefix hsb0 hnb
    rw [moveShebang_nonblank _ _ _ _ hnb0]
    exact ⟨b' ++ ['\n'], r, hbr.symm, hsb0, placed_first' _ rfl hsb0 hnb⟩

end C08L
