/-
C10 / C14 — part 2: `_create_new_header` and `create_header` are functions of the *sets* they are handed.

`createNewHeader` sorts each section (`sortTexts`, invariant under permutation) and compares sets (`sameSet`,
a function of membership); `createHeader` forms unions (`dedup (a ++ b)`: duplicate-free, so two unions with
the same members are permutations of each other).  The merge step (`--merge-copyrights`, `mergeLines`) iterates
over the *sorted* lines (fixes/c10-merge-order.diff), so it is a function of the multiset too (`mergeLines_perm_eq`);
`Lemmas/C10OrderMerge.lean` says what happens without the sort.
-/
import ReuseVerif.Lemmas.C10OrderSort
import ReuseVerif.Lemmas.Merge

namespace C10Order
open Py Model

/-- the same members (the lists stand for the same Python `set`) -/
def SameMembers (a b : List Text) : Prop := ∀ x, x ∈ a ↔ x ∈ b

theorem SameMembers.refl (a : List Text) : SameMembers a a := fun _ => Iff.rfl
theorem SameMembers.symm {a b : List Text} (h : SameMembers a b) : SameMembers b a := fun x => (h x).symm
theorem SameMembers.trans {a b c : List Text} (h1 : SameMembers a b) (h2 : SameMembers b c) : SameMembers a c :=
  fun x => (h1 x).trans (h2 x)
theorem SameMembers.of_perm {a b : List Text} (h : a.Perm b) : SameMembers a b := fun _ => h.mem_iff

/-- two duplicate-free lists with the same members — two iteration orders of one set — are permutations of
    each other -/
theorem SameMembers.perm {a b : List Text} (h : SameMembers a b) (ha : a.Nodup) (hb : b.Nodup) : a.Perm b :=
  (List.perm_ext_iff_of_nodup ha hb).mpr h

theorem SameMembers.append {a a' b b' : List Text} (h1 : SameMembers a a') (h2 : SameMembers b b') :
    SameMembers (a ++ b) (a' ++ b') := by
  intro x
  simp only [List.mem_append, h1 x, h2 x]

theorem SameMembers.map (f : Text → Text) {a b : List Text} (h : SameMembers a b) : SameMembers (a.map f) (b.map f) := by
  intro x
  simp only [List.mem_map]
  exact ⟨fun ⟨y, hy, e⟩ => ⟨y, (h y).mp hy, e⟩, fun ⟨y, hy, e⟩ => ⟨y, (h y).mpr hy, e⟩⟩

/-- `dedup` of lists with the same members: permutations of each other -/
theorem dedup_perm {a b : List Text} (h : SameMembers a b) : (dedup a).Perm (dedup b) :=
  SameMembers.perm (fun x => by rw [mem_dedup, mem_dedup]; exact h x) (dedup_nodup a) (dedup_nodup b)

theorem unionTexts_perm {a a' b b' : List Text} (h1 : SameMembers a a') (h2 : SameMembers b b') :
    (unionTexts a b).Perm (unionTexts a' b') := dedup_perm (h1.append h2)

/-- `sameSet` is a function of the members of its arguments -/
theorem sameSet_congr {a a' b b' : List Text} (h1 : SameMembers a a') (h2 : SameMembers b b') :
    sameSet a b = sameSet a' b' := by
  rw [Bool.eq_iff_iff]
  simp only [sameSet, Bool.and_eq_true, List.all_eq_true, List.contains_iff_mem]
  constructor
  · rintro ⟨p, q⟩
    exact ⟨fun x hx => (h2 x).mp (p x ((h1 x).mpr hx)), fun x hx => (h1 x).mp (q x ((h2 x).mpr hx))⟩
  · rintro ⟨p, q⟩
    exact ⟨fun x hx => (h2 x).mpr (p x ((h1 x).mp hx)), fun x hx => (h1 x).mpr (q x ((h2 x).mp hx))⟩

theorem sameSet_left {a a' : List Text} (h : SameMembers a a') (b : List Text) : sameSet a b = sameSet a' b :=
  sameSet_congr h (.refl b)

/-- **`merge_copyright_lines` does not depend on the order of its input**: it iterates over `sorted(...)`. -/
theorem mergeLines_perm_eq {l₁ l₂ : List Text} (h : l₁.Perm l₂) : mergeLines l₁ = mergeLines l₂ := by
  unfold mergeLines
  rw [sortTexts_perm_eq h]

/-- **`_create_new_header` does not depend on the order of the three sets.** -/
theorem createNewHeader_perm (c : HdrCfg) {i j : Extracted} (hc : i.cpr.Perm j.cpr) (hn : i.con.Perm j.con)
    (hl : i.lic.Perm j.lic) : createNewHeader c i = createNewHeader c j := by
  have s1 := sortTexts_perm_eq hc
  have s2 := sortTexts_perm_eq hn
  have s3 := sortTexts_perm_eq hl
  have m1 := sameSet_left (SameMembers.of_perm hc)
  have m2 := sameSet_left (SameMembers.of_perm hn)
  have m3 := sameSet_left ((SameMembers.of_perm hl).map c.normLic)
  simp only [createNewHeader, s1, s2, s3, m1, m2, m3]

/-- the copyright lines `create_header` merges (with `--merge-copyrights`) or passes on: the request when no
    header exists, else the union of the request and what the header declares -/
def cprInput (i : Extracted) (header : Text) : List Text :=
  if header.isEmpty then i.cpr else unionTexts i.cpr (extractRaw header).cpr

theorem cprInput_sameMembers {i j : Extracted} (h : SameMembers i.cpr j.cpr) (header : Text) :
    SameMembers (cprInput i header) (cprInput j header) := by
  unfold cprInput
  split
  · exact h
  · exact .of_perm (unionTexts_perm h (.refl _))

theorem cprInput_perm {i j : Extracted} (h : i.cpr.Perm j.cpr) (header : Text) :
    (cprInput i header).Perm (cprInput j header) := by
  unfold cprInput
  split
  · exact h
  · exact unionTexts_perm (.of_perm h) (.refl _)

/-- `create_header` in terms of `cprInput` -/
theorem createHeader_eq (c : HdrCfg) (i : Extracted) (header : Text) :
    createHeader c i header =
      if header.isEmpty then
        createNewHeader c { i with cpr := if c.merge then mergeLines (cprInput i header) else cprInput i header }
      else if !((extractRaw header).lic.all c.parses) then .error .commentCreate
      else createNewHeader c
        { lic := dedup (((extractRaw header).lic ++ i.lic).map c.normLic)
          con := unionTexts (extractRaw header).con i.con
          cpr := if c.merge then mergeLines (cprInput i header) else cprInput i header } := by
  unfold createHeader cprInput
  by_cases hh : header.isEmpty = true
  · simp only [hh, if_true]
    cases c.merge <;> rfl
  · simp only [hh, Bool.false_eq_true, if_false]
    cases hp : (extractRaw header).lic.all c.parses <;> simp [bind, Except.bind, throw, throwThe, MonadExceptOf.throw]

/-- **`create_header` with an existing header: a function of the requested sets.**  Two requests with the same
    members in each section — whatever their order, with or without repetitions — give the same header, with
    and without `--merge-copyrights`. -/
theorem createHeader_sameMembers_old (c : HdrCfg) {i j : Extracted} {header : Text} (hne : header.isEmpty = false)
    (hc : SameMembers i.cpr j.cpr) (hn : SameMembers i.con j.con) (hl : SameMembers i.lic j.lic) :
    createHeader c i header = createHeader c j header := by
  have hin : (cprInput i header).Perm (cprInput j header) :=
    (cprInput_sameMembers hc header).perm
      (by unfold cprInput; simp only [hne, Bool.false_eq_true, if_false]; exact dedup_nodup _)
      (by unfold cprInput; simp only [hne, Bool.false_eq_true, if_false]; exact dedup_nodup _)
  rw [createHeader_eq, createHeader_eq]
  simp only [hne, Bool.false_eq_true, if_false]
  split
  · rfl
  · apply createNewHeader_perm
    · show List.Perm (if c.merge = true then _ else _) (if c.merge = true then _ else _)
      by_cases hm : c.merge = true
      · simp only [hm, if_true]; rw [mergeLines_perm_eq hin]
      · simp only [hm]; exact hin
    · exact unionTexts_perm (.refl _) hn
    · exact dedup_perm (((SameMembers.refl _).append hl).map c.normLic)

/-- **`create_header` does not depend on the order of the requested sets** (any header text, also none; with
    and without `--merge-copyrights`). -/
theorem createHeader_perm (c : HdrCfg) {i j : Extracted} (header : Text)
    (hc : i.cpr.Perm j.cpr) (hn : i.con.Perm j.con) (hl : i.lic.Perm j.lic) :
    createHeader c i header = createHeader c j header := by
  cases hh : header.isEmpty with
  | false =>
    exact createHeader_sameMembers_old c hh (.of_perm hc) (.of_perm hn) (.of_perm hl)
  | true =>
    rw [createHeader_eq, createHeader_eq]
    simp only [hh, if_true]
    apply createNewHeader_perm
    · show List.Perm (if c.merge = true then _ else _) (if c.merge = true then _ else _)
      by_cases hm : c.merge = true
      · simp only [hm, if_true]; rw [mergeLines_perm_eq (cprInput_perm hc header)]
      · simp only [hm]; exact cprInput_perm hc header
    · exact hn
    · exact hl

end C10Order
