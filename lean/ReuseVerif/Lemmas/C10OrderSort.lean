/-
C10 / C14 — the bytes `reuse annotate` writes do not depend on the iteration order of the sets it is handed.

Part 1: Python's `<` on `str` (`textLt`, code point order) is a strict total order, and `sorted(...)`
(`sortTexts`, insertion sort by `textLt`) returns the same list for every permutation of its input — the
sorted permutation of the input.
-/
import ReuseVerif.Model.Header

namespace C10Order
open Py Model

/-! ### `textLt` is a strict total order on `Text` -/

theorem textLt_irrefl : ∀ a : Text, textLt a a = false
  | [] => rfl
  | c :: cs => by
    rw [textLt]
    simp only [Nat.lt_irrefl, if_false]
    exact textLt_irrefl cs

theorem textLt_trans : ∀ {a b c : Text}, textLt a b = true → textLt b c = true → textLt a c = true
  | [], [], _, h, _ => by simp [textLt] at h
  | [], _ :: _, [], _, h => by simp [textLt] at h
  | [], _ :: _, _ :: _, _, _ => rfl
  | _ :: _, [], _, h, _ => by simp [textLt] at h
  | _ :: _, _ :: _, [], _, h => by simp [textLt] at h
  | x :: xs, y :: ys, z :: zs, h1, h2 => by
    rw [textLt] at h1 h2 ⊢
    by_cases hxy : x.toNat < y.toNat
    · by_cases hyz : y.toNat < z.toNat
      · simp [Nat.lt_trans hxy hyz]
      · simp only [hyz, if_false] at h2
        by_cases hzy : z.toNat < y.toNat
        · simp [hzy] at h2
        · have : y.toNat = z.toNat := by omega
          simp [this ▸ hxy]
    · simp only [hxy, if_false] at h1
      by_cases hyx : y.toNat < x.toNat
      · simp [hyx] at h1
      · simp only [hyx, if_false] at h1
        have hxy' : x.toNat = y.toNat := by omega
        by_cases hyz : y.toNat < z.toNat
        · simp [hxy' ▸ hyz]
        · simp only [hyz, if_false] at h2
          by_cases hzy : z.toNat < y.toNat
          · simp [hzy] at h2
          · simp only [hzy, if_false] at h2
            have : ¬ x.toNat < z.toNat := by omega
            have : ¬ z.toNat < x.toNat := by omega
            simp only [*, if_false]
            exact textLt_trans h1 h2

/-- trichotomy: two texts neither of which is below the other are the same text -/
theorem textLt_trichotomy : ∀ {a b : Text}, textLt a b = false → textLt b a = false → a = b
  | [], [], _, _ => rfl
  | [], _ :: _, h, _ => by simp [textLt] at h
  | _ :: _, [], _, h => by simp [textLt] at h
  | x :: xs, y :: ys, h1, h2 => by
    rw [textLt] at h1 h2
    by_cases hxy : x.toNat < y.toNat
    · simp [hxy] at h1
    · by_cases hyx : y.toNat < x.toNat
      · simp [hyx] at h2
      · simp only [hxy, hyx, if_false] at h1 h2
        have hc : x = y := Char.toNat_inj.mp (by omega)
        rw [hc, textLt_trichotomy h1 h2]

theorem textLt_asymm {a b : Text} (h : textLt a b = true) : textLt b a = false := by
  cases h' : textLt b a with
  | false => rfl
  | true => have := textLt_trans h h'; rw [textLt_irrefl] at this; cases this

/-- `a ≤ b` in code point order: `b` is not below `a` -/
def TextLe (a b : Text) : Prop := textLt b a = false

theorem textLe_refl (a : Text) : TextLe a a := textLt_irrefl a

theorem textLe_of_lt {a b : Text} (h : textLt a b = true) : TextLe a b := textLt_asymm h

theorem textLe_antisymm {a b : Text} (h1 : TextLe a b) (h2 : TextLe b a) : a = b := textLt_trichotomy h2 h1

theorem textLe_trans {a b c : Text} (h1 : TextLe a b) (h2 : TextLe b c) : TextLe a c := by
  unfold TextLe at *
  cases hca : textLt c a with
  | false => rfl
  | true =>
    cases hab : textLt a b with
    | true => rw [textLt_trans hca hab] at h2; cases h2
    | false => have := textLt_trichotomy hab h1; subst this; rw [hca] at h2; cases h2

theorem textLe_total (a b : Text) : TextLe a b ∨ TextLe b a := by
  cases h : textLt b a with
  | false => exact .inl h
  | true => exact .inr (textLt_asymm h)

/-! ### `sortTexts` -/

/-- ascending in code point order (equal neighbours allowed) -/
def SortedTexts (l : List Text) : Prop := l.Pairwise TextLe

theorem insertSorted_perm (x : Text) : ∀ l : List Text, (insertSorted x l).Perm (x :: l)
  | [] => .refl _
  | y :: ys => by
    rw [insertSorted]
    split
    · exact .refl _
    · exact ((insertSorted_perm x ys).cons y).trans (.swap x y ys)

theorem sortTexts_perm : ∀ l : List Text, (sortTexts l).Perm l
  | [] => .refl _
  | x :: xs => by
    show (insertSorted x (sortTexts xs)).Perm (x :: xs)
    exact (insertSorted_perm x _).trans ((sortTexts_perm xs).cons x)

theorem insertSorted_sorted (x : Text) : ∀ l : List Text, SortedTexts l → SortedTexts (insertSorted x l)
  | [], _ => List.pairwise_singleton _ _
  | y :: ys, h => by
    rw [insertSorted]
    have hy := List.pairwise_cons.mp h
    split
    · rename_i hlt
      refine List.pairwise_cons.mpr ⟨?_, h⟩
      intro z hz
      rcases List.mem_cons.mp hz with rfl | hz
      · exact textLe_of_lt hlt
      · exact textLe_trans (textLe_of_lt hlt) (hy.1 z hz)
    · rename_i hlt
      have hle : TextLe y x := by simpa [TextLe] using hlt
      refine List.pairwise_cons.mpr ⟨?_, insertSorted_sorted x ys hy.2⟩
      intro z hz
      rcases List.mem_cons.mp ((insertSorted_perm x ys).mem_iff.mp hz) with rfl | hz
      · exact hle
      · exact hy.1 z hz

theorem sortTexts_sorted : ∀ l : List Text, SortedTexts (sortTexts l)
  | [] => List.Pairwise.nil
  | x :: xs => insertSorted_sorted x _ (sortTexts_sorted xs)

/-- an ascending list is determined by its elements (with multiplicity) -/
theorem sorted_perm_eq : ∀ {l₁ l₂ : List Text}, l₁.Perm l₂ → SortedTexts l₁ → SortedTexts l₂ → l₁ = l₂
  | [], l₂, hp, _, _ => (List.nil_perm.mp hp).symm
  | a :: t₁, [], hp, _, _ => by simpa using hp.length_eq
  | a :: t₁, b :: t₂, hp, h1, h2 => by
    have h1' := List.pairwise_cons.mp h1
    have h2' := List.pairwise_cons.mp h2
    have hab : a = b := by
      have ha : a ∈ b :: t₂ := hp.mem_iff.mp List.mem_cons_self
      have hb : b ∈ a :: t₁ := hp.mem_iff.mpr List.mem_cons_self
      rcases List.mem_cons.mp ha with e | ha
      · exact e
      · rcases List.mem_cons.mp hb with e | hb
        · exact e.symm
        · exact textLe_antisymm (h1'.1 b hb) (h2'.1 a ha)
    subst hab
    rw [sorted_perm_eq (List.Perm.cons_inv hp) h1'.2 h2'.2]

/-- **`sorted(...)` does not depend on the order of its input.** -/
theorem sortTexts_perm_eq {l₁ l₂ : List Text} (h : l₁.Perm l₂) : sortTexts l₁ = sortTexts l₂ :=
  sorted_perm_eq (((sortTexts_perm l₁).trans h).trans (sortTexts_perm l₂).symm) (sortTexts_sorted l₁) (sortTexts_sorted l₂)

/-- a list that is an ascending permutation of `l` is `sorted(l)` -/
theorem sortTexts_unique {l s : List Text} (hp : s.Perm l) (hs : SortedTexts s) : sortTexts l = s :=
  sorted_perm_eq ((sortTexts_perm l).trans hp.symm) (sortTexts_sorted l) hs

end C10Order
