/-
C20: the per-case hypothesis `earlierNone` of `C20_make_parse_partial` follows from a syntactic
condition on the holder (`Spec.noNoticeInside`), and the read-back lemmas of
`Lemmas/CopyrightMain.lean` hold under the weaker holder predicate `Spec.WFHolderL`
(a holder may begin with `(`, `©`, `-`, `Copyright…` as long as no *tag followed by white space*
results).
-/
import ReuseVerif.Spec.CopyrightWF
import ReuseVerif.Lemmas.CopyrightMain

namespace Model
open Py Spec

/-! ### a pattern matches only where its tag stands, followed by white space -/

theorem eat_some {lit s r : Text} (h : eat lit s = some r) : s = lit ++ r := by
  unfold eat at h
  split at h
  · rename_i hp
    obtain ⟨t, rfl⟩ := List.isPrefixOf_iff_prefix.mp hp
    simp only [Option.some.injEq, List.drop_left'] at h
    rw [← h]
  · cases h

theorem hasTag_append {ts : List Text} {t : Text} (ht : t ∈ ts) {r : Text} (hr : startsSpace r = true) :
    hasTag ts (t ++ r) = true := by
  unfold hasTag
  simp only [List.any_eq_true, Bool.and_eq_true]
  refine ⟨t, ht, List.isPrefixOf_iff_prefix.mpr (List.prefix_append _ _), ?_⟩
  simpa using hr

theorem eatHead_some {p : CPat} {s r : Text} (h : eatHead p s = some r) : ∃ t ∈ tagsOf p, s = t ++ r := by
  cases p with
  | spdx =>
    simp only [eatHead, Option.bind_eq_bind] at h
    obtain ⟨s1, h1, h⟩ := Option.bind_eq_some_iff.mp h
    obtain ⟨s2, h2, h3⟩ := Option.bind_eq_some_iff.mp h
    have e1 := eat_some h1
    have e3 := eat_some h3
    cases hf : eat "File".toList s1 with
    | some s2' =>
      rw [hf] at h2
      simp only [Option.orElse, Option.some.injEq] at h2
      subst h2
      have e2 := eat_some hf
      exact ⟨"SPDX-FileCopyrightText:".toList, by simp [tagsOf], by rw [e1, e2, e3]; rfl⟩
    | none =>
      rw [hf] at h2
      simp only [Option.orElse] at h2
      have e2 := eat_some h2
      exact ⟨"SPDX-SnippetCopyrightText:".toList, by simp [tagsOf], by rw [e1, e2, e3]; rfl⟩
  | word => exact ⟨_, by simp [tagsOf], eat_some h⟩
  | sign => exact ⟨copySign, List.mem_cons_self, eat_some h⟩

theorem eatSpace_none_of_head {r : Text} (h : startsSpace r = false) : eatSpace r = none := by
  cases r with
  | nil => rfl
  | cons c cs =>
    simp only [startsSpace, List.head?_cons, Option.map_some, Option.getD_some] at h
    simp [eatSpace, h]

theorem pickExt_single_none {r : Text} (h : startsSpace r = false) : pickExt [r] = none := by
  unfold startsSpace at h
  simp [pickExt, List.find?_cons, h]

theorem pickExt_none_of_head (p : CPat) {r : Text} (h : startsSpace r = false) :
    pickExt (extCandidates p r) = none := by
  have hs := eatSpace_none_of_head h
  have hsym : eatSymbolExt r = none := by simp [eatSymbolExt, hs]
  cases p with
  | spdx => simp only [extCandidates, hsym, hs, Option.toList, Option.bind_none, List.nil_append, pickExt_single_none h]
  | word => simp only [extCandidates, hsym, Option.toList, List.nil_append, pickExt_single_none h]
  | sign => simp only [extCandidates, pickExt_single_none h]

/-- where the tag of pattern `p` followed by white space does not stand, `p` does not match -/
theorem matchAt_none_of_noTag (endRe : Re) (p : CPat) (s : Text) (h : hasTag (tagsOf p) s = false) :
    matchAt endRe p s = none := by
  unfold matchAt
  cases he : eatHead p s with
  | none => rfl
  | some r =>
    obtain ⟨t, ht, rfl⟩ := eatHead_some he
    have hr : startsSpace r = false := by
      cases hh : startsSpace r with
      | false => rfl
      | true => rw [hasTag_append ht hh] at h; cases h
    simp [pickExt_none_of_head p hr]

theorem searchPat_none (endRe : Re) (p : CPat) :
    ∀ s : Text, (∀ t, t <:+ s → hasTag (tagsOf p) t = false) → searchPat endRe p s = none
  | [], h => by
    simp only [searchPat]
    exact matchAt_none_of_noTag endRe p [] (h [] (List.suffix_refl _))
  | c :: cs, h => by
    simp only [searchPat, matchAt_none_of_noTag endRe p (c :: cs) (h _ (List.suffix_refl _))]
    exact searchPat_none endRe p cs (fun t ht => h t (ht.trans (List.suffix_cons c cs)))

/-! ### `noNoticeInside`: no suffix of the holder begins with a tag -/

theorem tagAt_nil : tagAt [] = false := by decide

theorem noNoticeInside_suffix : ∀ h : Text, noNoticeInside h = true → ∀ t, t <:+ h → tagAt t = false
  | [], _, t, ht => by
    have : t = [] := List.suffix_nil.mp ht
    subst this; exact tagAt_nil
  | c :: cs, hn, t, ht => by
    simp only [noNoticeInside, Bool.and_eq_true, Bool.not_eq_true'] at hn
    rcases List.suffix_cons_iff.mp ht with rfl | ht
    · exact hn.1
    · exact noNoticeInside_suffix cs hn.2 t ht

theorem tagAt_false {t : Text} (h : tagAt t = false) (p : CPat) : hasTag (tagsOf p) t = false := by
  unfold tagAt at h
  simp only [Bool.or_eq_false_iff] at h
  cases p with
  | spdx => exact h.1.1
  | word => exact h.1.2
  | sign => exact h.2

/-- a holder without a notice inside is not a notice: `make_copyright_line` does not take the
    verbatim branch -/
theorem searchLine_none_of_noNotice (endRe : Re) (h : Text) (hn : noNoticeInside h = true) :
    searchLineWith endRe h = none := by
  have hp : ∀ p, searchPat endRe p h = none := fun p =>
    searchPat_none endRe p h (fun t ht => tagAt_false (noNoticeInside_suffix h hn t ht) p)
  simp [searchLineWith, hp]

/-! ### in front of the holder: characters with which no tag of an earlier pattern begins -/

/-- no tag of `ts` begins with `c` (and none is empty) -/
def startsNo (ts : List Text) (c : Char) : Bool :=
  ts.all fun t => match t with
    | [] => false
    | b :: _ => b != c

theorem hasTag_cons_of_startsNo {ts : List Text} {c : Char} (h : startsNo ts c = true) (s : Text) :
    hasTag ts (c :: s) = false := by
  unfold hasTag
  rw [Bool.eq_false_iff]
  intro hc
  simp only [List.any_eq_true, Bool.and_eq_true] at hc
  obtain ⟨t, ht, hp, _⟩ := hc
  unfold startsNo at h
  simp only [List.all_eq_true] at h
  have := h t ht
  cases t with
  | nil => simp at this
  | cons b bs =>
    simp only [bne_iff_ne, ne_eq] at this
    simp only [List.isPrefixOf, Bool.and_eq_true, beq_iff_eq] at hp
    exact this hp.1

/-- the suffixes of `pre ++ h` when no tag can begin inside `pre` -/
theorem hasTag_pre (ts : List Text) (h : Text) (hh : ∀ t, t <:+ h → hasTag ts t = false) :
    ∀ pre : Text, (∀ c ∈ pre, startsNo ts c = true) → ∀ t, t <:+ pre ++ h → hasTag ts t = false
  | [], _, t, ht => hh t (by simpa using ht)
  | a :: as, hpre, t, ht => by
    rw [List.cons_append] at ht
    rcases List.suffix_cons_iff.mp ht with rfl | ht
    · exact hasTag_cons_of_startsNo (hpre a List.mem_cons_self) _
    · exact hasTag_pre ts h hh as (fun c hc => hpre c (List.mem_cons_of_mem _ hc)) t ht

theorem searchPat_pre_none (endRe : Re) (p : CPat) (pre h : Text) (hn : noNoticeInside h = true)
    (hpre : ∀ c ∈ pre, startsNo (tagsOf p) c = true) : searchPat endRe p (pre ++ h) = none :=
  searchPat_none endRe p _ (hasTag_pre _ h (fun t ht => tagAt_false (noNoticeInside_suffix h hn t ht) p) pre hpre)

theorem startsNo_spdx {c : Char} (h : c ≠ 'S') : startsNo (tagsOf .spdx) c = true := by
  have : ('S' != c) = true := by simpa [bne_iff_ne] using fun e : 'S' = c => h e.symm
  simp [startsNo, tagsOf, this]

theorem startsNo_word {c : Char} (h : c ≠ 'C') : startsNo (tagsOf .word) c = true := by
  have : ('C' != c) = true := by simpa [bne_iff_ne] using fun e : 'C' = c => h e.symm
  simp [startsNo, tagsOf, this]

/-- the characters of a year text -/
theorem yearText_chars {y : YearForm} (hy : y.wf = true) {t : Text} (ht : y.text = some t) :
    ∀ c ∈ t, isReDigit c = true ∨ c = ' ' ∨ c = '-' := by
  have hd : ∀ {yy : Text}, fourDigits yy = true → ∀ c ∈ yy, isReDigit c = true := by
    intro yy h c hc
    unfold fourDigits at h
    simp only [Bool.and_eq_true, List.all_eq_true] at h
    exact h.2 c hc
  cases y with
  | none => cases ht
  | single yy =>
    simp only [YearForm.text, Option.some.injEq] at ht
    subst ht
    intro c hc; exact .inl (hd hy c hc)
  | range y1 sp1 sp2 y2 =>
    simp only [YearForm.text, Option.some.injEq] at ht
    subst ht
    simp only [YearForm.wf, Bool.and_eq_true] at hy
    intro c hc
    simp only [List.mem_append, List.mem_singleton] at hc
    rcases hc with (((hc | hc) | hc) | hc) | hc
    · exact .inl (hd hy.1 c hc)
    · cases sp1 <;> simp at hc; exact .inr (.inl hc)
    · exact .inr (.inr hc)
    · cases sp2 <;> simp at hc; exact .inr (.inl hc)
    · exact .inl (hd hy.2 c hc)

/-- what stands in front of the holder in a built line -/
def preOf (prefixText : Text) (y : YearForm) : Text :=
  match y.text with
  | some t => prefixText ++ [' '] ++ t ++ [' ']
  | none => prefixText ++ [' ']

theorem builtLine_eq (prefixText : Text) (y : YearForm) (h : Text) :
    builtLine prefixText y h = preOf prefixText y ++ h := by
  unfold builtLine preOf
  cases y.text <;> simp

theorem preOf_chars {prefixText : Text} {y : YearForm} (hy : y.wf = true) (c : Char)
    (hc : c ∈ preOf prefixText y) : c ∈ prefixText ∨ isReDigit c = true ∨ c = ' ' ∨ c = '-' := by
  unfold preOf at hc
  cases ht : y.text with
  | none =>
    simp only [ht, List.mem_append, List.mem_singleton] at hc
    rcases hc with hc | hc
    · exact .inl hc
    · exact .inr (.inr (.inl hc))
  | some t =>
    simp only [ht, List.mem_append, List.mem_singleton] at hc
    rcases hc with ((hc | hc) | hc) | hc
    · exact .inl hc
    · exact .inr (.inr (.inl hc))
    · exact .inr (yearText_chars hy ht c hc)
    · exact .inr (.inr (.inl hc))

theorem digit_ne {c : Char} (hc : isReDigit c = true) {x : Char} (hx : isReDigit x = false) : c ≠ x := by
  intro e; subst e; rw [hc] at hx; cases hx

/-- Table obligation: outside the SPDX shapes no prefix text contains an `S`, and the sign shape
    contains no `C` either. -/
theorem prefixShapes_chars :
    prefixShapes.all (fun x =>
      (x.2.1 == .spdx || x.1.all (· != 'S')) && (x.2.1 != .sign || x.1.all (· != 'C'))) = true := by decide

/-- **`earlierNone` from the syntactic condition**: no pattern of higher priority than the
    prefix's own matches anywhere in the built line. -/
theorem earlier_none (endRe : Re) (x : Text × CPat × Text) (hx : x ∈ prefixShapes)
    (y : YearForm) (hy : y.wf = true) (h : Text) (hn : noNoticeInside h = true) :
    (x.2.1 ≠ .spdx → searchPat endRe .spdx (builtLine x.1 y h) = none) ∧
    (x.2.1 = .sign → searchPat endRe .word (builtLine x.1 y h) = none) := by
  have htab := prefixShapes_chars
  simp only [List.all_eq_true, Bool.and_eq_true, Bool.or_eq_true, beq_iff_eq, bne_iff_ne, ne_eq] at htab
  obtain ⟨hS, hC⟩ := htab x hx
  rw [builtLine_eq]
  constructor
  · intro hp
    apply searchPat_pre_none endRe .spdx _ h hn
    intro c hc
    apply startsNo_spdx
    rcases preOf_chars hy c hc with hc | hc | hc | hc
    · rcases hS with hS | hS
      · exact absurd hS hp
      · exact hS c hc
    · exact digit_ne hc (by decide)
    · rw [hc]; decide
    · rw [hc]; decide
  · intro hp
    apply searchPat_pre_none endRe .word _ h hn
    intro c hc
    apply startsNo_word
    rcases preOf_chars hy c hc with hc | hc | hc | hc
    · rcases hC with hC | hC
      · exact absurd hp hC
      · exact hC c hc
    · exact digit_ne hc (by decide)
    · rw [hc]; decide
    · rw [hc]; decide

/-! ### the read-back lemmas under the weaker start conditions -/

/-- weaker than `Blocks`: what follows the prefix is no continuation of it *followed by white space* -/
structure BlocksL (rest : Text) : Prop where
  ne : rest ≠ []
  notSpace : startsSpace rest = false
  notParen : ∀ r, eatParenC rest = some r → startsSpace r = false
  notSign : ∀ r, eat copySign rest = some r → startsSpace r = false
  notWord : ∀ r, eat wordC rest = some r → startsSpace r = false

theorem Blocks.toL {rest : Text} (hb : Blocks rest) : BlocksL rest := by
  obtain ⟨c, cs, rfl⟩ := List.exists_cons_of_ne_nil hb.ne
  refine ⟨hb.ne, ?_, ?_, ?_, ?_⟩
  · simpa [startsSpace] using hb.notSpace c cs rfl
  · intro r hr; rw [eatParenC_ne (hb.notParen c cs rfl)] at hr; cases hr
  · intro r hr; rw [eatSign_ne (hb.notSign c cs rfl)] at hr; cases hr
  · intro r hr; rw [hb.notWord] at hr; cases hr

theorem pickExt_skip {l1 l2 : List Text} (h : ∀ r ∈ l1, startsSpace r = false) :
    pickExt (l1 ++ l2) = pickExt l2 := by
  induction l1 with
  | nil => rfl
  | cons a as ih =>
    have ha := h a List.mem_cons_self
    unfold startsSpace at ha
    have := ih (fun r hr => h r (List.mem_cons_of_mem _ hr))
    unfold pickExt at this ⊢
    simp only [List.cons_append, List.find?_cons, ha]
    exact this

theorem symbolExt_spaceL {rest : Text} (hb : BlocksL rest) :
    ∀ r ∈ (eatSymbolExt (' ' :: rest)).toList, startsSpace r = false := by
  intro r hr
  simp only [eatSymbolExt, eatSpace_space, Option.bind_eq_bind, Option.bind_some, Option.mem_toList] at hr
  cases hp : eatParenC rest with
  | some r' =>
    rw [hp] at hr
    simp only [Option.orElse, Option.some.injEq] at hr
    subst hr; exact hb.notParen _ hp
  | none =>
    rw [hp] at hr
    simp only [Option.orElse] at hr
    exact hb.notSign _ hr

theorem pick_spdx_noneL {rest : Text} (hb : BlocksL rest) :
    pickExt (extCandidates .spdx (' ' :: rest)) = some (' ' :: rest) := by
  have hA := symbolExt_spaceL hb
  simp only [extCandidates, eatSpace_space, Option.bind_some]
  cases hw : eat "Copyright".toList rest with
  | none =>
    simp only [List.append_nil]
    rw [pickExt_skip hA]; exact pick_first rest []
  | some r =>
    have hr := hb.notWord r hw
    simp only [eatSpace_none_of_head hr, Option.bind_eq_bind, Option.bind_none, Option.toList_none,
      List.nil_append]
    rw [List.append_assoc, pickExt_skip hA,
      pickExt_skip (l1 := [r]) (fun r' h' => by rw [List.mem_singleton.mp h']; exact hr)]
    exact pick_first rest []

theorem pick_spdx_wordL {rest : Text} (hb : BlocksL rest) :
    pickExt (extCandidates .spdx (' ' :: (wordC ++ ' ' :: rest))) = some (' ' :: rest) := by
  have hin : ∀ r ∈ (do let r' ← eatSpace (' ' :: rest); (eat copySign r').orElse fun _ => eatParenC r').toList,
      startsSpace r = false := by
    intro r hr
    simp only [eatSpace_space, Option.bind_eq_bind, Option.bind_some, Option.mem_toList] at hr
    cases hp : eat copySign rest with
    | some r' =>
      rw [hp] at hr
      simp only [Option.orElse, Option.some.injEq] at hr
      subst hr; exact hb.notSign _ hp
    | none =>
      rw [hp] at hr
      simp only [Option.orElse] at hr
      exact hb.notParen _ hr
  simp only [extCandidates, symbolExt_word, word_after_space, Option.toList_none, List.nil_append]
  rw [List.append_assoc, pickExt_skip hin]
  exact pick_first rest _

theorem pick_word_noneL {rest : Text} (hb : BlocksL rest) :
    pickExt (extCandidates .word (' ' :: rest)) = some (' ' :: rest) := by
  simp only [extCandidates]
  rw [pickExt_skip (symbolExt_spaceL hb)]
  exact pick_first rest []

def ExtPickedL (p : CPat) (E : Text) : Prop :=
  ∀ rest, BlocksL rest → pickExt (extCandidates p (E ++ ' ' :: rest)) = some (' ' :: rest)

theorem extPickedL_of_shape (x : Text × CPat × Text) (hx : x ∈ prefixShapes) : ExtPickedL x.2.1 x.2.2 := by
  simp only [prefixShapes, List.mem_cons, List.not_mem_nil, or_false] at hx
  intro rest hb
  rcases hx with rfl | rfl | rfl | rfl | rfl | rfl | rfl | rfl | rfl | rfl
  · exact pick_spdx_noneL hb
  · exact pick_spdx_paren rest
  · exact pick_spdx_word_paren rest
  · exact pick_spdx_wordL hb
  · exact pick_spdx_word_sign rest
  · exact pick_spdx_sign rest
  · exact pick_word_noneL hb
  · exact pick_word_paren rest
  · exact pick_word_sign rest
  · exact pick_sign rest

theorem dropWhile_space_restL {rest : Text} (hb : BlocksL rest) : (' ' :: rest).dropWhile isReSpace = rest := by
  obtain ⟨c, cs, rfl⟩ := List.exists_cons_of_ne_nil hb.ne
  have := hb.notSpace
  simp only [startsSpace, List.head?_cons, Option.map_some, Option.getD_some] at this
  simp [List.dropWhile_cons, isReSpace_space, this]

/-- `matchAt_built` under the weaker start condition -/
theorem matchAt_builtL (endRe : Re) (p : CPat) (E rest h : Text) (yt : Option Text)
    (hE : ExtPickedL p E) (hb : BlocksL rest) (hy : eatYear rest = (yt, h))
    (hw : noEndSuffix endRe h = true) (hlen : h.length ≤ rest.length) :
    matchAt endRe p (headText p ++ E ++ ' ' :: rest) =
      some { pref := headText p ++ E, year := yt, statement := h, whole := headText p ++ E ++ ' ' :: rest } := by
  unfold matchAt
  rw [List.append_assoc, eatHead_append, ← List.append_assoc]
  simp only [Option.bind_eq_bind, Option.bind_some]
  rw [List.append_assoc, hE rest hb]
  simp only [Option.bind_some, dropWhile_space_restL hb, hy, statementOf_wf endRe h hw, Option.pure_def,
    Option.some.injEq, CMatch.mk.injEq, true_and]
  refine ⟨?_, ?_⟩
  · have : (headText p ++ (E ++ ' ' :: rest)).length - (' ' :: rest).length = (headText p ++ E).length := by
      simp only [List.length_append, List.length_cons]; omega
    rw [this, ← List.append_assoc, List.take_left']
    rfl
  · have : (headText p ++ (E ++ ' ' :: rest)).length - h.length + h.length =
        (headText p ++ (E ++ ' ' :: rest)).length := by
      simp only [List.length_append, List.length_cons]; omega
    rw [this, List.take_length]

/-- what follows the year: the first character cannot continue a year, and the holder does not
    read as `-YYYY` + white space -/
structure HolderStartL (h : Text) : Prop where
  ne : h ≠ []
  notSpace : ∀ c cs, h = c :: cs → isReSpace c = false
  notDigit : ∀ c cs, h = c :: cs → isReDigit c = false
  noDash : dashYear h = false

theorem eatYear_noneL {h : Text} (hs : HolderStartL h) : eatYear h = (none, h) := by
  obtain ⟨c, cs, rfl⟩ := List.exists_cons_of_ne_nil hs.ne
  have := eatDigits4_notDigit (cs := cs) (hs.notDigit c cs rfl)
  simp [eatYear, eatRangeYear, eatSingleYear, this]

theorem eatSingle_okL {y h : Text} (hy : fourDigits y = true) (hs : HolderStartL h) :
    eatSingleYear (y ++ ' ' :: h) = some (y, h) := by
  obtain ⟨c, cs, rfl⟩ := List.exists_cons_of_ne_nil hs.ne
  have hcs := eatCommaSpaces_space (cs := cs) (hs.notSpace c cs rfl)
  simp [eatSingleYear, eatDigits4_four hy, hcs]

theorem eat_dash (r : Text) : eat ['-'] ('-' :: r) = some r := eat_append ['-'] r

theorem eatRange_single_failsL {y h : Text} (hy : fourDigits y = true) (hs : HolderStartL h) :
    eatRangeYear (y ++ ' ' :: h) = none := by
  obtain ⟨c, cs, rfl⟩ := List.exists_cons_of_ne_nil hs.ne
  by_cases hc : c = '-'
  · subst hc
    have hd := hs.noDash
    simp only [dashYear] at hd
    simp only [eatRangeYear, eatDigits4_four hy, eatOpt_space_hit, eat_dash, Option.bind_eq_bind,
      Option.bind_some]
    cases h4 : eatDigits4 (eatOpt ' ' cs).2 with
    | none => simp [h4]
    | some p =>
      obtain ⟨d, r'⟩ := p
      rw [h4] at hd
      simp only [Option.isSome_eq_false_iff, Option.isNone_iff_eq_none] at hd
      simp [h4, hd]
  · have hdash : eat ['-'] (c :: cs) = none := eat_head_ne (a := '-') (as := []) hc
    simp [eatRangeYear, eatDigits4_four hy, eatOpt_space_hit, hdash]

theorem eatYear_singleL {y h : Text} (hy : fourDigits y = true) (hs : HolderStartL h) :
    eatYear (y ++ ' ' :: h) = (some y, h) := by
  simp [eatYear, eatRange_single_failsL hy hs, eatSingle_okL hy hs]

theorem eatRange_okL {y1 y2 h : Text} (sp1 sp2 : Bool) (h1 : fourDigits y1 = true) (h2 : fourDigits y2 = true)
    (hs : HolderStartL h) :
    eatRangeYear (y1 ++ ((if sp1 then [' '] else []) ++ ('-' :: ((if sp2 then [' '] else []) ++ (y2 ++ ' ' :: h))))) =
      some (y1 ++ (if sp1 then [' '] else []) ++ ['-'] ++ (if sp2 then [' '] else []) ++ y2, h) := by
  obtain ⟨c, cs, rfl⟩ := List.exists_cons_of_ne_nil hs.ne
  have hcs := eatCommaSpaces_space (cs := cs) (hs.notSpace c cs rfl)
  obtain ⟨a, t, rfl, ha, _⟩ := fourDigits_head h2
  have hd2 := eatDigits4_four h2 (' ' :: c :: cs)
  cases sp1 <;> cases sp2 <;>
    simp [eatRangeYear, eatDigits4_four h1, eatOpt_space_hit, eatOpt_miss, eat_append, eat, ha, hcs, hd2, List.isPrefixOf] <;>
    simp_all [eatOpt]

/-! ### from the decidable predicates to the structures -/

theorem eatParenC_some {s r : Text} (h : eatParenC s = some r) : s = "(C)".toList ++ r ∨ s = "(c)".toList ++ r := by
  unfold eatParenC at h
  cases h1 : eat "(C)".toList s with
  | some r' =>
    rw [h1] at h
    simp only [Option.orElse, Option.some.injEq] at h
    subst h; exact .inl (eat_some h1)
  | none =>
    rw [h1] at h
    simp only [Option.orElse] at h
    exact .inr (eat_some h)

theorem starts_of_wfL (endRe : Re) (h : Text) (hw : WFHolderL endRe h = true) (hn : noNoticeInside h = true) :
    HolderStartL h ∧ BlocksL h ∧ noEndSuffix endRe h = true := by
  unfold WFHolderL at hw
  cases h with
  | nil => cases hw
  | cons c cs =>
    simp only [Bool.and_eq_true, Bool.not_eq_true'] at hw
    obtain ⟨⟨⟨⟨⟨h1, h2⟩, h3⟩, h4⟩, _⟩, h6⟩ := hw
    have htag : tagAt (c :: cs) = false := by
      simp only [noNoticeInside, Bool.and_eq_true, Bool.not_eq_true'] at hn
      exact hn.1
    have hsp : startsSpace (c :: cs) = false := by simpa [startsSpace] using h1
    have contra : ∀ {ts : List Text} {t r : Text}, t ∈ ts → hasTag ts (c :: cs) = false → c :: cs = t ++ r →
        startsSpace r = false := by
      intro ts t r ht hf e
      cases hh : startsSpace r with
      | false => rfl
      | true => rw [e, hasTag_append ht hh] at hf; cases hf
    refine ⟨⟨by simp, ?_, ?_, h4⟩, ⟨by simp, hsp, ?_, ?_, ?_⟩, h6⟩
    · intro c' cs' e; cases e; exact h1
    · intro c' cs' e; cases e; exact h2
    · intro r hr
      unfold parenStart at h3
      rcases eatParenC_some hr with e | e
      · exact contra (t := "(C)".toList) (by simp) h3 e
      · exact contra (t := "(c)".toList) (by simp) h3 e
    · intro r hr
      exact contra (t := copySign) (show copySign ∈ [copySign] from List.mem_cons_self) (tagAt_false htag .sign) (eat_some hr)
    · intro r hr
      exact contra (t := wordC) (show wordC ∈ [wordC] from List.mem_cons_self) (tagAt_false htag .word) (eat_some hr)

end Model
