import ReuseVerif.Lemmas.Ignore
namespace Spec
open Py

theorem markersDisjoint_elim {st en : Text} (h : markersDisjoint st en = true) :
    ∃ c0 ts te, st = c0 :: ts ∧ en = c0 :: te ∧ c0 ∉ ts ∧ c0 ∉ te ∧
      ts.isPrefixOf te = false ∧ te.isPrefixOf ts = false := by
  unfold markersDisjoint at h
  split at h
  · rename_i a as b bs
    simp only [Bool.and_eq_true, beq_iff_eq, Bool.not_eq_true', List.contains_eq_mem,
      decide_eq_false_iff_not] at h
    obtain ⟨⟨⟨⟨h1, h2⟩, h3⟩, h4⟩, h5⟩ := h
    subst h1
    exact ⟨a, as, bs, rfl, rfl, h2, h3, h4, h5⟩
  · cases h

/-- The model of `filter_ignore_block` is the two-state scanner, for every text. -/
theorem filter_eq_scan (st en : Text) (hst : 0 < st.length)
    (hd : markersDisjoint st en = true) (text : Text) :
    Model.filterIgnoreWith st en hst text = scan st en false 0 text := by
  obtain ⟨c0, ts, te, hs, he, hns, hne, hpse, hpes⟩ := markersDisjoint_elim hd
  have hen : 0 < en.length := by simp [he]
  fun_induction Model.filterIgnoreWith st en hst text with
  | case1 text h => exact (scan_out_none h).symm
  | case2 text i hi hj =>
    rw [scan_out_some hst hi, scan_in_none (findSub_none_drop hj _)]; simp
  | case3 text i hi j hj ie hgt ih =>
    -- the first end marker lies after the start marker
    have hpi := findSub_some_prefix hi
    have hpj := findSub_some_prefix hj
    have hij : i + st.length ≤ j := by
      rcases Nat.lt_trichotomy i j with h | h | h
      · exact occurrences_disjoint hs he hns hpi hpj h
      · subst h
        exfalso
        have h1 := List.isPrefixOf_iff_prefix.mp hpi
        have h2 := List.isPrefixOf_iff_prefix.mp hpj
        rcases Nat.le_total st.length en.length with hl | hl
        · have := List.prefix_of_prefix_length_le h1 h2 hl
          rw [hs, he, List.cons_prefix_cons] at this
          have := List.isPrefixOf_iff_prefix.mpr this.2
          simp [hpse] at this
        · have := List.prefix_of_prefix_length_le h2 h1 hl
          rw [hs, he, List.cons_prefix_cons] at this
          have := List.isPrefixOf_iff_prefix.mpr this.2
          simp [hpes] at this
      · have := occurrences_disjoint he hs hne hpj hpi h
        omega
    have hk := findSub_drop hj hij
    rw [scan_out_some hst hi, scan_in_some hen hk, ih, List.drop_drop]
    congr 3
    omega
  | case4 text i hi j hj ie hle rest k hk ih =>
    rw [scan_out_some hst hi, scan_in_some hen hk, ih]
  | case5 text i hi j hj ie hle rest hk =>
    rw [scan_out_some hst hi, scan_in_none hk]; simp

end Spec
