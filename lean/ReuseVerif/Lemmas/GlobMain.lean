import ReuseVerif.Lemmas.Glob

namespace Model
open Py Py.Re Spec

theorem replicate_succ_star (n : Nat) (g : Text) (h : 1 ≤ n) :
    List.replicate n '*' ++ g = '*' :: (List.replicate (n - 1) '*' ++ g) := by
  obtain ⟨k, rfl⟩ : ∃ k, n = k + 1 := ⟨n - 1, by omega⟩
  simp [List.replicate_succ]

/-- Every path the specification puts in the language of `g` (either reading)
    matches the translated expression. -/
theorem denotes_matches {w : Bool} {g p : Text} (h : GlobDenotes w g p) :
    Matches (seq (translate g)) p := by
  induction h with
  | nil => rw [translate_nil]; exact .eps
  | @esc c g p _ ih =>
    rw [translate_esc, matches_seq_cons]
    exact ⟨[c], p, rfl, .chr c, ih⟩
  | @lit c g p h1 h2 _ ih =>
    rw [translate_lit g h1 h2, matches_seq_cons]
    exact ⟨[c], p, rfl, .chr c, ih⟩
  | @star g s p hr hs _ ih =>
    rw [translate_star1 g hr, matches_seq_cons]
    exact ⟨s, p, rfl, matches_star_notSlash.mpr hs, ih⟩
  | @globstar n g s p hn hr _ ih =>
    rw [replicate_succ_star n g (by omega)]
    by_cases hsl : g.head? = some '/'
    · obtain ⟨g', rfl⟩ : ∃ g', g = '/' :: g' := by
        cases g with
        | nil => simp at hsl
        | cons c cs => simp at hsl; exact ⟨cs, by rw [hsl]⟩
      rw [translate_starDir _ _ (by omega), matches_seq_cons]
      rw [translate_lit g' (by decide) (by decide), matches_seq_cons] at ih
      obtain ⟨a, t, rfl, ha, ht⟩ := ih
      rw [matches_chr] at ha; subst ha
      exact ⟨s ++ ['/'], t, by simp, matches_dirsOpt.mpr (.inr ⟨s, rfl⟩), ht⟩
    · rw [translate_starN _ _ (by omega) hr hsl, matches_seq_cons]
      exact ⟨s, p, rfl, matches_star_any s, ih⟩
  | @globstarDir n g p _ hn _ ih =>
    rw [replicate_succ_star n _ (by omega), translate_starDir _ _ (by omega), matches_seq_cons]
    exact ⟨[], p, rfl, matches_dirsOpt.mpr (.inl rfl), ih⟩

/-- Everything the translated expression matches is in the wide reading. -/
theorem matches_denotes (g : Text) : ∀ p, wfGlob g = true →
    Matches (seq (translate g)) p → GlobDenotes true g p := by
  induction hlen : g.length using Nat.strongRecOn generalizing g with
  | _ len ih =>
    intro p hwf hm
    cases g with
    | nil =>
      rw [translate_nil] at hm
      cases hm; exact .nil
    | cons c g' =>
      by_cases hbs : c = '\\'
      · subst hbs
        cases g' with
        | nil => simp [wfGlob] at hwf
        | cons d g'' =>
          rw [translate_esc, matches_seq_cons] at hm
          obtain ⟨a, t, rfl, ha, ht⟩ := hm
          rw [matches_chr] at ha; subst ha
          have hwf' : wfGlob g'' = true := by simpa [wfGlob] using hwf
          exact .esc (ih g''.length (by subst hlen; simp; omega) g'' rfl t hwf' ht)
      · by_cases hst : c = '*'
        · subst hst
          obtain ⟨m, r, rfl, hr⟩ := stars_split g'
          have hwf' : wfGlob r = true := by
            have := wfGlob_replicate (m + 1) r
            rw [List.replicate_succ, List.cons_append] at this
            rw [this] at hwf; exact hwf
          have hlr : r.length < len := by subst hlen; simp; omega
          cases m with
          | zero =>
            simp only [List.replicate_zero, List.nil_append] at hm ⊢
            rw [translate_star1 r hr, matches_seq_cons] at hm
            obtain ⟨a, t, rfl, ha, ht⟩ := hm
            exact .star hr (matches_star_notSlash.mp ha) (ih r.length hlr r rfl t hwf' ht)
          | succ k =>
            have e : '*' :: (List.replicate (k + 1) '*' ++ r) = List.replicate (k + 2) '*' ++ r := by
              simp [List.replicate_succ]
            by_cases hsl : r.head? = some '/'
            · obtain ⟨r', rfl⟩ : ∃ r', r = '/' :: r' := by
                cases r with
                | nil => simp at hsl
                | cons c cs => simp at hsl; exact ⟨cs, by rw [hsl]⟩
              rw [translate_starDir _ _ (by omega), matches_seq_cons] at hm
              obtain ⟨a, t, rfl, ha, ht⟩ := hm
              have hwf'' : wfGlob r' = true := by simpa [wfGlob] using hwf'
              have ihr := ih r'.length (by simp at hlr; omega) r' rfl t hwf'' ht
              rw [e]
              rcases matches_dirsOpt.mp ha with rfl | ⟨u, rfl⟩
              · exact .globstarDir rfl (by omega) ihr
              · have : u ++ ['/'] ++ t = u ++ ('/' :: t) := by simp
                rw [this]
                exact .globstar (by omega) (by simp) (.lit (by decide) (by decide) ihr)
            · rw [translate_starN _ _ (by omega) hr hsl, matches_seq_cons] at hm
              obtain ⟨a, t, rfl, _, ht⟩ := hm
              rw [e]
              exact .globstar (by omega) hr (ih r.length hlr r rfl t hwf' ht)
        · rw [translate_lit g' hst hbs, matches_seq_cons] at hm
          obtain ⟨a, t, rfl, ha, ht⟩ := hm
          rw [matches_chr] at ha; subst ha
          have hwf' : wfGlob g' = true := by
            rw [wfGlob] at hwf
            · exact hwf
            all_goals (intros; simp_all)
          exact .lit hst hbs (ih g'.length (by subst hlen; simp) g' rfl t hwf' ht)

end Model
