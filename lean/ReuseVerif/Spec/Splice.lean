/-
Spec for C08 "annotate changes nothing but the header".

`SpliceAt hdr pre post out`: `out` is the new header block `hdr` (with its line end) set
between what stood above the replaced / inserted block (`pre`) and what stood below it
(`post`), where
  * above the header only white space at the two ends of `pre` may have gone, and exactly one
    empty line separates the rest from the header (`Above`);
  * below the header `post` is kept byte for byte, possibly after one inserted empty line; a
    `post` made of white space only may go (`Below`).
`Splice hdr t out`: `t` splits as `pre ++ old ++ post` with `SpliceAt hdr pre post out` — the
only region of `t` that is not carried over is `old` (and white space next to it).

Also the two line-ending translations of `add_header_to_file` as letter-to-string maps, and
the decidable hypothesis predicates (`NoExoticBreaks`, `NoCR`).
-/
import ReuseVerif.Model.Header

namespace Spec
open Py Model

/-- white space only: what `str.strip()` reduces to the empty string -/
def Blank (t : Text) : Prop := t.all isSpace = true

instance (t : Text) : Decidable (Blank t) := inferInstanceAs (Decidable (_ = true))

/-- what stands above the new header, given what stood above the block before -/
inductive Above (pre : Text) : Text → Prop
  /-- nothing but white space stood above: the header goes first -/
  | none : Blank pre → Above pre []
  /-- `pre` without white space at its two ends, then one empty line -/
  | kept (w₁ core w₂ : Text) : pre = w₁ ++ core ++ w₂ → Blank w₁ → Blank w₂ → core ≠ [] →
      rstrip core = core → Above pre (core ++ ['\n', '\n'])

/-- what stands below the new header, given what stood below the block before -/
inductive Below (post : Text) : Text → Prop
  | none : Blank post → Below post []
  | same : ¬ Blank post → Below post post
  | line : ¬ Blank post → Below post ('\n' :: post)

/-- `out` = (rest of `pre`) header line-end (rest of `post`) -/
def SpliceAt (hdr pre post out : Text) : Prop :=
  ∃ a b, out = a ++ hdr ++ ['\n'] ++ b ∧ Above pre a ∧ Below post b

/-- `out` is `t` with one region replaced by the header block -/
def Splice (hdr t out : Text) : Prop :=
  ∃ pre old post, t = pre ++ old ++ post ∧ SpliceAt hdr pre post out

/-- no line boundary other than `\n` (`str.splitlines` also breaks at
    `\r \v \f \x1c \x1d \x1e \x85 U+2028 U+2029`) -/
def NoExoticBreaks (t : Text) : Prop := ∀ ch ∈ t, isLineBreak ch = true → ch = '\n'

instance (t : Text) : Decidable (NoExoticBreaks t) := inferInstanceAs (Decidable (∀ ch ∈ t, _))

/-- no carriage return: the text uses `\n` only -/
def NoCR (t : Text) : Prop := ∀ ch ∈ t, ch ≠ '\r'

instance (t : Text) : Decidable (NoCR t) := inferInstanceAs (Decidable (∀ ch ∈ t, _))

/-- an LF text written with CRLF line ends (`open(newline="\r\n")`) -/
def toCRLF (t : Text) : Text := t.flatMap fun ch => if ch = '\n' then ['\r', '\n'] else [ch]

/-- an LF text written with CR line ends (`open(newline="\r")`) -/
def toCR (t : Text) : Text := t.map fun ch => if ch = '\n' then '\r' else ch

/-- the sections `find_and_replace_header` works with: what `_find_first_spdx_comment` returns (or
    `("", "", text)`), `after` emptied for the `.license` pseudo style, the shebang moved -/
def replaceSections (c : HdrCfg) (t : Text) : Text × Text × Text :=
  let s := match findFirstSpdxComment c t with
    | some x => x
    | none => ([], [], t)
  let after := if c.style.name == "EmptyCommentStyle" then [] else s.2.2
  moveShebang c.style.shebangs s.1 s.2.1 after

/-- the sections `add_new_header` works with: (shebang lines, rest) -/
def addSections (c : HdrCfg) (t : Text) : Text × Text :=
  match c.style.shebangs.find? (startsWith t ·) with
  | some sb => extractShebang sb t
  | none => ([], t)

end Spec
