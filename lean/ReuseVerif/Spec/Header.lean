/-
Declarative pieces for C07 / C09: what "the text declares the information" means, the parts a
successful annotation is made of, and the decidable hypotheses of the `_partial` theorems (the
driver evaluates them per case: op `c07file`).
-/
import ReuseVerif.Model.Header

namespace Spec
open Py Model

/-- every notice of `cpr` and every expression of `lic` (as the parser normalises it) is among
    what was extracted -/
def Declares (norm : Text → Text) (e : Extracted) (cpr lic : List Text) : Prop :=
  (∀ x ∈ cpr, x ∈ e.cpr) ∧ (∀ x ∈ lic, norm x ∈ e.lic.map norm)

def declaresB (norm : Text → Text) (e : Extracted) (cpr lic : List Text) : Bool :=
  cpr.all (e.cpr.contains ·) && lic.all (fun x => (e.lic.map norm).contains (norm x))

theorem declaresB_iff (norm : Text → Text) (e : Extracted) (cpr lic : List Text) :
    declaresB norm e cpr lic = true ↔ Declares norm e cpr lic := by
  unfold declaresB Declares
  simp only [Bool.and_eq_true, List.all_eq_true, List.contains_eq_mem, decide_eq_true_eq]

/-- the three parts of a successful `find_and_replace_header` / `add_new_header`:
    (new header, text in front, text behind, was there a header) — the result is
    `placeHeader` of them -/
def headerParts (c : HdrCfg) (replace : Bool) (info : Extracted) (text : Text) :
    Except HeaderErr (Text × Text × Text × Bool) :=
  if replace then
    let found :=
      match findFirstSpdxComment c text with
      | some x => x
      | none => ([], [], text)
    let after := if c.style.name == "EmptyCommentStyle" then [] else found.2.2
    let moved := moveShebang c.style.shebangs found.1 found.2.1 after
    match createHeader c info moved.2.1 with
    | .error e => .error e
    | .ok nh => .ok (nh, moved.1, moved.2.2, !moved.2.1.isEmpty)
  else
    let sb :=
      match c.style.shebangs.find? (startsWith text ·) with
      | some sb => extractShebang sb text
      | none => ([], text)
    match createHeader c info [] with
    | .error e => .error e
    | .ok nh => .ok (nh, sb.1, sb.2, false)

/-- the old header block that `create_header` merges with (empty when none is replaced) -/
def oldHeader (c : HdrCfg) (replace : Bool) (text : Text) : Text :=
  if replace then
    let found :=
      match findFirstSpdxComment c text with
      | some x => x
      | none => ([], [], text)
    let after := if c.style.name == "EmptyCommentStyle" then [] else found.2.2
    (moveShebang c.style.shebangs found.1 found.2.1 after).2.1
  else []

/-- no ignore region opens anywhere in the text -/
def noIgnoreStart (t : Text) : Bool := (findSub Generated.ignoreStart t).isNone

/-- hypothesis of the file-level theorems: the tag values (licence expressions, contributors)
    found in the header block alone are found in the whole text.  (The END part of the tag
    pattern may cross a line break, so this is checked per case rather than proved.) -/
def tagsCompose (hdr full : Text) : Bool :=
  (extractRaw hdr).lic.all ((extractRaw full).lic.contains ·) &&
  (extractRaw hdr).con.all ((extractRaw full).con.contains ·)

end Spec
