/-
C02 — what a tag line is, and the decidable hypotheses of the read-back theorems
(`Theorems/C02.lean`).  The driver evaluates these predicates on every case of the
planted-value grid (`c02hyp` in `Driver/Ops/C02.lean`); where they hold, the
implementation must return exactly the planted value.

A physical tag line is

    pre ++ tag ++ blanks ++ w ++ trail ++ le

* `pre`    — everything before the tag: indentation, comment marker, frame characters;
* `blanks` — at least one blank or tab;
* `w`      — what the regular expression is meant to capture (the value, possibly followed by
             white space and the mirrored frame suffix);
* `trail`  — blanks and comment terminators (any text END accepts up to the line end);
* `le`     — the line end: nothing (end of the text) or "\n".
-/
import ReuseVerif.Model.Window

namespace Spec
open Py Model

/-- `TAG[ \t]` starts at the beginning of `s` -/
def tagHere (tag s : Text) : Bool :=
  tag.isPrefixOf s && ((s.drop tag.length).head?.map isBlank).getD false

/-- no `TAG[ \t]` starts inside `pre` when `rest` follows it -/
def noEarlierTag (tag : Text) : Text → Text → Bool
  | [], _ => true
  | c :: cs, rest => !tagHere tag (c :: cs ++ rest) && noEarlierTag tag cs rest

/-- END, started here, reaches a line end -/
def endOk (endRe : Re) (s : Text) : Bool := (matchEndWith endRe s).isSome

/-- no non-empty suffix of `w`, read together with what follows it, is taken for terminators:
    the inherent ambiguity between the tail of a value and a comment terminator -/
def noEndSuffixBefore (endRe : Re) : Text → Text → Bool
  | [], _ => true
  | c :: cs, tail => !endOk endRe (c :: cs ++ tail) && noEndSuffixBefore endRe cs tail

def noNewline (s : Text) : Bool := s.all (· != '\n')

def isLineEnd (le : Text) : Bool := le == [] || le == ['\n']

/-- the physical line -/
def tagLine (pre tag blanks w trail le : Text) : Text := pre ++ tag ++ blanks ++ w ++ trail ++ le

/-- The shape of a physical tag line: `pre` on one line without an earlier `TAG[ \t]`, at least
    one blank, a value on one line that does not start with a blank, a trail on the same line. -/
def WFShape (tag pre blanks w trail le : Text) : Bool :=
  noNewline pre && noEarlierTag tag pre (tag ++ blanks ++ w ++ trail ++ le) &&
  !blanks.isEmpty && blanks.all isBlank &&
  (w.head?.map (fun c => !isBlank c)).getD false && noNewline w &&
  noNewline trail && isLineEnd le

/-- Hypotheses of the regular-expression part (the match is `(pre, w)`): the shape, END accepts
    the trail up to the line end, and no tail of `w` can be taken for terminators. -/
def WFRaw (endRe : Re) (tag pre blanks w trail le : Text) : Bool :=
  WFShape tag pre blanks w trail le &&
  endOk endRe (trail ++ le) && noEndSuffixBefore endRe w (trail ++ le)

/-- the mirror image of the stripped line prefix -/
def mirror (pre : Text) : Text := (strip pre).reverse

/-- `v` does not end with the mirrored line prefix set off by white space (and is not that
    mirror image itself): the inherent ambiguity between a frame and the tail of a value -/
def frameFree (pre v : Text) : Bool :=
  let suffix := mirror pre
  !(!suffix.isEmpty && suffix.isSuffixOf v &&
      (v.length == suffix.length ||
        ((v.take (v.length - suffix.length)).getLast?.map isSpace).getD false))

def isStripped (v : Text) : Bool := strip v == v

/-- "The value its author wrote": stripped, on one line, not ending like a terminator in this
    line, not ending like the frame of this line. -/
def WFValue (endRe : Re) (tag pre blanks v trail le : Text) : Bool :=
  WFRaw endRe tag pre blanks v trail le && isStripped v && frameFree pre v

/-- a framed line: the value, white space, the mirror image of the line prefix -/
def WFFramed (endRe : Re) (tag pre blanks v ws trail le : Text) : Bool :=
  WFRaw endRe tag pre blanks (v ++ ws ++ mirror pre) trail le && isStripped v &&
  !ws.isEmpty && ws.all isSpace && !(mirror pre).isEmpty

/-- the characters a regular expression of the fragment can consume at all -/
def mayUse : Re → Char → Bool
  | .eps, _ => false
  | .chr d, c => c == d
  | .cls neg rs, c => Re.clsMatch neg rs c
  | .cat a b, c => mayUse a c || mayUse b c
  | .alt a b, c => mayUse a c || mayUse b c
  | .star a, c => mayUse a c

/-- the literal text a regular expression spells, if it is a literal (`Re.lit t`) -/
def litOf : Re → Option Text
  | .eps => some []
  | .cat (.chr c) r => (litOf r).map (c :: ·)
  | _ => none

/-- one of the alternatives of `r` is the literal `t` -/
def altHasLit : Re → Text → Bool
  | .alt a b, t => altHasLit a t || altHasLit b t
  | r, t => litOf r == some t

/-- the repeated body of a starred expression -/
def starBody : Re → Option Re
  | .star a => some a
  | _ => none

/-- every multi-line terminator of the style table is an alternative of END's starred body,
    and so is the single blank -/
def endCoversStyles (endRe : Re) (styles : List Generated.Style) : Bool :=
  match starBody endRe with
  | none => false
  | some body => styles.all fun s => s.mEnd.isEmpty || altHasLit body s.mEnd

/-- one of the alternatives of `r` is a character class accepting `c` -/
def altHasCls : Re → Char → Bool
  | .alt a b, c => altHasCls a c || altHasCls b c
  | .cls neg rs, c => Re.clsMatch neg rs c
  | _, _ => false

/-- a trail made of pieces: each a blank/tab or a literal terminator that END lists -/
def pieceOk (body : Re) (p : Text) : Bool :=
  altHasLit body p || (match p with | [c] => altHasCls body c | _ => false)

end Spec

namespace Spec
open Py Model

/-- END, started after the value of a tag line, stops at the end of *this* line although text
    follows (its `\s*` parts could otherwise run on into the next line, as in `"` newline `/>`) -/
def endStopsAt (endRe : Re) (trail rest : Text) : Bool :=
  matchEndWith endRe (trail ++ '\n' :: rest) == some ('\n' :: rest)

/-- one tag line of a text -/
structure TagLineSpec where
  pre : Text
  blanks : Text
  v : Text
  trail : Text

def TagLineSpec.text (tag : Text) (l : TagLineSpec) : Text := l.pre ++ tag ++ l.blanks ++ l.v ++ l.trail ++ ['\n']

/-- the text made of the given tag lines, each ended by "\n" -/
def linesText (tag : Text) : List TagLineSpec → Text
  | [] => []
  | l :: ls => l.text tag ++ linesText tag ls

/-- every line is well formed *in its place*: the hypotheses of the one-line theorem, read with
    the rest of the text following the line -/
def WFLines (endRe : Re) (tag : Text) : List TagLineSpec → Bool
  | [] => true
  | l :: ls =>
    WFShape tag l.pre l.blanks l.v l.trail ['\n'] &&
    noEarlierTag tag l.pre (tag ++ l.blanks ++ l.v ++ l.trail ++ '\n' :: linesText tag ls) &&
    endStopsAt endRe l.trail (linesText tag ls) &&
    noEndSuffixBefore endRe l.v (l.trail ++ '\n' :: linesText tag ls) &&
    isStripped l.v && frameFree l.pre l.v &&
    WFLines endRe tag ls

end Spec

namespace Spec
open Py Model

/-- can the expression match the empty text? -/
def nullable : Re → Bool
  | .eps => true
  | .chr _ => false
  | .cls _ _ => false
  | .cat a b => nullable a && nullable b
  | .alt a b => nullable a || nullable b
  | .star _ => true

/-- can a non-empty match of the expression begin with `c`? -/
def canStart : Re → Char → Bool
  | .eps, _ => false
  | .chr d, c => c == d
  | .cls neg rs, c => Re.clsMatch neg rs c
  | .cat a b, c => canStart a c || (nullable a && canStart b c)
  | .alt a b, c => canStart a c || canStart b c
  | .star a, c => canStart a c

end Spec

namespace Spec
open Py Model

/-- lines, each ended by "\n" -/
def joinLines : List Text → Text
  | [] => []
  | l :: ls => l ++ '\n' :: joinLines ls

/-- a line (without its line feed) in which no `TAG[ \t]` starts -/
def tagFreeLine (tag l : Text) : Bool := noNewline l && noEarlierTag tag l ['\n']

end Spec
