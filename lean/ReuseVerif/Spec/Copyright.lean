/-
Hypotheses of the C20 read-back theorem as decidable predicates, and the shapes
of the generated prefix table.
-/
import ReuseVerif.Model.Copyright

namespace Spec
open Py Model

/-- a year as `--year` / the year option produce it -/
inductive YearForm where
  | none
  | single (y : Text)
  | range (y1 : Text) (sp1 : Bool) (sp2 : Bool) (y2 : Text)     -- `y1[ ]-[ ]y2`

def fourDigits (y : Text) : Bool := y.length == 4 && y.all isReDigit

def YearForm.wf : YearForm → Bool
  | .none => true
  | .single y => fourDigits y
  | .range y1 _ _ y2 => fourDigits y1 && fourDigits y2

def YearForm.text : YearForm → Option Text
  | .none => Option.none
  | .single y => some y
  | .range y1 sp1 sp2 y2 => some (y1 ++ (if sp1 then [' '] else []) ++ ['-'] ++ (if sp2 then [' '] else []) ++ y2)

/-- END followed by the end of the string -/
def endAccepts (endRe : Re) (s : Text) : Bool := Re.bt endRe s (fun r => r.isEmpty || r == ['\n'])

/-- no non-empty suffix of `h` is swallowed by END -/
def noEndSuffix (endRe : Re) : Text → Bool
  | [] => true
  | c :: cs => !endAccepts endRe (c :: cs) && noEndSuffix endRe cs

/-- The holders the read-back theorem covers: non-empty, not starting with white space, a digit,
    `-`, `(`, the copyright sign or the word `Copyright` (each of which would be read as part of
    the year or of the prefix), and without a tail made of comment terminators. -/
def WFHolder (endRe : Re) (h : Text) : Bool :=
  match h with
  | [] => false
  | c :: _ =>
    !isReSpace c && !isReDigit c && c != '-' && c != '(' && c != Char.ofNat 0xa9 &&
    !("Copyright".toList).isPrefixOf h && noEndSuffix endRe h

/-- the pattern a prefix text belongs to and what follows the mandatory head -/
def prefixShapes : List (Text × CPat × Text) := [
  ("SPDX-FileCopyrightText:".toList, .spdx, []),
  ("SPDX-FileCopyrightText: (C)".toList, .spdx, " (C)".toList),
  ("SPDX-FileCopyrightText: Copyright (C)".toList, .spdx, " Copyright (C)".toList),
  ("SPDX-FileCopyrightText: Copyright".toList, .spdx, " Copyright".toList),
  ("SPDX-FileCopyrightText: Copyright ©".toList, .spdx, " Copyright ©".toList),
  ("SPDX-FileCopyrightText: ©".toList, .spdx, " ©".toList),
  ("Copyright".toList, .word, []),
  ("Copyright (C)".toList, .word, " (C)".toList),
  ("Copyright ©".toList, .word, " ©".toList),
  ("©".toList, .sign, [])]

/-- the line `make_copyright_line` builds -/
def builtLine (prefixText : Text) (y : YearForm) (h : Text) : Text :=
  match y.text with
  | some t => prefixText ++ [' '] ++ t ++ [' '] ++ h
  | Option.none => prefixText ++ [' '] ++ h

end Spec
