/-
Declarative reading of property C05, stated on the raw glob text.
`GlobDenotes wide g p`: path `p` is in the language of glob `g`.
* a backslash makes the following character literal;
* a maximal run of unescaped asterisks of length 1 denotes any string without '/';
* a maximal run of length ≥ 2 denotes any string;
* every other character denotes itself;
* the whole path must be consumed.
`wide = false` is the written specification (Narrow).  `wide = true` adds the
established reading that `**/` may also stand for no directory at all (Wide).
A lone final backslash is not given a meaning (`wfGlob` excludes it).
-/
import ReuseVerif.Py.Str

namespace Spec
open Py

inductive GlobDenotes (wide : Bool) : Text → Text → Prop where
  | nil : GlobDenotes wide [] []
  | esc {c g p} : GlobDenotes wide g p → GlobDenotes wide ('\\' :: c :: g) (c :: p)
  | lit {c g p} : c ≠ '*' → c ≠ '\\' → GlobDenotes wide g p → GlobDenotes wide (c :: g) (c :: p)
  | star {g s p} : g.head? ≠ some '*' → '/' ∉ s → GlobDenotes wide g p →
      GlobDenotes wide ('*' :: g) (s ++ p)
  | globstar {n g s p} : 2 ≤ n → g.head? ≠ some '*' → GlobDenotes wide g p →
      GlobDenotes wide (List.replicate n '*' ++ g) (s ++ p)
  | globstarDir {n g p} : wide = true → 2 ≤ n → GlobDenotes wide g p →
      GlobDenotes wide (List.replicate n '*' ++ '/' :: g) p

abbrev Narrow := GlobDenotes false
abbrev Wide := GlobDenotes true

/-- no lone backslash at the very end -/
def wfGlob : Text → Bool
  | [] => true
  | ['\\'] => false
  | '\\' :: _ :: r => wfGlob r
  | _ :: r => wfGlob r

theorem narrow_le_wide {g p : Text} (h : Narrow g p) : Wide g p := by
  induction h with
  | nil => exact .nil
  | esc _ ih => exact .esc ih
  | lit h1 h2 _ ih => exact .lit h1 h2 ih
  | star h1 h2 _ ih => exact .star h1 h2 ih
  | globstar h1 h2 _ ih => exact .globstar h1 h2 ih
  | globstarDir h _ _ _ => cases h

end Spec
