/-
Declarative reading of property C01 on the *tree* (the input of the composed model
`Model.lintE2E`): clauses (a)–(d) said about covered files (C03's `CoveredIn`), what the
sources-and-precedence rules attribute to them (C04's `SpecItem`) and the entries of
LICENSES/ (C06's `Provided`, `carried`).  The glue notions — which bytes are a file's own
source, which REUSE.toml tables form its chain, which files are licence texts — have their
own declarative statements (`OwnSourceIs`, `LicIn` / `LinkedText`; theorems `C01_e2e_own_source`,
`C01_e2e_level_last_match`, `C01_e2e_tomls`, `C01_e2e_licences`, `C01_e2e_linked_text`).
-/
import ReuseVerif.Model.LintE2E
import ReuseVerif.Spec.Covered
import ReuseVerif.Spec.Precedence
import ReuseVerif.Spec.Report

namespace Spec
open Py Model

/-- following the components of `p` from a directory with entries `cs` leads to node `n` -/
inductive EAt : ETree → List String → ENode → Prop where
  | last {cs name n} : (name, n) ∈ cs → EAt cs [name] n
  | step {cs name sub p n} : (name, ENode.dir sub) ∈ cs → EAt sub p n → EAt cs (name :: p) n

mutual
/-- the names within one directory are distinct, everywhere in the tree (any real file system) -/
def wfNode : ENode → Prop
  | .dir cs => wfEntries cs
  | _ => True
def wfEntries : List (String × ENode) → Prop
  | [] => True
  | (n, c) :: rest => (∀ e ∈ rest, e.1 ≠ n) ∧ wfNode c ∧ wfEntries rest
end

/-- `p` is a covered file of the tree (C03) -/
def CoveredT (c : E2ECfg) (tree : ETree) (p : List String) : Prop :=
  CoveredIn (c.walk false) [] "" (toNodes tree) p

/-- the file can be reported on: its own source can be opened, or an `override` means it is not opened -/
def ReadableT (c : E2ECfg) (g : GlobalLic) (tree : ETree) (p : List String) : Prop :=
  (ownAt tree p).isUnreadable = true → hasOverride (chainOf c g p) = true

/-- what the sources-and-precedence rules (C04) attribute to the covered file `p` -/
def AttributedT (c : E2ECfg) (g : GlobalLic) (tree : ETree) (p : List String) (it : Item) : Prop :=
  SpecItem (chainOf c g p) (fileInfoOf c p (ownAt tree p)) it

def HasNotice (c : E2ECfg) (g : GlobalLic) (tree : ETree) (p : List String) : Prop :=
  ∃ it, AttributedT c g tree p it ∧ it.kind = .cpr ∧ isBlankStr it.value = false

def HasLicence (c : E2ECfg) (g : GlobalLic) (tree : ETree) (p : List String) : Prop :=
  ∃ it, AttributedT c g tree p it ∧ it.kind = .lic ∧ c.keysOf it.value ≠ []

/-- the readable covered file `p` has an expression that mentions `k` -/
def UsedByT (c : E2ECfg) (g : GlobalLic) (tree : ETree) (k : Text) (p : List String) : Prop :=
  CoveredT c tree p ∧ ReadableT c g tree p ∧
    ∃ it, AttributedT c g tree p it ∧ it.kind = .lic ∧ k ∈ c.keysOf it.value

def UsedT (c : E2ECfg) (g : GlobalLic) (tree : ETree) (k : Text) : Prop := ∃ p, UsedByT c g tree k p

/-- a licence text below LICENSES/ carries `k` -/
def ProvidedT (tbl : LicenseMap) (tree : ETree) (k : Text) : Prop := Provided tbl (licFilesOf tree) k

/-- (a) every covered file that can be read has a copyright notice and a licence expression -/
def TreeClauseA (c : E2ECfg) (g : GlobalLic) (tree : ETree) : Prop :=
  ∀ p, CoveredT c tree p → ReadableT c g tree p → HasNotice c g tree p ∧ HasLicence c g tree p

/-- (b) every identifier used is valid and has its text in LICENSES/ -/
def TreeClauseB (tbl : LicenseMap) (c : E2ECfg) (g : GlobalLic) (tree : ETree) : Prop :=
  ∀ k, UsedT c g tree k →
    (Valid tbl k ∨ Valid tbl (stripPlus k)) ∧ (ProvidedT tbl tree k ∨ ProvidedT tbl tree (stripPlus k))

/-- (c) every LICENSES/ entry carries a valid, non-deprecated identifier with an extension and is used -/
def TreeClauseC (tbl : LicenseMap) (c : E2ECfg) (g : GlobalLic) (tree : ETree) : Prop :=
  ∀ q ∈ licFilesOf tree, isLicFile q = true →
    let x := carried tbl (pathName q)
    Valid tbl x.1 ∧ tbl.deprecated x.1 = false ∧ x.2 = false ∧ (UsedT c g tree x.1 ∨ UsedT c g tree (addPlus x.1))

/-- (d) every covered file can be read -/
def TreeClauseD (c : E2ECfg) (g : GlobalLic) (tree : ETree) : Prop :=
  ∀ p, CoveredT c tree p → ReadableT c g tree p

def TreeCompliant (tbl : LicenseMap) (c : E2ECfg) (g : GlobalLic) (tree : ETree) : Prop :=
  TreeClauseA c g tree ∧ TreeClauseB tbl c g tree ∧ TreeClauseC tbl c g tree ∧ TreeClauseD c g tree

/-- hypothesis of the verdict theorem: no copyright line attributed to a covered file is blank
    (`SPDX-FileCopyrightText = ""` in a REUSE.toml is the only way to get one; the report does not
    count it as a notice — `joinedNonEmpty` — while the tree-level clause (a) counts attributed items) -/
def NoEmptyNotice (c : E2ECfg) (g : GlobalLic) (tree : ETree) : Prop :=
  ∀ p it, CoveredT c tree p → AttributedT c g tree p it → it.kind = .cpr → isBlankStr it.value = false

/-- the same on the model's output (what the driver evaluates) -/
def noEmptyNoticeB (files : List EFile) : Bool :=
  files.all fun f => (itemsOf f.infos).all fun it => !(it.kind == .cpr && isBlankStr it.value)

/-- the own source of the regular file at `dir ++ [name]` with bytes `content`: the bytes of
    `name.license` when that is a regular file; unreadable when it is a directory; the file itself
    when there is no such entry (a symlink there is read as a dangling one) -/
inductive OwnSourceIs (tree : ETree) (dir : List String) (name : String) (content : Bytes) : Own → Prop where
  | sibling {b} : EAt tree (dir ++ [name ++ ".license"]) (.file b) → OwnSourceIs tree dir name content (.bytes b true)
  | siblingDir {sub} : EAt tree (dir ++ [name ++ ".license"]) (.dir sub) → OwnSourceIs tree dir name content .unreadable
  | self : (∀ b, ¬ EAt tree (dir ++ [name ++ ".license"]) (.file b)) →
      (∀ sub, ¬ EAt tree (dir ++ [name ++ ".license"]) (.dir sub)) → OwnSourceIs tree dir name content (.bytes content false)

/-- below a directory of LICENSES/ (entries `cs`) the relative path `rel` is a licence text: a regular
    file, or a symbolic link that resolves to one (named by the link's own name), reached through real
    directories and symbolic links that resolve to directories, no component hidden -/
inductive LicIn : List (String × ENode) → List String → Prop where
  | file {cs name b} : (name, ENode.file b) ∈ cs → hiddenName name = false → LicIn cs [name]
  | dir {cs name sub rel} : (name, ENode.dir sub) ∈ cs → hiddenName name = false → LicIn sub rel →
      LicIn cs (name :: rel)
  | linkFile {cs name b} : (name, ENode.symlink (.file b)) ∈ cs → hiddenName name = false → LicIn cs [name]
  | linkDir {cs name sub rel} : (name, ENode.symlink (.dir sub)) ∈ cs → hiddenName name = false → LicIn sub rel →
      LicIn cs (name :: rel)

/-! The same said entry by entry: what `stat` (which follows symbolic links) finds at a node. -/

/-- a regular file, or a symbolic link that resolves to one -/
def FileOrLinkToFile (n : ENode) : Prop := (∃ b, n = .file b) ∨ (∃ b, n = .symlink (.file b))

/-- a directory with entries `sub`, or a symbolic link that resolves to one -/
def DirOrLinkToDir (n : ENode) (sub : ETree) : Prop := n = .dir sub ∨ n = .symlink (.dir sub)

/-- following the components of `p` from a directory with entries `cs` — through directories and
    through symbolic links that resolve to directories — leads to the entry `n` (itself not followed) -/
inductive LAt : ETree → List String → ENode → Prop where
  | last {cs name n} : (name, n) ∈ cs → LAt cs [name] n
  | step {cs name d sub p n} : (name, d) ∈ cs → DirOrLinkToDir d sub → LAt sub p n → LAt cs (name :: p) n

/-- the LICENSES/ entry at `rel` (below the directory with entries `cs`) is a licence text of the
    project as far as the file system goes: no component of `rel` is hidden, the directories on the
    way are real or linked ones, the entry is a regular file or a link that resolves to one
    (a dangling link is not; the name filter `*.license` is `isLicFile`, applied to the path) -/
def LinkedText (cs : ETree) (rel : List String) : Prop :=
  ∃ n, LAt cs rel n ∧ FileOrLinkToFile n ∧ ∀ x ∈ rel, hiddenName x = false

end Spec
