/-
The syntactic conditions of the *unconditional* C20 read-back theorem (`C20.C20_make_parse`):
the holders the theorem covers (`WFHolderL`, the Lean counterpart of `wf_holder` of
harness/props/c20.py) and "no notice inside the holder" (`noNoticeInside`), both written
without reference to the model of the reader: four tag texts, white space, digits.
Evaluated by the driver on every case of the tie stream `theorem` (op `c20wf`).
-/
import ReuseVerif.Spec.Copyright

namespace Spec
open Py Model

/-- the first character, if any, is white space -/
def startsSpace (s : Text) : Bool := (s.head?.map isReSpace).getD false

/-- the texts with which the three reader patterns begin -/
def tagsOf : CPat → List Text
  | .spdx => ["SPDX-FileCopyrightText:".toList, "SPDX-SnippetCopyrightText:".toList]
  | .word => ["Copyright".toList]
  | .sign => [[Char.ofNat 0xa9]]

/-- `s` begins with one of the tags `ts` followed by white space -/
def hasTag (ts : List Text) (s : Text) : Bool :=
  ts.any fun t => t.isPrefixOf s && startsSpace (s.drop t.length)

/-- `s` begins with a notice tag (of any of the three patterns) followed by white space -/
def tagAt (s : Text) : Bool :=
  hasTag (tagsOf .spdx) s || hasTag (tagsOf .word) s || hasTag (tagsOf .sign) s

/-- Nowhere in `h` stands `SPDX-FileCopyrightText:` / `SPDX-SnippetCopyrightText:` / `Copyright` / `©`
    followed by white space (`NOTICE_START.search(h) is None` of the harness).  A tag glued to more
    characters (`Copyrighted Works Ltd.`, `©tudio`) or at the very end (`Acme Copyright`) is allowed. -/
def noNoticeInside : Text → Bool
  | [] => true
  | c :: cs => !tagAt (c :: cs) && noNoticeInside cs

/-- `(C)` or `(c)` followed by white space: in front of a holder it would extend the prefix -/
def parenStart (h : Text) : Bool :=
  hasTag ["(C)".toList, "(c)".toList] h

/-- `- ?\d{4},?\s`: after a single year such a holder would be read as the end of a year range -/
def dashYear : Text → Bool
  | '-' :: r =>
    match eatDigits4 (eatOpt ' ' r).2 with
    | some (_, r') => (eatCommaSpaces r').isSome
    | none => false
  | _ => false

/-- The holders the unconditional read-back theorem covers: non-empty, no line feed, first
    character neither white space nor a digit (it would be read as a year), not beginning with
    `(C)` / `(c)` + white space (would extend the prefix) nor with `-YYYY` + white space (would extend
    a single year to a range), and no tail made of comment terminators / blanks (the reader cuts
    it off).  Together with `noNoticeInside` this is `wf_holder` of harness/props/c20.py, except
    that line breaks other than LF are allowed here. -/
def WFHolderL (endRe : Re) (h : Text) : Bool :=
  match h with
  | [] => false
  | c :: _ =>
    !isReSpace c && !isReDigit c && !parenStart h && !dashYear h && !h.contains '\n' &&
    noEndSuffix endRe h

end Spec

/-! ### merging, stated on lines (`C20.C20_merge_lines`) -/

namespace Spec
open Py Model

/-- the years a year form states -/
def YearForm.stated : YearForm → List Text
  | .none => []
  | .single y => [y]
  | .range y1 _ _ y2 => [y1, y2]

/-- one input notice of `merge_copyright_lines`: an entry of the prefix table, a year form, a holder -/
structure Notice where
  shape : Text × CPat × Text
  year : YearForm
  holder : Text

/-- the line `make_copyright_line` builds for it -/
def Notice.line (n : Notice) : Text := builtLine n.shape.1 n.year n.holder

/-- well-formed parts: the hypotheses of `C20_make_parse` -/
def Notice.ok (endRe : Re) (n : Notice) : Prop :=
  n.shape ∈ prefixShapes ∧ n.year.wf = true ∧ WFHolderL endRe n.holder = true ∧ noNoticeInside n.holder = true

/-- every year stated for holder `h` in the input -/
def statedFor (ns : List Notice) (h : Text) : List Text :=
  (ns.filter (·.holder == h)).flatMap (·.year.stated)

/-- the prefix texts of the notices of holder `h` -/
def prefixesFor (ns : List Notice) (h : Text) : List Text :=
  (ns.filter (·.holder == h)).map (·.shape.1)

/-- the year form of the merged line -/
def mergedForm (years : List Text) : YearForm :=
  match yearMin years, yearMax years with
  | some lo, some hi => if yearVal lo == yearVal hi then .single lo else .range lo true true hi
  | _, _ => .none

/-- `o` is the merged line of holder `h`: a built line (table prefix — the most common one among the
    holder's notices —, well-formed year form, the holder) which the tool's reader reads back as
    exactly that prefix, year and holder; no year if none was stated, else a single year or a range
    `lo - hi` whose ends are stated years and numerically enclose every year stated for `h`. -/
def MergedLine (endRe : Re) (ns : List Notice) (h o : Text) : Prop :=
  ∃ px ∈ prefixShapes, ∃ ym : YearForm,
    ym.wf = true ∧ o = builtLine px.1 ym h ∧
    searchLineWith endRe o = some { pref := px.1, year := ym.text, statement := h, whole := o } ∧
    parseYear ym.text = ym.stated ∧
    px.1 ∈ prefixesFor ns h ∧
    (∀ p ∈ prefixesFor ns h, (prefixesFor ns h).count p ≤ (prefixesFor ns h).count px.1) ∧
    ((statedFor ns h = [] ∧ ym = .none) ∨
     ∃ lo ∈ statedFor ns h, ∃ hi ∈ statedFor ns h,
       (∀ y ∈ statedFor ns h, yearVal lo ≤ yearVal y ∧ yearVal y ≤ yearVal hi) ∧
       ((yearVal lo = yearVal hi ∧ ym = .single lo) ∨ (yearVal lo < yearVal hi ∧ ym = .range lo true true hi)))

end Spec

namespace Spec
open Py Model

/-- a year as people type it after `--year`: four ASCII digits -/
def asciiDigit (c : Char) : Bool := decide (48 ≤ c.toNat) && decide (c.toNat ≤ 57)
def asciiYear (y : Text) : Bool := y.length == 4 && y.all asciiDigit

end Spec
