/-
The syntactic conditions of the *unconditional* C20 read-back theorem (`C20.C20_make_parse`):
the holders the theorem covers (`WFHolderL`, the Lean counterpart of `wf_holder` of
harness/props/c20.py) and "no notice inside the holder" (`noNoticeInside`), both written
without reference to the model of the reader: four tag texts, white space, digits.
Evaluated by the driver on every case of the tie stream `theorem` (op `c20wf`).
-/
import ReuseVerif.Spec.Copyright

namespace Spec
open Py Model

/-- the first character, if any, is white space -/
def startsSpace (s : Text) : Bool := (s.head?.map isReSpace).getD false

/-- the texts with which the three reader patterns begin -/
def tagsOf : CPat → List Text
  | .spdx => ["SPDX-FileCopyrightText:".toList, "SPDX-SnippetCopyrightText:".toList]
  | .word => ["Copyright".toList]
  | .sign => [[Char.ofNat 0xa9]]

/-- `s` begins with one of the tags `ts` followed by white space -/
def hasTag (ts : List Text) (s : Text) : Bool :=
  ts.any fun t => t.isPrefixOf s && startsSpace (s.drop t.length)

/-- `s` begins with a notice tag (of any of the three patterns) followed by white space -/
def tagAt (s : Text) : Bool :=
  hasTag (tagsOf .spdx) s || hasTag (tagsOf .word) s || hasTag (tagsOf .sign) s

/-- Nowhere in `h` stands `SPDX-FileCopyrightText:` / `SPDX-SnippetCopyrightText:` / `Copyright` / `©`
    followed by white space (`NOTICE_START.search(h) is None` of the harness).  A tag glued to more
    characters (`Copyrighted Works Ltd.`, `©tudio`) or at the very end (`Acme Copyright`) is allowed. -/
def noNoticeInside : Text → Bool
  | [] => true
  | c :: cs => !tagAt (c :: cs) && noNoticeInside cs

/-- `(C)` or `(c)` followed by white space: in front of a holder it would extend the prefix -/
def parenStart (h : Text) : Bool :=
  hasTag ["(C)".toList, "(c)".toList] h

/-- `- ?\d{4},?\s`: after a single year such a holder would be read as the end of a year range -/
def dashYear : Text → Bool
  | '-' :: r =>
    match eatDigits4 (eatOpt ' ' r).2 with
    | some (_, r') => (eatCommaSpaces r').isSome
    | none => false
  | _ => false

/-- The holders the unconditional read-back theorem covers: non-empty, no line feed, first
    character neither white space nor a digit (it would be read as a year), not beginning with
    `(C)` / `(c)` + white space (would extend the prefix) nor with `-YYYY` + white space (would extend
    a single year to a range), and no tail made of comment terminators / blanks (the reader cuts
    it off).  Together with `noNoticeInside` this is `wf_holder` of harness/props/c20.py, except
    that line breaks other than LF are allowed here. -/
def WFHolderL (endRe : Re) (h : Text) : Bool :=
  match h with
  | [] => false
  | c :: _ =>
    !isReSpace c && !isReDigit c && !parenStart h && !dashYear h && !h.contains '\n' &&
    noEndSuffix endRe h

end Spec
