/-
Declarative reading of the file-name clauses of property C03, on the name as a
character list: LICENSE / LICENCE / COPYING optionally followed by a '-' or '.'
suffix, `*.license`, REUSE.toml, SPDX documents, VCS metadata files.
`WorkaroundName`: the two upstream workaround patterns (issue #229) that the
property's list does not contain — known finding `c03-workaround-names`.
-/
import ReuseVerif.Model.Covered

namespace Spec
open Py Model

def licenceBases : List Text := ["LICENSE".toList, "LICENCE".toList, "COPYING".toList]
def spdxExts : List Text := ["rdf".toList, "json".toList, "xml".toList, "yml".toList, "yaml".toList]

def SpecFileName (n : Text) : Prop :=
  (∃ b ∈ licenceBases, n = b ∨ ∃ d rest, (d = '-' ∨ d = '.') ∧ n = b ++ d :: rest) ∨
  n = ".git".toList ∨ n = ".hgtags".toList ∨ n = "REUSE.toml".toList ∨
  ".license".toList <:+ n ∨ ".spdx".toList <:+ n ∨
  ∃ e ∈ spdxExts, (".spdx.".toList ++ e) <:+ n

/-- `^CAL-1.0(-Combined-Work-Exception)?(\..+)?$` -/
def calPattern : Re :=
  Re.seq [Re.lit "CAL-1".toList, Re.dot, Re.lit "0".toList, Re.opt (Re.lit "-Combined-Work-Exception".toList),
    Re.opt (Re.seq [Re.lit ".".toList, Re.plus Re.dot])]
/-- `^SHL-2.1(\..+)?$` -/
def shlPattern : Re :=
  Re.seq [Re.lit "SHL-2".toList, Re.dot, Re.lit "1".toList, Re.opt (Re.seq [Re.lit ".".toList, Re.plus Re.dot])]

def WorkaroundName (n : Text) : Prop := nameMatch calPattern n = true ∨ nameMatch shlPattern n = true

end Spec
