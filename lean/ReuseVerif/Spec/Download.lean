/-
What property C19 says, on the abstract file system of `Model/Download.lean`.
-/
import ReuseVerif.Model.Download

namespace Spec.Download
open Py Model Model.Download

/-- The identifiers a command asks for (`--all`: lint's missing licences). -/
def requested (missing : List Text) (a : Args) : List Text := if a.all then missing else a.ids

/-- "writes a licence text only to LICENSES/<identifier>.txt under the project root or to the
    explicit --output path": the nodes a command may create — that file for a requested
    identifier ('ID+' counts as 'ID'), and the directory that holds it. -/
inductive Allowed (e : Env) (missing : List Text) (a : Args) : Path → Node → Prop where
  | output (o : Path) (t : Text) : a.output = some o → Allowed e missing a o (.file t)
  | outputDir (o : Path) : a.output = some o → Allowed e missing a o.dropLast .dir
  | licence (id t : Text) : a.output = none → id ∈ requested missing a →
      Allowed e missing a (licensesDir e ++ [stripPlus id ++ txtSuffix]) (.file t)
  | licensesDir : a.output = none → Allowed e missing a (Model.Download.licensesDir e) .dir

/-- "never replaces or alters an existing file" (stated for every kind of node). -/
def Preserves (fs fs' : Fs) : Prop := ∀ p n, fs.get p = some n → fs'.get p = some n

/-- Decidable hypothesis of `C19_plus`. -/
def noPlus (id : Text) : Bool := !endsWith id ['+']

end Spec.Download
