/-
Declarative reading of property C13: what one project state *is* (the report's
collections, `Reported`) and how each format renders a category.
-/
import ReuseVerif.Model.Lint

namespace Spec
open Py Model

/-- the offending files and identifiers of a report, per category -/
def Reported (r : Report) : Cat → Text → Text → Prop
  | .missing, k, p => (k, p) ∈ r.missing
  | .bad, k, p => (k, p) ∈ r.bad
  | .noExt, l, p => (l, p) ∈ r.noExt
  | .unused, l, x => l ∈ r.unused ∧ x = []
  | .deprecated, l, x => l ∈ r.deprecated ∧ x = []
  | .readError, p, x => p ∈ r.readErrors ∧ x = []
  | .noCopyright, p, x => p ∈ r.noCopyright ∧ x = []
  | .noLicence, p, x => p ∈ r.noLicence ∧ x = []
  | _, _, _ => False

/-- the plain format names a licence without extension by its identifier only -/
def ReportedPlain (r : Report) : Cat → Text → Text → Prop
  | .noExt, l, x => (∃ p, (l, p) ∈ r.noExt) ∧ x = []
  | c, a, b => Reported r c a b

/-- the lines format attaches the three licence-level categories to the licence file -/
def ReportedLines (r : Report) : Cat → Text → Text → Prop
  | .noExt, x, y => (∃ l p, (l, p) ∈ r.noExt ∧ x = licPath r l) ∧ y = []
  | .unused, x, y => (∃ l, l ∈ r.unused ∧ x = licPath r l) ∧ y = []
  | .deprecated, x, y => (∃ l, l ∈ r.deprecated ∧ x = licPath r l) ∧ y = []
  | c, a, b => Reported r c a b

/-- the four per-file problem kinds `lint-file` speaks about -/
def perFile : Cat → Bool
  | .missing | .readError | .noCopyright | .noLicence => true
  | _ => false

/-- the file an entry of a per-file category is about -/
def entryPath (e : Entry) : Text := if e.1 = .missing then e.2.2 else e.2.1

/-- number of entries of one category -/
def count (es : List Entry) (c : Cat) : Nat := (es.filter (·.1 == c)).length

end Spec
