/-
Hypotheses of the C17 glob theorem, as decidable predicates on the dep5 glob.
`dep5Plain d`: `d` is a valid dep5 glob (only `\\`, `\?`, `\*` escapes, no lone
final backslash) that uses neither the `?` wildcard (REUSE.toml has no
counterpart — known finding) nor a run of asterisks directly followed by `/`
(REUSE.toml's `**/` may also stand for no directory — known finding).
-/
import ReuseVerif.Model.Dep5

namespace Spec
open Py Model

def dep5Plain : Text → Bool
  | [] => true
  | ['\\'] => false
  | '\\' :: c :: rest => (c == '\\' || c == '?' || c == '*') && dep5Plain rest
  | '*' :: rest =>
    let r' := rest.dropWhile isStar
    r'.head? != some '/' && dep5Plain r'
  | '?' :: _ => false
  | _ :: rest => dep5Plain rest
termination_by g => g.length
decreasing_by
  all_goals simp_wf
  all_goals first
    | omega
    | (have := dropWhile_length_le isStar rest; omega)

/-! ### witnesses for the two excluded shapes (`C17.C17_question_always_differs`, `C17_star_slash_differs`) -/

/-- the glob contains an unescaped `?` -/
def hasQ : Text → Bool
  | [] => false
  | ['\\'] => false
  | '\\' :: _ :: r => hasQ r
  | c :: r => c == '?' || hasQ r

/-- a path in the dep5 language of `d`: every `*` stands for nothing, every `?` for `x`, every
    other (possibly escaped) character for itself -/
def dep5Witness : Text → Text
  | [] => []
  | ['\\'] => []
  | '\\' :: c :: r => c :: dep5Witness r
  | c :: r => if c == '*' then dep5Witness r else if c == '?' then 'x' :: dep5Witness r else c :: dep5Witness r

end Spec
