/-
Declarative reading of properties C06 and C01 over the abstract project
(`Model.CovFile`, the names below LICENSES/, the SPDX table `tbl`).

Identifier carried by a LICENSES/ entry (`carried`): a whole name that is on the
SPDX lists is that identifier *without* a file extension (C06: "a LICENSES/ file
whose whole name is an SPDX identifier is reported as lacking a file extension");
otherwise `ID.EXT` with `ID` on the lists or a `LicenseRef-` carries `ID`; an
extension-less `LicenseRef-` carries itself without extension (C01 (c) demands an
extension of every entry); anything else carries no valid identifier and is
named by its stem.  `*.license` companions are not entries.

`+`: "uses it (with or without a trailing '+')" — a use of `X+` is served by
`X` (text provided / identifier valid), and a text `X` is used by `X` or `X+`.
-/
import ReuseVerif.Model.Report

namespace Spec
open Py Model

/-- the identifier a LICENSES/ entry carries and whether it lacks its extension -/
def carried (tbl : LicenseMap) (name : Text) : Text × Bool :=
  if tbl.has name then (name, true)
  else
    let ss := stemSuffix name
    if !ss.2.isEmpty && (tbl.has ss.1 || isLicenseRef ss.1) then (ss.1, false)
    else if ss.2.isEmpty && isLicenseRef name then (name, true)
    else (ss.1, false)

/-- the identifier carried by the LICENSES/ entry at `p` -/
def idOf (tbl : LicenseMap) (p : Text) : Text := (carried tbl (pathName p)).1

/-- "known SPDX identifier or a LicenseRef-" -/
def Valid (tbl : LicenseMap) (k : Text) : Prop := tbl.has k = true ∨ isLicenseRef k = true

/-- file `p` could be read and one of its expressions mentions `k` -/
def UsedBy (fs : List CovFile) (k p : Text) : Prop :=
  ∃ f ∈ fs, f.readable = true ∧ f.path = p ∧ ∃ e ∈ f.exprs, k ∈ e

def Used (fs : List CovFile) (k : Text) : Prop := ∃ p, UsedBy fs k p

/-- LICENSES/ entry `path` carries `k` -/
def Provides (tbl : LicenseMap) (ls : List Text) (k path : Text) : Prop :=
  path ∈ ls ∧ isLicFile path = true ∧ (carried tbl (pathName path)).1 = k

def Provided (tbl : LicenseMap) (ls : List Text) (k : Text) : Prop := ∃ path, Provides tbl ls k path

/-! ### C06 -/

def Missing (tbl : LicenseMap) (pr : Project) (k p : Text) : Prop :=
  UsedBy pr.files k p ∧ ¬ Provided tbl pr.licFiles k ∧ ¬ Provided tbl pr.licFiles (stripPlus k)

def Unused (tbl : LicenseMap) (pr : Project) (l : Text) : Prop :=
  Provided tbl pr.licFiles l ∧ ¬ Used pr.files l ∧ ¬ Used pr.files (addPlus l)

def Bad (tbl : LicenseMap) (pr : Project) (k p : Text) : Prop :=
  (UsedBy pr.files k p ∧ ¬ Valid tbl k ∧ ¬ Valid tbl (stripPlus k)) ∨
  (Provides tbl pr.licFiles k p ∧ ¬ Valid tbl k)

def Deprecated (tbl : LicenseMap) (pr : Project) (l : Text) : Prop :=
  Provided tbl pr.licFiles l ∧ tbl.deprecated l = true

def NoExtension (tbl : LicenseMap) (pr : Project) (l p : Text) : Prop :=
  Provides tbl pr.licFiles l p ∧ (carried tbl (pathName p)).2 = true

/-- a licence expression: identifiers under AND / OR / WITH (parentheses are the tree shape) -/
inductive Expr where
  | id (k : Text)
  | and (a b : Expr)
  | or (a b : Expr)
  | with_ (l e : Text)

/-- the identifiers an expression mentions (`license_keys`) -/
def Expr.keys : Expr → List Text
  | .id k => [k]
  | .and a b => a.keys ++ b.keys
  | .or a b => a.keys ++ b.keys
  | .with_ l e => [l, e]

/-- `k` occurs somewhere inside `e` -/
inductive Expr.Mentions (k : Text) : Expr → Prop where
  | id : Mentions k (.id k)
  | andL {a b} : Mentions k a → Mentions k (.and a b)
  | andR {a b} : Mentions k b → Mentions k (.and a b)
  | orL {a b} : Mentions k a → Mentions k (.or a b)
  | orR {a b} : Mentions k b → Mentions k (.or a b)
  | withL {l e} : k = l → Mentions k (.with_ l e)
  | withR {l e} : k = e → Mentions k (.with_ l e)

/-! ### C01 -/

/-- (a) every covered file that was read has a copyright notice and a licence expression -/
def ClauseA (pr : Project) : Prop :=
  ∀ f ∈ pr.files, f.readable = true → f.hasCopyright = true ∧ ∃ e ∈ f.exprs, e ≠ []

/-- (b) every identifier used is valid and has its text in LICENSES/ -/
def ClauseB (tbl : LicenseMap) (pr : Project) : Prop :=
  ∀ k, Used pr.files k →
    (Valid tbl k ∨ Valid tbl (stripPlus k)) ∧
    (Provided tbl pr.licFiles k ∨ Provided tbl pr.licFiles (stripPlus k))

/-- (c) every LICENSES/ entry carries a valid, non-deprecated identifier with an extension and is used -/
def ClauseC (tbl : LicenseMap) (pr : Project) : Prop :=
  ∀ path ∈ pr.licFiles, isLicFile path = true →
    let c := carried tbl (pathName path)
    Valid tbl c.1 ∧ tbl.deprecated c.1 = false ∧ c.2 = false ∧
      (Used pr.files c.1 ∨ Used pr.files (addPlus c.1))

/-- (d) every covered file could be read -/
def ClauseD (pr : Project) : Prop := ∀ f ∈ pr.files, f.readable = true

def Compliant (tbl : LicenseMap) (pr : Project) : Prop :=
  ClauseA pr ∧ ClauseB tbl pr ∧ ClauseC tbl pr ∧ ClauseD pr

/-! ### hypotheses (decidable) -/

/-- no identifier of the table has the `LicenseRef-` shape (table obligation) -/
def noRefInTable (tbl : LicenseMap) : Bool := tbl.all fun e => !isLicenseRef e.1

/-- The entry name is not one of the two ambiguous shapes:
    * a listed identifier `X.Y` whose stem `X` is itself an identifier
      (`OLDAP-2.0.1`, `OLDAP-2.2.1`, `OLDAP-2.2.2`, `Python-2.0.1` today): the tool
      reads `X` with extension `.Y` (known finding);
    * `LicenseRef-.ext`-like names (a `LicenseRef-` shape whose stem is not one),
      whose resolution depends on what was registered before (boundary). -/
def plainName (tbl : LicenseMap) (name : Text) : Bool :=
  let ss := stemSuffix name
  ss.2.isEmpty ||
    (if tbl.has ss.1 || isLicenseRef ss.1 then !tbl.has name else !isLicenseRef name)

def plainNames (tbl : LicenseMap) (ls : List Text) : Bool :=
  ls.all fun p => plainName tbl (pathName p)

end Spec
