/-
Spec side of C18: a small SPDX tag-value grammar as a reader of physical
lines, and the decidable side conditions under which the document written by
the model is guaranteed to be read back.

Grammar: outside a text span a line is empty or `Tag: value` (Tag = one or more
ASCII letters); a value beginning with `<text>` opens a span which ends at the
first `</text>`, and that must be the end of its line; the document must not
end inside a span.
-/
import ReuseVerif.Model.SpdxDoc

namespace Spec.Spdx
open Py Model Model.Spdx

/-- `Tag: value` → `(Tag, value)`. -/
def splitTag : Line → Option (Text × Text)
  | [] => none
  | c :: cs =>
    if c = ':' then
      match cs with
      | ' ' :: v => some ([], v)
      | _ => none
    else if c.isAlpha then (splitTag cs).map fun tv => (c :: tv.1, tv.2)
    else none

inductive Close where
  | noClose
  | closes (body : Line)
  | bad
  deriving DecidableEq, Repr

/-- Where the first `</text>` of a line is. -/
def closeStatus (l : Line) : Close :=
  match findSub textClose l with
  | none => .noClose
  | some i => if i + textClose.length = l.length then .closes (l.take i) else .bad

inductive RState where
  | out
  | txt (tag : Text) (first : Line) (revRest : List Line)

/-- The reader. `none` = not a tag-value document. -/
def read : RState → List Line → Option (List Entry)
  | .out, [] => some []
  | .txt _ _ _, [] => none
  | .out, l :: ls =>
    if l.isEmpty then read .out ls
    else
      match splitTag l with
      | none => none
      | some (tag, v) =>
        if tag.isEmpty then none
        else if textOpen.isPrefixOf v then
          match closeStatus (v.drop textOpen.length) with
          | .noClose => read (.txt tag (v.drop textOpen.length) []) ls
          | .closes body => (read .out ls).map (⟨tag, .text body []⟩ :: ·)
          | .bad => none
        else (read .out ls).map (⟨tag, .single v⟩ :: ·)
  | .txt tag first rev, l :: ls =>
    match closeStatus l with
    | .noClose => read (.txt tag first (l :: rev)) ls
    | .closes body => (read .out ls).map (⟨tag, .text first (body :: rev).reverse⟩ :: ·)
    | .bad => none

def readDoc (ls : List Line) : Option (List Entry) := read .out ls

def isTagValueDoc (ls : List Line) : Bool := (readDoc ls).isSome

/-- Entries carrying a given tag. -/
def hasTag (t : Text) (e : Entry) : Bool := e.tag == t

-- ---------------------------------------------------------------- side conditions

/-- No line feed. -/
def noBreak (t : Text) : Bool := !t.contains '\n'

/-- A single-line value: no line feed and not the opening of a text span. -/
def plainValue (v : Text) : Bool := noBreak v && !textOpen.isPrefixOf v

/-- A line of a text span: no line feed, no closing marker. -/
def textLineOk (l : Line) : Bool := noBreak l && (findSub textClose l).isNone

def tagOk (t : Text) : Bool := !t.isEmpty && t.all Char.isAlpha

def valueOk : Value → Bool
  | .single v => plainValue v
  | .text b bs => textLineOk b && bs.all textLineOk

def entryOk (e : Entry) : Bool := tagOk e.tag && valueOk e.val

def repOk (r : FileRep) : Bool :=
  plainValue r.name && plainValue r.spdxId && noBreak r.chkSum && plainValue r.concluded
    && r.keys.all plainValue && r.copyright.all textLineOk

def licOk (l : LicEntry) : Bool :=
  plainValue l.ident && textLineOk l.first && l.rest.all textLineOk

def creatorOk : Option Text → Bool
  | none => true
  | some c => noBreak c

def paramsOk (p : DocParams) : Bool :=
  plainValue p.docName && noBreak p.uuid && plainValue p.created && noBreak p.version
    && creatorOk p.person && creatorOk p.organization

/-- The side condition of `C18_wellformed`: no name, creator, identifier or other
    single-line value contains a line feed, none mimics `<text>`, and no text
    (copyright lines, licence texts) contains `</text>`. -/
def docOk (p : DocParams) (rs : List FileRep) (ls : List LicEntry) : Bool :=
  paramsOk p && rs.all repOk && (ls.filter fun l => isLicenseRef l.ident).all licOk

/-- sha1 hex digests have 40 characters. -/
def chkLen : Nat := 40

/-- `digest` is injective on the listed inputs. -/
def injOn (digest : Text → Text) (xs : List Text) : Bool :=
  xs.all fun a => xs.all fun b => digest a != digest b || a == b

end Spec.Spdx
