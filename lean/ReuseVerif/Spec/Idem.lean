/-
Spec for C10 "re-running annotate with the same arguments changes nothing".

`firstRunParts` names the three parts of what a (replacing) run writes: what stands above the
header, the header block, what stands below.  `secondRunOK` is the decidable statement "the tool
finds the header it wrote itself, at its place, as its own header": the locator returns exactly
the block between exactly those parts, the block is not taken for a shebang, and building a header
from the block and the same request gives the block again.  The driver evaluates it per case
(stream `theorem` of harness/props/c10.py); `StyleIdem` is its style-level core, decided over the
generated table.
-/
import ReuseVerif.Spec.Splice

namespace Spec
open Py Model
open Generated (Style)

/-- `place_header`: what is put above the header -/
def aboveOf (before : Text) : Text :=
  if (strip before).isEmpty then [] else rstrip before ++ ['\n', '\n']

/-- `place_header`: what is put below the header -/
def belowOf (after : Text) (hasExisting : Bool) : Text :=
  if (strip after).isEmpty then []
  else (if !hasExisting && !(startsWith after ['\n']) then ['\n'] else []) ++ after

/-- (above, header, below) of what `find_and_replace_header` returns -/
def firstRunParts (c : HdrCfg) (info : Extracted) (t : Text) : Option (Text × Text × Text) :=
  let s := replaceSections c t
  match createHeader c info s.2.1 with
  | .ok hdr => some (aboveOf s.1, hdr, belowOf s.2.2 (!s.2.1.isEmpty))
  | .error _ => none

def okText : Except HeaderErr Text → Text → Bool
  | .ok x, y => x == y
  | .error _, _ => false

/-- the header written between `a` and `b` is found again exactly and reproduces itself -/
def secondRunOK (c : HdrCfg) (info : Extracted) (a hdr b : Text) : Bool :=
  match findFirstSpdxComment c (a ++ hdr ++ ['\n'] ++ b) with
  | some (a', old, b') =>
    a' == a && (if c.style.name == "EmptyCommentStyle" then b.isEmpty else b' == b) && !old.isEmpty &&
    c.style.shebangs.all (fun sb => !(startsWith old sb)) && okText (createHeader c info old) hdr
  | none => false

/-- `n` replacing runs in a row (stopping at the first failure) -/
def runs (c : HdrCfg) (info : Extracted) : Nat → Text → Except HeaderErr Text
  | 0, t => .ok t
  | n + 1, t =>
    match findAndReplaceHeader c info t with
    | .ok o => runs c info n o
    | .error e => .error e

/-! ### style-level core: the block `create_comment` produces is the block `comment_at_first_character` reads -/

def okComment : Except CommentErr Text → Text → Bool
  | .ok x, y => x == y
  | .error _, _ => false

/-- header texts the table obligation is evaluated on: the default template's shapes (copyright lines, blank
    line, licence lines), one line, an empty line in the middle / at the ends, text starting with characters
    that could extend a comment marker, trailing blanks -/
def repTexts : List Text :=
  ["SPDX-FileCopyrightText: 2020 Jane Doe\n\nSPDX-License-Identifier: MIT",
   "SPDX-License-Identifier: MIT", "a\n\nb", "\nx", "x\n", "", "=x\n=", "*x\n/y\n#z", "-x\n>y\n}z\n)w", "!x\n'y\n:z\n%w", " x \n\ty"].map String.toList

/-- what may follow the header in a file the tool has written: the end of the text, or an empty line and then
    anything (here: code, a comment of the same style, a line that looks like a terminator) -/
def repRests (s : Style) : List Text :=
  [[], "\ncode\n".toList, '\n' :: (s.single ++ " note\n".toList), '\n' :: (s.mStart ++ " note ".toList ++ s.mEnd ++ ['\n']),
   '\n' :: (s.mEnd ++ ['\n'])]

/-- on one text: when a block can be created it is read back exactly, whatever follows it -/
def idemOn (s : Style) (forceMulti : Bool) (text : Text) : Bool :=
  match createComment s text forceMulti with
  | .ok blk => (repRests s).all fun rest => okComment (commentAtFirst s (blk ++ ['\n'] ++ rest)) blk
  | .error _ => true

/-- is the mode available for the style (`--multi-line` needs a multi-line style; plain needs either) -/
def supported (s : Style) (forceMulti : Bool) : Bool :=
  !s.isEmptyStyle && (if forceMulti then s.canMulti else s.canSingle || s.canMulti)

/-- **StyleIdem** (decidable): on every representative header text the created block is read back exactly -/
def StyleIdem (s : Style) (forceMulti : Bool) : Prop := repTexts.all (idemOn s forceMulti) = true

instance (s : Style) (m : Bool) : Decidable (StyleIdem s m) := inferInstanceAs (Decidable (_ = true))

/-! ### what the second run's locator meets above the written header -/

/-- **nothing above the header is a comment block with REUSE information**: at every line start of
    `a ++ rest` that lies inside `a` (`rest` is the written header, its line end and what follows),
    `comment_at_first_character` finds no comment, or a comment (it may reach into the header: an
    unterminated opener above it) without REUSE information.  This is exactly what
    `_find_first_spdx_comment` evaluates before it reaches the header's own line. -/
def nothingAbove (c : HdrCfg) (a rest : Text) : Bool :=
  (lineStartSuffixes (a ++ rest)).all fun p =>
    decide (a.length ≤ p.1.length) ||
      (match commentAtFirst c.style p.2 with
       | .ok cm => !containsReuseInfo c.parses cm
       | .error _ => true)

end Spec
