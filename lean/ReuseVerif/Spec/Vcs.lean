/-
Declarative side of `Model/Vcs.lean`: what a listing *says* (which root-relative paths are
its entries), the contract between Git's listing and Git's own verdict (`git check-ignore`),
and the shape of the paths the covered-file walk asks about.
-/
import ReuseVerif.Model.Vcs
import ReuseVerif.Spec.Covered

namespace Spec.Vcs
open Model Model.Vcs Py

/-- a directory-entry name as `os.listdir` returns it and a version control program prints it
    as one path component: not empty, without `/`, not `.` -/
def IsName (x : Text) : Prop := x ≠ [] ∧ '/' ∉ x ∧ x ≠ ['.']

/-- … and not `..` -/
def IsPlainName (x : Text) : Prop := IsName x ∧ x ≠ ['.', '.']

/-- How a program prints the root-relative path `comps`: the names joined by `/`, a
    directory optionally followed by one more `/`. -/
def entryText (comps : List Text) (slash : Bool) : Text :=
  join ['/'] comps ++ (if slash then ['/'] else [])

/-- The NUL-separated listing with the entries `es` (path, printed with a trailing slash?):
    every entry is followed by a NUL (`-z`, `--print0`). -/
def rawListing : List (List Text × Bool) → Text
  | [] => []
  | (comps, slash) :: rest => entryText comps slash ++ '\x00' :: rawListing rest

/-- `comps` is an entry of the listing `raw`: one of its NUL-separated pieces denotes it
    (with or without a trailing slash, with `./` or doubled slashes — whatever `Path()` removes). -/
def Listed (raw : Text) (comps : List Text) : Prop :=
  ∃ e ∈ splitSep '\x00' raw, parsePath e = ⟨[], comps⟩

/-- the path or one of its ancestors below the root is an entry -/
def ListedAbove (listed : List String → Bool) (p : List String) : Prop :=
  ∃ q, q <+: p ∧ q ≠ [] ∧ listed q = true

/-- the non-empty prefixes of a path: the path itself and its ancestors below the root -/
def prefixes : List String → List (List String)
  | [] => []
  | a :: t => [a] :: (prefixes t).map (a :: ·)

/-- `ListedAbove` as a verdict: the parent rule at every depth -/
def listedAboveB (listed : List String → Bool) (p : List String) : Bool := (prefixes p).any listed

/-- the entries of Git's listing as a verdict on root-relative paths -/
def listedB (raw : Text) (q : List String) : Bool := (gitIgnoredSet raw).contains ⟨[], compsOf q⟩

/-- the paths of `.gitmodules` as a verdict on root-relative paths -/
def submoduleB (subs : List PPath) (q : List String) : Bool := subs.contains ⟨[], compsOf q⟩

/-- Git's verdict is inherited: what lies below an ignored directory is ignored. -/
def DownClosed (ign : List String → Bool) : Prop := ∀ p q, ign p = true → ign (p ++ q) = true

/-- The contract between the listing (`git ls-files --exclude-standard --ignored --others
    --directory --no-empty-directory`, as the set of its entries) and Git's verdict
    (`git check-ignore`) on the files of a tree.
    * `sound`: every file at or below a listed entry is ignored.  (A listed *directory* need not
      be ignored itself: a directory holding nothing but ignored files is listed as a whole.)
    * `complete`: every ignored file is listed itself or lies below a listed directory.
      Git 2.39 violates this half for ignored files inside directories without any tracked file
      (`--directory` reports such a directory as a whole or not at all) — the known finding
      `c03-git-ignored-in-untracked-dir`. -/
structure ListingContract (listed ign : List String → Bool) (cs : List (String × Node)) : Prop where
  sound : ∀ e f size, listed e = true → e ≠ [] → e <+: f → At cs f (.file size) → ign f = true
  complete : ∀ f size, At cs f (.file size) → ign f = true → ListedAbove listed f

/-- which strategies qualify for a root: program installed and `in_repo(root)` -/
def Qualifies (exe inRepo : Strategy → Bool) (s : Strategy) : Prop :=
  s ≠ .none ∧ exe s = true ∧ inRepo s = true

end Spec.Vcs
