/-
C07 — "the default template is achievable": declarative pieces and decidable hypotheses of
`C07_default_achievable` (`Theorems/C07.lean`).

* `lineMode`      — the mode `create_comment` works in for a style and `force_multi`;
* `physLine`      — the physical line a rendered template line becomes in that mode
                    (`linePrefix ++ line`, or `emptyLine` for an empty line), `openLines` /
                    `closeLines` the lines around the body in multi-line mode;
* `styleReadable` — the per-style side condition (what the proof needs from the markers);
* `tailSafe`      — no non-empty tail of a value can be the beginning of a run of comment
                    terminators (computed with Brzozowski derivatives of END);
* `wfRequest`     — the requests the theorem covers.
-/
import ReuseVerif.Model.Header
import ReuseVerif.Spec.TagsCopyright

namespace Spec
open Py Model
open Generated (Style)

/-! ### the line modes of `create_comment` -/

inductive LineMode where
  | plain     -- the two pseudo styles: the text is written as it is (`FILE.license`)
  | single    -- `_create_comment_single`
  | multi     -- `_create_comment_multi`
  deriving DecidableEq, Repr

/-- the mode `create_comment(text, force_multi)` works in; `none`: CommentCreateError because the
    style has no multi-line form -/
def lineMode (s : Style) (forceMulti : Bool) : Option LineMode :=
  if s.isEmptyStyle then some .plain
  else if forceMulti || !s.canSingle then (if s.canMulti then some .multi else none)
  else some .single

/-- what stands in front of a non-empty rendered line -/
def linePrefix (s : Style) : LineMode → Text
  | .plain => []
  | .single => s.single ++ s.indentAfterSingle
  | .multi => (if s.mMiddle.isEmpty then [] else s.indentBeforeMiddle ++ s.mMiddle) ++ s.indentAfterMiddle

/-- what an empty rendered line becomes -/
def emptyLine (s : Style) : LineMode → Text
  | .plain => []
  | .single => s.single
  | .multi => if s.mMiddle.isEmpty then [] else s.indentBeforeMiddle ++ s.mMiddle

/-- the physical line of a rendered line -/
def physLine (s : Style) (m : LineMode) (line : Text) : Text :=
  if line.isEmpty then emptyLine s m else linePrefix s m ++ line

/-- the lines before / after the body -/
def openLines (s : Style) : LineMode → List Text
  | .multi => [s.mStart]
  | _ => []
def closeLines (s : Style) : LineMode → List Text
  | .multi => [s.indentBeforeEnd ++ s.mEnd]
  | _ => []

/-! ### markers that cannot be mistaken for the beginning of a tag, a notice or an ignore marker -/

/-- the two texts differ at a position both have -/
def clash : Text → Text → Bool
  | a :: as, b :: bs => a != b || clash as bs
  | _, _ => false

/-- every non-empty tail of the text clashes with every literal: none of the literals can begin
    inside the text, whatever follows it -/
def quietFor (lits : List Text) : Text → Bool
  | [] => true
  | c :: cs => lits.all (fun l => clash l (c :: cs)) && quietFor lits cs

/-- the beginnings of everything the reader looks for: both tags and `SPDX-FileCopyrightText`
    begin with `SPDX-`; the two other copyright patterns; the ignore marker -/
def loudLits : List Text := ["SPDX-".toList, "Copyright".toList, copySign, Generated.ignoreStart]

def quiet (a : Text) : Bool := quietFor loudLits a

def noBreakB (t : Text) : Bool := t.all fun c => !isLineBreak c

/-- **The per-style side condition.**  The marker in front of a line, the marker an empty line
    becomes and the lines around a multi-line body contain no line boundary and nothing that could
    begin a tag, a copyright notice or `REUSE-IgnoreStart`; the lines around the body are not empty. -/
def styleReadable (s : Style) (m : LineMode) : Bool :=
  quiet (linePrefix s m) && noBreakB (linePrefix s m) &&
  quiet (emptyLine s m) && noBreakB (emptyLine s m) &&
  (openLines s m ++ closeLines s m).all (fun l => quiet l && noBreakB l && !l.isEmpty) &&
  (m != .multi || noBreakB s.mEnd)

/-! ### values whose tail cannot be taken for comment terminators -/

/-- the expression that matches nothing -/
def voidRe : Re := .cls false []

/-- Brzozowski derivative -/
def deriv (c : Char) : Re → Re
  | .eps => voidRe
  | .chr d => if c == d then .eps else voidRe
  | .cls neg rs => if Re.clsMatch neg rs c then .eps else voidRe
  | .cat a b => if nullable a then .alt (.cat (deriv c a) b) (deriv c b) else .cat (deriv c a) b
  | .alt a b => .alt (deriv c a) (deriv c b)
  | .star a => .cat (deriv c a) (.star a)

def derivs : Text → Re → Re
  | [], r => r
  | c :: cs, r => derivs cs (deriv c r)

/-- the expression certainly matches nothing -/
def dead : Re → Bool
  | .cls neg rs => !neg && rs.isEmpty
  | .cat a b => dead a || dead b
  | .alt a b => dead a && dead b
  | _ => false

/-- no non-empty tail of `v` is the beginning of a text END matches: whatever follows the value
    (on this line or — through END's `\s*` — on the next ones), none of it is taken for terminators -/
def tailSafe (endRe : Re) : Text → Bool
  | [] => true
  | c :: cs => dead (derivs (c :: cs) endRe) && tailSafe endRe cs

/-! ### the requests -/

def conLine (v : Text) : Text := Generated.contributorTag ++ ' ' :: v
def licLine (v : Text) : Text := Generated.licenseTag ++ ' ' :: v

/-- the line is a copyright notice that the reader reads back as itself -/
def noticeSelf (endRe : Re) (l : Text) : Bool :=
  (searchLineWith endRe l).map (fun m => strip m.whole) == some l

/-- the reader finds no copyright notice in the line -/
def noticeFree (endRe : Re) (l : Text) : Bool := (searchLineWith endRe l).isNone

/-- a rendered line that does not disturb the others: no line boundary (`str.splitlines`), no
    `REUSE-IgnoreStart`, and in multi-line mode no comment terminator (`create_comment` refuses it) -/
def calmLine (s : Style) (m : LineMode) (l : Text) : Bool :=
  noBreakB l && (findSub Generated.ignoreStart l).isNone && (m != .multi || !(contains l s.mEnd))

/-- a tag value that is read back exactly after the line prefix `pre`: not empty, stripped, no
    tail that could begin a run of terminators, not ending like the mirrored frame of `pre` -/
def wfTagValue (endRe : Re) (pre v : Text) : Bool :=
  !v.isEmpty && isStripped v && tailSafe endRe v && frameFree pre v

/-- **The requests covered.**
    * each copyright line is a notice the reader reads back as itself (`noticeSelf`; every line
      `make_copyright_line` builds from a generated prefix, a year form and a well-formed holder
      is one: `noticeSelf_built`), and holds neither tag;
    * each contributor and each licence expression is a `wfTagValue`; its line holds neither the
      other tag nor a copyright notice;
    * every rendered line is calm. -/
def wfRequest (endRe : Re) (s : Style) (m : LineMode) (info : Extracted) : Bool :=
  info.cpr.all (fun l => noticeSelf endRe l &&
    tagFreeLine Generated.licenseTag l && tagFreeLine Generated.contributorTag l && calmLine s m l) &&
  info.con.all (fun v => wfTagValue endRe (linePrefix s m) v &&
    tagFreeLine Generated.licenseTag (conLine v) && noticeFree endRe (conLine v) && calmLine s m (conLine v)) &&
  info.lic.all (fun v => wfTagValue endRe (linePrefix s m) v &&
    tagFreeLine Generated.contributorTag (licLine v) && noticeFree endRe (licLine v) && calmLine s m (licLine v))

/-- what END must be like for the theorem (true of the generated expression): it is a starred
    expression and none of its alternatives can begin with a line feed -/
def endWellBehaved (endRe : Re) : Bool :=
  (starBody endRe).isSome && !canStart endRe '\n'

end Spec

namespace Spec
open Py Model

/-! ### header blocks whose tag lines are closed (hypothesis of `C07_file`) -/

/-- A line is *closed* for a tag: it does not hold `TAG[ \t]`, or the value the reader takes from
    the line alone is not empty and tail-safe (so the same value is read whatever follows the
    line: END matches the rest of the line, and no tail of the value can begin a run of
    terminators that continues on the next lines — `…MIT"` followed by `\n>` is not closed). -/
def lineClosed (endRe : Re) (tag l : Text) : Bool :=
  match findTagInLine tag l with
  | none => true
  | some (_, a) =>
    match valueAndRestWith endRe (a.dropWhile isBlank) with
    | some (w, _) => !w.isEmpty && tailSafe endRe w
    | none => false

/-- `P` holds of every line (pieces between line feeds; `acc` is the current line, reversed) -/
def allLines (P : Text → Bool) : Text → Text → Bool
  | acc, [] => P acc.reverse
  | acc, c :: cs => if c == '\n' then P acc.reverse && allLines P [] cs else allLines P (c :: acc) cs

/-- every line of the block is closed for both tags -/
def tagLinesClosed (endRe : Re) (hdr : Text) : Bool :=
  allLines (lineClosed endRe Generated.licenseTag) [] hdr &&
  allLines (lineClosed endRe Generated.contributorTag) [] hdr

/-- the tag contains a character END can never consume (so END cannot run across a tag line) -/
def tagUnusable (endRe : Re) (tag : Text) : Bool := tag.any fun c => !mayUse endRe c

end Spec

namespace Spec
open Py Model

/-! ### the part of the written text that ends with the header (hypothesis of `C07_file_window`) -/

/-- what `place_header` puts in front of everything else: the text above the header (right-stripped,
    followed by an empty line) and the header block with its line feed -/
def headPart (hdr before : Text) : Text :=
  if (strip before).isEmpty then hdr ++ ['\n'] else rstrip before ++ ['\n', '\n'] ++ hdr ++ ['\n']

end Spec
