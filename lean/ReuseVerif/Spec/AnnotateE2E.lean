/-
Vocabulary of the composition theorems about `reuse annotate` end to end (C11_e2e_*, C07_e2e_*):
the text the header builder works on, the style it builds in, "the header is refused", and the
hypotheses (all decidable; the driver op `ae2e` evaluates them per case).
-/
import ReuseVerif.Model.AnnotateE2E
import ReuseVerif.Spec.Effects
import ReuseVerif.Spec.Header

namespace Spec.AE
open Py Model Model.AE
open Model.Eff hiding Text World

/-- the byte order mark `add_header_to_file` sets aside (and puts back in front of what it writes) -/
def bomOf : Text → Text
  | ch :: _ => if ch == bomChar then [bomChar] else []
  | [] => []

/-- the text the header is looked for and placed in: byte order mark aside, line endings folded -/
def workText (txt : Text) : Text := Py.replace (dropBom txt) (detectLineEnding (dropBom txt)) ['\n']

/-- the template of the invocation (`get_template`), none = the bundled one -/
def tmplOf (w : World) (o : Opts) (fs : Fs) : Option Tmpl := (templateName o).bind (templateOf w fs)

/-- the style the header for the written path `t` is built in (header.py falls back to the Python
    style for a path without one; such a path is not reached, `styleFor_isSome` makes it total) -/
def styleFor (o : Opts) (t : Path) : Option Generated.Style :=
  (writtenStyle o t).orElse fun _ => styleByName "PythonCommentStyle"

/-- the header configuration of the invocation for a style -/
def cfgFor (w : World) (o : Opts) (fs : Fs) (s : Generated.Style) : HdrCfg := hdrCfg w o (tmplOf w o fs) s

/-- **the header is refused** for the written path `t` holding `txt`: `create_header` raises —
    the comment cannot be created (`CommentCreateError`: the text holds the style's terminator, the
    old header holds an expression that does not parse) or the rendered header does not read back
    what was asked for (`MissingReuseInfoError`) -/
def HeaderRefused (w : World) (o : Opts) (fs : Fs) (t : Path) (txt : Text) : Prop :=
  ∃ s e, styleFor o t = some s ∧
    createHeader (cfgFor w o fs s) (requested w o)
      (oldHeader (cfgFor w o fs s) (!o.noReplace) (workText txt)) = .error e

/-- no symbolic link sits where the loop body might write for `p` -/
def NoLinkAt (fs : Fs) (p : Path) : Prop := Fs.isLink fs (licSuffix p) = false

instance (fs : Fs) (p : Path) : Decidable (NoLinkAt fs p) := by unfold NoLinkAt; exact inferInstance

end Spec.AE
