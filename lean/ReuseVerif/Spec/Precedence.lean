/-
Declarative reading of property C04 (sources and precedence).
All statements are about the chain of REUSE.toml levels (outermost first), each
holding its applicable table or nothing, and the information found in the file's
own source.
-/
import ReuseVerif.Model.Precedence

namespace Spec
open Model

/-- (depth, table) for every level that has an applicable table -/
def tablesOf : Nat → List (Option Table) → List (Nat × Table)
  | _, [] => []
  | i, none :: ls => tablesOf (i + 1) ls
  | i, some t :: ls => (i, t) :: tablesOf (i + 1) ls

/-- The tables that count: everything down to and including the outermost
    `override`; deeper REUSE.toml files are hidden. -/
def visible (l : List (Nat × Table)) : List (Nat × Table) :=
  match l with
  | [] => []
  | x :: rest => if x.2.prec = .override then [x] else x :: visible rest

def hasOverride (levels : List (Option Table)) : Bool :=
  (tablesOf 0 levels).any (·.2.prec = .override)

/-- What the file itself contributes: nothing when an `override` applies (the file is not read). -/
def ownInfo (levels : List (Option Table)) (fileInfo : Info) : Info :=
  if hasOverride levels then { cpr := [], lic := [], src := .own } else fileInfo

def attr (k : Kind) (t : Table) : List String :=
  match k with
  | .cpr => t.cpr
  | .lic => t.lic

def ownAttr (k : Kind) (i : Info) : List String :=
  match k with
  | .cpr => i.cpr
  | .lic => i.lic

/-- The nearest visible `closest` table that provides attribute `k`. -/
def nearestProvider (k : Kind) (levels : List (Option Table)) : Option (Nat × Table) :=
  ((visible (tablesOf 0 levels)).filter fun x => x.2.prec = .closest ∧ ¬ (attr k x.2).isEmpty).getLast?

/-- Which items are attributed to the file, and to which source. -/
def SpecItem (levels : List (Option Table)) (fileInfo : Info) (it : Item) : Prop :=
  -- (A) visible override / aggregate tables contribute everything they hold
  (∃ x ∈ visible (tablesOf 0 levels), (x.2.prec = .override ∨ x.2.prec = .aggregate) ∧
      it.src = .toml x.1 ∧ it.value ∈ attr it.kind x.2) ∨
  -- (B) the file's own source, unless an override applies
  (it.src = (ownInfo levels fileInfo).src ∧ it.value ∈ ownAttr it.kind (ownInfo levels fileInfo)) ∨
  -- (C) `closest`: only what the file lacks, from the nearest table that provides it
  (ownAttr it.kind (ownInfo levels fileInfo) = [] ∧
    ∃ x, nearestProvider it.kind levels = some x ∧ it.src = .toml x.1 ∧ it.value ∈ attr it.kind x.2)

end Spec
