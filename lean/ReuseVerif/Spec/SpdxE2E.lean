/-
Declarative reading of the two other readers of the project on the *tree* (input of the composed
models of Model/SpdxE2E.lean), in the vocabulary of Spec/LintE2E.lean:

* `reuse spdx` (C18): a File section is due for every covered file (C03) whose report can be
  generated (`ReportedT`); its licence identifiers (`LicKeyT`) and copyright lines (`NoticeT`) are what
  the sources-and-precedence rules (C04) attribute to it; licence sections are due for the
  `LicenseRef-` identifiers carried by the files below LICENSES/ (C06's `Provides`).
* `reuse lint-file` (C13): an argument *denotes* an entry of the tree (`Denotes`: path resolution as
  the kernel does it, relative to the working directory); the command speaks about the covered files
  among the entries its arguments denote.
-/
import ReuseVerif.Model.SpdxE2E
import ReuseVerif.Spec.LintE2E
import ReuseVerif.Spec.SpdxDoc
import ReuseVerif.Spec.Lint

namespace Spec
open Py Model

/-- a File section is due for `p`: a covered file whose report can be generated -/
def ReportedT (c : E2ECfg) (g : GlobalLic) (tree : ETree) (p : List String) : Prop :=
  CoveredT c tree p ∧ ReadableT c g tree p

/-- `k` is a licence identifier the sources-and-precedence rules attribute to `p` -/
def LicKeyT (c : E2ECfg) (g : GlobalLic) (tree : ETree) (p : List String) (k : Text) : Prop :=
  ∃ it, AttributedT c g tree p it ∧ it.kind = .lic ∧ k ∈ c.keysOf it.value

/-- `l` is a (non-blank) copyright line the rules attribute to `p` -/
def NoticeT (c : E2ECfg) (g : GlobalLic) (tree : ETree) (p : List String) (l : Text) : Prop :=
  ∃ it, AttributedT c g tree p it ∧ it.kind = .cpr ∧ isBlankStr it.value = false ∧ l = it.value.toList

/-- some licence expression is attributed to `p` -/
def HasExprT (c : E2ECfg) (g : GlobalLic) (tree : ETree) (p : List String) : Prop :=
  ∃ it, AttributedT c g tree p it ∧ it.kind = .lic

/-- oracle hypothesis (license-expression): expressions that are equal (`==`, the identity of the
    set `ReuseInfo.spdx_expressions`) mention the same identifiers — on the expressions `es` -/
def KeysRespectEq (c : E2ECfg) (o : SpdxOracles) (es : List String) : Prop :=
  ∀ a ∈ es, ∀ b ∈ es, o.exprKey a = o.exprKey b → ∀ k, k ∈ c.keysOf a ↔ k ∈ c.keysOf b

/-- the same as a check (what the driver evaluates on the expressions of the case) -/
def keysRespectEqB (c : E2ECfg) (o : SpdxOracles) (es : List String) : Bool :=
  es.all fun a => es.all fun b =>
    o.exprKey a != o.exprKey b ||
      ((c.keysOf a).all (fun k => (c.keysOf b).contains k) && (c.keysOf b).all (fun k => (c.keysOf a).contains k))

/-- every raw licence expression text the model attributes to the files of the project -/
def allExprs (c : E2ECfg) (g : GlobalLic) (tree : ETree) : List String :=
  (filesOf c g tree).flatMap fun f => f.infos.flatMap (·.lic)

/-- the argument `a`, typed in the directory `cwd`, denotes the entry at `q` below the root -/
def Denotes (tree : ETree) (cwd : List String) (a : PathArg) (q : List String) : Prop :=
  resolveArg tree cwd a = .found q

/-- `q` is among the entries the arguments denote -/
def Named (tree : ETree) (cwd : List String) (args : List PathArg) (q : List String) : Prop :=
  ∃ a ∈ args, Denotes tree cwd a q

/-- every name of the path is non-empty and holds no slash (any real file system) -/
def goodNames (p : List String) : Prop := ∀ s ∈ p, s ≠ "" ∧ '/' ∉ s.toList

end Spec
