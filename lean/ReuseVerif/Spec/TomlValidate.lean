/-
Declarative side of C16: what each covered file must turn into, independently
of the loop that gets it there.
-/
import ReuseVerif.Model.TomlValidate

namespace Spec.Toml
open Py Model.Toml

/-- A covered file is a read error exactly when examining it raised an exception. -/
def readErrorOf (p : Text × FileRes) : Option Text :=
  match p.2 with | .exc => some p.1 | _ => none

/-- Every other file has a report of its own; an unparseable expression leaves it without information. -/
def reportOf (p : Text × FileRes) : Option (Text × Bool × Bool) :=
  match p.2 with
  | .exc => none
  | .exprError => some (p.1, false, false)
  | .report c l => some (p.1, c, l)

/-- A path given to annotate is changed when it can be read as UTF-8 text and the
    header step succeeds; otherwise it is a failed file. -/
def annResult : AnnInput → AnnRes
  | .text true => .changed
  | _ => .failed

end Spec.Toml
