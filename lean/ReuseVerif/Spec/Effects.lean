/-
Vocabulary of the properties C11 and C15 (hypotheses and the sets the
statements speak about).  Every hypothesis is decidable.
-/
import ReuseVerif.Model.Effects

namespace Spec.Eff
open Model.Eff

/-- "that file and its `.license` sibling" -/
def claim (p : Path) : List Path := [p, sibling p]

/-- A path as pathlib hands it to the command: not empty, no trailing slash. -/
def WfPath (p : Path) : Prop := p ≠ [] ∧ p.getLast? ≠ some '/'

instance (p : Path) : Decidable (WfPath p) := by unfold WfPath; exact inferInstance

/-- Two paths of one invocation do not compete for a file: they differ and neither is the
    other's `.license` sibling. -/
def sepRel (q r : Path) : Prop := q ≠ r ∧ q ≠ sibling r ∧ r ≠ sibling q

instance (q r : Path) : Decidable (sepRel q r) := by unfold sepRel; exact inferInstance

/-- The paths the loop works on are pairwise separate (all_paths produces such a list unless
    FILE and an existing FILE.license are both named). -/
def Separate (ps : List Path) : Prop := ps.Pairwise sepRel

instance (ps : List Path) : Decidable (Separate ps) := by unfold Separate; exact inferInstance

/-- "the header cannot be produced for `p`": the loop body reports a failure for it when run on
    the tree the command started from -/
def Fails (env : Env) (a : Args) (fs : Fs) (p : Path) : Prop := (step env a fs p).2 = true

instance (env : Env) (a : Args) (fs : Fs) (p : Path) : Decidable (Fails env a fs p) := by
  unfold Fails; exact inferInstance

/-- What the loop body attempts for `p`: the path that would be written and the text read
    from it, or nothing when the file is skipped. -/
def attempt (env : Env) (a : Args) (fs : Fs) (p : Path) : Option (Path × Text) :=
  let t1 := if useSibling env a p then licSuffix p else p
  let unknown := (effStyle env a t1).isNone
  if unknown && a.skipUnrec then none
  else
    let t := if unknown && a.fallbackDot then licSuffix t1 else t1
    let text := Fs.readText fs t
    if a.skipExisting && env.hasInfo text then none else some (t, text)

/-- the hypothesis of the frame theorem for one command -/
def CmdWf (env : Env) : Cmd → Fs → Prop
  | .annotate a, fs => ∀ p ∈ expand env a fs, WfPath p
  | _, _ => True

instance (env : Env) (c : Cmd) (fs : Fs) : Decidable (CmdWf env c fs) := by
  cases c <;> unfold CmdWf <;> exact inferInstance

/-- `x` is outside what every command of the history is documented to touch, at the moment
    the command starts. -/
def Outside (env : Env) (w : World) (x : Path) : List Cmd → Fs → Prop
  | [], _ => True
  | c :: cs, fs => CmdWf env c fs ∧ x ∉ allowed env w c fs ∧ Outside env w x cs (exec env w c fs).1

def Outside.dec (env : Env) (w : World) (x : Path) :
    (cs : List Cmd) → (fs : Fs) → Decidable (Outside env w x cs fs)
  | [], _ => isTrue trivial
  | c :: cs, fs => by
    unfold Outside
    have := Outside.dec env w x cs (exec env w c fs).1
    exact inferInstance

instance (env : Env) (w : World) (x : Path) (cs : List Cmd) (fs : Fs) :
    Decidable (Outside env w x cs fs) := Outside.dec env w x cs fs

end Spec.Eff
