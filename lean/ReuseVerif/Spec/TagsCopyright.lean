/-
C02 — decidable hypotheses of the copyright counterpart of the tag read-back theorem:
a notice `builtLine prefix year holder` standing after a line prefix `pre` and before a trail
of blanks and comment terminators.
-/
import ReuseVerif.Spec.Copyright
import ReuseVerif.Spec.Tags

namespace Spec
open Py Model

/-- no non-empty tail of the holder, read together with the trail, is taken for terminators -/
def noEndSuffixBeforeC (endRe : Re) : Text → Text → Bool
  | [], _ => true
  | c :: cs, tail => !endAccepts endRe (c :: cs ++ tail) && noEndSuffixBeforeC endRe cs tail

/-- pattern `p` does not match at any position inside `pre` when `rest` follows -/
def noNoticeStart (endRe : Re) (p : CPat) : Text → Text → Bool
  | [], _ => true
  | c :: cs, rest => (matchAt endRe p (c :: cs ++ rest)).isNone && noNoticeStart endRe p cs rest

/-- no pattern of higher priority matches anywhere in the line -/
def earlierNone (endRe : Re) (p : CPat) (line : Text) : Bool :=
  match p with
  | .spdx => true
  | .word => (searchPat endRe .spdx line).isNone
  | .sign => (searchPat endRe .spdx line).isNone && (searchPat endRe .word line).isNone

/-- hypotheses of `C02_copyright_exact_partial` -/
def WFNotice (endRe : Re) (x : Text × CPat × Text) (y : YearForm) (h pre trail : Text) : Bool :=
  y.wf && WFHolder endRe h && endAccepts endRe trail && noEndSuffixBeforeC endRe h trail &&
  !("Copyright".toList).isPrefixOf (h ++ trail) &&
  noNoticeStart endRe x.2.1 pre (builtLine x.1 y h ++ trail) &&
  earlierNone endRe x.2.1 (pre ++ builtLine x.1 y h ++ trail)

end Spec
