/-
Declarative reading of property C12: a left-to-right scanner over the
characters of the text with two states.  Outside a block every character is
kept until a start marker begins; inside a block every character is dropped
until the next end marker has been read completely.  A stray end marker
outside a block is ordinary text; a start marker inside a block is ordinary
(dropped) text, so blocks do not nest; a block that is never closed runs to the
end of the text.
-/
import ReuseVerif.Py.Str

namespace Spec
open Py

/-- `scan st en inside skip text`: `skip` counts the remaining characters of a
    marker that is being consumed. -/
def scan (st en : Text) : Bool → Nat → Text → Text
  | _, _, [] => []
  | ins, skip + 1, _ :: cs => scan st en ins skip cs
  | false, 0, c :: cs =>
    if st.isPrefixOf (c :: cs) then scan st en true (st.length - 1) cs
    else c :: scan st en false 0 cs
  | true, 0, c :: cs =>
    if en.isPrefixOf (c :: cs) then scan st en false (en.length - 1) cs
    else scan st en true 0 cs

/-- The text that remains visible to the tag search. -/
def specFilter (st en : Text) (text : Text) : Text := scan st en false 0 text

/-- Per-character view of the same scanner: `keptMask` marks with `true`
    exactly the characters outside every block (marker characters are not
    kept).  `specFilter` is the sub-sequence selected by the mask. -/
def keptMask (st en : Text) : Bool → Nat → Text → List Bool
  | _, _, [] => []
  | ins, skip + 1, _ :: cs => false :: keptMask st en ins skip cs
  | false, 0, c :: cs =>
    if st.isPrefixOf (c :: cs) then false :: keptMask st en true (st.length - 1) cs
    else true :: keptMask st en false 0 cs
  | true, 0, c :: cs =>
    if en.isPrefixOf (c :: cs) then false :: keptMask st en false (en.length - 1) cs
    else false :: keptMask st en true 0 cs

/-- Markers cannot overlap each other or themselves: both begin with the
    same character, that character occurs nowhere else in either, and neither
    marker is a prefix of the other. -/
def markersDisjoint (st en : Text) : Bool :=
  match st, en with
  | a :: as, b :: bs =>
    a == b && !as.contains a && !bs.contains a && !as.isPrefixOf bs && !bs.isPrefixOf as
  | _, _ => false

end Spec
