/-
C09, full-file step: the decidable hypotheses of `C09_step` / `C09_history` (evaluated by the driver after
every step of a history: op `c09full`).  They speak about the *seam* only — the last line of what stands
above the header, the last line of the old and of the new header block —, never about the rest of the text.
-/
import ReuseVerif.Spec.History
import ReuseVerif.Spec.Idem

namespace Spec
open Py Model

/-- the text is empty or ends with a line feed -/
def lineEnded (t : Text) : Bool := t.isEmpty || t.getLast? == some '\n'

/-- the white space `rstrip` removes from the end of `b` starts with a line feed (or there is none): the last
    line of `b` that is not blank has no trailing white space, so `place_header` (which writes `rstrip b`)
    leaves that line as it was -/
def cleanSeam (b : Text) : Bool :=
  match b.drop (rstrip b).length with
  | [] => true
  | c :: _ => c == '\n'

end Spec
