/-
C09, full-file step: the decidable hypotheses of `C09_step` / `C09_history` (evaluated by the driver after
every step of a history: op `c09full`).  They speak about the *seam* only — the last line of what stands
above the header, the last line of the old and of the new header block —, never about the rest of the text.
-/
import ReuseVerif.Spec.History
import ReuseVerif.Spec.Idem

namespace Spec
open Py Model

/-- the sections one invocation works with: (above, old block, below); `--no-replace` has no old block -/
def sectionsOf (c : HdrCfg) (replace : Bool) (t : Text) : Text × Text × Text :=
  if replace then replaceSections c t else ((addSections c t).1, [], (addSections c t).2)

/-- the text is empty or ends with a line feed -/
def lineEnded (t : Text) : Bool := t.isEmpty || t.getLast? == some '\n'

/-- the white space `rstrip` removes from the end of `b` starts with a line feed (or there is none): the last
    line of `b` that is not blank has no trailing white space, so `place_header` (which writes `rstrip b`)
    leaves that line as it was -/
def cleanSeam (b : Text) : Bool :=
  match b.drop (rstrip b).length with
  | [] => true
  | c :: _ => c == '\n'

/-- the characters after which END's `\s*` may run on across a line end (`"\s*/*>`, `'\s*/*>`, `]\s*::`);
    that these are the only ones is the table obligation `C09_end_guarded` -/
def endQuotes : List Char := ['"', '\'', ']']

/-- the last character of the text that is not white space -/
def lastNonSpace (u : Text) : Option Char := (u.filter fun c => !isSpace c).getLast?

/-- white space at its end aside, the text ends with a character after which END could run on across the line end -/
def openEnd (u : Text) : Bool :=
  match lastNonSpace u with
  | some c => endQuotes.contains c
  | none => false

/-- `isSpace` on code points -/
def isSpaceNat (n : Nat) : Bool :=
  (9 ≤ n ∧ n ≤ 13) ∨ (28 ≤ n ∧ n ≤ 32) ∨ n = 0x85 ∨ n = 0xa0 ∨ n = 0x1680 ∨
  (0x2000 ≤ n ∧ n ≤ 0x200a) ∨ n = 0x2028 ∨ n = 0x2029 ∨ n = 0x202f ∨
  n = 0x205f ∨ n = 0x3000

/-- every character of the class is white space -/
def clsAllSpace (neg : Bool) (rs : List (Char × Char)) : Bool :=
  !neg && rs.all fun r => (List.range (r.2.toNat - r.1.toNat + 1)).all fun i => isSpaceNat (r.1.toNat + i)

/-- An abstract run of an expression: `armed` = "what has been read ends with a quote character and white space".
    `none` = the expression could read a line feed while not armed.  The result is the state after the expression
    (`false` when unsure). -/
def guardStep (Q : List Char) : Re → Bool → Option Bool
  | .eps, b => some b
  | .chr c, b =>
    if c == '\n' then (if b then some true else none)
    else some (if Q.contains c then true else if isSpace c then b else false)
  | .cls neg rs, b =>
    if Re.clsMatch neg rs '\n' && !b then none else some (b && clsAllSpace neg rs)
  | .cat a b', b => (guardStep Q a b).bind (guardStep Q b')
  | .alt a b', b =>
    match guardStep Q a b, guardStep Q b' b with
    | some x, some y => some (x && y)
    | _, _ => none
  | .star a, b =>
    match guardStep Q a b with
    | none => none
    | some b1 =>
      if b1 == b then some b
      else match guardStep Q a false with
        | some false => some false
        | _ => none

/-- END reads a line feed only behind one of the quote characters and white space -/
def EndGuarded (endRe : Re) : Prop := guardStep endQuotes endRe false = some false

instance (endRe : Re) : Decidable (EndGuarded endRe) := inferInstanceAs (Decidable (_ = _))

/-! ### the hypotheses of the full-file step -/

/-- the header block this invocation writes (when it succeeds) -/
def newHeaderOf (o : Op) (t : Text) : Except HeaderErr Text :=
  createHeader o.c o.info (sectionsOf o.c o.replace t).2.1

/-- **The seam** (decidable, three lines of the text and one of the new block): the last line above the header that is
    not blank has no trailing white space (`place_header` strips it), and neither that line, nor the last line of the old
    header block, nor the last line of the new one ends — white space aside — with `"`, `'` or `]` (after these END's
    `\s*` could run on into the next line, see `EndGuarded`). -/
def seamOK (o : Op) (t : Text) : Bool :=
  let s := sectionsOf o.c o.replace t
  cleanSeam s.1 && !openEnd s.1 && !openEnd s.2.1 &&
  (match newHeaderOf o t with
   | .ok hdr => !openEnd hdr
   | .error _ => true)

/-- the template renders the contributors it is handed: the new header block reads back the requested ones and those of
    the old block (decidable; `C09_contributors_handed` says these are what the template receives) -/
def rendersCon (o : Op) (t : Text) : Bool :=
  match newHeaderOf o t with
  | .ok hdr => (o.info.con ++ (extractRaw (sectionsOf o.c o.replace t).2.1).con).all ((extractRaw hdr).con.contains ·)
  | .error _ => true

/-- the `.license` pseudo style in replacing mode treats everything from the first position whose rest holds REUSE information
    as the block, and the *whole* text when there is none; nothing is lost by that when every expression of the text parses
    (a text without readable information then holds no information at all).  The pseudo style has no first-line markers. -/
def styleOK (o : Op) (t : Text) : Bool :=
  !o.replace || !(o.c.style.name == "EmptyCommentStyle") ||
    (o.c.style.shebangs.isEmpty && (extractRaw t).lic.all o.c.parses)

/-- the hypotheses under which one successful step is covered by `C09_step`: "\n" is the only line boundary of the old text,
    no `--merge-copyrights`, not the `.license` pseudo style in replacing mode, no `REUSE-IgnoreStart` in the old and in the new
    text, and the seam.  Nothing is assumed about where in the text the information lives. -/
def stepGoodFull (norm : Text → Text) (o : Op) (t : Text) : Prop :=
  ∀ t', annotateText o.c o.replace o.skipExisting o.info t = .written t' →
    o.c.normLic = norm ∧ (∀ x, norm (norm x) = norm x) ∧ o.c.merge = false ∧
    styleOK o t = true ∧
    NoExoticBreaks t ∧ noIgnoreStart t = true ∧ noIgnoreStart t' = true ∧ seamOK o t = true

/-- the decidable part of `stepGoodFull`, as the driver evaluates it (op `c09full`) -/
def stepGoodFullB (o : Op) (t t' : Text) : Bool :=
  !o.c.merge && styleOK o t &&
  decide (NoExoticBreaks t) && noIgnoreStart t && noIgnoreStart t' && seamOK o t

/-- every step of the history is good at the text it is applied to -/
inductive GoodRunFull (norm : Text → Text) : Text → List Op → Prop where
  | nil (t : Text) : GoodRunFull norm t []
  | cons (t : Text) (o : Op) (os : List Op) :
      stepGoodFull norm o t → GoodRunFull norm (stepText t o) os → GoodRunFull norm t (o :: os)

/-- …and the template of every successful step renders the contributors it is handed -/
inductive GoodRunCon (norm : Text → Text) : Text → List Op → Prop where
  | nil (t : Text) : GoodRunCon norm t []
  | cons (t : Text) (o : Op) (os : List Op) :
      stepGoodFull norm o t →
      ((∃ t', annotateText o.c o.replace o.skipExisting o.info t = .written t') → rendersCon o t = true) →
      GoodRunCon norm (stepText t o) os → GoodRunCon norm t (o :: os)

/-! ### `--merge-copyrights` -/

/-- the notices `--merge-copyrights` merges in this invocation: the requested ones and those of the old header block, in the
    order in which `merge_copyright_lines` meets them (`for line in sorted(copyright_lines)`) -/
def mergePool (o : Op) (t : Text) : List Text :=
  sortTexts (if (sectionsOf o.c o.replace t).2.1.isEmpty then o.info.cpr
    else unionTexts o.info.cpr (extractRaw (sectionsOf o.c o.replace t).2.1).cpr)

/-- the years lint reads from a merged year range: its two ends, or the single year -/
def endYears (ys : List Text) : List Text :=
  match yearMin ys, yearMax ys with
  | some lo, some hi => if yearVal lo == yearVal hi then [lo] else [lo, hi]
  | _, _ => []

/-- every merged line reads back (with the tool's own reader) its holder and the ends of its year range (decidable; the
    driver evaluates it on every merging step).  This is C20's make-then-parse property for the merged lines. -/
def mergeReadsBack (o : Op) (t : Text) : Bool :=
  let parsed := parseLines Generated.endRe (mergePool o t)
  parsed.all fun x =>
    match searchLine (lineFor parsed x.1) with
    | some m => m.statement == x.1 && parseYear m.year == endYears (yearsOf parsed x.1)
    | none => false

/-- the hypotheses of `C09_step_merge`: those of `C09_step` with `--merge-copyrights` given -/
def stepGoodMerge (norm : Text → Text) (o : Op) (t : Text) : Prop :=
  ∀ t', annotateText o.c o.replace o.skipExisting o.info t = .written t' →
    o.c.normLic = norm ∧ (∀ x, norm (norm x) = norm x) ∧ o.c.merge = true ∧
    styleOK o t = true ∧
    NoExoticBreaks t ∧ noIgnoreStart t = true ∧ noIgnoreStart t' = true ∧ seamOK o t = true

def stepGoodMergeB (o : Op) (t t' : Text) : Bool :=
  o.c.merge && styleOK o t &&
  decide (NoExoticBreaks t) && noIgnoreStart t && noIgnoreStart t' && seamOK o t

/-- the holders (statements) the reader finds in a set of notices -/
def holdersOf (cprs : List Text) : List Text := (parseLines Generated.endRe cprs).map (·.1)

/-- the years the reader finds for a holder in a set of notices -/
def yearsIn (cprs : List Text) (s : Text) : List Text := yearsOf (parseLines Generated.endRe cprs) s

/-- the year `z` lies (numerically) between two years stated for the holder `s` -/
def YearCovered (cprs : List Text) (s z : Text) : Prop :=
  ∃ a ∈ yearsIn cprs s, ∃ b ∈ yearsIn cprs s, yearVal a ≤ yearVal z ∧ yearVal z ≤ yearVal b

def yearCoveredB (cprs : List Text) (s z : Text) : Bool :=
  (yearsIn cprs s).any fun a => (yearsIn cprs s).any fun b => decide (yearVal a ≤ yearVal z) && decide (yearVal z ≤ yearVal b)

/-- every step is good: without `--merge-copyrights` as for `C09_history`, with it as for `C09_step_merge` and the merged
    lines read back -/
inductive GoodRunAny (norm : Text → Text) : Text → List Op → Prop where
  | nil (t : Text) : GoodRunAny norm t []
  | cons (t : Text) (o : Op) (os : List Op) :
      (stepGoodFull norm o t ∨ (stepGoodMerge norm o t ∧ mergeReadsBack o t = true)) →
      GoodRunAny norm (stepText t o) os → GoodRunAny norm t (o :: os)

/-! ### histories on CRLF / CR files -/

/-- the invocation without `--skip-existing` (an invocation that wrote did not take the short-circuit) -/
def Op.noSkip (o : Op) : Op := { o with skipExisting := false }

/-- the history as the LF text behind a file kept in the line-ending form `f` (`toCRLF` / `toCR`) sees it: the invocations
    that wrote to the file, in order, without `--skip-existing` -/
def lfOps (f : Text → Text) : Text → List Op → List Op
  | _, [] => []
  | u, o :: os =>
    match annotateText o.c o.replace o.skipExisting o.info (f u) with
    | .written _ => o.noSkip :: lfOps f (stepText u o.noSkip) os
    | _ => lfOps f u os

/-- no invocation that writes to the file (in form `f`) writes a carriage return of its own (the template's business) -/
inductive CleanRun (f : Text → Text) : Text → List Op → Prop where
  | nil (u : Text) : CleanRun f u []
  | wrote (u : Text) (o : Op) (os : List Op) (T : Text) :
      annotateText o.c o.replace o.skipExisting o.info (f u) = .written T →
      NoCR (stepText u o.noSkip) → CleanRun f (stepText u o.noSkip) os → CleanRun f u (o :: os)
  | kept (u : Text) (o : Op) (os : List Op) :
      (∀ T, annotateText o.c o.replace o.skipExisting o.info (f u) ≠ .written T) →
      CleanRun f u os → CleanRun f u (o :: os)

/-- contributors requested by the invocations of the history that succeeded -/
def accumulatedCon : Text → List Op → List Text
  | _, [] => []
  | t, o :: os =>
    match annotateText o.c o.replace o.skipExisting o.info t with
    | .written t' => o.info.con ++ accumulatedCon t' os
    | _ => accumulatedCon t os

end Spec
