/-
Declarative reading of property C03 on the same tree type: which paths are
covered files.  `At cs p n`: following the components of `p` from a directory
with entries `cs` leads to node `n`.
-/
import ReuseVerif.Model.Covered

namespace Spec
open Model

inductive At : List (String × Node) → List String → Node → Prop where
  | last {cs name n} : (name, n) ∈ cs → At cs [name] n
  | step {cs name sub p n} : (name, Node.dir sub) ∈ cs → At sub p n → At cs (name :: p) n

/-- The name of the directory that contains the entry at `q` (the walk's `parent_dir`). -/
def parentNameOf (rootName : String) (q : List String) : String :=
  (q.dropLast.getLast?).getD rootName

/-- `p` is a covered file of the tree: it is a regular, non-empty file that no file rule
    excludes, and every directory on the way to it is a real directory (not a symlink) that no
    directory rule excludes. -/
def Covered (cfg : WalkCfg) (rootName : String) (cs : List (String × Node)) (p : List String) : Prop :=
  ∃ size, At cs p (.file size) ∧ p ≠ [] ∧
    fileIgnored cfg p.dropLast (p.getLast?.getD "") size = false ∧
    ∀ q, q <+: p → q ≠ [] → q ≠ p →
      dirIgnored cfg q.dropLast (parentNameOf rootName q) (q.getLast?.getD "") = false

/-- The same, said recursively: below a directory (`path`, named `dirName`, entries `cs`) the
    relative path `rel` is covered when its first component is a regular file no file rule
    excludes, or a real directory no directory rule excludes below which the rest is covered. -/
inductive CoveredIn (cfg : WalkCfg) : List String → String → List (String × Node) → List String → Prop where
  | file {path dirName cs name size} :
      (name, Node.file size) ∈ cs → fileIgnored cfg path name size = false →
      CoveredIn cfg path dirName cs [name]
  | dir {path dirName cs name sub rel} :
      (name, Node.dir sub) ∈ cs → dirIgnored cfg path dirName name = false →
      CoveredIn cfg (path ++ [name]) name sub rel →
      CoveredIn cfg path dirName cs (name :: rel)

end Spec
