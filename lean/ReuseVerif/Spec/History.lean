/-
C09: histories of annotate invocations on one text.
-/
import ReuseVerif.Spec.Header

namespace Spec
open Py Model

/-- one `reuse annotate` invocation as the text-level model sees it -/
structure Op where
  c : HdrCfg
  replace : Bool
  skipExisting : Bool
  info : Extracted

/-- the file after the invocation: a failed or skipped invocation writes nothing -/
def stepText (t : Text) (o : Op) : Text :=
  match annotateText o.c o.replace o.skipExisting o.info t with
  | .written t' => t'
  | _ => t

/-- the file after a history -/
def run (t : Text) (ops : List Op) : Text := ops.foldl stepText t

/-- (copyright notices, licence expressions) requested by the invocations of the history that succeeded -/
def accumulated : Text → List Op → List Text × List Text
  | _, [] => ([], [])
  | t, o :: os =>
    match annotateText o.c o.replace o.skipExisting o.info t with
    | .written t' => (o.info.cpr ++ (accumulated t' os).1, o.info.lic ++ (accumulated t' os).2)
    | _ => accumulated t os

/-- everything the text declares is declared by the header block that this invocation will
    replace (files whose information lives in their header) -/
def headerHolds (o : Op) (t : Text) : Bool :=
  let old := oldHeader o.c o.replace (Py.replace t ['\n'] ['\n'])
  if old.isEmpty then (extractRaw t).cpr.isEmpty && (extractRaw t).lic.isEmpty
  else declaresB o.c.normLic (extractRaw old) (extractRaw t).cpr (extractRaw t).lic

/-- the decidable hypotheses under which one successful step is covered by `C09_step_partial`
    (evaluated by the driver after every step of a history: op `c09step`) -/
def stepGood (norm : Text → Text) (o : Op) (t : Text) : Prop :=
  ∀ t', annotateText o.c o.replace o.skipExisting o.info t = .written t' →
    o.c.normLic = norm ∧ (∀ x, norm (norm x) = norm x) ∧ o.c.merge = false ∧
    detectLineEnding t = ['\n'] ∧ noIgnoreStart t' = true ∧
    (∀ p, headerParts o.c o.replace o.info (Py.replace t ['\n'] ['\n']) = .ok p → tagsCompose p.1 t' = true) ∧
    headerHolds o t = true

/-- every step of the history is good at the text it is applied to -/
inductive GoodRun (norm : Text → Text) : Text → List Op → Prop where
  | nil (t : Text) : GoodRun norm t []
  | cons (t : Text) (o : Op) (os : List Op) :
      stepGood norm o t → GoodRun norm (stepText t o) os → GoodRun norm t (o :: os)

end Spec
