/-
C02 (general form) — the decidable hypotheses of `C02_tag_lines_general`, `C02_copyright_lines`,
`C02_value_exact` and `C02_extract_exact` (`Theorems/C02.lean`).  Every predicate here speaks about
*one line alone* (never about the rest of the text): what used to be decided per text
(`Spec.endStopsAt`, `Spec.WFLines`) follows from the structure of the generated END expression
(`Spec.EndGuarded`, decided once: `C09_end_guarded`).

A tag line is `pre ++ TAG ++ blanks ++ v ++ trail`:
* `WFShape … []`   — the shape (no earlier `TAG[ \t]`, blanks, a value on one line, …);
* `endOk trail`    — END accepts the trail (implied for every sequence of listed terminators
                     and blanks: `endOk_pieces`);
* `!openEnd trail` — white space aside, the trail does not end with `"`, `'` or `]` (after these
                     END's `\s*` could run on into the next line);
* `valueSafeIn v trail` — no non-empty tail of the value can begin something END matches
                     (`tailSafe`, Brzozowski derivatives; implied when the last character of `v` is one
                     END cannot consume), *or* no tail of the value is taken for terminators in this line
                     read alone and the line does not end with `"`, `'`, `]`;
* `isStripped v`, `frameFree pre v` — as before; a *framed* line captures `v ++ ws ++ mirror pre`.
-/
import ReuseVerif.Spec.Achievable
import ReuseVerif.Spec.HistoryFull

namespace Spec
open Py Model

/-- the physical line of a tag-line description (without its line end) -/
def TagLineSpec.line (tag : Text) (s : TagLineSpec) : Text := s.pre ++ tag ++ s.blanks ++ s.v ++ s.trail

/-- **The condition on the captured text `w`, about the line alone**: no non-empty tail of `w` can begin something
    END matches (`tailSafe`: independent of the trail) — or no tail of `w`, read with the trail of this line and
    nothing after it, is taken for terminators (`noEndSuffixBefore`: the exact condition for the line read alone) and
    the line does not end, white space aside, with `"`, `'` or `]`.  Either way the same holds whatever follows the
    line (`C02L.valueSafe_any`). -/
def valueSafeIn (endRe : Re) (w trail : Text) : Bool :=
  tailSafe endRe w || (noEndSuffixBefore endRe w trail && !openEnd (w ++ trail))

/-- the regular-expression part of the hypotheses on a tag line (`s.v` is what the expression captures) -/
def tagLineRaw (endRe : Re) (tag : Text) (s : TagLineSpec) : Bool :=
  WFShape tag s.pre s.blanks s.v s.trail [] && endOk endRe s.trail && !openEnd s.trail &&
  valueSafeIn endRe s.v s.trail

/-- the hypotheses on a tag line; all of them about the line alone -/
def tagLineOK (endRe : Re) (tag : Text) (s : TagLineSpec) : Bool :=
  WFShape tag s.pre s.blanks s.v s.trail [] && endOk endRe s.trail && !openEnd s.trail &&
  valueSafeIn endRe s.v s.trail && isStripped s.v && frameFree s.pre s.v

/-- a framed tag line: the expression captures the value, white space and the mirror image of the line prefix -/
def TagLineSpec.framed (s : TagLineSpec) (ws : Text) : TagLineSpec :=
  ⟨s.pre, s.blanks, s.v ++ ws ++ mirror s.pre, s.trail⟩

/-- the hypotheses on a framed tag line `pre ++ TAG ++ blanks ++ v ++ ws ++ mirror pre ++ trail` -/
def tagLineFramedOK (endRe : Re) (tag : Text) (s : TagLineSpec) (ws : Text) : Bool :=
  tagLineRaw endRe tag (s.framed ws) && isStripped s.v && !ws.isEmpty && ws.all isSpace && !(mirror s.pre).isEmpty

/-- the hypotheses on a tag line that is to be *found* (nothing about what the reader does after
    it, hence nothing about where END stops) -/
def tagLineFound (endRe : Re) (tag : Text) (s : TagLineSpec) : Bool :=
  WFShape tag s.pre s.blanks s.v s.trail [] && endOk endRe s.trail &&
  valueSafeIn endRe s.v s.trail && isStripped s.v && frameFree s.pre s.v

/-- the same with a purely syntactic condition on the trail: it is a sequence of pieces, each a blank/tab or a
    terminator that END lists as a literal alternative (`pieceOk`) -/
def tagLineSyn (endRe : Re) (tag : Text) (s : TagLineSpec) (pieces : List Text) : Bool :=
  (match starBody endRe with
   | some body => pieces.all (pieceOk body)
   | none => false) &&
  s.trail == pieces.flatten &&
  WFShape tag s.pre s.blanks s.v s.trail [] && !openEnd s.trail &&
  tailSafe endRe s.v && isStripped s.v && frameFree s.pre s.v

/-- a framed line with a purely syntactic condition on the trail -/
def tagLineFramedSyn (endRe : Re) (tag : Text) (s : TagLineSpec) (ws : Text) (pieces : List Text) : Bool :=
  (match starBody endRe with
   | some body => pieces.all (pieceOk body)
   | none => false) &&
  s.trail == pieces.flatten &&
  WFShape tag s.pre s.blanks (s.v ++ ws ++ mirror s.pre) s.trail [] && !openEnd s.trail &&
  tailSafe endRe (s.v ++ ws ++ mirror s.pre) && isStripped s.v && !ws.isEmpty && ws.all isSpace && !(mirror s.pre).isEmpty

/-- a line of a text as the reader of one tag sees it -/
inductive TextLine where
  | free (l : Text)                        -- no `TAG[ \t]` starts in it; otherwise arbitrary
  | tagged (s : TagLineSpec)               -- a tag line
  | framed (s : TagLineSpec) (ws : Text)   -- a tag line inside an ASCII-art frame

def TextLine.text (tag : Text) : TextLine → Text
  | .free l => l
  | .tagged s => s.line tag
  | .framed s ws => (s.framed ws).line tag

def TextLine.value : TextLine → Option Text
  | .free _ => none
  | .tagged s => some s.v
  | .framed s _ => some s.v

def TextLine.ok (endRe : Re) (tag : Text) : TextLine → Bool
  | .free l => tagFreeLine tag l
  | .tagged s => tagLineOK endRe tag s
  | .framed s ws => tagLineFramedOK endRe tag s ws

/-- the text made of the lines, separated by line feeds (a text that ends with a line feed has
    an empty last line) -/
def textOf (tag : Text) (ls : List TextLine) : Text := join ['\n'] (ls.map (·.text tag))

/-! ### the value condition of `C02_value_exact` -/

/-- `WFValue` with the finer condition on the value: `tailSafe` instead of "no tail of the value
    is taken for terminators in this line" (`noEndSuffixBefore`, which depends on the trail) -/
def WFValueSafe (endRe : Re) (tag pre blanks v trail le : Text) : Bool :=
  WFShape tag pre blanks v trail le && endOk endRe (trail ++ le) && tailSafe endRe v &&
  isStripped v && frameFree pre v

/-! ### copyright notices in a text of lines -/

/-- none of the mandatory heads of the three copyright patterns (`SPDX-FileCopyrightText:` /
    `SPDX-SnippetCopyrightText:`, `Copyright`, the copyright sign) occurs anywhere in the line: a purely
    syntactic reason for a line to hold no notice -/
def headFree : Text → Bool
  | [] => true
  | c :: cs =>
    (eatHead .spdx (c :: cs)).isNone && (eatHead .word (c :: cs)).isNone && (eatHead .sign (c :: cs)).isNone &&
    headFree cs

/-- `WFHolder` without its END part: what the holder may begin with -/
def holderHead (h : Text) : Bool :=
  match h with
  | [] => false
  | c :: _ =>
    !isReSpace c && !isReDigit c && c != '-' && c != '(' && c != Char.ofNat 0xa9 &&
    !("Copyright".toList).isPrefixOf h

/-- `WFNotice` with purely syntactic END conditions: the trail is a sequence of listed terminators and blanks
    (`pieceOk`), the holder is tail-safe (no tail of it can begin a run of terminators) -/
def WFNoticeSyn (endRe : Re) (x : Text × CPat × Text) (y : YearForm) (h pre trail : Text) (pieces : List Text) : Bool :=
  (match starBody endRe with
   | some body => pieces.all (pieceOk body)
   | none => false) &&
  trail == pieces.flatten &&
  y.wf && holderHead h && noNewline h && tailSafe endRe h &&
  !("Copyright".toList).isPrefixOf (h ++ trail) &&
  noNoticeStart endRe x.2.1 pre (builtLine x.1 y h ++ trail) &&
  earlierNone endRe x.2.1 (pre ++ builtLine x.1 y h ++ trail)

/-- a line of a text as the copyright reader sees it -/
inductive CprLine where
  | other (l : Text)                                                  -- any line
  | notice (x : Text × CPat × Text) (y : YearForm) (h pre trail : Text)   -- `pre ++ notice ++ trail`

def CprLine.text : CprLine → Text
  | .other l => l
  | .notice x y h pre trail => pre ++ builtLine x.1 y h ++ trail

/-- the notice planted in the line -/
def CprLine.planted : CprLine → Option Text
  | .other _ => none
  | .notice x y h _ _ => some (builtLine x.1 y h)

/-- what the line contributes: the planted notice; for any other line whatever the reader finds in it -/
def CprLine.found (endRe : Re) : CprLine → Option Text
  | .other l => (searchLineWith endRe l).map fun m => strip m.whole
  | .notice x y h _ _ => some (builtLine x.1 y h)

/-- the hypotheses, line by line: no line boundary of `str.splitlines` inside a line; a notice line is
    `pre ++ notice ++ trail` satisfying `WFNotice` (hypotheses of `C02_copyright_exact_partial`) with one of the
    generated prefixes and a notice without outer white space -/
def CprLine.ok (endRe : Re) : CprLine → Bool
  | .other l => noBreakB l
  | .notice x y h pre trail =>
    decide (x ∈ prefixShapes) && WFNotice endRe x y h pre trail && isStripped (builtLine x.1 y h) &&
    noBreakB (pre ++ builtLine x.1 y h ++ trail)

/-- the other lines hold no notice -/
def CprLine.quietOther (endRe : Re) : CprLine → Bool
  | .other l => noticeFree endRe l
  | .notice .. => true

def cprTextOf (ls : List CprLine) : Text := join ['\n'] (ls.map (·.text))

/-! ### a text holding all three kinds of information -/

/-- a line of a text: a licence tag line, a contributor tag line, a copyright notice line, or a line that holds
    no information -/
inductive InfoLine where
  | lic (s : TagLineSpec)
  | con (s : TagLineSpec)
  | cpr (x : Text × CPat × Text) (y : YearForm) (h pre trail : Text)
  | other (l : Text)
  | licF (s : TagLineSpec) (ws : Text)     -- a licence line inside an ASCII-art frame
  | conF (s : TagLineSpec) (ws : Text)     -- a contributor line inside an ASCII-art frame

def InfoLine.text : InfoLine → Text
  | .lic s => s.line Generated.licenseTag
  | .con s => s.line Generated.contributorTag
  | .cpr x y h pre trail => pre ++ builtLine x.1 y h ++ trail
  | .other l => l
  | .licF s ws => (s.framed ws).line Generated.licenseTag
  | .conF s ws => (s.framed ws).line Generated.contributorTag

def InfoLine.licValue : InfoLine → Option Text
  | .lic s => some s.v
  | .licF s _ => some s.v
  | _ => none

def InfoLine.conValue : InfoLine → Option Text
  | .con s => some s.v
  | .conF s _ => some s.v
  | _ => none

def InfoLine.notice : InfoLine → Option Text
  | .cpr x y h _ _ => some (builtLine x.1 y h)
  | _ => none

/-- the line as the licence reader / the contributor reader / the copyright reader sees it -/
def InfoLine.forLic : InfoLine → TextLine
  | .lic s => .tagged s
  | .licF s ws => .framed s ws
  | l => .free l.text

def InfoLine.forCon : InfoLine → TextLine
  | .con s => .tagged s
  | .conF s ws => .framed s ws
  | l => .free l.text

def InfoLine.forCpr : InfoLine → CprLine
  | .cpr x y h pre trail => .notice x y h pre trail
  | l => .other l.text

/-- **The hypotheses of `C02_extract_exact`, line by line.**  A licence line satisfies `tagLineOK` for the licence
    tag, holds no `SPDX-FileContributor[ \t]`, no copyright notice, no line boundary and no `REUSE-IgnoreStart`;
    likewise a contributor line; a notice line satisfies the hypotheses of `C02_copyright_lines` and holds neither
    tag; any other line holds neither tag and no notice. -/
def InfoLine.ok (endRe : Re) (l : InfoLine) : Bool :=
  l.forLic.ok endRe Generated.licenseTag && l.forCon.ok endRe Generated.contributorTag &&
  l.forCpr.ok endRe && l.forCpr.quietOther endRe && (findSub Generated.ignoreStart l.text).isNone

/-- the same with purely syntactic conditions (no run of the matcher): the trail of a tag line / of a notice line is
    the given sequence of listed terminators and blanks, values and holders are tail-safe, and the lines that are to
    hold no notice hold none of the heads of the copyright patterns (`headFree`) -/
def InfoLine.syn (endRe : Re) (l : InfoLine) (pieces : List Text) : Bool :=
  (match l with
   | .lic s => tagLineSyn endRe Generated.licenseTag s pieces && tagFreeLine Generated.contributorTag l.text &&
       headFree l.text
   | .con s => tagLineSyn endRe Generated.contributorTag s pieces && tagFreeLine Generated.licenseTag l.text &&
       headFree l.text
   | .cpr x y h pre trail => decide (x ∈ prefixShapes) && WFNoticeSyn endRe x y h pre trail pieces &&
       isStripped (builtLine x.1 y h) &&
       tagFreeLine Generated.licenseTag l.text && tagFreeLine Generated.contributorTag l.text
   | .other t => tagFreeLine Generated.licenseTag t && tagFreeLine Generated.contributorTag t && headFree t
   | .licF s ws => tagLineFramedSyn endRe Generated.licenseTag s ws pieces &&
       tagFreeLine Generated.contributorTag l.text && headFree l.text
   | .conF s ws => tagLineFramedSyn endRe Generated.contributorTag s ws pieces &&
       tagFreeLine Generated.licenseTag l.text && headFree l.text) &&
  noBreakB l.text && (findSub Generated.ignoreStart l.text).isNone

def infoTextOf (ls : List InfoLine) : Text := join ['\n'] (ls.map (·.text))

/-- what is planted in the text: the licence values, the notices, the contributor values — each as a set in order
    of first occurrence.  A licence line whose value is empty plants nothing (a tag without a value declares nothing;
    possible only for a framed line whose frame is set off by white space other than blanks) -/
def plantedInfo (ls : List InfoLine) : Extracted :=
  { lic := (dedup (ls.filterMap (·.licValue))).filter (fun v => !v.isEmpty)
    cpr := dedup (ls.filterMap (·.notice))
    con := dedup (ls.filterMap (·.conValue)) }

/-! ### ignore blocks -/

/-- a text with ignore blocks: visible `a0`, then any number of closed blocks `REUSE-IgnoreStart b REUSE-IgnoreEnd`
    each followed by visible text `a`, and possibly a last block that is never closed -/
def blocksText (a0 : Text) : List (Text × Text) → Option Text → Text
  | [], none => a0
  | [], some b => a0 ++ Generated.ignoreStart ++ b
  | (b, a) :: rest, o => a0 ++ Generated.ignoreStart ++ b ++ Generated.ignoreEnd ++ blocksText a rest o

/-- what is outside the blocks, glued together -/
def visibleText (a0 : Text) : List (Text × Text) → Text
  | [] => a0
  | (_, a) :: rest => a0 ++ visibleText a rest

/-- the decomposition is the one the reader makes: no start marker in a visible part, no end marker in a hidden part
    (which is otherwise arbitrary: tag lines, notices, further start markers) -/
def chunksOK (a0 : Text) (bs : List (Text × Text)) (o : Option Text) : Bool :=
  (findSub Generated.ignoreStart a0).isNone &&
  bs.all (fun p => (findSub Generated.ignoreEnd p.1).isNone && (findSub Generated.ignoreStart p.2).isNone) &&
  (match o with
   | none => true
   | some b => (findSub Generated.ignoreEnd b).isNone)

end Spec
