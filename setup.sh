#!/bin/sh
# Build the framework offline from files on disk: regenerate tables from /repo/src, build all Lean targets.
set -e
cd "$(dirname "$0")"
export PYTHONPATH=/repo/src PYTHONDONTWRITEBYTECODE=1
/venv/bin/python harness/gen_tables.py
cd lean
lake build rvdriver ReuseVerif.All
