"""C09 — annotate accumulates information and never drops any."""
import json
import os

from core import Property, Stream, enc, dec, enc_list, dec_list, run_driver
import annotcorr
import annotgen as G
import cli


# --------------------------------------------------------------------------
# the model running alongside a history of real annotate invocations

def effective_style(step, name):
    """Style class name add_header_to_file works with (the file-type tables are C07's matter)."""
    from reuse import comment
    st = comment.NAME_STYLE_MAP.get(step.get("style")) if step.get("style") else None
    if st is None:
        st = comment.get_comment_style(name)
    return None if st is None else st.__name__


def model_step(step, style_name, text):
    """What the Lean model says one invocation does to `text`: 'W:<text>' | 'S' | 'F:<error>'."""
    from jinja2 import Environment
    from reuse import _LICENSING
    from reuse.header import DEFAULT_TEMPLATE
    year = G.year_text(step.get("year"))
    cpr = sorted({G.expected_notice(h, step.get("prefix"), year) for h in step.get("cpr", [])})
    lic = sorted({G.norm_lic(x) for x in step.get("lic", [])})
    con = sorted(set(step.get("con", [])))
    tmpl = step.get("tmpl", "default")
    commented = tmpl != "default" and ".commented." in G.TEMPLATES[tmpl][0]
    flags = "".join("1" if b else "0" for b in (commented, step.get("line") == "multi", step.get("merge"), not step.get("no_replace"), step.get("skip_existing")))
    norm = text.replace("\r\n", "\n") if "\r\n" in text else text.replace("\r", "\n")
    outs = run_driver(["findtag\tL\t" + enc(text), "findtag\tL\t" + enc(norm)])
    bad = []
    for v in set(dec_list(outs[0]) + dec_list(outs[1])):
        try:
            _LICENSING.parse(v)
        except Exception:
            bad.append(v)
    bad = enc_list(sorted(bad))
    args = (style_name, flags, enc_list(cpr), enc_list(con), enc_list(lic), bad, enc(text))
    info = run_driver(["hdrinfo\t%s\t%s\t%s\t%s\t%s\t%s\t%s" % args])[0]
    if info == "none" or tmpl == "default":
        tm = "default"
    else:
        c, n, l = (dec_list(x) for x in info.split("|"))
        t = Environment(trim_blocks=True).from_string(G.TEMPLATES[tmpl][1])
        tm = "rendered:" + enc(t.render(copyright_lines=c, contributor_lines=n, spdx_expressions=l))
    tail = "\t%s\t%s\t%s\t%s\t%s\t%s\t%s\t%s" % (style_name, flags, tm, enc_list(cpr), enc_list(con), enc_list(lic), bad, enc(text))
    a, h, hf = run_driver(["annotate" + tail, "c09step" + tail, "c09full" + tail])
    return a + "@" + h + ";" + hf


def _read(root, rel):
    try:
        with open(os.path.join(root, rel), "r", encoding="utf-8", newline="") as fp:
            return fp.read()
    except (FileNotFoundError, UnicodeDecodeError):
        return None


def run_history(case):
    """Every step of the history through the real CLI in one scratch project; per step the linter's reading
    before / after (independent oracle) and the text of the file the header lives in (for the model)."""
    f = case["file"]
    steps = []
    with cli.scratch("rv-c09-") as root:
        tree = {f["name"]: G.file_bytes(f)}
        for name in {s.get("tmpl", "default") for s in case["ops"]} - {"default"}:
            fn, text = G.TEMPLATES[name]
            tree[".reuse/templates/" + fn] = text
        cli.write_tree(root, tree)
        for step in case["ops"]:
            one = dict(step, files=[f])
            target = f["name"] + ".license" if os.path.exists(os.path.join(root, f["name"] + ".license")) else f["name"]
            text_before = _read(root, target)
            rec = G.run_in(root, one)
            target_after = f["name"] + ".license" if os.path.exists(os.path.join(root, f["name"] + ".license")) else f["name"]
            steps.append({"rec": rec, "target": target, "target_after": target_after, "text_before": text_before, "text_after": _read(root, target_after)})
    return steps


def judge_history(case, steps):
    """The property after every step; (index, description) of the first failing step or None."""
    f = case["file"]
    for i, (step, st) in enumerate(zip(case["ops"], steps)):
        rec = st["rec"]
        if rec["exc"]:
            return i, "traceback: annotate raised %s" % rec["exc"]
        one = dict(step, files=[f])
        # the sibling that an earlier step created is what the file "already declared" lives in
        ff = dict(f, sib="" if st["target"].endswith(".license") and st["target"] != f["name"] else f.get("sib"))
        why = G.judge_file(one, ff, rec, rec["rc"])
        if why is not None:
            return i, why
    return None


class HistoryStream(Stream):
    name = "history"
    rule = ("histories of real `reuse annotate` invocations (CLI, in-process) on one file, length 1-5 (quick) / 1-12 (thorough), ops drawn "
            "from {holders, licences, contributors, 10 prefixes, --year / --exclude-year, --style, --single-line / --multi-line, "
            "--no-replace, --merge-copyrights, --skip-existing, 11 templates incl. information-dropping ones}, on files of every "
            "table style that start empty, with a foreign or own-style header, or with code; the dot-license mode is fixed per history. "
            "After every step `reuse lint --json` is read: exit 0 => declared(after) >= declared(before) U requested (copyright, "
            "licences; contributors under templates that render them; with --merge-copyrights: same holders, year ranges cover), "
            "otherwise the file is unchanged.  The Lean model runs alongside: its annotateText on the text before each step must "
            "give the text after it.  A failing history is shrunk (steps removed while the same kind of failure remains).  "
            "non-trivial = distinct (style, history shape, outcomes)")

    def _step(self, rng, shorthands, allow_style):
        o = {"prefix": rng.choice(G.PREFIXES), "year": rng.choice([None, "exclude", ["2019"], ["2015", "2021"], ["1999"], ["2024"]])}
        o["tmpl"] = rng.choice(["default"] * 6 + list(G.TEMPLATES))
        o["line"] = rng.choice([None, None, None, "single", "multi"])
        o["no_replace"] = rng.random() < 0.12
        o["merge"] = rng.random() < 0.2
        o["skip_existing"] = rng.random() < 0.06
        if allow_style and rng.random() < 0.2:
            o["style"] = rng.choice(shorthands)
        cpr, lic, con = G.rand_request(rng, tricky=0.05)
        return dict(o, cpr=cpr, lic=lic, con=con)

    def cases(self, tier, rng):
        thorough = tier == "thorough"
        from reuse import comment
        shorthands = list(comment.NAME_STYLE_MAP)
        entries = [e for e in G.table_entries()]
        by_style = {}
        for e in entries:
            by_style.setdefault(e[2], []).append(e)
        n = 800 if thorough else 150
        maxlen = 12 if thorough else 5
        styles = sorted(by_style)
        for k in range(n):
            kind, key, style = rng.choice(by_style[styles[k % len(styles)]])
            start = rng.choice(["empty", "header", "header", "code"])
            if start == "empty":
                body = ""
            else:
                body, _ = G.rand_body(rng, style if start == "header" else None, exotic=0.02)
            f = {"name": G.name_for(kind, key), "body": body, "entry": [kind, key, style], "kind": "table"}
            dot = rng.choice([None, None, None, "force", "fallback"])
            ops = []
            for _ in range(rng.randint(1, maxlen)):
                s = self._step(rng, shorthands, allow_style=True)
                s["dot"] = dot
                ops.append(s)
            yield {"file": f, "ops": ops}
        # the same holder stated with different years, merged at some point
        for k in range(60 if thorough else 12):
            h = rng.choice(G.HOLDERS)
            years = rng.sample(["1999", "2005", "2011", "2017", "2023"], 3)
            ops = [{"cpr": [h], "lic": ["MIT"] if i == 0 else [], "con": [], "year": [y], "prefix": rng.choice(G.PREFIXES), "tmpl": "default",
                    "merge": rng.random() < 0.5 or i == 2} for i, y in enumerate(years)]
            kind, key, style = rng.choice(entries)
            yield {"file": {"name": G.name_for(kind, key), "body": "", "entry": [kind, key, style], "kind": "table"}, "ops": ops}

    # ---- implementation
    def impl(self, case):
        steps = run_history(case)
        self._steps = getattr(self, "_steps", {})
        self._steps[json.dumps(case, sort_keys=True)] = steps
        return json.dumps([{"rc": s["rec"]["rc"], "changed": s["rec"]["changed"], "after": s["rec"]["after"], "exc": s["rec"]["exc"]} for s in steps], sort_keys=True)

    # ---- oracle, with shrinking
    def oracle(self, case, impl_out):
        if impl_out.startswith("EXC"):
            return "harness: " + impl_out
        steps = getattr(self, "_steps", {}).get(json.dumps(case, sort_keys=True)) or run_history(case)
        bad = judge_history(case, steps)
        if bad is None:
            return None
        i, why = bad
        kind = why.split(":")[0]
        ops = list(case["ops"][: i + 1])
        orig = len(case["ops"])
        changed = True
        while changed and len(ops) > 1:
            changed = False
            for j in range(len(ops) - 1):
                cand = ops[:j] + ops[j + 1:]
                c2 = {"file": case["file"], "ops": cand}
                b2 = judge_history(c2, run_history(c2))
                if b2 is not None and b2[1].split(":")[0] == kind and G.shape_of(b2[1]) == G.shape_of(why):
                    ops, why, changed = cand[: b2[0] + 1], b2[1], True
                    break
        case["ops"] = ops            # the replay carries the minimal history
        case["shrunk_from"] = orig
        return "%s [after step %d of a history shrunk from %d to %d steps]" % (why, len(ops), orig, len(ops))

    def classify(self, case, failure):
        return G.shape_of(failure)

    # ---- the model alongside
    def model_lines(self, case):
        return ["findtag\tL\t"]      # placeholder: the real lines depend on the texts the implementation produced

    def model_out(self, case, outs):
        steps = getattr(self, "_steps", {}).get(json.dumps(case, sort_keys=True))
        if steps is None:
            return "?"
        f = case["file"]
        res = []
        for step, st in zip(case["ops"], steps):
            rec = st["rec"]
            if rec["rc"] == 2 or rec["exc"] or st["text_before"] is None:
                res.append("-")          # usage error / unreadable: nothing for the text-level model to say
                continue
            own_sibling = f["name"].endswith(".license")      # `_determine_license_suffix_path`: a .license file is its own sibling
            if st["target"] == f["name"] and not own_sibling and (step.get("dot") == "force" or st["target_after"] != st["target"]):
                # first step that routes to a fresh sibling: the model sees the empty sibling
                text, target = "", st["target_after"]
            else:
                text, target = st["text_before"], st["target"]
            sname = effective_style(step, target)
            if sname is None or sname == "UncommentableCommentStyle":
                sname = "EmptyCommentStyle" if target.endswith(".license") else None
            if sname is None:
                res.append("-")
                continue
            res.append(model_step(step, sname, text) + "@" + enc(text))
        return json.dumps(res)

    def agree(self, case, impl_out, model_out):
        if model_out == "?" or impl_out.startswith("EXC"):
            return True
        steps = getattr(self, "_steps", {}).get(json.dumps(case, sort_keys=True))
        for m, st, step in zip(json.loads(model_out), steps, case["ops"]):
            if m == "-":
                continue
            m, hyp, before_text = m.rsplit("@", 2)
            before_text = dec(before_text)
            hyp, full = hyp.split(";", 1)
            rec = st["rec"]
            if not self._tie_full(full, hyp, rec, st, step, before_text):
                return False
            if hyp.startswith("H1"):
                # theorem-hypothesis tie (C09_step_partial): the hypotheses hold on this step, so the real file must declare
                # (raw extraction of the whole text) everything the text before declared and everything requested
                if hyp != "H1|C1" or rec["rc"] != 0:
                    return False
                a, b = G.lint_read_bytes((st["text_after"] or "").encode("utf-8"), window=False), G.lint_read_bytes(before_text.encode("utf-8"), window=False)
                if a is not None and b is not None:
                    year = G.year_text(step.get("year"))
                    want = (b[0] | {G.expected_notice(x, step.get("prefix"), year) for x in step.get("cpr", [])}, b[1] | {G.norm_lic(x) for x in step.get("lic", [])}, set())
                    if G.missing(want, a, False):
                        return False
                    self._tied = getattr(self, "_tied", 0) + 1
            if m.startswith("W:"):
                if rec["rc"] != 0:
                    return False
                if st["text_after"] != dec(m[2:]):
                    # --merge-copyrights picks between equally frequent prefixes by set iteration order (the model is handed a
                    # sorted list): for merged steps the two texts must agree in everything but that choice
                    if not step.get("merge") or st["text_after"] is None:
                        return False
                    a, b = G.lint_read_bytes(st["text_after"].encode("utf-8")), G.lint_read_bytes(dec(m[2:]).encode("utf-8"))
                    if a is None or b is None or a[1:] != b[1:] or G.holders_years(a[0]) != G.holders_years(b[0]):
                        return False
            elif m == "S":
                if rec["rc"] != 0 or rec["changed"]:
                    return False
            elif m.startswith("F:"):
                if rec["rc"] == 0 or rec["changed"]:
                    return False
        return True

    # ---- theorem-hypothesis tie of the full-file theorems (C09_step, C09_step_crlf / _cr, C09_step_contributors)
    HYP_NAMES = ("no-merge", "style", "line-boundaries", "no-ignore-old", "no-ignore-new", "clean-seam", "seam-above",
                 "seam-old-block", "seam-new-block", "lf-form")

    def _tie_full(self, full, partial, rec, st, step, before_text):
        """`full` = answer of the driver op c09full on this step.  Where the hypotheses of C09_step hold (H1) the model's
        conclusion must hold (C1) and the real file must declare everything the file before declared and everything
        requested; where moreover the template rendered the contributors (R1): the same for contributors (K1)."""
        stats = self._stats()
        if full == "-":
            return True
        parts = dict((x[0], x[1:]) for x in full.split("|"))
        stats["written"] += 1
        stats["partial_hold"] += 1 if partial.startswith("H1") else 0
        flags = parts["D"][1:]
        for name, bit in zip(self.HYP_NAMES, flags):
            if bit == "0":
                stats["fails"][name] = stats["fails"].get(name, 0) + 1
        if not step.get("merge"):
            stats["written_nomerge"] += 1
        if step.get("merge") and parts.get("M") != "1":
            for name, bit in zip(("merge-lf-file", "merge-step-hyps", "merge-reads-back"), parts.get("E", ":---")[1:]):
                if bit == "0":
                    stats["fails"][name] = stats["fails"].get(name, 0) + 1
        if step.get("merge") and parts.get("M") == "1":
            # C09_step_merge / C09_history_merge: licences, the same holders, year ranges cover
            stats["merge_hold"] = stats.get("merge_hold", 0) + 1
            if parts["N"] != "1" or rec["rc"] != 0:
                return False
            a = G.lint_read_bytes((st["text_after"] or "").encode("utf-8"), window=False)
            b = G.lint_read_bytes(before_text.encode("utf-8"), window=False)
            if a is not None and b is not None:
                year = G.year_text(step.get("year"))
                want = (b[0] | {G.expected_notice(x, step.get("prefix"), year) for x in step.get("cpr", [])},
                        b[1] | {G.norm_lic(x) for x in step.get("lic", [])}, set())
                if G.missing(want, a, True):
                    return False
        if parts["H"] != "1":
            return True
        stats["full_hold"] += 1
        if parts["C"] != "1" or rec["rc"] != 0:
            return False
        a = G.lint_read_bytes((st["text_after"] or "").encode("utf-8"), window=False)
        b = G.lint_read_bytes(before_text.encode("utf-8"), window=False)
        if a is None or b is None:
            return True
        year = G.year_text(step.get("year"))
        want_cpr = b[0] | {G.expected_notice(x, step.get("prefix"), year) for x in step.get("cpr", [])}
        want_lic = b[1] | {G.norm_lic(x) for x in step.get("lic", [])}
        if G.missing((want_cpr, want_lic, set()), a, False):
            return False
        stats["full_tied"] += 1
        if parts["R"] == "1":
            stats["con_hold"] += 1
            if parts["K"] != "1":
                return False
            if G.missing((set(), set(), b[2] | set(step.get("con", []))), a, False):
                return False
        return True

    def _stats(self):
        if not hasattr(self, "_tie"):
            self._tie = {"written": 0, "written_nomerge": 0, "partial_hold": 0, "full_hold": 0, "full_tied": 0, "con_hold": 0, "fails": {}}
            import atexit
            atexit.register(self._report)
        return self._tie

    def _report(self):
        t = self._tie
        if not t["written"]:
            return
        print("C09 tie: %d steps wrote; hypotheses of C09_step_partial hold on %d, of C09_step / _crlf / _cr on %d "
              "(of %d without --merge-copyrights), contributors tied on %d, hypotheses of C09_step_merge + mergeReadsBack on %d "
              "(of %d with --merge-copyrights); failing hypotheses: %s"
              % (t["written"], t["partial_hold"], t["full_hold"], t["written_nomerge"], t["con_hold"], t.get("merge_hold", 0),
                 t["written"] - t["written_nomerge"],
                 ", ".join("%s=%d" % kv for kv in sorted(t["fails"].items())) or "none"))
        try:
            from core import VERIF
            with open(os.path.join(VERIF, "evidence", "C09-tie.json"), "w", encoding="utf-8") as fp:
                json.dump(t, fp, indent=1, sort_keys=True)
        except Exception:
            pass

    def nontrivial(self, case, impl_out):
        if impl_out.startswith("EXC"):
            return None
        outs = json.loads(impl_out)
        return (case["file"].get("entry", ["", "", ""])[2], len(case["ops"]), tuple((o["rc"], bool(o["changed"])) for o in outs),
                tuple((s.get("tmpl"), bool(s.get("merge")), bool(s.get("no_replace")), s.get("style")) for s in case["ops"]))

    def show(self, case):
        return case


class AnnotateMonotoneStream(annotcorr.AnnotateStream):
    """add_header_to_file vs the model (annotcorr), judged by the step invariant on raw extraction:
    what the old text declared and what was requested is declared by the new text."""
    name = "annotate"

    def oracle(self, case, impl_out):
        if not impl_out.startswith("W:"):
            return None
        merged = case["f"][2] == "1"
        renders = case["tmpl"] in ("default", "adds-text", "commented")
        old = G.lint_read_bytes(self._text(case).encode("utf-8"))
        if old is None:
            return None      # the linter could not read the file before either (an expression in it does not parse): C07's finding
        data = dec(impl_out[2:]).encode("utf-8")
        want = (set(case["cpr"]), {G.norm_lic(x) for x in case["lic"]}, set(case["con"]) if renders else set())
        if old is not None:
            want = (want[0] | old[0], want[1] | old[1], want[2] | (old[2] if renders else set()))
        got = G.lint_read_bytes(data)
        m = {"parse": True} if got is None else G.missing(want, got, merged)
        if m:
            k = G.obstacle(data, want, merged)
            return "not-monotone: the new text does not declare %r%s" % (m, " {shape=%s}" % k if k else "")
        return None

    def classify(self, case, failure):
        return G.shape_of(failure)


PROPERTY = Property(
    pid="C09",
    streams=[AnnotateMonotoneStream(), HistoryStream()],
    assumptions=[
        "Jinja2 is outside the model: the template is an arbitrary function in the theorems; in the correspondence the model receives "
        "the text real Jinja rendered for the information the model computed",
        "license-expression is an oracle parameter (`parses`, `normLic`) of the model; expressions are compared as the parser renders them",
        "the dot-license mode is fixed within a history: switching to --force-dot-license in mid-history makes lint read the sibling "
        "instead of the file (REUSE specification), which is a change of the place the information lives in, not a loss inside a file",
    ],
)
