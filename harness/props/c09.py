"""C09 — annotate accumulates information and never drops any."""
import json
import re
import os

from core import Property, Stream, enc, dec, enc_list, dec_list, run_driver
import annotcorr
import annotgen as G
import cli


# --------------------------------------------------------------------------
# the model running alongside a history of real annotate invocations

def effective_style(step, name):
    """Style class name add_header_to_file works with (the file-type tables are C07's matter)."""
    from reuse import comment
    st = comment.NAME_STYLE_MAP.get(step.get("style")) if step.get("style") else None
    if st is None:
        st = comment.get_comment_style(name)
    return None if st is None else st.__name__


def model_step(step, style_name, text):
    """What the Lean model says one invocation does to `text`: 'W:<text>' | 'S' | 'F:<error>'."""
    from jinja2 import Environment
    from reuse import _LICENSING
    from reuse.header import DEFAULT_TEMPLATE
    year = G.year_text(step.get("year"))
    cpr = sorted({G.expected_notice(h, step.get("prefix"), year) for h in step.get("cpr", [])})
    lic = sorted({G.norm_lic(x) for x in step.get("lic", [])})
    con = sorted(set(step.get("con", [])))
    tmpl = step.get("tmpl", "default")
    commented = tmpl != "default" and ".commented." in G.TEMPLATES[tmpl][0]
    flags = "".join("1" if b else "0" for b in (commented, step.get("line") == "multi", step.get("merge"), not step.get("no_replace"), step.get("skip_existing")))
    norm = text.replace("\r\n", "\n") if "\r\n" in text else text.replace("\r", "\n")
    outs = run_driver(["findtag\tL\t" + enc(text), "findtag\tL\t" + enc(norm)])
    bad = []
    for v in set(dec_list(outs[0]) + dec_list(outs[1])):
        try:
            _LICENSING.parse(v)
        except Exception:
            bad.append(v)
    bad = enc_list(sorted(bad))
    args = (style_name, flags, enc_list(cpr), enc_list(con), enc_list(lic), bad, enc(text))
    info = run_driver(["hdrinfo\t%s\t%s\t%s\t%s\t%s\t%s\t%s" % args])[0]
    if info == "none" or tmpl == "default":
        tm = "default"
    else:
        c, n, l = (dec_list(x) for x in info.split("|"))
        t = Environment(trim_blocks=True).from_string(G.TEMPLATES[tmpl][1])
        tm = "rendered:" + enc(t.render(copyright_lines=c, contributor_lines=n, spdx_expressions=l))
    tail = "\t%s\t%s\t%s\t%s\t%s\t%s\t%s\t%s" % (style_name, flags, tm, enc_list(cpr), enc_list(con), enc_list(lic), bad, enc(text))
    a, h, hf = run_driver(["annotate" + tail, "c09step" + tail, "c09full" + tail])
    return a + "@" + h + ";" + hf


def _read(root, rel):
    try:
        with open(os.path.join(root, rel), "r", encoding="utf-8", newline="") as fp:
            return fp.read()
    except (FileNotFoundError, UnicodeDecodeError):
        return None


def run_history(case):
    """Every step of the history through the real CLI in one scratch project; per step the linter's reading
    before / after (independent oracle) and the text of the file the header lives in (for the model)."""
    f = case["file"]
    steps = []
    with cli.scratch("rv-c09-") as root:
        tree = {f["name"]: G.file_bytes(f)}
        if f.get("sib") is not None:
            tree[f["name"] + ".license"] = f["sib"].encode("utf-8")
        for name in {s.get("tmpl", "default") for s in case["ops"]} - {"default"}:
            fn, text = G.TEMPLATES[name]
            tree[".reuse/templates/" + fn] = text
        cli.write_tree(root, tree)
        for step in case["ops"]:
            one = dict(step, files=[f])
            target = f["name"] + ".license" if os.path.exists(os.path.join(root, f["name"] + ".license")) else f["name"]
            text_before = _read(root, target)
            rec = G.run_in(root, one)
            target_after = f["name"] + ".license" if os.path.exists(os.path.join(root, f["name"] + ".license")) else f["name"]
            steps.append({"rec": rec, "target": target, "target_after": target_after, "text_before": text_before, "text_after": _read(root, target_after)})
    return steps


def judge_history(case, steps):
    """The property after every step; (index, description) of the first failing step or None."""
    f = case["file"]
    for i, (step, st) in enumerate(zip(case["ops"], steps)):
        rec = st["rec"]
        if rec["exc"]:
            return i, "traceback: annotate raised %s" % rec["exc"]
        one = dict(step, files=[f])
        # the sibling that an earlier step created is what the file "already declared" lives in
        ff = dict(f, sib="" if st["target"].endswith(".license") and st["target"] != f["name"] else f.get("sib"))
        why = G.judge_file(one, ff, rec, rec["rc"])
        if why is not None:
            return i, why
    return None


class HistoryStream(Stream):
    name = "history"
    rule = ("histories of real `reuse annotate` invocations (CLI, in-process) on one file, length 1-5 (quick) / 1-12 (thorough), ops drawn "
            "from {holders, licences, contributors, 10 prefixes, --year / --exclude-year, --style, --single-line / --multi-line, "
            "--no-replace, --merge-copyrights, --skip-existing, 11 templates incl. information-dropping ones}, on files of every "
            "table style that start empty, with a foreign or own-style header, or with code; the dot-license mode is fixed per history. "
            "After every step `reuse lint --json` is read: exit 0 => declared(after) >= declared(before) U requested (copyright, "
            "licences; contributors under templates that render them; with --merge-copyrights: same holders, year ranges cover), "
            "otherwise the file is unchanged.  The Lean model runs alongside: its annotateText on the text before each step must "
            "give the text after it.  A failing history is shrunk (steps removed while the same kind of failure remains).  "
            "non-trivial = distinct (style, history shape, outcomes)")

    def _step(self, rng, shorthands, allow_style):
        o = {"prefix": rng.choice(G.PREFIXES), "year": rng.choice([None, "exclude", ["2019"], ["2015", "2021"], ["1999"], ["2024"]])}
        o["tmpl"] = rng.choice(["default"] * 6 + list(G.TEMPLATES))
        o["line"] = rng.choice([None, None, None, "single", "multi"])
        o["no_replace"] = rng.random() < 0.12
        o["merge"] = rng.random() < 0.2
        o["skip_existing"] = rng.random() < 0.06
        if allow_style and rng.random() < 0.2:
            o["style"] = rng.choice(shorthands)
        cpr, lic, con = G.rand_request(rng, tricky=0.05)
        return dict(o, cpr=cpr, lic=lic, con=con)

    def cases(self, tier, rng):
        thorough = tier == "thorough"
        from reuse import comment
        shorthands = list(comment.NAME_STYLE_MAP)
        entries = [e for e in G.table_entries()]
        by_style = {}
        for e in entries:
            by_style.setdefault(e[2], []).append(e)
        n = 800 if thorough else 150
        maxlen = 12 if thorough else 5
        styles = sorted(by_style)
        for k in range(n):
            kind, key, style = rng.choice(by_style[styles[k % len(styles)]])
            start = rng.choice(["empty", "header", "header", "code"])
            if start == "empty":
                body = ""
            else:
                body, _ = G.rand_body(rng, style if start == "header" else None, exotic=0.02)
            f = {"name": G.name_for(kind, key), "body": body, "entry": [kind, key, style], "kind": "table"}
            dot = rng.choice([None, None, None, "force", "fallback"])
            ops = []
            for _ in range(rng.randint(1, maxlen)):
                s = self._step(rng, shorthands, allow_style=True)
                s["dot"] = dot
                ops.append(s)
            if re.search(r"\r(?!\n)", f.get("body", "")):
                # lone-CR files: `--skip-existing` asks contains_reuse_info before the line endings are folded and may not see the
                # header (a documented boundary, docs/DESIGN-TRIAGE.md item 6: what is skipped is not constrained by the property);
                # the model folds first, so the option is not combined with such files
                ops = [dict(o, skip_existing=False) for o in ops]
            yield {"file": f, "ops": ops}
        # the same holder stated with different years, merged at some point
        for k in range(60 if thorough else 12):
            h = rng.choice(G.HOLDERS)
            years = rng.sample(["1999", "2005", "2011", "2017", "2023"], 3)
            ops = [{"cpr": [h], "lic": ["MIT"] if i == 0 else [], "con": [], "year": [y], "prefix": rng.choice(G.PREFIXES), "tmpl": "default",
                    "merge": rng.random() < 0.5 or i == 2} for i, y in enumerate(years)]
            kind, key, style = rng.choice(entries)
            yield {"file": {"name": G.name_for(kind, key), "body": "", "entry": [kind, key, style], "kind": "table"}, "ops": ops}

    # ---- implementation
    def impl(self, case):
        steps = run_history(case)
        self._steps = getattr(self, "_steps", {})
        self._steps[json.dumps(case, sort_keys=True)] = steps
        return json.dumps([{"rc": s["rec"]["rc"], "changed": s["rec"]["changed"], "after": s["rec"]["after"], "exc": s["rec"]["exc"]} for s in steps], sort_keys=True)

    # ---- oracle, with shrinking
    def oracle(self, case, impl_out):
        if impl_out.startswith("EXC"):
            return "harness: " + impl_out
        steps = getattr(self, "_steps", {}).get(json.dumps(case, sort_keys=True)) or run_history(case)
        bad = judge_history(case, steps)
        if bad is None:
            return None
        i, why = bad
        kind = why.split(":")[0]
        ops = list(case["ops"][: i + 1])
        orig = len(case["ops"])
        changed = True
        while changed and len(ops) > 1:
            changed = False
            for j in range(len(ops) - 1):
                cand = ops[:j] + ops[j + 1:]
                c2 = {"file": case["file"], "ops": cand}
                b2 = judge_history(c2, run_history(c2))
                if b2 is not None and b2[1].split(":")[0] == kind and G.shape_of(b2[1]) == G.shape_of(why):
                    ops, why, changed = cand[: b2[0] + 1], b2[1], True
                    break
        case["ops"] = ops            # the replay carries the minimal history
        case["shrunk_from"] = orig
        return "%s [after step %d of a history shrunk from %d to %d steps]" % (why, len(ops), orig, len(ops))

    def classify(self, case, failure):
        return G.shape_of(failure)

    # ---- the model alongside
    def model_lines(self, case):
        return ["findtag\tL\t"]      # placeholder: the real lines depend on the texts the implementation produced

    def model_out(self, case, outs):
        steps = getattr(self, "_steps", {}).get(json.dumps(case, sort_keys=True))
        if steps is None:
            return "?"
        f = case["file"]
        res = []
        for step, st in zip(case["ops"], steps):
            rec = st["rec"]
            if rec["rc"] == 2 or rec["exc"] or st["text_before"] is None:
                res.append("-")          # usage error / unreadable: nothing for the text-level model to say
                continue
            own_sibling = f["name"].endswith(".license")      # `_determine_license_suffix_path`: a .license file is its own sibling
            if st["target"] == f["name"] and not own_sibling and (step.get("dot") == "force" or st["target_after"] != st["target"]):
                # first step that routes to a fresh sibling: the model sees the empty sibling
                text, target = "", st["target_after"]
            else:
                text, target = st["text_before"], st["target"]
            sname = effective_style(step, target)
            if sname is None or sname == "UncommentableCommentStyle":
                sname = "EmptyCommentStyle" if target.endswith(".license") else None
            if sname is None:
                res.append("-")
                continue
            res.append(model_step(step, sname, text) + "@" + enc(text))
        return json.dumps(res)

    def agree(self, case, impl_out, model_out):
        if model_out == "?" or impl_out.startswith("EXC"):
            return True
        steps = getattr(self, "_steps", {}).get(json.dumps(case, sort_keys=True))
        for m, st, step in zip(json.loads(model_out), steps, case["ops"]):
            if m == "-":
                continue
            m, hyp, before_text = m.rsplit("@", 2)
            before_text = dec(before_text)
            hyp, full = hyp.split(";", 1)
            rec = st["rec"]
            if not self._tie_full(full, hyp, rec, st, step, before_text):
                return False
            if hyp.startswith("H1"):
                # theorem-hypothesis tie (C09_step_partial): the hypotheses hold on this step, so the real file must declare
                # (raw extraction of the whole text) everything the text before declared and everything requested
                if hyp != "H1|C1" or rec["rc"] != 0:
                    return False
                a, b = G.lint_read_bytes((st["text_after"] or "").encode("utf-8"), window=False), G.lint_read_bytes(before_text.encode("utf-8"), window=False)
                if a is not None and b is not None:
                    year = G.year_text(step.get("year"))
                    want = (b[0] | {G.expected_notice(x, step.get("prefix"), year) for x in step.get("cpr", [])}, b[1] | {G.norm_lic(x) for x in step.get("lic", [])}, set())
                    if G.missing(want, a, False):
                        return False
                    self._tied = getattr(self, "_tied", 0) + 1
            if m.startswith("W:"):
                if rec["rc"] != 0:
                    return False
                if st["text_after"] != dec(m[2:]):
                    # --merge-copyrights picks between equally frequent prefixes by set iteration order (the model is handed a
                    # sorted list): for merged steps the two texts must agree in everything but that choice
                    if not step.get("merge") or st["text_after"] is None:
                        return False
                    a, b = G.lint_read_bytes(st["text_after"].encode("utf-8")), G.lint_read_bytes(dec(m[2:]).encode("utf-8"))
                    if a is None or b is None or a[1:] != b[1:] or G.holders_years(a[0]) != G.holders_years(b[0]):
                        return False
            elif m == "S":
                if rec["rc"] != 0 or rec["changed"]:
                    return False
            elif m.startswith("F:"):
                if rec["rc"] == 0 or rec["changed"]:
                    return False
        return True

    # ---- theorem-hypothesis tie of the full-file theorems (C09_step, C09_step_crlf / _cr, C09_step_contributors)
    HYP_NAMES = ("no-merge", "style", "line-boundaries", "no-ignore-old", "no-ignore-new", "clean-seam", "seam-above",
                 "seam-old-block", "seam-new-block", "lf-form")

    def _tie_full(self, full, partial, rec, st, step, before_text):
        """`full` = answer of the driver op c09full on this step.  Where the hypotheses of C09_step hold (H1) the model's
        conclusion must hold (C1) and the real file must declare everything the file before declared and everything
        requested; where moreover the template rendered the contributors (R1): the same for contributors (K1)."""
        stats = self._stats()
        if full == "-":
            return True
        parts = dict((x[0], x[1:]) for x in full.split("|"))
        stats["written"] += 1
        stats["partial_hold"] += 1 if partial.startswith("H1") else 0
        flags = parts["D"][1:]
        for name, bit in zip(self.HYP_NAMES, flags):
            if bit == "0":
                stats["fails"][name] = stats["fails"].get(name, 0) + 1
        if not step.get("merge"):
            stats["written_nomerge"] += 1
        if step.get("merge") and parts.get("M") != "1":
            for name, bit in zip(("merge-lf-file", "merge-step-hyps", "merge-reads-back"), parts.get("E", ":---")[1:]):
                if bit == "0":
                    stats["fails"][name] = stats["fails"].get(name, 0) + 1
        if step.get("merge") and parts.get("M") == "1":
            # C09_step_merge / C09_history_merge: licences, the same holders, year ranges cover
            stats["merge_hold"] = stats.get("merge_hold", 0) + 1
            if parts["N"] != "1" or rec["rc"] != 0:
                return False
            a = G.lint_read_bytes((st["text_after"] or "").encode("utf-8"), window=False)
            b = G.lint_read_bytes(before_text.encode("utf-8"), window=False)
            if a is not None and b is not None:
                year = G.year_text(step.get("year"))
                want = (b[0] | {G.expected_notice(x, step.get("prefix"), year) for x in step.get("cpr", [])},
                        b[1] | {G.norm_lic(x) for x in step.get("lic", [])}, set())
                if G.missing(want, a, True):
                    return False
        if parts["H"] != "1":
            return True
        stats["full_hold"] += 1
        if parts["C"] != "1" or rec["rc"] != 0:
            return False
        a = G.lint_read_bytes((st["text_after"] or "").encode("utf-8"), window=False)
        b = G.lint_read_bytes(before_text.encode("utf-8"), window=False)
        if a is None or b is None:
            return True
        year = G.year_text(step.get("year"))
        want_cpr = b[0] | {G.expected_notice(x, step.get("prefix"), year) for x in step.get("cpr", [])}
        want_lic = b[1] | {G.norm_lic(x) for x in step.get("lic", [])}
        if G.missing((want_cpr, want_lic, set()), a, False):
            return False
        stats["full_tied"] += 1
        if parts["R"] == "1":
            stats["con_hold"] += 1
            if parts["K"] != "1":
                return False
            if G.missing((set(), set(), b[2] | set(step.get("con", []))), a, False):
                return False
        return True

    def _stats(self):
        if not hasattr(self, "_tie"):
            self._tie = {"written": 0, "written_nomerge": 0, "partial_hold": 0, "full_hold": 0, "full_tied": 0, "con_hold": 0, "fails": {}}
            import atexit
            atexit.register(self._report)
        return self._tie

    def _report(self):
        t = self._tie
        if not t["written"]:
            return
        print("C09 tie: %d steps wrote; hypotheses of C09_step_partial hold on %d, of C09_step / _crlf / _cr on %d "
              "(of %d without --merge-copyrights), contributors tied on %d, hypotheses of C09_step_merge + mergeReadsBack on %d "
              "(of %d with --merge-copyrights); failing hypotheses: %s"
              % (t["written"], t["partial_hold"], t["full_hold"], t["written_nomerge"], t["con_hold"], t.get("merge_hold", 0),
                 t["written"] - t["written_nomerge"],
                 ", ".join("%s=%d" % kv for kv in sorted(t["fails"].items())) or "none"))
        try:
            from core import VERIF
            os.makedirs(os.path.join(VERIF, "replays"), exist_ok=True)      # not an evidence file of the schema: kept with the run's scratch output
            with open(os.path.join(VERIF, "replays", "C09-tie.json"), "w", encoding="utf-8") as fp:
                json.dump(t, fp, indent=1, sort_keys=True)
        except Exception:
            pass

    def nontrivial(self, case, impl_out):
        if impl_out.startswith("EXC"):
            return None
        outs = json.loads(impl_out)
        return (case["file"].get("entry", ["", "", ""])[2], len(case["ops"]), tuple((o["rc"], bool(o["changed"])) for o in outs),
                tuple((s.get("tmpl"), bool(s.get("merge")), bool(s.get("no_replace")), s.get("style")) for s in case["ops"]))

    def show(self, case):
        return case


class GrownHistoryStream(HistoryStream):
    """Histories the random walk of `history` hardly ever takes: (a) steps that request contributors and nothing else, first or
    in the middle, on commentable files and on FILE.license (binary files, uncommentable and unrecognised types,
    --force-dot-license / --fallback-dot-license); (b) --merge-copyrights on a header written by hand."""
    name = "history2"
    rule = ("histories of 2-5 real `reuse annotate` invocations, judged after every step like `history` and, in addition, against the "
            "generator's ground truth without the tool's reader: (a) contributor histories — at least one step whose only information "
            "option is --contributor (first, in the middle or last; twice in a row; under --no-replace / --multi-line / --style at a low "
            "rate) among copyright-only, licence-only and full steps, on commentable files of every table style, binary files, files of "
            "uncommentable and of unrecognised types, with no .license option, --force-dot-license or --fallback-dot-license, starting "
            "empty, with code, or with an existing FILE.license (empty / contributors only / full): every contributor requested by a "
            "successful step under a template that renders contributors stands in the file lint reads after every later such step; "
            "(b) merge histories — the file (8 comment styles) or its FILE.license starts with a header written by hand: 1-4 notices of "
            "1-2 holders under any prefix with years 2009-2014 / 2009 -2014 / 2009- 2014 / 2009 - 2014 / single / trailing comma / none, "
            "then 0-2 runs without and 1-2 runs with --merge-copyrights requesting a new year, a line already present character for "
            "character, another holder, only a licence or only a contributor: every year ever stated for a holder lies within the span of "
            "a line naming the holder.  The Lean model runs alongside as in `history`.  non-trivial = distinct (family, style, shape)")

    MERGE_STYLES = ["PythonCommentStyle", "CCommentStyle", "CppCommentStyle", "HtmlCommentStyle", "LispCommentStyle", "TexCommentStyle",
                    "HaskellCommentStyle", "JinjaCommentStyle"]

    # ---- (a)
    def _contributor_history(self, rng, by_style, styles, k, shorthands):
        r = rng.random()
        style = styles[k % len(styles)]
        kind, key, _ = rng.choice(by_style[style])
        dot = rng.choice([None, None, "force", "fallback"])
        if r < 0.45:
            body = rng.choice(["", "x = 1\n", "#!/bin/sh\nx = 1\n", "x = 1\r\ny = 2\r\n"])
            f = {"name": G.name_for(kind, key), "body": body, "entry": [kind, key, style], "kind": "table"}
        elif r < 0.7:
            f = {"name": G.name_for(kind, key), "hex": rng.choice(G.BINARY_BODIES).hex(), "entry": [kind, key, style], "kind": "binary"}
        elif r < 0.85:
            kind, key, style = rng.choice(by_style["UncommentableCommentStyle"])
            f = {"name": G.name_for(kind, key), "body": "payload\n", "entry": [kind, key, style], "kind": "table"}
        else:
            f = {"name": rng.choice(G.UNRECOGNISED), "body": "payload\n", "kind": "unrecognised"}
            dot = "fallback"
        if rng.random() < 0.25:
            f["sib"] = rng.choice(["", "SPDX-FileContributor: Sibling Hand\n", "SPDX-FileContributor: Sibling Hand\nSPDX-FileContributor: Other Hand\n",
                                   "SPDX-FileCopyrightText: 2001 Sibling Holder\nSPDX-FileContributor: Sibling Hand\n\nSPDX-License-Identifier: Zlib\n"])
        shapes = ["N", "N", "N", "C", "L", "F", "F"]
        n = rng.randint(2, 4)
        seq = [rng.choice(shapes) for _ in range(n)]
        seq[rng.choice([0, 0, 0, rng.randrange(n)])] = "N"
        ops = []
        for sh in seq:
            o = {"prefix": rng.choice(G.PREFIXES), "year": rng.choice([None, "exclude", ["2019"], ["2015", "2021"]]), "dot": dot,
                 "tmpl": rng.choice(["default"] * 8 + ["adds-text", "no-contributors"] + (["commented"] if f["kind"] == "table" else [])),
                 "merge": rng.random() < 0.1, "no_replace": rng.random() < 0.08}
            if rng.random() < 0.1:
                o["line"] = "multi"
            if rng.random() < 0.08:
                o["style"] = rng.choice(shorthands)
            cpr = rng.sample(G.HOLDERS, rng.choice([1, 1, 2])) if sh in "CF" else []
            lic = rng.sample(G.LICENSES, rng.choice([1, 1, 2])) if sh in "LF" else []
            con = rng.sample(G.CONTRIBUTORS, rng.choice([1, 1, 2])) if sh in "NF" else []
            ops.append(dict(o, cpr=cpr, lic=lic, con=con))
        return {"family": "contributor", "file": f, "ops": ops}

    # ---- (b)
    def _merge_history(self, rng, by_style, k):
        sname = self.MERGE_STYLES[k % len(self.MERGE_STYLES)]
        st = annotcorr.style_by_name(sname)
        kind, key, _ = rng.choice(by_style[sname])
        holders = rng.sample(G.PLAIN_HOLDERS, rng.choice([1, 1, 2]))
        truth = G.hand_notices(rng, holders)
        lic_old = rng.choice([[], ["MIT"], ["ISC", "MIT"]])
        hdr = "\n".join([G.notice_line(*t) for t in truth] + ([""] if lic_old else []) + ["SPDX-License-Identifier: " + l for l in lic_old])
        in_sibling = rng.random() < 0.3
        if in_sibling:
            f = {"name": G.name_for(kind, key), "body": "x = 1\n", "entry": [kind, key, sname], "kind": "table", "sib": hdr + "\n"}
        else:
            block = st.create_comment(hdr, force_multi=rng.random() < 0.3 and st.can_handle_multi())
            first = (st.SHEBANGS[0] + " first line\n") if (st.SHEBANGS and rng.random() < 0.25) else ""
            body = first + block + "\n" + rng.choice(["", "\nx = 1\n", "\nx = 1\n\ny = 2"])
            le = rng.choice(["\n", "\n", "\n", "\r\n", "\r"])
            f = {"name": G.name_for(kind, key), "body": body.replace("\n", le), "entry": [kind, key, sname], "kind": "table"}
        said = [list(t) for t in truth]            # notices stated so far (hand-written ones and those of earlier steps)
        main = truth[0][2]
        ops = []
        plan = [False] * rng.choice([0, 0, 1, 2]) + [True] + [rng.random() < 0.5] * rng.choice([0, 0, 1])
        for merge in plan:
            mode = rng.choice(["new-year", "new-year", "same-line", "licence-only", "contributor-only", "other-holder"]) if merge else "new-year"
            o = {"tmpl": "default", "merge": merge, "dot": None, "cpr": [], "lic": [], "con": [], "prefix": None, "year": "exclude"}
            if mode == "new-year":
                o.update(cpr=[main], prefix=rng.choice([t[0] for t in said if t[2] == main] + [rng.choice(list(G.PREFIX_TEXT))]),
                         year=rng.choice([["2021"], ["1990"], ["2011"], ["2020", "2023"]]))
            elif mode == "same-line":
                again = [t for t in said if G.year_option(t[1]) is not False]
                if again:
                    t = rng.choice(again)
                    o.update(cpr=[t[2]], prefix=t[0], year=G.year_option(t[1]))
                else:
                    o.update(lic=["MIT"])
            elif mode == "other-holder":
                o.update(cpr=[rng.choice([h for h in G.PLAIN_HOLDERS if h not in holders])], prefix=rng.choice(G.PREFIXES), year=rng.choice([["2021"], "exclude"]))
            elif mode == "licence-only":
                o.update(lic=[rng.choice(["Apache-2.0", "MIT"])])
            else:
                o.update(con=[rng.choice(G.CONTRIBUTORS)])
            if o["cpr"] and rng.random() < 0.3:
                o["lic"] = ["0BSD"]
            for h in o["cpr"]:
                said.append([o["prefix"] or "spdx", G.year_text(o["year"]), h])
            ops.append(o)
        return {"family": "merge", "file": f, "ops": ops, "truth": truth}

    def cases(self, tier, rng):
        from reuse import comment
        shorthands = list(comment.NAME_STYLE_MAP)
        by_style = {}
        for e in G.table_entries():
            by_style.setdefault(e[2], []).append(e)
        styles = sorted(s for s in by_style if s != "UncommentableCommentStyle")
        for k in range(320 if tier == "thorough" else 26):
            yield self._contributor_history(rng, by_style, styles, k, shorthands)
        for k in range(240 if tier == "thorough" else 20):
            yield self._merge_history(rng, by_style, k)

    # ---- the ground truth, without the tool's reader
    def judge_truth(self, case, steps):
        stated = {}
        for p, y, h in case.get("truth", []):
            stated.setdefault(h, []).extend(G.years_of(y))
        cons = set()
        for i, (step, st) in enumerate(zip(case["ops"], steps)):
            rec = st["rec"]
            text = st["text_after"]
            if rec["rc"] != 0 or rec["exc"] or text is None:
                continue
            wrote = bool(rec["changed"])
            renders = step.get("tmpl", "default") in G.RENDERS_CONTRIBUTORS
            if st["target_after"] != st["target"]:
                # this step made lint read another place (a fresh FILE.license): what the old place holds is not lost from a
                # file, the place changed (see the assumptions); the ground truth starts again with this step
                stated, cons = {}, set()
            if wrote or not step.get("skip_existing"):
                if case.get("family") == "merge":
                    for h in step.get("cpr", []):
                        stated.setdefault(h, []).extend(G.years_of(G.year_text(step.get("year"))))
                if renders:
                    cons |= set(step.get("con", []))
            if case.get("family") == "merge":
                why = G.uncovered_years(text, stated)
                if why is not None:
                    return i, "years-not-covered: after step %d (%s--merge-copyrights) %s" % (i + 1, "" if step.get("merge") else "no ", why)
            if renders or not wrote:
                gone = sorted(c for c in cons if ("SPDX-FileContributor: " + c) not in text)
                if gone:
                    return i, "contributor-gone: after step %d the file lint reads (%s) no longer holds %r, requested by an earlier successful step" % (
                        i + 1, st["target_after"], gone)
            else:
                cons = {c for c in cons if ("SPDX-FileContributor: " + c) in text}      # a template without contributors may drop them
        return None

    def oracle(self, case, impl_out):
        why = HistoryStream.oracle(self, case, impl_out)
        if why is not None or impl_out.startswith("EXC"):
            return why
        steps = getattr(self, "_steps", {}).get(json.dumps(case, sort_keys=True)) or run_history(case)
        bad = self.judge_truth(case, steps)
        if bad is None:
            return None
        i, why = bad
        case["ops"] = case["ops"][: i + 1]
        return why

    def nontrivial(self, case, impl_out):
        if impl_out.startswith("EXC"):
            return None
        outs = json.loads(impl_out)
        shape = tuple("".join(x for x, v in (("C", s.get("cpr")), ("L", s.get("lic")), ("N", s.get("con"))) if v) + ("m" if s.get("merge") else "") for s in case["ops"])
        return (case.get("family"), case["file"].get("entry", ["", "", ""])[2], case["file"]["kind"], case["file"].get("sib") is not None, shape,
                tuple((o["rc"], bool(o["changed"])) for o in outs))


class AnnotateMonotoneStream(annotcorr.AnnotateStream):
    """add_header_to_file vs the model (annotcorr), judged by the step invariant on raw extraction:
    what the old text declared and what was requested is declared by the new text."""
    name = "annotate"

    def oracle(self, case, impl_out):
        if not impl_out.startswith("W:"):
            return None
        merged = case["f"][2] == "1"
        renders = case["tmpl"] in ("default", "adds-text", "commented")
        old = G.lint_read_bytes(self._text(case).encode("utf-8"))
        if old is None:
            return None      # the linter could not read the file before either (an expression in it does not parse): C07's finding
        data = dec(impl_out[2:]).encode("utf-8")
        want = (set(case["cpr"]), {G.norm_lic(x) for x in case["lic"]}, set(case["con"]) if renders else set())
        if old is not None:
            want = (want[0] | old[0], want[1] | old[1], want[2] | (old[2] if renders else set()))
        got = G.lint_read_bytes(data)
        m = {"parse": True} if got is None else G.missing(want, got, merged)
        if m:
            k = G.obstacle(data, want, merged)
            return "not-monotone: the new text does not declare %r%s" % (m, " {shape=%s}" % k if k else "")
        return None

    def classify(self, case, failure):
        return G.shape_of(failure)


import c09s14     # noqa: E402
import c09s16     # noqa: E402

PROPERTY = Property(
    pid="C09",
    streams=[AnnotateMonotoneStream(), HistoryStream(), GrownHistoryStream()] + c09s14.STREAMS + c09s16.STREAMS,
    assumptions=[
        "Jinja2 is outside the model: the template is an arbitrary function in the theorems; in the correspondence the model receives "
        "the text real Jinja rendered for the information the model computed",
        "license-expression is an oracle parameter (`parses`, `normLic`) of the model; expressions are compared as the parser renders them",
        "the dot-license mode is fixed within a history: switching to --force-dot-license in mid-history makes lint read the sibling "
        "instead of the file (REUSE specification), which is a change of the place the information lives in, not a loss inside a file",
    ],
)
