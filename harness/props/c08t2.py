"""C08, two more regions of the input space around the *end* of an existing header.

(1) The closing line of a multi-line header is not bare: white space follows the terminator (` */ `, ` */\\t` — editors leave it
    behind), or code does (`*/ int x;`).  By the language the comment ends at the first terminator; whatever follows — on that
    line and on the lines below, up to and including a later comment — is outside the header.
(2) The single-line marker of the style is a *word* (`REM`, `dnl`; Fortran's `c`) and a line directly below the header merely
    begins with those letters: `REMOVE.EXE old.tmp`, `dnlx`, `dnl_helper(1)`.  In a batch file `REM` opens a remark only as a
    word of its own, in m4 `dnl` is a macro name, i.e. a whole token; such lines are code.  (Fixed-form Fortran is the exception:
    a `c` in column one makes the line a comment whatever follows, so `call foo()` in column one *is* a comment line; both readings
    are accepted there.)

The property: "every line outside the replaced or inserted comment block is kept byte-for-byte and in order, only blank lines and
trailing whitespace directly adjacent to the header may be added or removed".  The oracle here is the generator's own record of
what the file is made of — the lines above the header, the header block, the lines below it — and knows nothing of how the tool
finds the end of a comment: every line above and below must still be there, in order, byte for byte (blank lines next to the
header and trailing white space of the line directly above it aside), and, where code shares the closing line with the
terminator, that code must still be in the file.

`closers` — add_header_to_file on scratch files, bytes in / bytes out: every style x {replace, --no-replace} x header forms (block,
            inline, single-line run) x what follows the terminator / the last header line x lines below (code, indented code, a later
            comment of the same style, lines beginning with the marker letters) x LF / CRLF; the model (Model.annotateFile) is compared.
"""
import re

from core import Stream, dec
import annotcorr
from annotcorr import all_styles, style_by_name, rand_info
import c08 as base

OLD = ["SPDX-FileCopyrightText: 2017 Prev Holder\n\nSPDX-License-Identifier: ISC", "SPDX-License-Identifier: Zlib",
       "SPDX-FileCopyrightText: 2016 Someone\nSPDX-License-Identifier: MIT"]
CODE = ["int x;", "x = 1", "    y = compute(x)", "return 0;", "value = [1, 2, 3]", "\ttabbed = True", "end", "text with éü张"]
AFTER_TERMINATOR = ["", "", " ", "  ", "\t", " \t ", " int x;", " x = 1", "x", " {", ";"]


def is_word(marker):
    return bool(marker) and (marker[-1].isalnum() or marker[-1] == "_")


def marker_letter_lines(st):
    """code lines that begin with the letters of a word marker without being comments in the language"""
    m = st.SINGLE_LINE
    if not is_word(m):
        return []
    return [m + "OVE.EXE old.tmp", m + "x", m + "_helper(1)", m + "all foo()", m + "ontinue", m + "1 = 2", m.upper() + "ARK_IT"]


def own_comment(st, s):
    if st.SINGLE_LINE:
        return st.SINGLE_LINE + st.INDENT_AFTER_SINGLE + s
    return st.MULTI_LINE.start + " " + s + " " + st.MULTI_LINE.end


def closers_body(rng, st):
    """(above lines, header lines, below lines, shared code on the closing line or None)"""
    above = []
    if rng.random() < 0.3:
        above = [rng.choice(CODE) for _ in range(rng.randint(1, 2))] + ([""] if rng.random() < 0.7 else [])
    multi = st.can_handle_multi() and (not st.can_handle_single() or rng.random() < 0.6)
    shared = None
    hdr_text = rng.choice(OLD)
    if multi:
        if rng.random() < 0.3:
            # one inline comment: opener, text, terminator on one line
            one = hdr_text.split("\n")[-1]
            header = [st.MULTI_LINE.start + " " + one + " " + st.MULTI_LINE.end]
        else:
            header = st.create_comment(hdr_text, force_multi=True).split("\n")
        tail = rng.choice(AFTER_TERMINATOR)
        header[-1] += tail
        if tail.strip():
            shared = tail.strip()
    else:
        header = st.create_comment(hdr_text).split("\n")
    below = []
    letters = marker_letter_lines(st)
    k = rng.randint(1, 4)
    for i in range(k):
        r = rng.random()
        if letters and (i == 0 and not multi and r < 0.7 or r < 0.25):
            below.append(rng.choice(letters))
        elif r < 0.55:
            below.append(rng.choice(CODE))
        elif r < 0.7 and i > 0:
            below.append(own_comment(st, "a later comment"))
        elif r < 0.8 and i > 0 and st.can_handle_multi():
            below += [st.MULTI_LINE.start, st.INDENT_BEFORE_MIDDLE + st.MULTI_LINE.middle + " note", st.INDENT_BEFORE_END + st.MULTI_LINE.end]
        elif r < 0.9 and i > 0:
            below.append("")
        else:
            below.append(rng.choice(CODE))
    if rng.random() < 0.25:
        below.insert(0, "")
    return above, header, below, shared


class ClosersStream(base.C08Stream):
    name = "closers"
    rule = ("add_header_to_file on scratch files, bytes in / bytes out: every style of the table x {replace, --no-replace} x an existing "
            "own-style header (multi-line block, one inline comment, run of single-line comments; at the top or below code) whose closing "
            "line carries nothing / blanks / tabs / code behind the terminator, followed by 1-4 lines: code, indented code, a later comment "
            "or comment block of the same style, blank lines and — for styles whose single-line marker is a word (REM, dnl, c) — code lines "
            "that merely begin with those letters (`REMOVE.EXE old.tmp`, `dnlx`, `dnl_helper(1)`); LF / CRLF, with / without final newline; "
            "model = Model.annotateFile; oracle = the generator's record: every line above and below the header is still there, in order, "
            "byte for byte (blank lines next to the header and trailing blanks of the line directly above it aside), code sharing the "
            "closing line is still in the file, the requested notices are there; Fortran's column-one `c` lines are comments by the "
            "language: both readings accepted; non-trivial = distinct (style, closing-line shape, lines below, outcome)")

    def cases(self, tier, rng):
        k = 60 if tier == "thorough" else 9
        out = []
        for st in all_styles():
            if st.__name__ in ("UncommentableCommentStyle", "EmptyCommentStyle"):
                continue
            n = k * 2 if is_word(st.SINGLE_LINE) else k
            for i in range(n):
                above, header, below, shared = closers_body(rng, st)
                le = "\r\n" if rng.random() < 0.2 else "\n"
                text = "\n".join(above + header + below)
                if rng.random() < 0.85:
                    text += "\n"
                text = text.replace("\n", le)
                cpr, lic, con = rand_info(rng)
                out.append({"s": st.__name__, "f": "0" + "0" + "0" + rng.choice("1110") + "0", "tmpl": "default", "cpr": cpr, "lic": lic, "con": con,
                            "t": text, "above": above, "header": header, "below": below, "shared": shared, "le": le})
        return base.attach_bad(out)

    def impl(self, case):
        return annotcorr.run_annotate(case)

    def model_lines(self, case):
        return [base.model_line(case)]

    def oracle(self, case, impl_out):
        if impl_out.startswith("EXC"):
            return "crash: " + impl_out
        if not impl_out.startswith("W:"):
            return None
        out = dec(impl_out[2:])
        st = style_by_name(case["s"])
        le = case["le"]
        if le == "\r\n" and re.search(r"(?<!\r)\n", out) or le == "\n" and "\r" in out:
            return "line-ending: the file uses %r, the output holds another line ending" % le
        olines = out.split(le)
        fortran = st.__name__ == "FortranCommentStyle"
        # lines that must be found again, in order
        need = []
        above = list(case["above"])
        while above and not above[-1].strip():
            above.pop()                                   # blank lines next to the header may go
        for i, l in enumerate(above):
            need.append((l, i == len(above) - 1))         # the line directly above: trailing white space may go
        below = list(case["below"])
        while below and not below[0].strip():
            below.pop(0)
        for l in below:
            if fortran and l.startswith("c"):
                continue                                  # a comment line by the language (column one): either reading
            need.append((l, False))
        pos = 0
        for l, loose in need:
            found = None
            for j in range(pos, len(olines)):
                if olines[j] == l or (loose and olines[j] == l.rstrip()):
                    found = j
                    break
            if found is None:
                where = "above" if (l, loose) in [(x, k == len(above) - 1) for k, x in enumerate(above)] else "below"
                return ("line-lost: the line %r %s the header is not in the output (or not in order); header closing line %r, "
                        "lines below %r" % (l, where, case["header"][-1], case["below"][:4]))
            pos = found + 1
        if case["shared"] and not any(case["shared"] in l for l in olines):
            return "shared-code-lost: %r stood behind the terminator on the header's closing line %r and is gone" % (case["shared"], case["header"][-1])
        for r in base.requested_strings(case):
            if r not in out:
                return "header-missing: %r not in the output" % r
        return None

    def nontrivial(self, case, impl_out):
        if not impl_out.startswith("W:"):
            return None
        tail = case["header"][-1][-4:]
        return (case["s"], case["f"][3], tail, tuple(l[:6] for l in case["below"][:2]), len(impl_out) % 7)

    def show(self, case):
        return {k: case[k] for k in ("s", "f", "cpr", "lic", "con", "t")}


STREAMS = [ClosersStream()]
