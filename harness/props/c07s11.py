"""C07, one more region of the input space: templates that *add* information of their own.

The guard of `_create_new_header` reads the rendered header back and compares it with the request.  Templates that lose
information are in the pool since the first round; templates that state something on their own account — a fixed copyright notice,
a fixed licence tag, a fixed contributor line, before / between / after the loops, uncommented and pre-commented — were not.
"Reading the file back yields *precisely* the requested notices, expressions and contributors": a header holding a notice nobody
asked for is not to be written and reported as success (a template whose fixed line is itself part of the request is fine).

`addinfo`     — _create_new_header, every adding template of c10s11 x 12 styles x requests unrelated to / containing / equal to the
                fixed line; the model (Model.createNewHeader) receives the text real Jinja rendered; oracle: a returned header reads
                back, with the linter's reader, exactly the request.
`addinfo-e2e` — `reuse annotate --template mine` on a fresh file, then `reuse lint --json`: exit status 0 means lint reads exactly
                the requested notices and expressions; a refusal leaves the tree as it was.
"""
import json

from core import Stream, enc, dec, enc_list
import cli
import annotcorr
import annotgen as G
import c10          # noqa: F401  (c10 must be complete before c10s11 is imported on its own)
import c10s11 as T


def render(text, cpr, con, lic):
    from jinja2 import Environment
    return Environment(trim_blocks=True).from_string(text).render(copyright_lines=cpr, contributor_lines=con, spdx_expressions=lic)


class AddInfoStream(Stream):
    name = "addinfo"
    rule = ("_create_new_header with a custom template that spells out a line of its own (4 copyright notices, 3 licence tags, a contributor "
            "line, 2 plain texts; one in seven: two of them) before the loops / after the copyright loop / in front of the licence loop / "
            "last, uncommented and pre-commented in the style, 12 styles x {default, forced multi-line} x requests unrelated to the fixed "
            "line, containing it, equal to it; model: Model.createNewHeader on the text real Jinja rendered; oracle: a returned header reads "
            "back — with the linter's reader — exactly the requested notices, expressions and contributors; non-trivial = a header was "
            "returned: distinct (style, fixed kind, position, relation, commented)")

    def cases(self, tier, rng):
        for st, kind, fixed, pos, rel, cpr, lic, con in T.add_cases(rng, tier, T.ADD_STYLES):
            commented = rng.random() < 0.3
            multi = "1" if (not commented and st.can_handle_multi() and rng.random() < 0.25) else "0"
            yield {"s": st.__name__, "f": ("1" if commented else "0") + multi + "000", "tmpl_text": T.adding_template(fixed, pos, st if commented else None),
                   "cpr": cpr, "lic": [G.norm_lic(x) for x in lic], "con": con, "fixed": fixed, "fk": kind, "pos": pos, "rel": rel}

    def impl(self, case):
        from jinja2 import Environment
        from reuse import ReuseInfo, _LICENSING
        from reuse.header import _create_new_header
        from reuse.exceptions import CommentCreateError, MissingReuseInfoError
        info = ReuseInfo(spdx_expressions={_LICENSING.parse(x) for x in case["lic"]}, copyright_lines=set(case["cpr"]), contributor_lines=set(case["con"]))
        try:
            return "ok:" + enc(_create_new_header(info, template=Environment(trim_blocks=True).from_string(case["tmpl_text"]),
                                                  template_is_commented=case["f"][0] == "1", style=annotcorr.style_by_name(case["s"]),
                                                  force_multi=case["f"][1] == "1"))
        except CommentCreateError:
            return "err:create"
        except MissingReuseInfoError:
            return "err:missing"
        except Exception as e:  # noqa
            return "err:traceback:" + type(e).__name__

    def model_lines(self, case):
        tm = "rendered:" + enc(render(case["tmpl_text"], sorted(case["cpr"]), sorted(case["con"]), sorted(case["lic"])))
        return ["newheader\t%s\t%s\t%s\t%s\t%s\t%s\t%s" % (case["s"], case["f"], tm, enc_list(case["cpr"]), enc_list(case["con"]), enc_list(case["lic"]), enc_list([]))]

    def oracle(self, case, impl_out):
        if impl_out.startswith("err:traceback"):
            return "traceback: _create_new_header ended in %s instead of a header or a refusal" % impl_out[14:]
        if not impl_out.startswith("ok:"):
            return None
        got = G.lint_read_bytes(dec(impl_out[3:]).encode("utf-8"))
        want = (set(case["cpr"]), set(case["lic"]), set(case["con"]))
        if got is None or got != want:
            extra = None if got is None else [sorted(g - w) for g, w in zip(got, want)]
            return ("readback-header: _create_new_header returned a header from which %r is read instead of the requested %r (not requested: %r; the "
                    "template spells out %r)" % (got, want, extra, case["fixed"]))
        return None

    def nontrivial(self, case, impl_out):
        return (case["s"], case["fk"], case["pos"], case["rel"], case["f"][0]) if impl_out.startswith("ok") else None

    def show(self, case):
        return {k: case[k] for k in ("s", "f", "tmpl_text", "cpr", "lic", "con", "rel")}


class AddInfoE2EStream(Stream):
    name = "addinfo-e2e"
    rule = ("`reuse annotate --template mine` (in-process CLI) on a fresh file of 12 types with the templates of stream `addinfo` "
            "(.reuse/templates/mine.jinja2 / mine.commented.jinja2), --multi-line / --force-dot-license at random, then `reuse lint --json`: "
            "exit status 0 => lint reads exactly the requested notices and expressions for the file; another exit status => the tree is as "
            "it was; non-trivial = distinct successful (style, fixed kind, position, relation)")

    def cases(self, tier, rng):
        styles = T.ADD_STYLES if tier == "thorough" else rng.sample(T.ADD_STYLES, 4)
        for st, kind, fixed, pos, rel, cpr, lic, con in T.add_cases(rng, tier, styles):
            if tier != "thorough" and rng.random() < 0.3:
                continue
            dot = rng.random() < 0.12
            commented = not dot and rng.random() < 0.3
            argv = ["annotate", "--template", "mine"]
            for c in cpr:
                argv += ["--copyright", c]
            for l in lic:
                argv += ["--license", l]
            for c in con:
                argv += ["--contributor", c]
            if dot:
                argv.append("--force-dot-license")
            elif not commented and st.can_handle_multi() and rng.random() < 0.25:
                argv.append("--multi-line")
            name = T.ADD_CLI_NAMES[st.__name__]
            yield {"name": name, "s": st.__name__, "argv": argv + [name], "t": rng.choice(["x = 1\n", "payload\n\nmore\n"]), "commented": commented,
                   "tmpl_text": T.adding_template(fixed, pos, st if commented else None), "cpr": cpr, "lic": [G.norm_lic(x) for x in lic], "con": con,
                   "fixed": fixed, "fk": kind, "pos": pos, "rel": rel}

    def impl(self, case):
        with cli.scratch("rv-c07a-") as root:
            tname = ".reuse/templates/mine%s.jinja2" % (".commented" if case["commented"] else "")
            cli.write_tree(root, {case["name"]: case["t"], tname: case["tmpl_text"], "LICENSES/MIT.txt": "MIT\n"})
            before = T.snapshot_text(root)
            code, out, exc = cli.run_cli(case["argv"], root)
            if exc is not None:
                return "EXC:%s:%s" % (type(exc).__name__, str(exc)[:80])
            after = T.snapshot_text(root)
            rc, report, exc = cli.run_cli(["--no-multiprocessing", "lint", "--json"], root)
            try:
                js = json.loads(report[report.index("{"):])
            except Exception as e:      # noqa
                return "EXC:lint:%s:%s" % (exc, e)
            read = None
            for entry in js["files"]:
                if entry["path"] == case["name"]:
                    read = [sorted(c["value"] for c in entry["copyrights"]), sorted(G.norm_lic(e["value"]) for e in entry["spdx_expressions"])]
            return json.dumps({"code": code, "same": before == after, "read": read})

    def oracle(self, case, impl_out):
        if impl_out.startswith("EXC"):
            return "cli-crash: " + impl_out
        out = json.loads(impl_out)
        if out["code"] != 0:
            return None if out["same"] else "refused-but-changed: exit status %d, yet the tree changed" % out["code"]
        want = [sorted(set(case["cpr"])), sorted(set(case["lic"]))]
        if out["read"] != want:
            return ("readback: annotate reported success; lint reads %r for the file, requested was %r (the template spells out %r)"
                    % (out["read"], want, case["fixed"]))
        return None

    def nontrivial(self, case, impl_out):
        if impl_out.startswith("EXC") or json.loads(impl_out)["code"] != 0:
            return None
        return (case["s"], case["fk"], case["pos"], case["rel"], case["commented"])

    def show(self, case):
        return {k: case[k] for k in ("argv", "tmpl_text", "commented", "t", "rel")}


STREAMS = [AddInfoStream(), AddInfoE2EStream()]
